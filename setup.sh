#!/bin/sh
# Build the framework from files on disk only (offline).
set -e
cd "$(dirname "$0")"
export GOFLAGS=-mod=mod GOPROXY=off GOSUMDB=off GOTOOLCHAIN=local
mkdir -p work/bin evidence
(cd coq && coq_makefile -f _CoqProject -o Makefile >/dev/null 2>&1 && timeout 3000 make -j"$(nproc)" -k >../work/coq_build.log 2>&1) || { tail -50 work/coq_build.log; echo "coq build failed"; exit 1; }
cp /repo/go.sum harness/go.sum 2>/dev/null || true
(cd harness && go build -tags verif -o ../work/bin/harness ./cmd/harness)
(cd harness && go build -tags verif -race -o ../work/bin/harness-race ./cmd/harness) || echo "race build failed (continuing)"
echo "setup ok"
