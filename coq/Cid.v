(* Cid.v — CID and multihash framing as go-cid v0.4.1 / go-multihash v0.2.3
   read and write it, with a SYMBOLIC hash.

     multihash = varint(code) varint(len digest) digest
     CIDv1     = varint(1) varint(codec) multihash
     CIDv0     = bare sha2-256 multihash  0x12 0x20 <32 bytes>

   cid_from_reader models cid.CidFromReader (used by go-car util.ReadNode)
   with its three outcomes: io.EOF on empty input, an error, or the CID and
   the unread bytes.  cid.CidFromBytes / cid.Cast (used for the roots of a
   CAR header) accept exactly the same byte strings (see cid_cast).
   cid_prefix models Cid.Prefix(), cid_sum models Prefix.Sum(data).

   The digest function of every multihash code other than identity (0x00)
   is a Section variable: mh_digest code len data is the digest that
   go-multihash's Sum(data, code, len) frames (already cut to the requested
   length), or None when Sum fails (unknown code, length larger than the
   hash's size).  Identity is concrete: the digest is the data. *)
From Ucanto Require Import Base Varint.
From Coq Require Import ZifyBool ZifyN ZifyNat.
Open Scope N_scope.

(* go-cid CidFromReader: "refusing to allocate %d bytes for a digest" *)
Definition max_digest_alloc : N := 33554432.

Definition mh_sha2_256 : N := 18.      (* 0x12 *)
Definition mh_identity : N := 0.

(* multihash.Encode(digest, code) *)
Definition mh_encode (code : N) (d : bstr) : bstr :=
  uvarint code ++ uvarint (N.of_nat (length d)) ++ d.

(* cid.NewCidV1(codec, mh) *)
Definition cidv1 (codec : N) (mh : bstr) : bstr := uvarint 1 ++ uvarint codec ++ mh.

Inductive cid_read :=
| CrEof                       (* bare io.EOF: the reader had no byte at all *)
| CrErr                       (* ErrInvalidCid{...} *)
| CrOk (c rest : bstr).       (* the CID is the consumed bytes *)

(* the bytes of s consumed when rest is what is left *)
Definition consumed (s rest : bstr) : bstr := firstn (length s - length rest) s.

Definition cid_from_reader (s : bstr) : cid_read :=
  match s with
  | [] => CrEof
  | _ =>
    match read_uvarint s with
    | None => CrErr
    | Some (vers, r1) =>
      if vers =? mh_sha2_256 then
        (* CIDv0: io.ReadFull of 33 more bytes, then multihash.Cast of the 34 bytes,
           which succeeds exactly when the length byte is 0x20 *)
        if (34 <=? length s)%nat && (nth 1 s 0 =? 32)
        then CrOk (firstn 34 s) (skipn 34 s) else CrErr
      else if negb (vers =? 1) then CrErr
      else
        match read_uvarint r1 with
        | None => CrErr
        | Some (_, r2) =>
          match read_uvarint r2 with
          | None => CrErr
          | Some (_, r3) =>
            match read_uvarint r3 with
            | None => CrErr
            | Some (mhl, r4) =>
              if max_digest_alloc <? mhl then CrErr
              else if mhl <=? N.of_nat (length r4)
              then let rest := skipn (N.to_nat mhl) r4 in CrOk (consumed s rest) rest
              else CrErr
            end
          end
        end
    end
  end.

(* cid.Cast(bytes): CidFromBytes must consume everything *)
Definition cid_cast (c : bstr) : bool :=
  match cid_from_reader c with CrOk _ [] => true | _ => false end.

Record prefix := { p_version : N; p_codec : N; p_mhtype : N; p_mhlen : N }.

Definition is_v0 (c : bstr) : bool :=
  (length c =? 34)%nat && (nth 0 c 0 =? 18) && (nth 1 c 0 =? 32).

(* go-cid's uvarint(string) with the error ignored: value 0, nothing consumed *)
Definition uv0 (s : bstr) : N * bstr :=
  match read_uvarint s with Some (v, r) => (v, r) | None => (0, s) end.

(* Cid.Prefix() *)
Definition cid_prefix (c : bstr) : prefix :=
  if is_v0 c then {| p_version := 0; p_codec := 112; p_mhtype := mh_sha2_256; p_mhlen := 32 |}
  else
    let '(version, r1) := uv0 c in
    let '(codec, r2) := uv0 r1 in
    let '(mhtype, r3) := uv0 r2 in
    let '(mhlen, _) := uv0 r3 in
    {| p_version := version; p_codec := codec; p_mhtype := mhtype; p_mhlen := mhlen |}.

Section Hash.
  (* go-multihash Sum for the non-identity codes *)
  Variable mh_digest : N -> N -> bstr -> option bstr.

  (* digest that Prefix.Sum frames: identity is summed with length -1 (the whole data) *)
  Definition mh_sum (code len : N) (data : bstr) : option bstr :=
    if code =? mh_identity then Some data else mh_digest code len data.

  (* Prefix.Sum(data) *)
  Definition cid_sum (p : prefix) (data : bstr) : option bstr :=
    if (p_version p =? 0) && negb ((p_mhtype p =? mh_sha2_256) && (p_mhlen p =? 32)) then None
    else
      match mh_sum (p_mhtype p) (p_mhlen p) data with
      | None => None
      | Some d =>
        let h := mh_encode (p_mhtype p) d in
        if p_version p =? 0 then
          (* NewCidV0 panics unless the multihash is sha2-256 with 32 bytes; go-multihash's
             encodeHash slices the digest to the requested length 32, so this is unreachable
             in the implementation; the model answers "no CID" *)
          (if (length d =? 32)%nat then Some h else None)
        else if p_version p =? 1 then Some (cidv1 (p_codec p) h)
        else None
      end.
End Hash.

(* ------------------------------------------------------------------ *)
(* well-formed CIDs (what an encoder is given) and their parsing       *)

Inductive cid_wf : bstr -> Prop :=
| wf_v0 d : length d = 32%nat -> cid_wf (18 :: 32 :: d)
| wf_v1 codec code d :
    codec < 2 ^ 63 -> code < 2 ^ 63 -> N.of_nat (length d) <= max_digest_alloc ->
    cid_wf (cidv1 codec (mh_encode code d)).

Lemma uvarint_1 : uvarint 1 = [1].
Proof. reflexivity. Qed.

Lemma consumed_app a b : consumed (a ++ b) b = a.
Proof.
  unfold consumed. rewrite app_length.
  replace (length a + length b - length b)%nat with (length a) by lia.
  rewrite firstn_app, Nat.sub_diag, firstn_all. simpl. apply app_nil_r.
Qed.

Lemma cid_wf_nonempty c : cid_wf c -> c <> [].
Proof. intros H; inversion H; subst; discriminate. Qed.

Theorem cid_from_reader_wf c rest : cid_wf c -> cid_from_reader (c ++ rest) = CrOk c rest.
Proof.
  intros H. inversion H as [d Hd | codec code d Hc Hm Hl]; subst.
  - (* v0 *)
    assert (L : length (18 :: 32 :: d) = 34%nat) by (cbn [length]; lia).
    remember (18 :: 32 :: d) as c eqn:Ec.
    assert (E1 : read_uvarint (c ++ rest) = Some (18, skipn 1 (c ++ rest))) by (subst c; reflexivity).
    assert (E2 : nth 1 (c ++ rest) 0 = 32) by (subst c; reflexivity).
    unfold cid_from_reader. rewrite E1, E2.
    destruct (c ++ rest) eqn:Ecr; [subst c; discriminate|]. rewrite <- Ecr.
    change (18 =? mh_sha2_256) with true. cbv iota.
    replace ((34 <=? length (c ++ rest))%nat) with true by (rewrite app_length; lia).
    change (32 =? 32) with true. cbn [andb].
    rewrite firstn_app, skipn_app, L, Nat.sub_diag, <- L, firstn_all, skipn_all.
    simpl. rewrite app_nil_r. reflexivity.
  - set (c := cidv1 codec (mh_encode code d)).
    set (t3 := d ++ rest).
    set (t2 := uvarint (N.of_nat (length d)) ++ t3).
    set (t1 := uvarint code ++ t2).
    set (t0 := uvarint codec ++ t1).
    assert (E : c ++ rest = 1 :: t0).
    { unfold c, cidv1, mh_encode, t0, t1, t2, t3. rewrite uvarint_1.
      repeat rewrite <- app_assoc. reflexivity. }
    assert (R0 : read_uvarint (1 :: t0) = Some (1, t0)) by reflexivity.
    unfold cid_from_reader. rewrite E, R0.
    change (1 =? mh_sha2_256) with false. change (negb (1 =? 1)) with false. cbv iota.
    unfold t0. rewrite read_uvarint_uvarint by exact Hc.
    unfold t1. rewrite read_uvarint_uvarint by exact Hm.
    unfold t2. rewrite read_uvarint_uvarint by (unfold max_digest_alloc in Hl; lia).
    replace (max_digest_alloc <? N.of_nat (length d)) with false by lia.
    unfold t3.
    replace (N.of_nat (length d) <=? N.of_nat (length (d ++ rest))) with true
      by (rewrite app_length; lia).
    rewrite Nat2N.id, skipn_app, skipn_all, Nat.sub_diag. cbn [skipn app].
    fold t3 t2 t1 t0. rewrite <- E. rewrite consumed_app. reflexivity.
Qed.

Corollary cid_cast_wf c : cid_wf c -> cid_cast c = true.
Proof.
  intros H. unfold cid_cast.
  pose proof (cid_from_reader_wf c [] H) as E. rewrite app_nil_r in E. rewrite E. reflexivity.
Qed.

(* the prefix of a well-formed CID *)
Lemma cid_prefix_v1 codec code d :
  codec < 2 ^ 63 -> code < 2 ^ 63 -> N.of_nat (length d) < 2 ^ 63 ->
  cid_prefix (cidv1 codec (mh_encode code d)) =
  {| p_version := 1; p_codec := codec; p_mhtype := code; p_mhlen := N.of_nat (length d) |}.
Proof.
  intros Hc Hm Hl. unfold cid_prefix.
  assert (V : is_v0 (cidv1 codec (mh_encode code d)) = false).
  { unfold is_v0, cidv1. rewrite uvarint_1. cbn [app nth].
    change (1 =? 18) with false. rewrite andb_false_r. reflexivity. }
  rewrite V. unfold cidv1, mh_encode, uv0.
  rewrite read_uvarint_uvarint by lia.
  rewrite read_uvarint_uvarint by exact Hc.
  rewrite read_uvarint_uvarint by exact Hm.
  rewrite read_uvarint_uvarint by exact Hl.
  reflexivity.
Qed.

Lemma cid_prefix_v0 d : length d = 32%nat ->
  cid_prefix (18 :: 32 :: d) = {| p_version := 0; p_codec := 112; p_mhtype := 18; p_mhlen := 32 |}.
Proof.
  intros Hd. unfold cid_prefix, is_v0. cbn [length nth]. rewrite Hd. reflexivity.
Qed.

(* identity CIDs name their content, whatever the hash oracle is *)
Lemma cid_sum_identity mhd codec data :
  codec < 2 ^ 63 -> N.of_nat (length data) < 2 ^ 63 ->
  cid_sum mhd (cid_prefix (cidv1 codec (mh_encode 0 data))) data = Some (cidv1 codec (mh_encode 0 data)).
Proof.
  intros Hc Hl. rewrite cid_prefix_v1 by (try assumption; lia).
  unfold cid_sum, mh_sum. cbn [p_version p_codec p_mhtype p_mhlen].
  change (1 =? 0) with false. cbn [andb]. change (0 =? mh_identity) with true. cbv iota.
  change (1 =? 1) with true. cbv iota. reflexivity.
Qed.

(* what cid_sum = Some c says, for a v1 CID *)
Lemma cid_sum_v1_inv mhd codec code len data c :
  cid_sum mhd {| p_version := 1; p_codec := codec; p_mhtype := code; p_mhlen := len |} data = Some c ->
  exists d, mh_sum mhd code len data = Some d /\ c = cidv1 codec (mh_encode code d).
Proof.
  unfold cid_sum. cbn [p_version p_codec p_mhtype p_mhlen].
  change (1 =? 0) with false. cbn [andb]. cbv iota.
  destruct (mh_sum mhd code len data) as [d|]; [|discriminate].
  change (1 =? 1) with true. cbv iota. intros E. inversion E. exists d. auto.
Qed.
