(* C07 — Issued tokens verify; any change to a signed token is detected.
   The signed message is modelled byte for byte (DagJson.v: dag-json of header and payload,
   base64url, '.', DID and CID strings; checked against formatter.FormatSignPayload on every
   run).  Only the signature primitive is symbolic: `valid k m s` is the verifier of key k
   accepting signature s for message m; the two hypotheses name exactly what is assumed of
   Ed25519 / RSA.  Issue and VerifySignature refuse a payload that DAG-JSON cannot represent
   unambiguously (checkSignable, fixes/C07_signable.diff: Signing.signable); with that guard
   tamper detection holds for every token that verifies.  Without the guard (5d39523) it is
   REFUTED (the dag-json collisions).  Floats are outside the model (KNOWN_FINDINGS
   json-integral-float). *)
From Ucanto Require Import Base Ipld Cbor Formats BaseEnc JsonText Did DagJson Signing SigningExample.

Section C07.
  Variable sign : N -> bstr -> bstr.
  Variable valid : N -> bstr -> bstr -> bool.
  Variable alg_of did_of : N -> bstr.
  Hypothesis valid_sign : forall k m, valid k m (sign k m) = true.
  Hypothesis valid_unique : forall k m m' s, valid k m s = true -> valid k m' s = true -> m = m'.

  (* every token the library issues — with any combination of expiration / no expiration,
     not-before, nonce, facts, proofs, capabilities, caveat values, any key — verifies
     against its issuer's verifier; Issue fails exactly when encodeSignaturePayload refuses the payload *)
  Theorem C07_issue_verifies : forall k ver aud att prf exp fct nnc nbf t,
    issue sign alg_of did_of k ver aud att prf exp fct nnc nbf = Some t -> verify valid alg_of did_of t k = true.
  Proof. exact (issue_verifies sign valid alg_of did_of valid_sign). Qed.

  Theorem C07_issue_fails_iff : forall k ver aud att prf exp fct nnc nbf,
    issue sign alg_of did_of k ver aud att prf exp fct nnc nbf = None <->
    signing_input (alg_of k) (mkU ver (did_of k) aud [] att prf exp fct nnc nbf) = None.
  Proof. exact (issue_none_iff sign alg_of did_of). Qed.

  (* ... and still does after being encoded, transported and decoded (the decoder returns the
     token with caveats / facts in canonical map order; guard and signed bytes do not change) *)
  Theorem C07_transport_bytes : forall t,
    wf_ipld (token_ipld t) = true -> in_budget (token_ipld t) = true ->
    token_decode (token_bytes t) = Some (canon_token t).
  Proof. exact token_transport. Qed.

  Theorem C07_transport_verifies : forall t k,
    verify valid alg_of did_of t k = true -> verify valid alg_of did_of (canon_token t) k = true.
  Proof. exact (verify_after_transport valid alg_of did_of). Qed.

  (* a token whose payload is not signable verifies for no key *)
  Theorem C07_unsignable_rejected : forall t k,
    signable (alg_of k) t = false -> verify valid alg_of did_of t k = false.
  Proof. exact (unsignable_rejected valid alg_of did_of). Qed.

  (* tamper detection: if t verifies for k and t' carries the same signature bytes and also
     verifies for k, then t' has the same version, issuer, audience, capabilities and caveats,
     proofs, expiration, facts, nonce and not-before — so a change to any signed field with the
     signature kept makes verification fail.  (The wf / bytes premises only say that the
     tokens are values a decoder can produce: bytes < 256, distinct map keys.) *)
  Theorem C07_tamper : forall t t' k,
    wf_ipld (header_ipld (alg_of k) (u_v t)) = true -> wf_ipld (header_ipld (alg_of k) (u_v t')) = true ->
    wf_ipld (payload_ipld t true) = true -> wf_ipld (payload_ipld t' true) = true ->
    token_bytes_ok t = true -> token_bytes_ok t' = true ->
    verify valid alg_of did_of t k = true -> verify valid alg_of did_of t' k = true -> u_s t' = u_s t ->
    u_v t' = u_v t /\ u_iss t' = u_iss t /\ u_aud t' = u_aud t /\
    map canon_cap (u_att t') = map canon_cap (u_att t) /\ prf_list t' = prf_list t /\
    u_exp t' = u_exp t /\ option_map (map canon_fact) (u_fct t') = option_map (map canon_fact) (u_fct t) /\
    u_nnc t' = u_nnc t /\ u_nbf t' = u_nbf t.
  Proof. exact (verify_binds_payload valid alg_of did_of valid_unique). Qed.

  (* verification against any other principal fails *)
  Theorem C07_other_principal : forall t k k',
    verify valid alg_of did_of t k = true ->
    did_of k' <> did_of k ->
    verify valid alg_of did_of t k' = false.
  Proof. exact (verify_other_principal valid alg_of did_of). Qed.
End C07.

(* the signed bytes (formatter.FormatSignPayload) determine the algorithm, the version and every
   payload field: issuer, audience, every capability and caveat, proofs, expiration, facts,
   nonce, not-before *)
Theorem C07_signed_bytes_determine_fields : forall alg alg' t t',
  json_safe (header_ipld alg (u_v t)) = true -> json_safe (header_ipld alg' (u_v t')) = true ->
  wf_ipld (header_ipld alg (u_v t)) = true -> wf_ipld (header_ipld alg' (u_v t')) = true ->
  json_safe (payload_ipld t true) = true -> json_safe (payload_ipld t' true) = true ->
  wf_ipld (payload_ipld t true) = true -> wf_ipld (payload_ipld t' true) = true ->
  token_ids_ok t = true -> token_ids_ok t' = true ->
  sign_payload alg t = sign_payload alg' t' ->
  alg = alg' /\ u_v t = u_v t' /\ u_iss t = u_iss t' /\ u_aud t = u_aud t' /\
  map canon_cap (u_att t) = map canon_cap (u_att t') /\ prf_list t = prf_list t' /\
  u_exp t = u_exp t' /\ option_map (map canon_fact) (u_fct t) = option_map (map canon_fact) (u_fct t') /\
  u_nnc t = u_nnc t' /\ u_nbf t = u_nbf t'.
Proof. exact sign_payload_inj. Qed.

(* what the guard establishes: header and payload are in the domain where dag-json is injective,
   issuer and audience are decodable DIDs *)
Theorem C07_signable_gives : forall alg t, signable alg t = true ->
  json_safe (header_ipld alg (u_v t)) = true /\ json_safe (payload_ipld t true) = true /\
  did_okb (u_iss t) = true /\ did_okb (u_aud t) = true.
Proof. exact signable_gives. Qed.

(* dag-json is injective on json_safe values, up to the order of map entries, and blind to it *)
Theorem C07_dagjson_injective : forall a b,
  json_safe a = true -> json_safe b = true -> wf_ipld a = true -> wf_ipld b = true ->
  json_encode a = json_encode b -> canon a = canon b.
Proof. exact json_encode_inj. Qed.

Theorem C07_dagjson_key_order : forall a, json_encode (canon a) = json_encode a.
Proof. exact json_encode_canon. Qed.

(* the string forms *)
Theorem C07_base64url_injective : forall a b, bytes_lt a -> bytes_lt b -> b64url a = b64url b -> a = b.
Proof. exact b64url_inj. Qed.

Theorem C07_cid_string_injective : forall a b, bytes_lt a -> bytes_lt b -> cid_string a = cid_string b -> a = b.
Proof. exact cid_string_inj. Qed.

Theorem C07_did_string_injective : forall a b,
  bytes_lt a -> bytes_lt b -> did_okb a = true -> did_okb b = true -> did_string a = did_string b -> a = b.
Proof. exact did_string_inj. Qed.

(* the token block bytes determine the token *)
Theorem C07_bytes_determine_token : forall a b,
  wf_ipld (token_ipld a) = true -> wf_ipld (token_ipld b) = true ->
  token_bytes a = token_bytes b -> canon_token a = canon_token b.
Proof. exact token_bytes_inj. Qed.

(* the pinned verification payload (without nonce and not-before) is refuted *)
Theorem C07_pinned_refuted :
  ~ (forall k ver aud att prf exp fct nnc nbf,
       ex_verify_pinned (ex_issue k ver aud att prf exp fct nnc nbf) k = true).
Proof. exact pinned_issue_verifies_refuted. Qed.

(* dag-json is NOT injective on all well-formed values: a map {"/": {"bytes": "AQID"}} prints like
   the bytes 01 02 03, a map {"/": "<cid>"} like the link, invalid UTF-8 bytes all print as U+FFFD *)
Theorem C07_dagjson_collision_bytes : exists a b, collision a b.
Proof. exact json_inj_refuted_bytes. Qed.
Theorem C07_dagjson_collision_link : exists a b, collision a b.
Proof. exact json_inj_refuted_link. Qed.
Theorem C07_dagjson_collision_utf8 : exists a b, collision a b.
Proof. exact json_inj_refuted_utf8. Qed.

Theorem C07_dagjson_injective_unrestricted_refuted :
  ~ (forall a b, wf_ipld a = true -> wf_ipld b = true -> json_encode a = json_encode b -> canon a = canon b).
Proof. exact json_inj_refuted. Qed.

(* ... so tamper detection for the verification WITHOUT the guard (5d39523) is false: two different
   tokens with the same signature both verified (witness: caveat bytes replaced by the map that
   prints the same) *)
Theorem C07_tamper_pinned_refuted : ~ tamper_unguarded.
Proof. exact tamper_unguarded_refuted. Qed.

Print Assumptions C07_issue_verifies.
Print Assumptions C07_issue_fails_iff.
Print Assumptions C07_unsignable_rejected.
Print Assumptions C07_transport_bytes.
Print Assumptions C07_transport_verifies.
Print Assumptions C07_tamper.
Print Assumptions C07_other_principal.
Print Assumptions C07_signed_bytes_determine_fields.
Print Assumptions C07_signable_gives.
Print Assumptions C07_dagjson_injective.
Print Assumptions C07_dagjson_key_order.
Print Assumptions C07_base64url_injective.
Print Assumptions C07_cid_string_injective.
Print Assumptions C07_did_string_injective.
Print Assumptions C07_bytes_determine_token.
Print Assumptions C07_pinned_refuted.
Print Assumptions C07_dagjson_collision_bytes.
Print Assumptions C07_dagjson_collision_link.
Print Assumptions C07_dagjson_collision_utf8.
Print Assumptions C07_dagjson_injective_unrestricted_refuted.
Print Assumptions C07_tamper_pinned_refuted.
