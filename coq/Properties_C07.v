(* C07 — Issued tokens verify; any change to a signed token is detected.
   Signatures are symbolic: `valid k m s` is the verifier of key k accepting signature s for
   message m; the hypotheses name exactly what is assumed of Ed25519 / RSA and of the
   external string encodings (dag-json, base64url joining, DID and CID strings). *)
From Ucanto Require Import Base Ipld Cbor Formats Signing SigningExample.

Section C07.
  Variable did_string cid_string : bstr -> bstr.
  Variable json : ipld -> bstr.
  Variable sign : N -> bstr -> bstr.
  Variable valid : N -> bstr -> bstr -> bool.
  Variable alg_of did_of : N -> bstr.
  Variable join : bstr * bstr -> bstr.
  Hypothesis valid_sign : forall k m, valid k m (sign k m) = true.
  Hypothesis valid_unique : forall k m m' s, valid k m s = true -> valid k m' s = true -> m = m'.
  Hypothesis json_inj : forall a b, wf_ipld a = true -> wf_ipld b = true -> json a = json b -> canon a = canon b.
  Hypothesis json_canon : forall a, json (canon a) = json a.
  Hypothesis join_inj : forall a b, join a = join b -> a = b.

  (* every token the library issues — with any combination of expiration / no expiration,
     not-before, nonce, facts, proofs, capabilities, caveat values, any key — verifies
     against its issuer's verifier *)
  Theorem C07_issue_verifies : forall k ver aud att prf exp fct nnc nbf,
    verify did_string cid_string json valid alg_of did_of join
      (issue did_string cid_string json sign alg_of did_of join k ver aud att prf exp fct nnc nbf) k = true.
  Proof. exact (issue_verifies did_string cid_string json sign valid alg_of did_of valid_sign join). Qed.

  (* ... and still does after being encoded, transported and decoded (the decoder returns the
     token with caveats / facts in canonical map order) *)
  Theorem C07_transport_bytes : forall t,
    wf_ipld (token_ipld t) = true -> in_budget (token_ipld t) = true ->
    token_decode (token_bytes t) = Some (canon_token t).
  Proof. exact token_transport. Qed.

  Theorem C07_transport_verifies : forall t k,
    verify did_string cid_string json valid alg_of did_of join t k = true ->
    verify did_string cid_string json valid alg_of did_of join (canon_token t) k = true.
  Proof. exact (verify_after_transport did_string cid_string json valid alg_of did_of json_canon join). Qed.

  (* tamper detection: if t verifies for k and t' carries the same signature bytes and also
     verifies for k, then t' has the same issuer, the same (canonical) signing payload and the
     same header — so a change to any signed field with the signature kept makes verification fail *)
  Theorem C07_tamper : forall t t' k,
    wf_ipld (payload_ipld did_string cid_string t true) = true ->
    wf_ipld (payload_ipld did_string cid_string t' true) = true ->
    wf_ipld (header_ipld (alg_of k) (u_v t)) = true -> wf_ipld (header_ipld (alg_of k) (u_v t')) = true ->
    verify did_string cid_string json valid alg_of did_of join t k = true ->
    verify did_string cid_string json valid alg_of did_of join t' k = true -> u_s t' = u_s t ->
    u_iss t' = u_iss t /\
    canon (payload_ipld did_string cid_string t' true) = canon (payload_ipld did_string cid_string t true) /\
    canon (header_ipld (alg_of k) (u_v t')) = canon (header_ipld (alg_of k) (u_v t)).
  Proof. exact (verify_binds_payload did_string cid_string json valid alg_of did_of valid_unique json_inj join join_inj). Qed.

  (* verification against any other principal fails *)
  Theorem C07_other_principal : forall t k k',
    verify did_string cid_string json valid alg_of did_of join t k = true ->
    did_of k' <> did_of k ->
    verify did_string cid_string json valid alg_of did_of join t k' = false.
  Proof. exact (verify_other_principal did_string cid_string json valid alg_of did_of join). Qed.
End C07.

(* the signing payload determines every signed field: issuer, audience, every capability and
   caveat, proofs, expiration, facts, nonce, not-before *)
Theorem C07_payload_determines_fields : forall did_string cid_string,
  (forall a b, cid_string a = cid_string b -> a = b) ->
  forall t t',
  payload_ipld did_string cid_string t true = payload_ipld did_string cid_string t' true ->
  did_string (u_iss t) = did_string (u_iss t') /\ did_string (u_aud t) = did_string (u_aud t') /\
  u_att t = u_att t' /\
  match u_prf t with Some l => l | None => [] end = match u_prf t' with Some l => l | None => [] end /\
  u_exp t = u_exp t' /\ u_fct t = u_fct t' /\ u_nnc t = u_nnc t' /\ u_nbf t = u_nbf t'.
Proof. exact payload_inj. Qed.

(* the token block bytes determine the token *)
Theorem C07_bytes_determine_token : forall a b,
  wf_ipld (token_ipld a) = true -> wf_ipld (token_ipld b) = true ->
  token_bytes a = token_bytes b -> canon_token a = canon_token b.
Proof. exact token_bytes_inj. Qed.

(* the pinned verification payload (without nonce and not-before) is refuted *)
Theorem C07_pinned_refuted :
  ~ (forall k ver aud att prf exp fct nnc nbf,
       ex_verify_pinned (ex_issue k ver aud att prf exp fct nnc nbf) k = true).
Proof. exact pinned_issue_verifies_refuted. Qed.

Print Assumptions C07_issue_verifies.
Print Assumptions C07_transport_bytes.
Print Assumptions C07_transport_verifies.
Print Assumptions C07_tamper.
Print Assumptions C07_other_principal.
Print Assumptions C07_payload_determines_fields.
Print Assumptions C07_bytes_determine_token.
Print Assumptions C07_pinned_refuted.
