(* MessageBytes.v — transport/car request.Decode / response.Decode on ARBITRARY byte strings:

     roots, blocks, err := car.Decode(body)                 Car.v   car_decode
     bstore, err := blockstore.NewBlockReader(blocks)       Blockstore.v new_block_reader
                                                            (the first iterator error aborts)
     message.NewMessage(roots, bstore)                      below
       len(roots) == 0            -> error
       bstore.Get(roots[0])       -> error when absent      (further roots are ignored)
       block.Decode(root, &AgentMessageModel{}, schema, dag-cbor, sha2-256)
          cbor.Decode             -> typed decoding, below
          sha2-256 of the bytes must give back the link as CIDv1 / dag-cbor / sha2-256

   and, on top, client.Execute's reply handling (C15) and the 400 decision of server.Handle
   (C20 / C11).

   The typed decoding (ipld.Unmarshal(bytes, dagcbor.Decode, &msg, schema) = go-ipld-prime's
   dag-cbor decoder driving bindnode's assemblers for

       type AgentMessage union { | Data "ucanto/message@7.0.0" } representation keyed
       type Data struct { execute optional [Link]  report optional {String:Link} }

   ) is modelled as: the dag-cbor decoder of Cbor.v WITHOUT its duplicate-key check
   (dec_item_t; that check is basicnode's, and bindnode has none — node.go says
   "TODO: check for duplicates in keysVal"), followed by a strict matcher (message_of_typed)
   that mirrors what the assemblers accept.  The decoder charges its budget and rejects
   malformed bytes independently of the assembler, and the assembler can only turn a
   success into an error, so "decoder succeeds and the value matches" is exactly "the typed
   decoding succeeds".  Established by reading node/bindnode/{node,repr}.go and by experiment
   (notes/NOTES_BYTES.md), then checked against the code on every run (Check_Bytes.v):
     * a union map with no entry is refused; every entry must carry the one known key; the
       key may repeat, the last entry wins;
     * Data: an unknown field is refused; a field may repeat, the last one wins (the earlier
       ones must still be well-typed); execute must be a list of links, report a map whose
       values are links; null is refused everywhere (nothing is nullable);
     * report: keys are appended to Keys for every entry, Values[k] is overwritten, so a
       repeated key is listed twice and both list positions show the last value;
     * tags other than 42 on anything but a byte string are ignored by the decoder, map keys
       are not checked for order nor for UTF-8, indefinite lengths are accepted. *)
From Ucanto Require Import Base Varint Ipld Cbor Formats Blockstore MessageFormat Cid Car BaseEnc DagJson.
From Ucanto Require Client Http.
From Coq Require Import ZifyBool ZifyN ZifyNat Permutation.
Open Scope N_scope.

(* ================================================================== *)
(* 1. the dag-cbor decoder without the duplicate-key check             *)

Section LoopsT.
  Variable lim : limits.
  Variable item : N -> bstr -> dres (ipld * bstr * N).

  Definition dec_entry_t (g : N) (bs : bstr) : dres (bstr * ipld * bstr * N) :=
    match dec_key lim bs with
    | None => DErr
    | Some (key, r) =>
      charge g (len key + 8) (fun g1 =>
        match item g1 r with
        | DOk (v, r1, g2) => DOk (key, v, r1, g2)
        | DErr => DErr | DUnsup => DUnsup
        end)
    end.

  Fixpoint dec_entries_t (k : nat) (g : N) (bs : bstr) : dres (list (bstr * ipld) * bstr * N) :=
    match k with
    | O => DOk ([], bs, g)
    | S k' =>
      match dec_entry_t g bs with
      | DOk (key, v, r1, g2) =>
        match dec_entries_t k' g2 r1 with
        | DOk (m, r', g3) => DOk ((key, v) :: m, r', g3)
        | DErr => DErr | DUnsup => DUnsup
        end
      | DErr => DErr | DUnsup => DUnsup
      end
    end.

  Fixpoint dec_entries_indef_t (k : nat) (g : N) (bs : bstr) : dres (list (bstr * ipld) * bstr * N) :=
    match k with
    | O => DErr
    | S k' =>
      match bs with
      | [] => DErr
      | b :: r =>
        if b =? 255 then DOk ([], r, g)
        else
          match dec_entry_t g bs with
          | DOk (key, v, r1, g2) =>
            match dec_entries_indef_t k' g2 r1 with
            | DOk (m, r', g3) => DOk ((key, v) :: m, r', g3)
            | DErr => DErr | DUnsup => DUnsup
            end
          | DErr => DErr | DUnsup => DUnsup
          end
      end
    end.
End LoopsT.

(* Cbor.dec_byte with dec_entries / dec_entries_indef replaced by the versions above *)
Definition dec_byte_t (lim : limits) (rec : option N -> N -> bstr -> dres (ipld * bstr * N))
           (tag : option N) (g : N) (b : N) (r : bstr) : dres (ipld * bstr * N) :=
  if (b =? 246) || (b =? 247) then ret INull r g
  else if b =? 244 then charge g 1 (ret (IBool false) r)
  else if b =? 245 then charge g 1 (ret (IBool true) r)
  else if (b =? 249) || (b =? 250) || (b =? 251) then DUnsup
  else if b =? 159 then
    match dec_items_indef (rec None) (length r) g r with
    | DOk (l, r', g') => ret (IList l) r' g'
    | DErr => DErr | DUnsup => DUnsup
    end
  else if b =? 191 then
    match dec_entries_indef_t lim (rec None) (length r) g r with
    | DOk (m, r', g') => ret (IMap m) r' g'
    | DErr => DErr | DUnsup => DUnsup
    end
  else
    let mj := b / 32 in
    let ai := b mod 32 in
    if mj =? 0 then
      match dec_arg ai r with
      | Some (n, r') => charge g 1 (ret (IInt (Z.of_N n)) r')
      | None => DErr
      end
    else if mj =? 1 then
      match dec_arg ai r with
      | Some (n, r') =>
        let pos := (n + 1) mod 2 ^ 64 in
        if 2 ^ 63 <? pos then DErr else charge g 1 (ret (IInt (- Z.of_N pos)) r')
      | None => DErr
      end
    else if mj =? 2 then
      match dec_str lim 2 b r with
      | Some (p, r') =>
        charge g (len p) (fun g' =>
          match tag with
          | None => ret (IBytes p) r' g'
          | Some t =>
            if t =? 42 then
              match dec_link p with Some v => ret v r' g' | None => DErr end
            else DErr
          end)
      | None => DErr
      end
    else if mj =? 3 then
      match dec_str lim 3 b r with
      | Some (p, r') => charge g (len p) (ret (IString p) r')
      | None => DErr
      end
    else if mj =? 4 then
      match dec_len lim ai r with
      | Some (n, r') =>
        if (g <? n) || (len r' <? n) then DErr
        else match dec_items (rec None) (N.to_nat n) g r' with
             | DOk (l, r'', g') => ret (IList l) r'' g'
             | DErr => DErr | DUnsup => DUnsup
             end
      | None => DErr
      end
    else if mj =? 5 then
      match dec_len lim ai r with
      | Some (n, r') =>
        if (g <? n) || (len r' <? n) then DErr
        else match dec_entries_t lim (rec None) (N.to_nat n) g r' with
             | DOk (m, r'', g') => ret (IMap m) r'' g'
             | DErr => DErr | DUnsup => DUnsup
             end
      | None => DErr
      end
    else if mj =? 6 then
      match tag with
      | Some _ => DErr
      | None =>
        match dec_len lim ai r with
        | Some (t, r') => rec (Some t) g r'
        | None => DErr
        end
      end
    else DErr.

Fixpoint dec_item_t (lim : limits) (fuel : nat) (tag : option N) (g : N) (bs : bstr)
  : dres (ipld * bstr * N) :=
  match fuel with
  | O => DErr
  | S f =>
    match bs with
    | [] => DErr
    | b :: r => dec_byte_t lim (dec_item_t lim f) tag g b r
    end
  end.

(* a whole block: no trailing bytes; floats (outside the model) are refused by every
   assembler of the message schema, so they count as failures here *)
Definition cbor_decode_all_t (b : bstr) : option ipld :=
  match dec_item_t go_limits (length b) None go_gas b with
  | DOk (v, [], _) => Some v
  | _ => None
  end.

(* --- whatever the checking decoder accepts, this one accepts with the same result --- *)

Definition item_le (f f' : N -> bstr -> dres (ipld * bstr * N)) : Prop :=
  forall g bs x, f g bs = DOk x -> f' g bs = DOk x.

Lemma dec_items_le f f' : item_le f f' ->
  forall k g bs x, dec_items f k g bs = DOk x -> dec_items f' k g bs = DOk x.
Proof.
  intros H. induction k as [|k IH]; intros g bs x; cbn [dec_items]; [auto|].
  unfold charge. destruct (g <? 4); [discriminate|].
  destruct (f (g - 4) bs) as [[[v r] g2]| |] eqn:E; try discriminate.
  rewrite (H _ _ _ E).
  destruct (dec_items f k g2 r) as [[[l r'] g3]| |] eqn:E2; try discriminate.
  rewrite (IH _ _ _ E2). auto.
Qed.

Lemma dec_items_indef_le f f' : item_le f f' ->
  forall k g bs x, dec_items_indef f k g bs = DOk x -> dec_items_indef f' k g bs = DOk x.
Proof.
  intros H. induction k as [|k IH]; intros g bs x; cbn [dec_items_indef]; [auto|].
  destruct bs as [|b r]; [auto|]. destruct (b =? 255); [auto|].
  unfold charge. destruct (g <? 4); [discriminate|].
  destruct (f (g - 4) (b :: r)) as [[[v r1] g2]| |] eqn:E; try discriminate.
  rewrite (H _ _ _ E).
  destruct (dec_items_indef f k g2 r1) as [[[l r'] g3]| |] eqn:E2; try discriminate.
  rewrite (IH _ _ _ E2). auto.
Qed.

Lemma dec_entry_le lim f f' : item_le f f' ->
  forall seen g bs x, dec_entry lim f seen g bs = DOk x -> dec_entry_t lim f' g bs = DOk x.
Proof.
  intros H seen g bs x. unfold dec_entry, dec_entry_t.
  destruct (dec_key lim bs) as [[key r]|]; [|discriminate].
  unfold charge. destruct (g <? len key + 8); [discriminate|].
  destruct (existsb (beq key) seen); [discriminate|].
  destruct (f (g - (len key + 8)) r) as [[[v r1] g2]| |] eqn:E; try discriminate.
  rewrite (H _ _ _ E). auto.
Qed.

Lemma dec_entries_le lim f f' : item_le f f' ->
  forall k seen g bs x, dec_entries lim f k seen g bs = DOk x -> dec_entries_t lim f' k g bs = DOk x.
Proof.
  intros H. induction k as [|k IH]; intros seen g bs x; cbn [dec_entries dec_entries_t]; [auto|].
  destruct (dec_entry lim f seen g bs) as [[[[key v] r1] g2]| |] eqn:E; try discriminate.
  rewrite (dec_entry_le lim f f' H _ _ _ _ E).
  destruct (dec_entries lim f k (key :: seen) g2 r1) as [[[m r'] g3]| |] eqn:E2; try discriminate.
  rewrite (IH _ _ _ _ E2). auto.
Qed.

Lemma dec_entries_indef_le lim f f' : item_le f f' ->
  forall k seen g bs x,
    dec_entries_indef lim f k seen g bs = DOk x -> dec_entries_indef_t lim f' k g bs = DOk x.
Proof.
  intros H. induction k as [|k IH]; intros seen g bs x;
    cbn [dec_entries_indef dec_entries_indef_t]; [auto|].
  destruct bs as [|b r]; [auto|]. destruct (b =? 255); [auto|].
  destruct (dec_entry lim f seen g (b :: r)) as [[[[key v] r1] g2]| |] eqn:E; try discriminate.
  rewrite (dec_entry_le lim f f' H _ _ _ _ E).
  destruct (dec_entries_indef lim f k (key :: seen) g2 r1) as [[[m r'] g3]| |] eqn:E2; try discriminate.
  rewrite (IH _ _ _ _ E2). auto.
Qed.

Definition rec_le (rec rec' : option N -> N -> bstr -> dres (ipld * bstr * N)) : Prop :=
  forall tag, item_le (rec tag) (rec' tag).

Lemma dec_byte_le lim rec rec' : rec_le rec rec' ->
  forall tag g b r x, dec_byte lim rec tag g b r = DOk x -> dec_byte_t lim rec' tag g b r = DOk x.
Proof.
  intros H tag g b r x. unfold dec_byte, dec_byte_t.
  destruct ((b =? 246) || (b =? 247)); [auto|].
  destruct (b =? 244); [auto|]. destruct (b =? 245); [auto|].
  destruct ((b =? 249) || (b =? 250) || (b =? 251)); [auto|].
  destruct (b =? 159).
  { destruct (dec_items_indef (rec None) (length r) g r) as [[[l r'] g']| |] eqn:E; try discriminate.
    rewrite (dec_items_indef_le _ _ (H None) _ _ _ _ E). auto. }
  destruct (b =? 191).
  { destruct (dec_entries_indef lim (rec None) (length r) [] g r) as [[[m r'] g']| |] eqn:E; try discriminate.
    rewrite (dec_entries_indef_le lim _ _ (H None) _ _ _ _ _ E). auto. }
  cbv zeta.
  destruct (b / 32 =? 0); [auto|]. destruct (b / 32 =? 1); [auto|].
  destruct (b / 32 =? 2); [auto|]. destruct (b / 32 =? 3); [auto|].
  destruct (b / 32 =? 4).
  { destruct (dec_len lim (b mod 32) r) as [[n r']|]; [|auto].
    destruct ((g <? n) || (len r' <? n)); [auto|].
    destruct (dec_items (rec None) (N.to_nat n) g r') as [[[l r''] g']| |] eqn:E; try discriminate.
    rewrite (dec_items_le _ _ (H None) _ _ _ _ E). auto. }
  destruct (b / 32 =? 5).
  { destruct (dec_len lim (b mod 32) r) as [[n r']|]; [|auto].
    destruct ((g <? n) || (len r' <? n)); [auto|].
    destruct (dec_entries lim (rec None) (N.to_nat n) [] g r') as [[[m r''] g']| |] eqn:E; try discriminate.
    rewrite (dec_entries_le lim _ _ (H None) _ _ _ _ _ E). auto. }
  destruct (b / 32 =? 6); [|auto].
  destruct tag; [auto|].
  destruct (dec_len lim (b mod 32) r) as [[t r']|]; [|auto].
  apply H.
Qed.

Lemma dec_item_le lim : forall fuel, rec_le (dec_item lim fuel) (dec_item_t lim fuel).
Proof.
  induction fuel as [|f IH]; intros tag g bs x; cbn [dec_item dec_item_t]; [auto|].
  destruct bs as [|b r]; [auto|]. apply dec_byte_le. exact IH.
Qed.

Theorem cbor_decode_all_t_of_checked b v : cbor_decode_all b = Some v -> cbor_decode_all_t b = Some v.
Proof.
  unfold cbor_decode_all, cbor_decode, cbor_decode_r, cbor_decode_all_t.
  destruct (dec_item go_limits (length b) None go_gas b) as [[[v' r] g]| |] eqn:E; try discriminate.
  rewrite (dec_item_le go_limits (length b) None go_gas b _ E).
  destruct r; [auto|discriminate].
Qed.

(* the encoder's output reads back (canonical form), also through this decoder *)
Corollary cbor_roundtrip_t v :
  wf_ipld v = true -> in_budget v = true -> cbor_decode_all_t (cbor_encode v) = Some (canon v).
Proof. intros W B. apply cbor_decode_all_t_of_checked. apply cbor_roundtrip; assumption. Qed.

(* ================================================================== *)
(* 2. what bindnode's assemblers accept for the AgentMessage schema    *)

Definition links_of (v : ipld) : option (list bstr) := l <- as_list v ;; omap as_link l.

(* the entries of the Data map in wire order; a repeated field replaces the earlier one *)
Fixpoint data_fields (es : list (bstr * ipld)) (acc : amsg) : option amsg :=
  match es with
  | [] => Some acc
  | (k, v) :: r =>
    if beq k k_execute then l <- links_of v ;; data_fields r (mkMsg (Some l) (m_report acc))
    else if beq k k_report then rp <- report_of_ipld v ;; data_fields r (mkMsg (m_execute acc) (Some rp))
    else None                                   (* "invalid key: ... is not a field in type Data" *)
  end.

Definition data_of_typed (v : ipld) : option amsg :=
  es <- as_map v ;; data_fields es (mkMsg None None).

(* the entries of the union map in wire order; acc = the member set so far *)
Fixpoint union_entries (es : list (bstr * ipld)) (acc : option amsg) : option (option amsg) :=
  match es with
  | [] => Some acc
  | (k, v) :: r =>
    if beq k k_msg7 then d <- data_of_typed v ;; union_entries r (Some d)
    else None                                   (* "no member named ..." *)
  end.

Definition message_of_typed (v : ipld) : option amsg :=
  es <- as_map v ;;
  r <- union_entries es None ;;
  r.                                            (* None: "a union must have exactly one entry" *)

Definition message_decode_typed (b : bstr) : option amsg :=
  v <- cbor_decode_all_t b ;; message_of_typed v.

(* --- on the encoder's output it is the reader of MessageFormat.v --- *)

Lemma sort_two_fields (a b : ipld) :
  sort_map [(k_execute, a); (k_report, b)] = [(k_report, b); (k_execute, a)].
Proof. reflexivity. Qed.

Lemma links_of_canon l : links_of (canon (IList (map ILink l))) = Some l.
Proof. unfold links_of. rewrite links_canon. apply links_read. Qed.

Theorem message_of_typed_canon m : message_of_typed (canon (message_ipld m)) = Some (canon_msg m).
Proof.
  assert (S1 : forall (k : bstr) (x : ipld), sort_map [(k, x)] = [(k, x)]) by reflexivity.
  destruct m as [ex rp]. unfold message_ipld, struct_map, canon_msg. cbn [m_execute m_report].
  rewrite canon_map_eq. cbn [map]. unfold on_snd at 1. cbn [fst snd]. rewrite S1.
  unfold message_of_typed. cbn [as_map obind union_entries].
  change (beq k_msg7 k_msg7) with true. cbv iota.
  destruct ex as [ex|], rp as [rp|]; cbn [option_map opt_field concat app];
    rewrite canon_map_eq; cbn [map]; unfold on_snd; cbn [fst snd].
  - rewrite sort_two_fields. unfold data_of_typed. cbn [as_map obind data_fields].
    change (beq k_report k_execute) with false. change (beq k_report k_report) with true.
    change (beq k_execute k_execute) with true. cbv iota.
    rewrite report_roundtrip. cbn [obind m_execute m_report].
    rewrite links_of_canon. reflexivity.
  - rewrite S1. unfold data_of_typed. cbn [as_map obind data_fields].
    change (beq k_execute k_execute) with true. cbv iota.
    rewrite links_of_canon. reflexivity.
  - rewrite S1. unfold data_of_typed. cbn [as_map obind data_fields].
    change (beq k_report k_execute) with false. change (beq k_report k_report) with true. cbv iota.
    rewrite report_roundtrip. reflexivity.
  - reflexivity.
Qed.

(* bytes of a message -> the message (report in canonical key order) *)
Theorem message_transport_typed m :
  wf_ipld (message_ipld m) = true -> in_budget (message_ipld m) = true ->
  message_decode_typed (message_bytes m) = Some (canon_msg m).
Proof.
  intros W B. unfold message_decode_typed, message_bytes.
  rewrite (cbor_roundtrip_t _ W B). cbn [obind]. apply message_of_typed_canon.
Qed.

(* what the matcher accepts, spelled out (an inversion used by the decision theorems) *)
Lemma message_of_typed_shape v m :
  message_of_typed v = Some m ->
  exists es, v = IMap es /\ es <> [] /\ Forall (fun kv => fst kv = k_msg7) es.
Proof.
  unfold message_of_typed. destruct v as [| | | | | |es|]; try discriminate.
  cbn [as_map obind]. intros H. exists es. split; [reflexivity|].
  assert (G : forall es acc r, union_entries es acc = Some r ->
            Forall (fun kv : bstr * ipld => fst kv = k_msg7) es /\ (es = [] -> r = acc)).
  { clear. induction es as [|[k x] es IH]; intros acc r; cbn [union_entries].
    - intros E. inversion E. split; [constructor|auto].
    - destruct (beq k k_msg7) eqn:B; [|discriminate]. apply beq_eq in B. subst k.
      destruct (data_of_typed x) as [d|]; [|discriminate]. cbn [obind]. intros E.
      destruct (IH _ _ E) as [F _]. split; [constructor; [reflexivity|exact F]|discriminate]. }
  destruct (union_entries es None) as [r|] eqn:E; [|discriminate]. cbn [obind] in H.
  destruct (G _ _ _ E) as [F Z]. split; [|exact F].
  intros ->. rewrite (Z eq_refl) in H. discriminate.
Qed.

(* ================================================================== *)
(* 3. request.Decode / response.Decode                                  *)

(* the block table: blockstore keys are link STRINGS; Cid.String() is injective on byte
   strings (DagJson.cid_string_inj), so the table is keyed by the CID bytes here *)
Notation bstore := (store bstr bstr).
Definition tbl_get (s : bstore) (c : bstr) : option bstr := bs_get bstr bstr beq s c.
Definition tbl_of (blocks : list block) : bstore := new_block_reader bstr bstr beq [] blocks.
(* the blocks in iteration order (BlockReader.Iterator) *)
Definition tbl_blocks (s : bstore) : list block :=
  filter_map (fun k => match tbl_get s k with Some d => Some (k, d) | None => None end) (keys s).

(* NewBlockReader(WithBlocksIterator(it)): `if err != nil { return nil, err }` *)
Fixpoint collect (items : list item) : option (list block) :=
  match items with
  | [] => Some []
  | IOk c d :: r => match collect r with Some l => Some ((c, d) :: l) | None => None end
  | IErr :: _ => None
  end.

Record decoded := mkDecoded { d_root : bstr; d_msg : amsg; d_store : bstore }.

Inductive failure :=
| FHeader          (* car.Decode: header unreadable / not version 1 *)
| FBlock           (* a section that is cut, oversized, without a CID, or whose bytes do not match its CID *)
| FNoRoots         (* "missing roots" *)
| FRootMissing     (* "missing root block" *)
| FNotMessage      (* the root block is not dag-cbor, or not an AgentMessage *)
| FIntegrity.      (* "data integrity error": the root link is not CIDv1 / dag-cbor / sha2-256 of the bytes *)

Section Decode.
  Variable mh_digest : N -> N -> bstr -> option bstr.
  Variable hdr_oracle : bstr -> option (list bstr * N).

  (* block.Decode's closing check: cid.NewCidV1(0x71, multihash(sha2-256, Sum(bytes))) == link *)
  Definition root_integrity (c data : bstr) : bool :=
    match mh_digest mh_sha2_256 32 data with
    | Some d => beq (cidv1 113 (mh_encode mh_sha2_256 d)) c
    | None => false
    end.

  Definition decode_message_r (body : bstr) : decoded + failure :=
    match car_decode mh_digest true hdr_oracle body with
    | (HdrErr, _) => inr FHeader
    | (HdrOk roots, items) =>
      match collect items with
      | None => inr FBlock
      | Some blocks =>
        let s := tbl_of blocks in
        match roots with
        | [] => inr FNoRoots
        | r0 :: _ =>
          match tbl_get s r0 with
          | None => inr FRootMissing
          | Some data =>
            match message_decode_typed data with
            | None => inr FNotMessage
            | Some m => if root_integrity r0 data then inl (mkDecoded r0 m s) else inr FIntegrity
            end
          end
        end
      end
    end.

  Definition decode_message (body : bstr) : option decoded :=
    match decode_message_r body with inl d => Some d | inr _ => None end.

  (* --- what a success says, for EVERY byte string ------------------------------------ *)

  Lemma collect_some items blocks :
    collect items = Some blocks -> items = map item_of_block blocks.
  Proof.
    revert blocks. induction items as [|[c d|] items IH]; intros blocks; cbn [collect].
    - intros E. inversion E. reflexivity.
    - destruct (collect items) as [l|]; [|discriminate]. intros E. inversion E. subst.
      cbn [map]. unfold item_of_block at 1. cbn [fst snd]. f_equal. apply IH. reflexivity.
    - discriminate.
  Qed.

  Lemma collect_map blocks : collect (map item_of_block blocks) = Some blocks.
  Proof.
    induction blocks as [|[c d] blocks IH]; [reflexivity|].
    cbn [map]. unfold item_of_block at 1. cbn [fst snd collect]. rewrite IH. reflexivity.
  Qed.

  Lemma tbl_of_is_put blocks : tbl_of blocks = run_puts bstr bstr beq blocks.
  Proof. unfold tbl_of. apply (new_block_reader_is_put bstr bstr beq [] blocks). Qed.

  Lemma tbl_get_first blocks c : tbl_get (tbl_of blocks) c = first_val bstr bstr beq c blocks.
  Proof.
    unfold tbl_get. rewrite tbl_of_is_put.
    destruct (seq_spec bstr bstr beq beq_eq blocks) as [_ [_ [G _]]]. apply G.
  Qed.

  Lemma first_val_in c blocks d : first_val bstr bstr beq c blocks = Some d -> In (c, d) blocks.
  Proof.
    induction blocks as [|[k v] blocks IH]; cbn [first_val]; [discriminate|].
    destruct (beq c k) eqn:B.
    - apply beq_eq in B. subst. intros E. inversion E. left. reflexivity.
    - intros E. right. apply IH. exact E.
  Qed.

  Theorem decode_message_inv body d :
    decode_message body = Some d ->
    exists roots blocks data,
      car_decode mh_digest true hdr_oracle body = (HdrOk (d_root d :: roots), map item_of_block blocks)
      /\ d_store d = tbl_of blocks
      /\ tbl_get (d_store d) (d_root d) = Some data
      /\ message_decode_typed data = Some (d_msg d)
      /\ root_integrity (d_root d) data = true.
  Proof.
    unfold decode_message, decode_message_r.
    destruct (car_decode mh_digest true hdr_oracle body) as [[|roots] items]; [discriminate|].
    destruct (collect items) as [blocks|] eqn:C; [|discriminate].
    destruct roots as [|r0 roots]; [discriminate|]. cbv zeta.
    destruct (tbl_get (tbl_of blocks) r0) as [data|] eqn:G; [|discriminate].
    destruct (message_decode_typed data) as [m|] eqn:M; [|discriminate].
    destruct (root_integrity r0 data) eqn:I; [|discriminate].
    intros E. inversion E. subst d. cbn [d_root d_msg d_store].
    exists roots, blocks, data. rewrite (collect_some _ _ C). auto.
  Qed.

  (* ... and conversely: the decision of request.Decode / response.Decode, for every byte string *)
  Theorem decode_message_iff body d :
    decode_message body = Some d <->
    exists roots blocks data,
      car_decode mh_digest true hdr_oracle body = (HdrOk (d_root d :: roots), map item_of_block blocks)
      /\ d_store d = tbl_of blocks
      /\ tbl_get (d_store d) (d_root d) = Some data
      /\ message_decode_typed data = Some (d_msg d)
      /\ root_integrity (d_root d) data = true.
  Proof.
    split; [apply decode_message_inv|].
    intros [roots [blocks [data [E [S [G [M I]]]]]]].
    unfold decode_message, decode_message_r. rewrite E, collect_map. cbv zeta.
    rewrite <- S, G, M, I. destruct d; reflexivity.
  Qed.

  (* every block of a decoded message matches its CID (C12 integrity, lifted) *)
  Theorem decode_message_integrity body d c data :
    decode_message body = Some d -> tbl_get (d_store d) c = Some data ->
    cid_sum mh_digest (cid_prefix c) data = Some c.
  Proof.
    intros D G. destruct (decode_message_inv _ _ D) as [roots [blocks [_ [E [S _]]]]].
    rewrite S, tbl_get_first in G. apply first_val_in in G.
    apply (car_decode_integrity mh_digest true hdr_oracle body). rewrite E. cbn [snd].
    apply in_map_iff. exists (c, data). split; [reflexivity|exact G].
  Qed.

  (* the root link of a decoded message is the sha2-256 / dag-cbor CIDv1 of the root bytes *)
  Theorem decode_message_root body d :
    decode_message body = Some d ->
    exists data dg, tbl_get (d_store d) (d_root d) = Some data
      /\ mh_digest mh_sha2_256 32 data = Some dg /\ d_root d = cidv1 113 (mh_encode mh_sha2_256 dg)
      /\ message_decode_typed data = Some (d_msg d).
  Proof.
    intros D. destruct (decode_message_inv _ _ D) as [_ [_ [data [_ [_ [G [M I]]]]]]].
    unfold root_integrity in I. destruct (mh_digest mh_sha2_256 32 data) as [dg|] eqn:H; [|discriminate].
    apply beq_eq in I. exists data, dg. auto.
  Qed.

  (* --- failures ----------------------------------------------------------------------- *)

  Lemma decode_message_none_iff body : decode_message body = None <-> exists f, decode_message_r body = inr f.
  Proof.
    unfold decode_message. destruct (decode_message_r body) as [d|f].
    - split; [discriminate|intros [f E]; discriminate].
    - split; [eauto|reflexivity].
  Qed.

  (* --- round trip: what the encoders of the library produce is read back --------------- *)

  (* the root block of a message as message.Build makes it: block.Encode(msg, dag-cbor, sha2-256) *)
  Definition msg_root_ok (root data : bstr) : Prop :=
    exists dg, mh_digest mh_sha2_256 32 data = Some dg /\ root = cidv1 113 (mh_encode mh_sha2_256 dg).

  Lemma msg_root_integrity root data : msg_root_ok root data -> root_integrity root data = true.
  Proof. intros [dg [H ->]]. unfold root_integrity. rewrite H. apply beq_refl. Qed.

  (* ... which follows from the block being valid under a dag-cbor / sha2-256 CIDv1 *)
  Lemma msg_root_ok_of_block dg data :
    length dg = 32%nat ->
    block_ok mh_digest (cidv1 113 (mh_encode mh_sha2_256 dg), data) ->
    msg_root_ok (cidv1 113 (mh_encode mh_sha2_256 dg)) data.
  Proof.
    intros L [_ [S _]]. cbn [fst snd] in S.
    rewrite cid_prefix_v1 in S by (try reflexivity; rewrite L; reflexivity).
    apply cid_sum_v1_inv in S. destruct S as [d [S1 S2]].
    unfold mh_sum in S1. change (mh_sha2_256 =? mh_identity) with false in S1. cbv iota in S1.
    rewrite L in S1. exists d. split; [exact S1|exact S2].
  Qed.

  Theorem decode_message_roundtrip m root blocks :
    wf_ipld (message_ipld m) = true -> in_budget (message_ipld m) = true ->
    roots_ok 1 [root] -> Forall (block_ok mh_digest) blocks ->
    tbl_get (tbl_of blocks) root = Some (message_bytes m) ->
    msg_root_ok root (message_bytes m) ->
    decode_message (car_encode [root] blocks)
    = Some (mkDecoded root (canon_msg m) (run_puts bstr bstr beq blocks)).
  Proof.
    intros W B R F G I. unfold decode_message, decode_message_r.
    rewrite (car_roundtrip mh_digest hdr_oracle [root] blocks R F).
    rewrite collect_map. cbv zeta. rewrite G.
    rewrite (message_transport_typed m W B).
    rewrite (msg_root_integrity _ _ I). rewrite tbl_of_is_put. reflexivity.
  Qed.

  (* the same with the root block given by membership, when no two blocks share a CID *)
  Lemma first_val_of_in c d blocks :
    NoDup (map fst blocks) -> In (c, d) blocks -> first_val bstr bstr beq c blocks = Some d.
  Proof.
    induction blocks as [|[k v] blocks IH]; cbn [map fst first_val]; intros ND I; [contradiction|].
    inversion ND as [|? ? NI ND']; subst. destruct I as [E|I].
    - inversion E; subst. rewrite beq_refl. reflexivity.
    - destruct (beq c k) eqn:B.
      + apply beq_eq in B. subst. exfalso. apply NI. apply in_map_iff. exists (k, d). auto.
      + apply IH; assumption.
  Qed.

  Corollary decode_message_roundtrip_in m root blocks :
    wf_ipld (message_ipld m) = true -> in_budget (message_ipld m) = true ->
    roots_ok 1 [root] -> Forall (block_ok mh_digest) blocks ->
    NoDup (map fst blocks) -> In (root, message_bytes m) blocks ->
    msg_root_ok root (message_bytes m) ->
    decode_message (car_encode [root] blocks)
    = Some (mkDecoded root (canon_msg m) (run_puts bstr bstr beq blocks)).
  Proof.
    intros W B R F ND I MR. apply decode_message_roundtrip; try assumption.
    rewrite tbl_get_first. apply first_val_of_in; assumption.
  Qed.

  (* further roots are ignored, repeated blocks are dropped (first wins), blocks after the root too *)
  Theorem decode_message_more_roots m root roots blocks :
    wf_ipld (message_ipld m) = true -> in_budget (message_ipld m) = true ->
    roots_ok 1 (root :: roots) -> Forall (block_ok mh_digest) blocks ->
    tbl_get (tbl_of blocks) root = Some (message_bytes m) ->
    msg_root_ok root (message_bytes m) ->
    decode_message (car_encode (root :: roots) blocks)
    = Some (mkDecoded root (canon_msg m) (run_puts bstr bstr beq blocks)).
  Proof.
    intros W B R F G I. unfold decode_message, decode_message_r.
    rewrite (car_roundtrip mh_digest hdr_oracle (root :: roots) blocks R F).
    rewrite collect_map. cbv zeta. rewrite G.
    rewrite (message_transport_typed m W B).
    rewrite (msg_root_integrity _ _ I). rewrite tbl_of_is_put. reflexivity.
  Qed.

  (* an archive without roots, or whose first root has no block, is never a message *)
  Theorem decode_message_no_roots blocks :
    roots_ok 1 [] -> Forall (block_ok mh_digest) blocks ->
    decode_message_r (car_encode [] blocks) = inr FNoRoots.
  Proof.
    intros R F. unfold decode_message_r.
    rewrite (car_roundtrip mh_digest hdr_oracle [] blocks R F). rewrite collect_map. reflexivity.
  Qed.

  Theorem decode_message_root_missing root roots blocks :
    roots_ok 1 (root :: roots) -> Forall (block_ok mh_digest) blocks ->
    ~ In root (map fst blocks) ->
    decode_message_r (car_encode (root :: roots) blocks) = inr FRootMissing.
  Proof.
    intros R F NI. unfold decode_message_r.
    rewrite (car_roundtrip mh_digest hdr_oracle (root :: roots) blocks R F). rewrite collect_map.
    cbv zeta. rewrite tbl_get_first.
    destruct (first_val bstr bstr beq root blocks) as [d|] eqn:E; [|reflexivity].
    exfalso. apply NI. apply first_val_in in E. apply in_map_iff. exists (root, d). auto.
  Qed.

  (* one bad section anywhere makes the whole body undecodable: nothing is skipped *)
  Theorem decode_message_bad_block roots bs1 c d' bs2 :
    roots_ok 1 roots -> Forall (block_ok mh_digest) bs1 -> Forall (block_ok mh_digest) bs2 ->
    cid_wf c -> N.of_nat (length (c ++ d')) <= max_section ->
    cid_sum mh_digest (cid_prefix c) d' <> Some c ->
    decode_message_r (car_encode roots bs1 ++ section (c, d') ++ flat_map section bs2) = inr FBlock.
  Proof.
    intros R F1 F2 W L NS. unfold decode_message_r.
    rewrite (car_corrupt_data mh_digest hdr_oracle roots bs1 c d' bs2 R F1 F2 W L NS).
    assert (C : forall l, collect (map item_of_block bs1 ++ IErr :: l) = None).
    { intros l. induction bs1 as [|[k v] b IH]; [reflexivity|].
      inversion F1; subst. cbn [map app]. unfold item_of_block at 1. cbn [fst snd collect].
      rewrite IH by assumption. reflexivity. }
    rewrite C. reflexivity.
  Qed.

  (* a body cut inside a section is undecodable *)
  Theorem decode_message_truncated roots bs1 b p q :
    roots_ok 1 roots -> Forall (block_ok mh_digest) bs1 -> block_ok mh_digest b ->
    section b = p ++ q -> p <> [] -> q <> [] ->
    decode_message_r (car_encode roots bs1 ++ p) = inr FBlock.
  Proof.
    intros R F B E Hp Hq. unfold decode_message_r.
    rewrite (car_truncate mh_digest hdr_oracle roots bs1 b p q R F B E Hp Hq).
    assert (C : collect (map item_of_block bs1 ++ [IErr]) = None).
    { clear -F. induction bs1 as [|[k v] b IH]; [reflexivity|].
      inversion F; subst. cbn [map app]. unfold item_of_block at 1. cbn [fst snd collect].
      rewrite IH by assumption. reflexivity. }
    rewrite C. reflexivity.
  Qed.
End Decode.

(* ================================================================== *)
(* 4. the accessors of a decoded message (core/message/message.go)      *)

(* bindnode leaves Keys = every key in wire order and Values[k] = the value of the LAST entry
   with key k; Get / Receipts read Values through Keys *)
Definition last_val (k : bstr) (r : list (bstr * bstr)) : option bstr :=
  fold_left (fun acc kv => if beq k (fst kv) then Some (snd kv) else acc) r None.

Definition report_view (r : list (bstr * bstr)) : list (bstr * bstr) :=
  map (fun kv => (fst kv, match last_val (fst kv) r with Some v => v | None => snd kv end)) r.

(* message.Get: the first key equal to link.String() *)
Definition get_bytes (m : amsg) (l : bstr) : outcome (option bstr) :=
  match m_report m with
  | None => Ret None
  | Some r => Ret (slookup (cid_string l) (report_view r))
  end.

(* message.Receipts / message.Invocations *)
Definition receipts_bytes (m : amsg) : outcome (list bstr) :=
  match m_report m with None => Ret [] | Some r => Ret (map snd (report_view r)) end.
Definition invocations_bytes (m : amsg) : list bstr :=
  match m_execute m with None => [] | Some l => l end.

Lemma last_val_nodup r : NoDup (map fst r) ->
  forall k v, In (k, v) r -> last_val k r = Some v.
Proof.
  unfold last_val. intros ND k v I.
  assert (G : forall (r : list (bstr * bstr)) (acc : option bstr), ~ In k (map fst r) ->
            fold_left (fun acc kv => if beq k (fst kv) then Some (snd kv) else acc) r acc = acc).
  { clear. induction r as [|[k' v'] r IH]; intros acc NI; [reflexivity|].
    cbn [fold_left fst snd]. destruct (beq k k') eqn:B.
    - apply beq_eq in B. subst. exfalso. apply NI. left. reflexivity.
    - apply IH. intros H. apply NI. right. exact H. }
  revert ND I. generalize (@None bstr). induction r as [|[k' v'] r IH]; intros acc ND I; [contradiction|].
  cbn [map fst] in ND. inversion ND as [|? ? NI ND']; subst.
  cbn [fold_left fst snd]. destruct I as [E|I].
  - inversion E; subst. rewrite beq_refl. apply G. exact NI.
  - destruct (beq k k') eqn:B.
    + apply beq_eq in B. subst. exfalso. apply NI. apply in_map_iff. exists (k', v). auto.
    + apply IH; assumption.
Qed.

(* without repeated keys the view is the report itself *)
Lemma report_view_nodup r : NoDup (map fst r) -> report_view r = r.
Proof.
  intros ND. unfold report_view. rewrite <- (map_id r) at 2. apply map_ext_in.
  intros [k v] I. cbn [fst snd]. rewrite (last_val_nodup r ND k v I). reflexivity.
Qed.

Lemma report_view_keys r : map fst (report_view r) = map fst r.
Proof. unfold report_view. rewrite map_map. reflexivity. Qed.


Lemma last_val_in k r v : last_val k r = Some v -> In (k, v) r.
Proof.
  unfold last_val.
  assert (G : forall (r : list (bstr * bstr)) (acc : option bstr),
            fold_left (fun acc kv => if beq k (fst kv) then Some (snd kv) else acc) r acc = Some v ->
            In (k, v) r \/ acc = Some v).
  { clear. induction r as [|[k' v'] r IH]; intros acc H; [right; exact H|].
    cbn [fold_left fst snd] in H. destruct (IH _ H) as [I|E]; [left; right; exact I|].
    destruct (beq k k') eqn:B.
    - apply beq_eq in B. subst. inversion E. left. left. reflexivity.
    - right. exact E. }
  intros H. destruct (G _ _ H) as [I|E]; [exact I|discriminate].
Qed.

Lemma slookup_map_in {V W} (h : bstr * V -> W) k w (l : list (bstr * V)) :
  slookup k (map (fun kv => (fst kv, h kv)) l) = Some w -> exists kv, In kv l /\ fst kv = k /\ w = h kv.
Proof.
  induction l as [|[k' v'] l IH]; cbn [map slookup fst]; [discriminate|].
  destruct (beq k k') eqn:B.
  - apply beq_eq in B. subst. intros E. inversion E. exists (k', v'). cbn. auto.
  - intros E. destruct (IH E) as [kv [I H]]. exists kv. split; [right; exact I|exact H].
Qed.

(* a lookup only finds what the report holds under that link's own key *)
Lemma slookup_view_in k v r : slookup k (report_view r) = Some v -> In (k, v) r.
Proof.
  unfold report_view. intros H. apply slookup_map_in in H. destruct H as [[k' v'] [I [E ->]]].
  cbn [fst snd] in *. subst k'. destruct (last_val k r) as [v0|] eqn:L.
  - apply last_val_in. exact L.
  - exact I.
Qed.

Theorem get_bytes_total m l : exists r, get_bytes m l = Ret r.
Proof. unfold get_bytes. destruct (m_report m); eexists; reflexivity. Qed.

Theorem receipts_bytes_total m : exists r, receipts_bytes m = Ret r.
Proof. unfold receipts_bytes. destruct (m_report m); eexists; reflexivity. Qed.

Theorem get_bytes_no_report m l : m_report m = None -> get_bytes m l = Ret None.
Proof. unfold get_bytes. intros ->. reflexivity. Qed.

Theorem get_bytes_some m l v :
  get_bytes m l = Ret (Some v) -> exists es, m_report m = Some es /\ In (cid_string l, v) es.
Proof.
  unfold get_bytes. destruct (m_report m) as [es|]; [|discriminate].
  intros H. inversion H as [E]. exists es. split; [reflexivity|]. apply slookup_view_in. exact E.
Qed.

(* two different links never answer each other's lookups: the key is the link's string,
   and Cid.String() is injective (proved in DagJson.v, no oracle) *)
Theorem get_bytes_key_of_link l l' :
  bytes_lt l -> bytes_lt l' -> cid_string l = cid_string l' -> l = l'.
Proof. apply cid_string_inj. Qed.

(* ================================================================== *)
(* 5. client.Execute on the reply bytes (C15)                           *)

Inductive bytes_result :=
| BError                       (* client.Execute returned an error value *)
| BResponse (d : decoded).     (* an ExecutionResponse over the decoded message *)

Section ClientBytes.
  Variable mh_digest : N -> N -> bstr -> option bstr.
  Variable hdr_oracle : bstr -> option (list bstr * N).
  Notation decode := (decode_message mh_digest hdr_oracle).

  (* the channel turns every non-200 status into an error; a 200 body goes to response.Decode *)
  Definition client_execute_bytes (status : Z) (body : bstr) : bytes_result :=
    if (status =? 200)%Z then
      match decode body with Some d => BResponse d | None => BError end
    else BError.

  Theorem client_execute_bytes_total status body :
    client_execute_bytes status body = BError \/ exists d, client_execute_bytes status body = BResponse d.
  Proof. unfold client_execute_bytes. destruct (status =? 200)%Z; [destruct (decode body)|]; eauto. Qed.

  Theorem client_bytes_non_200 status body : status <> 200%Z -> client_execute_bytes status body = BError.
  Proof.
    intros H. unfold client_execute_bytes.
    destruct (status =? 200)%Z eqn:E; [apply Z.eqb_eq in E; contradiction|reflexivity].
  Qed.

  (* a body that response.Decode refuses never becomes a response object, whatever the status *)
  Theorem client_bytes_garbage status body : decode body = None -> client_execute_bytes status body = BError.
  Proof. intros H. unfold client_execute_bytes. rewrite H. destruct (status =? 200)%Z; reflexivity. Qed.

  (* a response object exists only for a 200 reply whose body decodes *)
  Theorem client_bytes_response_inv status body d :
    client_execute_bytes status body = BResponse d -> status = 200%Z /\ decode body = Some d.
  Proof.
    unfold client_execute_bytes. destruct (status =? 200)%Z eqn:E; [|discriminate].
    apply Z.eqb_eq in E. destruct (decode body) as [d'|]; [|discriminate].
    intros H. inversion H. auto.
  Qed.

  (* replies built by the library's encoders from a message *)
  Theorem client_bytes_roundtrip m root blocks :
    wf_ipld (message_ipld m) = true -> in_budget (message_ipld m) = true ->
    roots_ok 1 [root] -> Forall (block_ok mh_digest) blocks ->
    tbl_get (tbl_of blocks) root = Some (message_bytes m) ->
    msg_root_ok mh_digest root (message_bytes m) ->
    client_execute_bytes 200 (car_encode [root] blocks)
    = BResponse (mkDecoded root (canon_msg m) (run_puts bstr bstr beq blocks)).
  Proof.
    intros W B R F G I. unfold client_execute_bytes. change (200 =? 200)%Z with true. cbv iota.
    rewrite (decode_message_roundtrip mh_digest hdr_oracle m root blocks W B R F G I). reflexivity.
  Qed.

  (* the reply to an empty batch (no report): every lookup answers "not found" *)
  Theorem client_bytes_no_report m root blocks :
    wf_ipld (message_ipld m) = true -> in_budget (message_ipld m) = true ->
    roots_ok 1 [root] -> Forall (block_ok mh_digest) blocks ->
    tbl_get (tbl_of blocks) root = Some (message_bytes m) ->
    msg_root_ok mh_digest root (message_bytes m) ->
    m_report m = None ->
    exists d, client_execute_bytes 200 (car_encode [root] blocks) = BResponse d /\
              (forall l, get_bytes (d_msg d) l = Ret None) /\ receipts_bytes (d_msg d) = Ret [].
  Proof.
    intros W B R F G I NR. eexists. split; [exact (client_bytes_roundtrip m root blocks W B R F G I)|].
    cbn [d_msg]. unfold get_bytes, receipts_bytes, canon_msg. cbn [m_report]. rewrite NR. cbn [option_map].
    split; [intros l|]; reflexivity.
  Qed.

  (* --- refinement: the byte-level client IS coq/Client.v on the decoded view ----------- *)

  Section Refine.
    (* Client.v names links and report keys by numbers; any injective numbering of keys will do *)
    Variable kid : bstr -> N.
    Variable lid : bstr -> N.
    Hypothesis kid_inj : forall a b, kid a = kid b -> a = b.

    Definition abs_report (m : amsg) : Client.report :=
      option_map (fun r => map (fun kv => (kid (fst kv), lid (snd kv))) (report_view r)) (m_report m).

    Definition abs_result (r : bytes_result) : Client.client_result :=
      match r with BError => Client.CError | BResponse d => Client.CResponse (abs_report (d_msg d)) end.

    (* the decoded view of a body: is its first root a present, decodable message, and its report *)
    Definition view_is_message (body : bstr) : bool :=
      match decode body with Some _ => true | None => false end.
    Definition view_report (body : bstr) : Client.report :=
      match decode body with Some d => abs_report (d_msg d) | None => None end.

    Theorem client_bytes_refines status body :
      abs_result (client_execute_bytes status body)
      = Client.client_execute status (view_is_message body) (view_report body).
    Proof.
      unfold client_execute_bytes, Client.client_execute, view_is_message, view_report.
      destruct (status =? 200)%Z; [|reflexivity]. destruct (decode body); reflexivity.
    Qed.

    Lemma alookup_abs k (l : list (bstr * bstr)) :
      alookup (kid k) (map (fun kv => (kid (fst kv), lid (snd kv))) l) = option_map lid (slookup k l).
    Proof.
      induction l as [|[k' v'] l IH]; [reflexivity|]. cbn [map alookup slookup fst snd].
      destruct (beq k k') eqn:B.
      - apply beq_eq in B. subst. rewrite N.eqb_refl. reflexivity.
      - destruct (kid k =? kid k') eqn:E; [|exact IH].
        apply N.eqb_eq in E. apply kid_inj in E. subst. rewrite beq_refl in B. discriminate.
    Qed.

    Theorem get_bytes_refines m l :
      exists o, get_bytes m l = Ret o /\
                Client.get (abs_report m) (kid (cid_string l)) = Ret (option_map lid o).
    Proof.
      unfold get_bytes, Client.get, abs_report. destruct (m_report m) as [r|]; cbn [option_map].
      - eexists. split; [reflexivity|]. rewrite alookup_abs. reflexivity.
      - exists None. split; reflexivity.
    Qed.

    Theorem receipts_bytes_refines m :
      exists o, receipts_bytes m = Ret o /\ Client.receipts (abs_report m) = Ret (map lid o).
    Proof.
      unfold receipts_bytes, Client.receipts, abs_report. destruct (m_report m) as [r|]; cbn [option_map].
      - eexists. split; [reflexivity|]. rewrite !map_map. reflexivity.
      - exists []. split; reflexivity.
    Qed.

    (* for replies built from a message: Client.v on exactly that message's (canonical) report *)
    Theorem client_bytes_refines_roundtrip m root blocks :
      wf_ipld (message_ipld m) = true -> in_budget (message_ipld m) = true ->
      roots_ok 1 [root] -> Forall (block_ok mh_digest) blocks ->
      tbl_get (tbl_of blocks) root = Some (message_bytes m) ->
      msg_root_ok mh_digest root (message_bytes m) ->
      abs_result (client_execute_bytes 200 (car_encode [root] blocks))
      = Client.client_execute 200 true (abs_report (canon_msg m)).
    Proof.
      intros W B R F G I. rewrite (client_bytes_roundtrip m root blocks W B R F G I). reflexivity.
    Qed.
  End Refine.
End ClientBytes.

(* an injective numbering of byte strings exists (so the refinement is not vacuous) *)
Fixpoint bstr_code (s : bstr) : N :=
  match s with [] => 0 | b :: r => 2 ^ b * (2 * bstr_code r + 1) end.

Lemma pow2_odd_inj a b x y : 2 ^ a * (2 * x + 1) = 2 ^ b * (2 * y + 1) -> a = b /\ x = y.
Proof.
  assert (G : forall a b x y, a < b -> 2 ^ a * (2 * x + 1) <> 2 ^ b * (2 * y + 1)).
  { clear. intros a b x y L E. replace b with (a + (b - a)) in E by lia.
    rewrite N.pow_add_r, <- N.mul_assoc in E. apply N.mul_cancel_l in E; [|apply N.pow_nonzero; lia].
    replace (b - a) with (N.succ (b - a - 1)) in E by lia. rewrite N.pow_succ_r' in E. lia. }
  intros E. destruct (N.lt_trichotomy a b) as [L|[L|L]].
  - exfalso. exact (G _ _ _ _ L E).
  - subst. apply N.mul_cancel_l in E; [|apply N.pow_nonzero; lia]. split; [reflexivity|lia].
  - exfalso. symmetry in E. exact (G _ _ _ _ L E).
Qed.

Lemma bstr_code_inj a b : bstr_code a = bstr_code b -> a = b.
Proof.
  revert b. induction a as [|x a IH]; intros [|y b]; cbn [bstr_code]; intros E.
  - reflexivity.
  - exfalso. symmetry in E. apply N.eq_mul_0 in E. destruct E as [E|E]; [|lia].
    apply N.pow_nonzero in E; [exact E|lia].
  - exfalso. apply N.eq_mul_0 in E. destruct E as [E|E]; [|lia].
    apply N.pow_nonzero in E; [exact E|lia].
  - apply pow2_odd_inj in E. destruct E as [-> E]. f_equal. apply IH. exact E.
Qed.

(* ================================================================== *)
(* 6. server.Handle's 400 decision made concrete (C20 / C11)            *)

Section ServerBytes.
  Variable mh_digest : N -> N -> bstr -> option bstr.
  Variable hdr_oracle : bstr -> option (list bstr * N).
  Variable call : Type.
  (* server.Execute on a decoded request: handler calls and the reply message, or an error *)
  Variable execute : decoded -> list call * option decoded.
  Notation decode := (decode_message mh_digest hdr_oracle).

  (* what the selected codec's Decode (request.Decode) makes of the request body *)
  Definition request_body (b : bstr) : Http.body decoded :=
    match decode b with Some d => Http.Decodes d | None => Http.Undecodable end.

  Definition handle_bytes (cts accs : list bstr) (b : bstr) : Http.reply decoded * list call :=
    Http.handle decoded call execute cts accs (request_body b).

  Theorem handle_bytes_400 cts accs b :
    Http.hget cts = Http.car_type -> Http.admits_spec (Http.hjoin accs) -> decode b = None ->
    handle_bytes cts accs b = (Http.Response 400%Z None None, []).
  Proof.
    intros H A D. unfold handle_bytes, request_body. rewrite D. apply Http.handle_400; assumption.
  Qed.

  Theorem handle_bytes_200 cts accs b d calls r :
    Http.hget cts = Http.car_type -> Http.admits_spec (Http.hjoin accs) ->
    decode b = Some d -> execute d = (calls, Some r) ->
    handle_bytes cts accs b = (Http.Response 200%Z (Some Http.car_type) (Some r), calls).
  Proof.
    intros H A D E. unfold handle_bytes, request_body. rewrite D. apply Http.handle_200; assumption.
  Qed.

  (* if any handler ran, the headers were acceptable, the body decoded (so it is a CAR whose every
     section is intact and whose first root is a present AgentMessage block), and the calls are
     exactly Execute's on that message *)
  Theorem handle_bytes_calls cts accs b :
    snd (handle_bytes cts accs b) <> [] ->
    Http.hget cts = Http.car_type /\ Http.admits_spec (Http.hjoin accs) /\
    exists d, decode b = Some d /\ snd (handle_bytes cts accs b) = fst (execute d).
  Proof.
    intros Hc. unfold handle_bytes in *.
    destruct (Http.handle_calls decoded call execute cts accs (request_body b) Hc) as [H [A [d [E S]]]].
    split; [exact H|]. split; [exact A|]. exists d. split; [|exact S].
    unfold request_body in E. destruct (decode b) as [d'|]; [|discriminate]. inversion E. reflexivity.
  Qed.

  (* a request built by the library's encoder from a message is decoded to that message *)
  Theorem handle_bytes_roundtrip cts accs m root blocks calls r :
    Http.hget cts = Http.car_type -> Http.admits_spec (Http.hjoin accs) ->
    wf_ipld (message_ipld m) = true -> in_budget (message_ipld m) = true ->
    roots_ok 1 [root] -> Forall (block_ok mh_digest) blocks ->
    tbl_get (tbl_of blocks) root = Some (message_bytes m) ->
    msg_root_ok mh_digest root (message_bytes m) ->
    execute (mkDecoded root (canon_msg m) (run_puts bstr bstr beq blocks)) = (calls, Some r) ->
    handle_bytes cts accs (car_encode [root] blocks)
    = (Http.Response 200%Z (Some Http.car_type) (Some r), calls).
  Proof.
    intros H A W B R F G I E. eapply handle_bytes_200; try eassumption.
    apply decode_message_roundtrip; assumption.
  Qed.

  (* a body with one damaged section is refused with 400 and runs nothing *)
  Theorem handle_bytes_bad_block cts accs roots bs1 c d' bs2 :
    Http.hget cts = Http.car_type -> Http.admits_spec (Http.hjoin accs) ->
    roots_ok 1 roots -> Forall (block_ok mh_digest) bs1 -> Forall (block_ok mh_digest) bs2 ->
    cid_wf c -> N.of_nat (length (c ++ d')) <= max_section ->
    cid_sum mh_digest (cid_prefix c) d' <> Some c ->
    handle_bytes cts accs (car_encode roots bs1 ++ section (c, d') ++ flat_map section bs2)
    = (Http.Response 400%Z None None, []).
  Proof.
    intros H A R F1 F2 W L NS. apply handle_bytes_400; try assumption.
    unfold decode_message.
    rewrite (decode_message_bad_block mh_digest hdr_oracle roots bs1 c d' bs2 R F1 F2 W L NS). reflexivity.
  Qed.
End ServerBytes.

(* ================================================================== *)
(* 7. the hypotheses are satisfiable; the decision logic on examples    *)
(*    (toy digest of Car.v: any function will do)                       *)

Definition ex_link : bstr := mk_cidv1 113 18 (repeat 7 32).
Definition ex_msg : amsg := mkMsg (Some [ex_link]) (Some [(cid_string ex_link, ex_link)]).
Definition ex_data : bstr := message_bytes ex_msg.
Definition ex_dg : bstr := match toy_digest 18 32 ex_data with Some d => d | None => [] end.
Definition ex_root : bstr := cidv1 113 (mh_encode 18 ex_dg).
Definition ex_mblocks : list block := [ex_b1; (ex_root, ex_data); ex_b1].     (* with a repeated block *)

Example ex_hyps :
  wf_ipld (message_ipld ex_msg) = true /\ in_budget (message_ipld ex_msg) = true /\
  roots_ok 1 [ex_root] /\ Forall (block_ok toy_digest) ex_mblocks /\
  tbl_get (tbl_of ex_mblocks) ex_root = Some (message_bytes ex_msg) /\
  msg_root_ok toy_digest ex_root (message_bytes ex_msg).
Proof.
  assert (W : cid_wf ex_root).
  { unfold ex_root. apply (wf_v1 113 18 ex_dg); [reflexivity | reflexivity | vm_compute; discriminate]. }
  assert (B1 : block_ok toy_digest ex_b1).
  { pose proof ex_blocks_ok as F. inversion F. assumption. }
  assert (BR : block_ok toy_digest (ex_root, ex_data)).
  { split; [exact W|]. split; vm_compute; [reflexivity|discriminate]. }
  split; [vm_compute; reflexivity|]. split; [vm_compute; reflexivity|].
  split. { split; [apply Forall_cons; [exact W|apply Forall_nil] | vm_compute; discriminate]. }
  split. { unfold ex_mblocks. repeat (apply Forall_cons; [assumption|]). apply Forall_nil. }
  split; [vm_compute; reflexivity|].
  exists ex_dg. split; vm_compute; reflexivity.
Qed.

Example ex_message_roundtrip :
  decode_message toy_digest (fun _ => None) (car_encode [ex_root] ex_mblocks)
  = Some (mkDecoded ex_root (canon_msg ex_msg) (run_puts bstr bstr beq ex_mblocks)).
Proof. vm_compute. reflexivity. Qed.

Example ex_get_found : get_bytes (canon_msg ex_msg) ex_link = Ret (Some ex_link).
Proof. vm_compute. reflexivity. Qed.
Example ex_get_other : get_bytes (canon_msg ex_msg) ex_root = Ret None.
Proof. vm_compute. reflexivity. Qed.

(* a reply whose root block is a given dag-cbor value (toy digest) *)
Definition ex_reply_of (data : bstr) : bstr :=
  let dg := match toy_digest 18 32 data with Some d => d | None => [] end in
  let root := cidv1 113 (mh_encode 18 dg) in
  car_encode [root] [(root, data)].

Definition ex_class (body : bstr) : N :=
  match decode_message_r toy_digest (fun _ => None) body with
  | inl _ => 0 | inr FHeader => 1 | inr FBlock => 2 | inr FNoRoots => 3
  | inr FRootMissing => 4 | inr FNotMessage => 5 | inr FIntegrity => 6
  end.

Definition ex_entry (k : bstr) (v : bstr) : bstr := Cbor.head 3 (len k) ++ k ++ v.
Definition ex_link_item : bstr := cbor_encode (ILink ex_link).

Example ex_decisions :
  map ex_class
    [ ex_reply_of (Cbor.head 5 1 ++ ex_entry k_msg7 [160])                                 (* {msg7: {}} *)
    ; ex_reply_of [160]                                                                    (* {} *)
    ; ex_reply_of (Cbor.head 5 1 ++ ex_entry (bs "ucanto/message@8.0.0") [160])            (* other key *)
    ; ex_reply_of (Cbor.head 5 2 ++ ex_entry k_msg7 [160] ++ ex_entry (bs "x") [160])      (* extra key *)
    ; ex_reply_of (Cbor.head 5 2 ++ ex_entry k_msg7 [160] ++ ex_entry k_msg7 [160])        (* key twice *)
    ; ex_reply_of (Cbor.head 5 1 ++ ex_entry k_msg7 (Cbor.head 5 1 ++ ex_entry (bs "x") [1]))        (* unknown field *)
    ; ex_reply_of (Cbor.head 5 1 ++ ex_entry k_msg7 (Cbor.head 5 1 ++ ex_entry k_execute [1]))       (* execute: int *)
    ; ex_reply_of (Cbor.head 5 1 ++ ex_entry k_msg7 (Cbor.head 5 1 ++ ex_entry k_execute [129; 246])) (* [null] *)
    ; ex_reply_of (Cbor.head 5 1 ++ ex_entry k_msg7 (Cbor.head 5 1 ++ ex_entry k_report [128]))      (* report: list *)
    ; ex_reply_of [128]; ex_reply_of [1]; ex_reply_of []                                   (* list, int, empty *)
    ; car_encode [] [ex_b1]                                                                (* no roots *)
    ; car_encode [ex_root] [ex_b1]                                                         (* root block absent *)
    ; car_encode [fst ex_b1] [ex_b1]                                                       (* identity-CID root, raw bytes *)
    ; (let d := Cbor.head 5 1 ++ ex_entry k_msg7 [160] in
       let c := cidv1 113 (mh_encode 0 d) in car_encode [c] [(c, d)])                      (* message under an identity CID *)
    ; firstn 40 (car_encode [ex_root] ex_mblocks)                                          (* cut in the header *)
    ; firstn 120 (car_encode [ex_root] ex_mblocks) ]                                       (* cut in a section *)
  = [0; 5; 5; 5; 0; 5; 5; 5; 5; 5; 5; 5; 3; 4; 5; 6; 1; 2].
Proof. vm_compute. reflexivity. Qed.

(* a report with a repeated key: listed twice, both positions show the last value *)
Example ex_repeated_key :
  let k := cid_string ex_link in
  let data := Cbor.head 5 1 ++ ex_entry k_msg7 (Cbor.head 5 1 ++ ex_entry k_report
                (Cbor.head 5 2 ++ ex_entry k ex_link_item ++ ex_entry k (cbor_encode (ILink (fst ex_b2))))) in
  match message_decode_typed data with
  | Some m => get_bytes m ex_link = Ret (Some (fst ex_b2)) /\ receipts_bytes m = Ret [fst ex_b2; fst ex_b2]
  | None => False
  end
  /\ message_decode data = None.     (* the duplicate-checking reader of MessageFormat.v refuses it *)
Proof. vm_compute. repeat split; reflexivity. Qed.
