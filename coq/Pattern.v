(* Pattern.v — validator/capability.go: ResolveAbility, ResolveResource,
   DefaultDerives (on the two resource strings). *)
From Ucanto Require Import Base.
Open Scope N_scope.

Definition star : bstr := [42].                 (* "*"  *)
Definition slash : bstr := [47].                (* "/"  *)
Definition slash_star : bstr := [47; 42].       (* "/*" *)
Definition ucan_star : bstr := [117; 99; 97; 110; 58; 42].   (* "ucan:*" *)

(* ResolveAbility(pattern, can): can when the pattern grants it, "" otherwise *)
Definition resolve_ability (pattern can : bstr) : bstr :=
  if beq pattern can || beq pattern star then can
  else if suffixb slash_star pattern && prefixb (removelast pattern) can then can
  else [].

(* ResolveResource(source, uri) *)
Definition resolve_resource (source uri : bstr) : bstr :=
  if beq source uri || beq source ucan_star then uri else [].

(* DefaultDerives(claimed, delegated) = nil, on the resources *)
Definition default_derives (cwith dwith : bstr) : bool :=
  if suffixb star dwith then prefixb (removelast dwith) cwith
  else beq dwith cwith.

(* ------------------------------------------------------------------ *)

Lemma resolve_ability_range pattern can :
  resolve_ability pattern can = can \/ resolve_ability pattern can = [].
Proof.
  unfold resolve_ability.
  destruct (beq pattern can || beq pattern star); [left; reflexivity|].
  destruct (suffixb slash_star pattern && prefixb (removelast pattern) can); auto.
Qed.

Lemma removelast_slash_star p : removelast (p ++ slash_star) = p ++ slash.
Proof.
  unfold slash_star, slash.
  change [47; 42] with ([47] ++ [42]). rewrite app_assoc. apply removelast_app_one.
Qed.

Definition ability_grants (pattern can : bstr) : Prop :=
  pattern = can \/ pattern = star \/
  exists p r, pattern = p ++ slash_star /\ can = p ++ slash ++ r.

Lemma resolve_ability_grants pattern can :
  can <> [] -> (resolve_ability pattern can = can <-> ability_grants pattern can).
Proof.
  intros Hne. unfold resolve_ability, ability_grants.
  destruct (beq pattern can) eqn:E1; simpl.
  { apply beq_eq in E1. split; auto. }
  destruct (beq pattern star) eqn:E2; simpl.
  { apply beq_eq in E2. split; auto. }
  apply beq_neq in E1. apply beq_neq in E2.
  destruct (suffixb slash_star pattern) eqn:S; simpl.
  - apply suffixb_spec in S. destruct S as [p ->].
    rewrite removelast_slash_star.
    destruct (prefixb (p ++ slash) can) eqn:P.
    + apply prefixb_spec in P. destruct P as [r ->]. split; [intros _|reflexivity].
      right; right. exists p, r. rewrite <- app_assoc. auto.
    + split; [intros H; symmetry in H; contradiction|].
      intros [H|[H|[p' [r [H1 H2]]]]]; try contradiction.
      apply app_inv_tail in H1. subst p'.
      assert (prefixb (p ++ slash) can = true)
        by (apply prefixb_spec; exists r; rewrite <- app_assoc; exact H2).
      congruence.
  - split; [intros H; symmetry in H; contradiction|].
    intros [H|[H|[p [r [H1 H2]]]]]; try contradiction.
    assert (suffixb slash_star pattern = true) by (apply suffixb_spec; exists p; exact H1).
    congruence.
Qed.

Definition resource_grants (source uri : bstr) : Prop :=
  source = uri \/ source = ucan_star.

Lemma resolve_resource_range source uri :
  resolve_resource source uri = uri \/ resolve_resource source uri = [].
Proof. unfold resolve_resource. destruct (beq source uri || beq source ucan_star); auto. Qed.

Lemma resolve_resource_grants source uri :
  uri <> [] -> (resolve_resource source uri = uri <-> resource_grants source uri).
Proof.
  intros Hne. unfold resolve_resource, resource_grants.
  destruct (beq source uri) eqn:E1; simpl.
  { apply beq_eq in E1. split; auto. }
  destruct (beq source ucan_star) eqn:E2; simpl.
  { apply beq_eq in E2. split; auto. }
  apply beq_neq in E1. apply beq_neq in E2.
  split; [intros H; symmetry in H; contradiction | intros [H|H]; contradiction].
Qed.

Definition derives_grants (cwith dwith : bstr) : Prop :=
  dwith = cwith \/ exists p, dwith = p ++ star /\ exists r, cwith = p ++ r.

Lemma default_derives_grants cwith dwith :
  default_derives cwith dwith = true <-> derives_grants cwith dwith.
Proof.
  unfold default_derives, derives_grants.
  destruct (suffixb star dwith) eqn:S.
  - apply suffixb_spec in S. destruct S as [p ->]. unfold star at 1.
    rewrite removelast_app_one, prefixb_spec. split.
    + intros [r H]. right. exists p. split; [reflexivity | exists r; exact H].
    + intros [H|[p' [H [r Hr]]]].
      * exists star. symmetry. exact H.
      * apply app_inv_tail in H. subst p'. exists r. exact Hr.
  - rewrite beq_eq. split; [auto|].
    intros [H|[p [H _]]]; [exact H|].
    assert (suffixb star dwith = true) by (apply suffixb_spec; exists p; exact H).
    congruence.
Qed.

(* the corners the property names *)
Example no_partial_segment :
  resolve_ability (bs "store/*") (bs "storefront/add") = [].
Proof. reflexivity. Qed.
Example no_case_fold : resolve_ability (bs "Store/*") (bs "store/add") = [].
Proof. reflexivity. Qed.
Example no_substring : resolve_ability (bs "tore/*") (bs "store/add") = [].
Proof. reflexivity. Qed.
Example resource_no_prefix : resolve_resource (bs "did:*") (bs "did:key:zAlice") = [].
Proof. reflexivity. Qed.
Example grants_nonvacuous :
  ability_grants (bs "store/*") (bs "store/add") /\ bs "store/add" <> [].
Proof.
  split; [|discriminate]. right; right. exists (bs "store"), (bs "add"). split; reflexivity.
Qed.
