(* Crypto.v — principals: Ed25519 / RSA signers and verifiers of
   principal/{ed25519,rsa}/{signer,verifier}, multiformat tagging, Wrap of
   principal/{signer,verifier}, with SYMBOLIC (Dolev-Yao) signatures.

   Byte level (modelled exactly, proved): multicodec tags, length and tag
   checks of Decode, Encode keeping the bytes, DID of a key, Format/Parse
   through the DID string resp. multibase, the algorithm-code gate of Verify,
   Wrap.
   Symbolic (Section hypotheses, the trusted base of this file): the crypto
   libraries (crypto/ed25519, crypto/rsa PKCS#1 v1.5 + SHA-256, crypto/x509
   PKCS#1 parsing).  The multibase codecs are Section variables too, but their
   laws are theorems of the concrete BaseEnc / BaseDec functions (Properties_C14.v
   states everything for those).  A key is an id `k : N` of an
   algorithm; `raw_sig a k m` is THE signature of m under k (both schemes are
   deterministic), accepted by `raw_verify` for k's public key only
   (unforgeability + uniqueness) and injective in (k, m). *)
From Ucanto Require Import Base Varint VarintMore Sig Did.
From Coq Require Import ZifyBool ZifyN ZifyNat.
Open Scope N_scope.

Inductive alg := Ed25519 | RSA.

Definition alg_eqb (a b : alg) : bool :=
  match a, b with Ed25519, Ed25519 | RSA, RSA => true | _, _ => false end.

Definition pub_code (a : alg) : N := match a with Ed25519 => 237 | RSA => 4613 end.        (* 0xed, 0x1205 *)
Definition priv_code (a : alg) : N := match a with Ed25519 => 4864 | RSA => 4869 end.      (* 0x1300, 0x1305 *)
Definition sig_alg_code (a : alg) : N := match a with Ed25519 => 53485 | RSA => 13636101 end. (* 0xd0ed EdDSA, 0xd01205 RS256 *)

Lemma sig_alg_code_inj a b : sig_alg_code a = sig_alg_code b -> a = b.
Proof. destruct a, b; cbn; intros H; try reflexivity; discriminate. Qed.
Lemma sig_alg_code_lt a : sig_alg_code a < 2 ^ 63.
Proof. destruct a; reflexivity. Qed.
Lemma pub_code_lt a : pub_code a < 2 ^ 63.
Proof. destruct a; reflexivity. Qed.
Lemma priv_code_lt a : priv_code a < 2 ^ 63.
Proof. destruct a; reflexivity. Qed.
Lemma pub_code_size a : uvarint_size (pub_code a) = 2%nat.
Proof. destruct a; reflexivity. Qed.
Lemma priv_code_size a : uvarint_size (priv_code a) = 2%nat.
Proof. destruct a; reflexivity. Qed.

(* multiformat.TagWith / UntagWith (offset 0).  UntagWith slices b[size:] after
   a successful read of a tag equal to `code`; the reader consumed exactly
   UvarintSize(code) bytes (minimal encoding), so the slice is in range —
   untag_in_range below. *)
Definition tag_with (code : N) (b : bstr) : bstr := uvarint code ++ b.
Definition untag_with (code : N) (b : bstr) : option bstr :=
  match from_uvarint b with
  | inr (t, _) => if t =? code then Some (skipn (uvarint_size code) b) else None
  | inl _ => None
  end.

Lemma untag_tag code b : code < 2 ^ 63 -> untag_with code (tag_with code b) = Some b.
Proof.
  intros H. unfold untag_with, tag_with. rewrite from_uvarint_uvarint by exact H.
  rewrite N.eqb_refl. unfold uvarint_size.
  rewrite skipn_app, skipn_all, Nat.sub_diag. reflexivity.
Qed.

Lemma untag_in_range code b u :
  bytes_ok b -> untag_with code b = Some u -> (uvarint_size code <= length b)%nat /\ b = tag_with code u.
Proof.
  intros Hb H. unfold untag_with in H.
  destruct (from_uvarint b) as [e|[t k]] eqn:E; [discriminate|].
  destruct (t =? code) eqn:Et; [|discriminate]. apply N.eqb_eq in Et. subst t.
  inversion H; subst u; clear H.
  apply from_uvarint_canonical in E; [|exact Hb].
  destruct E as [_ [-> [Hle E]]]. split; [exact Hle|]. exact E.
Qed.

Lemma skipn_app_exact {A} (a b : list A) n : length a = n -> skipn n (a ++ b) = b.
Proof. intros <-. rewrite skipn_app, skipn_all, Nat.sub_diag. reflexivity. Qed.
Lemma firstn_app_exact {A} (a b : list A) n : length a = n -> firstn n (a ++ b) = a.
Proof. intros <-. rewrite firstn_app, firstn_all, Nat.sub_diag. cbn. apply app_nil_r. Qed.

(* a verifier: Ed25519Verifier (the tagged bytes) / rsaverifier{bytes, pubKey} /
   wrapvf{id, key} — the DID is its own field so that Wrap is expressible *)
Record verifier := mkver { v_alg : alg; v_bytes : bstr; v_did : did }.
(* a signer: Ed25519Signer (68 bytes) / rsasigner{bytes, privKey, verifier} / wrapsgn{key, verifier} *)
Record signer := mksig { s_alg : alg; s_bytes : bstr; s_ver : verifier }.

(* `id, _ := did.Decode(b)` *)
Definition did_of_bytes (b : bstr) : did :=
  match did_decode b with Some d => d | None => did_undef end.

Section Crypto.
  (* ---- oracles: third-party codecs ---- *)
  Variable b58enc : bstr -> bstr.
  Variable b58dec : bstr -> option bstr.
  Hypothesis b58dec_bytes : forall s b, b58dec s = Some b -> bytes_ok b.
  Hypothesis b58_roundtrip : forall b, bytes_ok b -> b <> [] -> b58dec (b58enc b) = Some b.
  (* multibase.Encode(Base64pad, .) and multibase.Decode (any base) *)
  Variable mb64enc : bstr -> bstr.
  Variable mbdec : bstr -> option bstr.
  Hypothesis mb_roundtrip : forall b, bytes_ok b -> mbdec (mb64enc b) = Some b.
  (* x509.ParsePKCS1PublicKey succeeds / ParsePKCS1PrivateKey succeeds and the
     public half re-marshals (MarshalPKCS1PublicKey) to these bytes *)
  Variable pkcs1_pub_ok : bstr -> bool.
  Variable pkcs1_priv_pub : bstr -> option bstr.
  (* ---- oracles: crypto libraries, on key material bytes ---- *)
  Variable raw_verify : alg -> bstr -> bstr -> bstr -> bool.   (* alg, public key, message, raw signature *)
  Variable sign_bytes : alg -> bstr -> bstr -> bstr.           (* alg, private key material, message *)

  Notation did_to_string := (did_to_string b58enc).
  Notation did_to_string_v := (did_to_string_v b58enc).
  Notation did_parse := (did_parse b58dec).

  (* ---------------------------------------------------------------- *)
  (* verifiers                                                          *)

  (* {ed25519,rsa}/verifier.Decode *)
  Definition verifier_decode (a : alg) (b : bstr) : option verifier :=
    match a with
    | Ed25519 =>
      if negb (length b =? 34)%nat then None
      else match from_uvarint b with
           | inr (c, _) => if c =? pub_code Ed25519 then Some (mkver Ed25519 b (did_of_bytes b)) else None
           | inl _ => None
           end
    | RSA =>
      match untag_with (pub_code RSA) b with
      | Some utb => if pkcs1_pub_ok utb then Some (mkver RSA b (did_of_bytes b)) else None
      | None => None
      end
    end.

  Definition verifier_encode (v : verifier) : bstr := v_bytes v.
  (* the public key material Verify hands to the crypto library:
     v[publicTagSize:] resp. the key parsed from b[size:] *)
  Definition verifier_key (v : verifier) : bstr := skipn (uvarint_size (pub_code (v_alg v))) (v_bytes v).

  (* Verify: algorithm-code gate, then the library's verification of sig.Raw() *)
  Definition verifier_verify (v : verifier) (msg sig : bstr) : outcome bool :=
    if sig_code sig =? sig_alg_code (v_alg v)
    then bind (sig_size sig) (fun n => bind (sig_raw sig) (fun r =>
           (* the declared size must be the size of the raw signature that follows *)
           if n =? N.of_nat (length r) then Ret (raw_verify (v_alg v) (verifier_key v) msg r) else Ret false))
    else Ret false.

  (* verifier.Parse(str) = Decode(did.Parse(str).Bytes());  v.DID().String() *)
  Definition verifier_parse (a : alg) (str : bstr) : option verifier :=
    match did_parse str with Some d => verifier_decode a (did_bytes d) | None => None end.
  Definition verifier_format (v : verifier) : outcome bstr := did_to_string (v_did v).

  (* principal/verifier.Wrap *)
  Definition verifier_wrap (v : verifier) (id : did) : outcome (option verifier) :=
    bind (did_to_string (v_did v)) (fun s =>
      Ret (if prefixb pfx_did_key s then Some (mkver (v_alg v) (v_bytes v) id) else None)).

  (* ---------------------------------------------------------------- *)
  (* signers                                                            *)

  Definition signer_decode (a : alg) (b : bstr) : option signer :=
    match a with
    | Ed25519 =>
      if negb (length b =? 68)%nat then None
      else match from_uvarint b with
           | inr (c, _) =>
             if c =? priv_code Ed25519 then
               match from_uvarint (skipn 34 b) with        (* b[pubKeyOffset:], in range: len = 68 *)
               | inr (c', _) =>
                 if c' =? pub_code Ed25519 then
                   match verifier_decode Ed25519 (skipn 34 b) with
                   | Some v => Some (mksig Ed25519 b v)
                   | None => None
                   end
                 else None
               | inl _ => None
               end
             else None
           | inl _ => None
           end
    | RSA =>
      match untag_with (priv_code RSA) b with
      | Some utb =>
        match pkcs1_priv_pub utb with
        | Some pubder =>
          match verifier_decode RSA (tag_with (pub_code RSA) pubder) with
          | Some v => Some (mksig RSA b v)
          | None => None
          end
        | None => None
        end
      | None => None
      end
    end.

  Definition signer_encode (s : signer) : bstr := s_bytes s.
  Definition signer_did (s : signer) : did := v_did (s_ver s).
  Definition signer_verifier (s : signer) : verifier := s_ver s.

  (* the private key material Sign hands to the crypto library:
     Ed25519Signer.Raw() = seed ++ public key;  the RSA key parsed from b[size:] *)
  Definition signer_material (s : signer) : bstr :=
    match s_alg s with
    | Ed25519 => firstn 32 (skipn 2 (s_bytes s)) ++ firstn 32 (skipn 36 (s_bytes s))
    | RSA => skipn 2 (s_bytes s)
    end.

  Definition signer_sign (s : signer) (msg : bstr) : bstr :=
    new_signature (sig_alg_code (s_alg s)) (sign_bytes (s_alg s) (signer_material s) msg).

  (* signer.Format / signer.Parse *)
  Definition signer_format (s : signer) : bstr := mb64enc (signer_encode s).
  Definition signer_parse (a : alg) (str : bstr) : option signer :=
    match mbdec str with Some b => signer_decode a b | None => None end.

  (* principal/signer.Wrap *)
  Definition signer_wrap (s : signer) (id : did) : outcome (option signer) :=
    bind (did_to_string (signer_did s)) (fun str =>
      if prefixb pfx_did_key str then
        bind (verifier_wrap (s_ver s) id) (fun ov =>
          Ret (match ov with Some w => Some (mksig (s_alg s) (s_bytes s) w) | None => None end))
      else Ret None).

  (* ---------------------------------------------------------------- *)
  (* byte-level facts that hold for EVERY decoded principal             *)

  Theorem verifier_roundtrip a b v :
    verifier_decode a b = Some v ->
    verifier_encode v = b /\ v_alg v = a /\ verifier_decode a (verifier_encode v) = Some v.
  Proof.
    intros H. assert (E : v_bytes v = b /\ v_alg v = a).
    { unfold verifier_decode in H. destruct a.
      - destruct (negb (length b =? 34)%nat); [discriminate|].
        destruct (from_uvarint b) as [e|[c k]]; [discriminate|].
        destruct (c =? pub_code Ed25519); [|discriminate]. inversion H; auto.
      - destruct (untag_with (pub_code RSA) b); [|discriminate].
        destruct (pkcs1_pub_ok b0); [|discriminate]. inversion H; auto. }
    destruct E as [E1 E2]. unfold verifier_encode. rewrite E1. auto.
  Qed.

  (* a decoded verifier's DID is the did:key over exactly its bytes: an
     Ed25519 verifier never comes out of RSA-tagged bytes and vice versa *)
  Theorem verifier_decode_did a b v :
    verifier_decode a b = Some v ->
    v_did v = mkdid true b /\ did_wf (v_did v) = true /\
    exists k, from_uvarint b = inr (pub_code a, k).
  Proof.
    intros H. unfold verifier_decode in H. destruct a.
    - destruct (negb (length b =? 34)%nat); [discriminate|].
      destruct (from_uvarint b) as [e|[c k]] eqn:E; [discriminate|].
      destruct (c =? pub_code Ed25519) eqn:Ec; [|discriminate]. apply N.eqb_eq in Ec. subst c.
      inversion H; subst v; clear H. cbn [v_did].
      assert (D : did_of_bytes b = mkdid true b).
      { unfold did_of_bytes, did_decode. rewrite E. reflexivity. }
      rewrite D. unfold did_wf. cbn [dkey dstr]. rewrite E. repeat split. exists k. reflexivity.
    - unfold untag_with in H.
      destruct (from_uvarint b) as [e|[c k]] eqn:E; [discriminate|].
      destruct (c =? pub_code RSA) eqn:Ec; [|discriminate]. apply N.eqb_eq in Ec. subst c.
      destruct (pkcs1_pub_ok _); [|discriminate].
      inversion H; subst v; clear H. cbn [v_did].
      assert (D : did_of_bytes b = mkdid true b).
      { unfold did_of_bytes, did_decode. rewrite E. reflexivity. }
      rewrite D. unfold did_wf. cbn [dkey dstr]. rewrite E. repeat split. exists k. reflexivity.
  Qed.

  (* Format / Parse of any decoded verifier: Parse(v.DID().String()) = v *)
  Theorem verifier_format_parse a b v :
    bytes_ok b -> verifier_decode a b = Some v ->
    exists s, verifier_format v = Ret s /\ verifier_parse a s = Some v.
  Proof.
    intros Hb H. pose proof (verifier_decode_did a b v H) as [Hd [Hwf _]].
    exists (did_to_string_v (v_did v)). split; [apply did_to_string_total|].
    unfold verifier_parse. unfold Did.did_parse.
    fold (Did.did_parse b58dec). rewrite (did_string_roundtrip b58enc b58dec b58_roundtrip).
    - rewrite Hd. cbn [did_bytes dstr]. exact H.
    - exact Hwf.
    - intros _. rewrite Hd. exact Hb.
  Qed.

  Theorem signer_roundtrip a b s :
    signer_decode a b = Some s ->
    signer_encode s = b /\ s_alg s = a /\ signer_decode a (signer_encode s) = Some s.
  Proof.
    intros H. assert (E : s_bytes s = b /\ s_alg s = a).
    { unfold signer_decode in H. destruct a.
      - destruct (negb (length b =? 68)%nat); [discriminate|].
        destruct (from_uvarint b) as [e|[c k]]; [discriminate|].
        destruct (c =? priv_code Ed25519); [|discriminate].
        destruct (from_uvarint (skipn 34 b)) as [e|[c' k']]; [discriminate|].
        destruct (c' =? pub_code Ed25519); [|discriminate].
        destruct (verifier_decode Ed25519 (skipn 34 b)); [|discriminate]. inversion H; auto.
      - destruct (untag_with (priv_code RSA) b); [|discriminate].
        destruct (pkcs1_priv_pub b0); [|discriminate].
        destruct (verifier_decode RSA _); [|discriminate]. inversion H; auto. }
    destruct E as [E1 E2]. unfold signer_encode. rewrite E1. auto.
  Qed.

  Theorem signer_format_parse a b s :
    bytes_ok b -> signer_decode a b = Some s -> signer_parse a (signer_format s) = Some s.
  Proof.
    intros Hb H. unfold signer_parse, signer_format.
    apply signer_roundtrip in H. destruct H as [E [_ H]].
    rewrite mb_roundtrip by (rewrite E; exact Hb). exact H.
  Qed.

  (* a decoded signer's verifier is a decoded verifier (so its DID is a did:key) *)
  Lemma signer_decode_verifier a b s :
    signer_decode a b = Some s -> exists vb, verifier_decode a vb = Some (s_ver s).
  Proof.
    intros H. unfold signer_decode in H. destruct a.
    - destruct (negb (length b =? 68)%nat); [discriminate|].
      destruct (from_uvarint b) as [e|[c k]]; [discriminate|].
      destruct (c =? priv_code Ed25519); [|discriminate].
      destruct (from_uvarint (skipn 34 b)) as [e|[c' k']]; [discriminate|].
      destruct (c' =? pub_code Ed25519); [|discriminate].
      destruct (verifier_decode Ed25519 (skipn 34 b)) eqn:V; [|discriminate].
      inversion H; subst s. exists (skipn 34 b). exact V.
    - destruct (untag_with (priv_code RSA) b); [|discriminate].
      destruct (pkcs1_priv_pub b0); [|discriminate].
      destruct (verifier_decode RSA (tag_with (pub_code RSA) b1)) eqn:V; [|discriminate].
      inversion H; subst s. eexists. exact V.
  Qed.

  (* Verify is total: no signature bytes make it panic (after the Raw() repair) *)
  Theorem verifier_verify_total v msg sig : exists r, verifier_verify v msg sig = Ret r.
  Proof.
    unfold verifier_verify. destruct (sig_code sig =? _); [|eexists; reflexivity].
    rewrite sig_size_total, sig_raw_total. cbn [bind]. destruct (_ =? _); eexists; reflexivity.
  Qed.

  (* Wrap changes only the DID *)
  Theorem verifier_wrap_spec v id w :
    verifier_wrap v id = Ret (Some w) ->
    v_did w = id /\ v_alg w = v_alg v /\ verifier_encode w = verifier_encode v /\
    forall msg sig, verifier_verify w msg sig = verifier_verify v msg sig.
  Proof.
    unfold verifier_wrap. rewrite did_to_string_total. cbn [bind]. intros H.
    destruct (prefixb pfx_did_key _); inversion H; subst w. repeat split.
  Qed.

  Theorem verifier_wrap_key v id :
    dkey (v_did v) = true -> verifier_wrap v id = Ret (Some (mkver (v_alg v) (v_bytes v) id)).
  Proof.
    intros H. unfold verifier_wrap. rewrite did_to_string_total. cbn [bind].
    rewrite did_key_string by exact H. reflexivity.
  Qed.

  (* ... and is refused for a verifier whose DID is not a did:key *)
  Theorem verifier_wrap_nonkey v id :
    did_wf (v_did v) = true -> dkey (v_did v) = false -> verifier_wrap v id = Ret None.
  Proof.
    intros Hw H. unfold verifier_wrap. rewrite did_to_string_total. cbn [bind].
    rewrite did_nonkey_string by assumption. reflexivity.
  Qed.

  Theorem signer_wrap_spec s id w :
    signer_wrap s id = Ret (Some w) ->
    signer_did w = id /\ s_alg w = s_alg s /\ signer_encode w = signer_encode s /\
    (forall msg, signer_sign w msg = signer_sign s msg) /\
    (forall msg sig, verifier_verify (s_ver w) msg sig = verifier_verify (s_ver s) msg sig).
  Proof.
    unfold signer_wrap. rewrite did_to_string_total. cbn [bind]. intros H.
    destruct (prefixb pfx_did_key _); [|discriminate].
    destruct (verifier_wrap (s_ver s) id) as [[w'|]| |] eqn:W; cbn [bind] in H; try discriminate.
    inversion H; subst w; clear H.
    apply verifier_wrap_spec in W. destruct W as [W1 [W2 [W3 W4]]].
    unfold signer_did, signer_encode, signer_sign, signer_material. cbn [s_ver s_alg s_bytes].
    repeat split; auto.
  Qed.

  Theorem signer_wrap_key s id :
    dkey (signer_did s) = true ->
    signer_wrap s id = Ret (Some (mksig (s_alg s) (s_bytes s) (mkver (v_alg (s_ver s)) (v_bytes (s_ver s)) id))).
  Proof.
    intros H. unfold signer_wrap. rewrite did_to_string_total. cbn [bind].
    rewrite did_key_string by exact H.
    rewrite verifier_wrap_key by exact H. reflexivity.
  Qed.

  (* ---------------------------------------------------------------- *)
  (* symbolic keys                                                      *)

  Variable kvalid : alg -> N -> bool.          (* the key ids that name generated keys *)
  Variable pub_bytes : alg -> N -> bstr.       (* Ed25519: 32 bytes; RSA: PKCS#1 DER *)
  Variable priv_bytes : alg -> N -> bstr.      (* Ed25519: 32-byte seed; RSA: PKCS#1 DER *)
  Variable raw_sig : alg -> N -> bstr -> bstr. (* the signature term *)

  Definition priv_material (a : alg) (k : N) : bstr :=
    match a with Ed25519 => priv_bytes Ed25519 k ++ pub_bytes Ed25519 k | RSA => priv_bytes RSA k end.

  (* key material is a byte string *)
  Hypothesis pub_bytes_ok : forall a k, kvalid a k = true -> bytes_ok (pub_bytes a k).
  Hypothesis ed_pub_len : forall k, kvalid Ed25519 k = true -> length (pub_bytes Ed25519 k) = 32%nat.
  Hypothesis ed_priv_len : forall k, kvalid Ed25519 k = true -> length (priv_bytes Ed25519 k) = 32%nat.
  Hypothesis rsa_pub_ok : forall k, kvalid RSA k = true -> pkcs1_pub_ok (pub_bytes RSA k) = true.
  Hypothesis rsa_priv_pub : forall k, kvalid RSA k = true ->
    pkcs1_priv_pub (priv_bytes RSA k) = Some (pub_bytes RSA k).
  (* the library's Sign on k's private material yields the signature term *)
  Hypothesis sign_correct : forall a k m, kvalid a k = true ->
    sign_bytes a (priv_material a k) m = raw_sig a k m.
  (* SYMBOLIC CRYPTO (unforgeability + uniqueness): the library's Verify under
     k's public key accepts exactly k's signature of exactly that message *)
  Hypothesis sig_unforgeable : forall a k m r, kvalid a k = true ->
    (raw_verify a (pub_bytes a k) m r = true <-> r = raw_sig a k m).
  (* signature terms of different keys or messages are different *)
  Hypothesis raw_sig_inj : forall a k k' m m', kvalid a k = true -> kvalid a k' = true ->
    raw_sig a k m = raw_sig a k' m' -> k = k' /\ m = m'.

  (* a signature fits the varint framing (always: 64 resp. 256 bytes) *)
  Definition sig_fits (a : alg) (k : N) (m : bstr) : Prop :=
    N.of_nat (length (raw_sig a k m)) < 2 ^ 63.

  Definition verifier_bytes (a : alg) (k : N) : bstr := tag_with (pub_code a) (pub_bytes a k).
  Definition verifier_of (a : alg) (k : N) : verifier :=
    mkver a (verifier_bytes a k) (mkdid true (verifier_bytes a k)).
  Definition signer_bytes (a : alg) (k : N) : bstr :=
    match a with
    | Ed25519 => tag_with (priv_code Ed25519) (priv_bytes Ed25519 k) ++ verifier_bytes Ed25519 k
    | RSA => tag_with (priv_code RSA) (priv_bytes RSA k)
    end.
  Definition signer_of (a : alg) (k : N) : signer := mksig a (signer_bytes a k) (verifier_of a k).

  Lemma from_uvarint_verifier_bytes a k :
    from_uvarint (verifier_bytes a k) = inr (pub_code a, 2%nat).
  Proof.
    unfold verifier_bytes, tag_with. rewrite from_uvarint_uvarint by apply pub_code_lt.
    rewrite pub_code_size. reflexivity.
  Qed.

  Lemma did_of_verifier_bytes a k :
    did_of_bytes (verifier_bytes a k) = mkdid true (verifier_bytes a k).
  Proof.
    unfold did_of_bytes, did_decode. rewrite from_uvarint_verifier_bytes.
    destruct a; reflexivity.
  Qed.

  Lemma verifier_key_of a k : verifier_key (verifier_of a k) = pub_bytes a k.
  Proof.
    unfold verifier_key, verifier_of, verifier_bytes, tag_with. cbn [v_alg v_bytes].
    apply skipn_app_exact. reflexivity.
  Qed.

  Theorem verifier_decode_of a k :
    kvalid a k = true -> verifier_decode a (verifier_bytes a k) = Some (verifier_of a k).
  Proof.
    intros Hk. unfold verifier_decode. destruct a.
    - assert (L : length (verifier_bytes Ed25519 k) = 34%nat).
      { unfold verifier_bytes, tag_with. rewrite app_length, ed_pub_len by exact Hk. reflexivity. }
      rewrite L. cbn [Nat.eqb negb]. rewrite from_uvarint_verifier_bytes, N.eqb_refl.
      rewrite did_of_verifier_bytes. reflexivity.
    - unfold verifier_bytes at 1. rewrite untag_tag by reflexivity.
      rewrite rsa_pub_ok by exact Hk. rewrite did_of_verifier_bytes. reflexivity.
  Qed.

  Theorem signer_decode_of a k :
    kvalid a k = true -> signer_decode a (signer_bytes a k) = Some (signer_of a k).
  Proof.
    intros Hk. unfold signer_decode. destruct a.
    - assert (Lp : length (tag_with (priv_code Ed25519) (priv_bytes Ed25519 k)) = 34%nat).
      { unfold tag_with. rewrite app_length, ed_priv_len by exact Hk. reflexivity. }
      assert (Lv : length (verifier_bytes Ed25519 k) = 34%nat).
      { unfold verifier_bytes, tag_with. rewrite app_length, ed_pub_len by exact Hk. reflexivity. }
      assert (L : length (signer_bytes Ed25519 k) = 68%nat).
      { unfold signer_bytes. rewrite app_length, Lp, Lv. reflexivity. }
      rewrite L. cbn [Nat.eqb negb].
      assert (S34 : skipn 34 (signer_bytes Ed25519 k) = verifier_bytes Ed25519 k).
      { unfold signer_bytes. apply skipn_app_exact. exact Lp. }
      rewrite S34.
      unfold signer_bytes at 1. unfold tag_with at 1. rewrite <- app_assoc.
      rewrite from_uvarint_uvarint by reflexivity. rewrite N.eqb_refl.
      rewrite from_uvarint_verifier_bytes, N.eqb_refl.
      rewrite verifier_decode_of by exact Hk. reflexivity.
    - unfold signer_bytes. rewrite untag_tag by reflexivity.
      rewrite rsa_priv_pub by exact Hk.
      fold (verifier_bytes RSA k). rewrite verifier_decode_of by exact Hk. reflexivity.
  Qed.

  Lemma signer_material_of a k : kvalid a k = true ->
    signer_material (signer_of a k) = priv_material a k.
  Proof.
    intros Hk. unfold signer_material, signer_of, priv_material. cbn [s_alg s_bytes]. destruct a.
    - pose proof (ed_priv_len k Hk) as Lp. pose proof (ed_pub_len k Hk) as Lu.
      assert (E : signer_bytes Ed25519 k =
                  ([128; 38] ++ priv_bytes Ed25519 k) ++ [237; 1] ++ pub_bytes Ed25519 k) by reflexivity.
      rewrite E. f_equal.
      + rewrite <- app_assoc. rewrite (skipn_app_exact [128; 38] _ 2) by reflexivity.
        apply firstn_app_exact. exact Lp.
      + rewrite app_assoc. rewrite (skipn_app_exact _ _ 36).
        * apply firstn_all2. rewrite Lu. apply le_n.
        * rewrite !app_length, Lp. reflexivity.
    - unfold signer_bytes, tag_with. change (uvarint (priv_code RSA)) with [133; 38]. reflexivity.
  Qed.

  Theorem signer_sign_of a k m : kvalid a k = true ->
    signer_sign (signer_of a k) m = new_signature (sig_alg_code a) (raw_sig a k m).
  Proof.
    intros Hk. unfold signer_sign. rewrite signer_material_of by exact Hk.
    cbn [signer_of s_alg]. rewrite sign_correct by exact Hk. reflexivity.
  Qed.

  (* ---------------------------------------------------------------- *)
  (* acceptance                                                         *)

  (* a verifier accepts exactly: its own algorithm code, carrying exactly its
     own key's signature of exactly this message *)
  Theorem verify_only_own a k m s : kvalid a k = true ->
    (verifier_verify (verifier_of a k) m s = Ret true <->
     sig_code s = sig_alg_code a /\ sig_size_v s = N.of_nat (length (sig_raw_v s)) /\ sig_raw_v s = raw_sig a k m).
  Proof.
    intros Hk. unfold verifier_verify. rewrite sig_size_total, sig_raw_total. cbn [bind].
    rewrite verifier_key_of. cbn [verifier_of v_alg].
    destruct (sig_code s =? sig_alg_code a) eqn:Ec.
    - apply N.eqb_eq in Ec. destruct (sig_size_v s =? N.of_nat (length (sig_raw_v s))) eqn:Es.
      + apply N.eqb_eq in Es. split.
        * intros H. inversion H as [H']. apply sig_unforgeable in H'; [|exact Hk]. auto.
        * intros [_ [_ H]]. f_equal. apply sig_unforgeable; assumption.
      + apply N.eqb_neq in Es. split; [discriminate|]. intros [_ [H _]]. contradiction.
    - apply N.eqb_neq in Ec. split; [discriminate|]. intros [H _]. contradiction.
  Qed.

  (* never another key, another algorithm or another message *)
  Theorem verify_never_cross a k m a' k' m' :
    kvalid a k = true -> kvalid a' k' = true -> sig_fits a' k' m' ->
    (verifier_verify (verifier_of a k) m (signer_sign (signer_of a' k') m') = Ret true <->
     a = a' /\ k = k' /\ m = m').
  Proof.
    intros Hk Hk' Hfit. rewrite signer_sign_of by exact Hk'.
    rewrite verify_only_own by exact Hk.
    rewrite sig_code_new by apply sig_alg_code_lt.
    rewrite sig_size_v_new by (try apply sig_alg_code_lt; exact Hfit).
    rewrite sig_raw_v_new by (try apply sig_alg_code_lt; exact Hfit).
    split.
    - intros [Hc [_ Hr]]. apply sig_alg_code_inj in Hc. subst a'.
      apply raw_sig_inj in Hr; try assumption. destruct Hr; subst. auto.
    - intros [-> [-> ->]]. auto.
  Qed.

  (* re-tagging a signature with any other algorithm code makes every verifier reject it *)
  Theorem verify_retagged a k m c r : kvalid a k = true ->
    c < 2 ^ 63 -> c <> sig_alg_code a ->
    verifier_verify (verifier_of a k) m (new_signature c r) = Ret false.
  Proof.
    intros Hk Hc Hne. unfold verifier_verify. rewrite sig_code_new by exact Hc.
    cbn [verifier_of v_alg]. replace (c =? sig_alg_code a) with false; [reflexivity|].
    symmetry. apply N.eqb_neq. exact Hne.
  Qed.

  (* signer, its verifier and the verifier parsed from the DID string agree *)
  Theorem principals_agree a k : kvalid a k = true ->
    let s := signer_of a k in
    signer_decode a (signer_bytes a k) = Some s /\
    signer_verifier s = verifier_of a k /\
    signer_did s = v_did (verifier_of a k) /\
    dkey (signer_did s) = true /\
    (exists str, verifier_format (signer_verifier s) = Ret str /\
                 did_to_string (signer_did s) = Ret str /\
                 verifier_parse a str = Some (verifier_of a k)) /\
    (forall m, sig_fits a k m ->
       verifier_verify (verifier_of a k) m (signer_sign s m) = Ret true).
  Proof.
    intros Hk s. split; [apply signer_decode_of; exact Hk|].
    split; [reflexivity|]. split; [reflexivity|]. split; [reflexivity|]. split.
    - assert (Hvb : bytes_ok (verifier_bytes a k)).
      { unfold verifier_bytes, tag_with. apply bytes_ok_app. split; [apply uvarint_bytes_ok, pub_code_lt | apply pub_bytes_ok; exact Hk]. }
      destruct (verifier_format_parse a _ _ Hvb (verifier_decode_of a k Hk)) as [str [F P]].
      exists str. repeat split; assumption.
    - intros m Hfit. apply verify_never_cross; auto.
  Qed.

  (* wrapping a generated key under another DID changes only the DID *)
  Theorem wrap_generated a k id : kvalid a k = true ->
    exists w ws,
      verifier_wrap (verifier_of a k) id = Ret (Some w) /\
      signer_wrap (signer_of a k) id = Ret (Some ws) /\
      v_did w = id /\ signer_did ws = id /\ s_ver ws = w /\
      verifier_encode w = verifier_bytes a k /\ signer_encode ws = signer_bytes a k /\
      (forall m, signer_sign ws m = signer_sign (signer_of a k) m) /\
      (forall m s, verifier_verify w m s = verifier_verify (verifier_of a k) m s).
  Proof.
    intros Hk. eexists. eexists.
    split; [apply verifier_wrap_key; reflexivity|].
    split; [apply signer_wrap_key; reflexivity|].
    repeat split.
  Qed.
End Crypto.

(* ------------------------------------------------------------------ *)
(* non-vacuity: a toy instance satisfying every hypothesis of the section
   (keys 0..255; the "signature" of m under k is k :: m) *)
Module Toy.
  Definition kvalid (a : alg) (k : N) : bool := k <? 256.
  Definition pub_bytes (a : alg) (k : N) : bstr :=
    match a with Ed25519 => repeat k 32 | RSA => [48; k] end.
  Definition priv_bytes (a : alg) (k : N) : bstr :=
    match a with Ed25519 => repeat k 32 | RSA => [49; k] end.
  Definition keybyte (a : alg) (b : bstr) : N :=
    match a with Ed25519 => hd 0 b | RSA => nth 1 b 0 end.
  Definition raw_sig (a : alg) (k : N) (m : bstr) : bstr := k :: m.
  Definition raw_verify (a : alg) (pub m r : bstr) : bool := beq r (keybyte a pub :: m).
  Definition sign_bytes (a : alg) (mat m : bstr) : bstr := keybyte a mat :: m.
  Definition pkcs1_pub_ok (b : bstr) : bool := true.
  Definition pkcs1_priv_pub (b : bstr) : option bstr := Some [48; nth 1 b 0].

  Example hyps_satisfiable :
    (forall a k, kvalid a k = true -> bytes_ok (pub_bytes a k)) /\
    (forall k, kvalid Ed25519 k = true -> length (pub_bytes Ed25519 k) = 32%nat) /\
    (forall k, kvalid Ed25519 k = true -> length (priv_bytes Ed25519 k) = 32%nat) /\
    (forall k, kvalid RSA k = true -> pkcs1_pub_ok (pub_bytes RSA k) = true) /\
    (forall k, kvalid RSA k = true -> pkcs1_priv_pub (priv_bytes RSA k) = Some (pub_bytes RSA k)) /\
    (forall a k m, kvalid a k = true ->
       sign_bytes a (priv_material pub_bytes priv_bytes a k) m = raw_sig a k m) /\
    (forall a k m r, kvalid a k = true ->
       (raw_verify a (pub_bytes a k) m r = true <-> r = raw_sig a k m)) /\
    (forall a k k' m m', kvalid a k = true -> kvalid a k' = true ->
       raw_sig a k m = raw_sig a k' m' -> k = k' /\ m = m') /\
    sig_fits raw_sig Ed25519 7 [1; 2; 3].
  Proof.
    split.
    { intros a k Hk. unfold kvalid in Hk. apply N.ltb_lt in Hk. destruct a; cbn [pub_bytes].
      - apply Forall_forall. intros x Hx. apply repeat_spec in Hx. subst. exact Hk.
      - constructor; [reflexivity|]. constructor; [exact Hk | constructor]. }
    repeat split; try reflexivity.
    - destruct a; reflexivity.
    - unfold raw_verify, raw_sig. destruct a; cbn [pub_bytes keybyte repeat hd nth];
        intros E; apply beq_eq in E; exact E.
    - unfold raw_verify, raw_sig. destruct a; cbn [pub_bytes keybyte repeat hd nth];
        intros ->; apply beq_refl.
    - unfold raw_sig in *. congruence.
    - unfold raw_sig in *. congruence.
  Qed.
End Toy.
