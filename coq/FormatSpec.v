(* FormatSpec.v — the wire / storage formats as data (C18): for every block the model writes,
   the list of its representation keys in schema order with their kind and type, and theorems
   that EVERY value the model's encoders produce conforms to that list.  coqgen/Tie_Consts.v
   proves the lists (and the numeric multicodec tags, prefixes and version string used by
   the model) equal the ones `harness extract` reads from the IPLD schemas and Go constants of
   /repo on every run — so a drift of a field name, order, optionality, type, version string
   or tag in the source breaks the tie. *)
From Ucanto Require Import Base Ipld Cbor Formats ReceiptFormat Blockstore MessageFormat Signing.
Open Scope N_scope.

(* (representation name, kind, type expression); kind 0 required, 1 optional, 2 nullable, 3 implied *)
Definition spec := list (bstr * N * bstr).

Definition ty_ok (ty : bstr) (v : ipld) : bool :=
  if beq ty (bs "String") then match v with IString _ => true | _ => false end
  else if beq ty (bs "Bytes") then match v with IBytes _ => true | _ => false end
  else if beq ty (bs "Int") then match v with IInt _ => true | _ => false end
  else if beq ty (bs "Link") then match v with ILink _ => true | _ => false end
  else match ty with
       | 91 :: 38 :: _ =>                                     (* "[&T]": list of links *)
         match v with IList l => forallb (fun x => match x with ILink _ => true | _ => false end) l | _ => false end
       | 91 :: _ => match v with IList _ => true | _ => false end     (* "[T]" *)
       | 123 :: _ => match v with IMap _ => true | _ => false end     (* "{K:V}" *)
       | _ => true                                            (* Any, or a named type with its own list *)
       end.

Definition is_nullv (v : ipld) : bool := match v with INull => true | _ => false end.

Fixpoint conforms (sp : spec) (m : list (bstr * ipld)) : bool :=
  match sp with
  | [] => match m with [] => true | _ => false end
  | (k, kind, ty) :: sp' =>
    match m with
    | (k', v) :: m' =>
      if beq k k' then (((kind =? 2) && is_nullv v) || ty_ok ty v) && conforms sp' m'
      else (kind =? 1) && conforms sp' m
    | [] => (kind =? 1) && conforms sp' []
    end
  end.

Definition conforms_v (sp : spec) (v : ipld) : bool :=
  match v with IMap m => conforms sp m | _ => false end.

(* ---- the formats ---- *)

Definition ucan_version : bstr := bs "0.9.1".

Definition spec_token : spec := [
  (bs "v", 0, bs "String"); (bs "iss", 0, bs "Bytes"); (bs "aud", 0, bs "Bytes"); (bs "s", 0, bs "Bytes");
  (bs "att", 0, bs "[Capability]"); (bs "prf", 1, bs "[&UCAN]"); (bs "exp", 2, bs "Int");
  (bs "fct", 1, bs "[Fact]"); (bs "nnc", 1, bs "String"); (bs "nbf", 1, bs "Int") ].
Definition spec_capability : spec := [ (bs "with", 0, bs "String"); (bs "can", 0, bs "String"); (bs "nb", 0, bs "Any") ].
Definition spec_payload : spec := [
  (bs "iss", 0, bs "String"); (bs "aud", 0, bs "String"); (bs "att", 0, bs "[Capability]");
  (bs "prf", 3, bs "[String]"); (bs "exp", 2, bs "Int"); (bs "fct", 1, bs "[Fact]");
  (bs "nnc", 1, bs "String"); (bs "nbf", 1, bs "Int") ].
Definition spec_header : spec := [ (bs "alg", 0, bs "String"); (bs "ucv", 0, bs "String"); (bs "typ", 0, bs "String") ].
Definition spec_archive : spec := [ (bs "ucan@0.9.1", 0, bs "Link") ].
Definition message_keys : list bstr := [ bs "ucanto/message@7.0.0" ].
Definition spec_message_data : spec := [ (bs "execute", 1, bs "[Link]"); (bs "report", 1, bs "{String:Link}") ].
Definition spec_receipt : spec := [ (bs "ocm", 0, bs "Outcome"); (bs "sig", 0, bs "Bytes") ].
Definition spec_outcome : spec := [
  (bs "ran", 0, bs "Link"); (bs "out", 0, bs "Result"); (bs "fx", 0, bs "Effects");
  (bs "meta", 0, bs "{String:Any}"); (bs "iss", 1, bs "String"); (bs "prf", 0, bs "[Link]") ].
Definition spec_effects : spec := [ (bs "fork", 0, bs "[Link]"); (bs "join", 1, bs "Link") ].
Definition spec_result : spec := [ (bs "ok", 1, bs "Any"); (bs "error", 1, bs "Any") ].

(* ---- every value the encoders of the model write conforms ---- *)

Lemma forallb_links l : forallb (fun x => match x with ILink _ => true | _ => false end) (map ILink l) = true.
Proof. induction l as [|x r IH]; cbn [map forallb]; [reflexivity|exact IH]. Qed.

Theorem capability_conforms c : conforms_v spec_capability (cap_ipld c) = true.
Proof. reflexivity. Qed.

Theorem token_conforms t : conforms_v spec_token (token_ipld t) = true.
Proof.
  destruct t as [ver iss aud s att prf exp fct nnc nbf].
  destruct prf as [prf|], exp as [exp|], fct as [fct|], nnc as [nnc|], nbf as [nbf|];
    cbn; rewrite ?forallb_links; reflexivity.
Qed.

Theorem archive_conforms l : conforms_v spec_archive (archive_ipld l) = true.
Proof. reflexivity. Qed.

Theorem message_conforms m :
  exists d, message_ipld m = IMap [(bs "ucanto/message@7.0.0", d)] /\ In (bs "ucanto/message@7.0.0") message_keys /\
            conforms_v spec_message_data d = true.
Proof.
  destruct m as [ex rp]. eexists. split; [reflexivity|]. split; [left; reflexivity|].
  destruct ex as [ex|], rp as [rp|]; reflexivity.
Qed.

Theorem outcome_conforms o :
  conforms_v spec_outcome (outcome_ipld o) = true /\
  (exists out fxv, slookup (bs "out") (match outcome_ipld o with IMap m => m | _ => [] end) = Some out /\
                   conforms_v spec_result out = true /\
                   slookup (bs "fx") (match outcome_ipld o with IMap m => m | _ => [] end) = Some fxv /\
                   conforms_v spec_effects fxv = true).
Proof.
  destruct o as [ran okb val fork join meta iss prf].
  split.
  - destruct iss as [iss|]; reflexivity.
  - eexists. eexists. split; [reflexivity|]. split; [destruct okb; reflexivity|].
    split; [reflexivity|]. destruct join as [j|]; reflexivity.
Qed.

Theorem receipt_conforms r : conforms_v spec_receipt (receipt_ipld r) = true.
Proof. reflexivity. Qed.

Theorem header_conforms alg ver : conforms_v spec_header (header_ipld alg ver) = true.
Proof. reflexivity. Qed.

Theorem payload_conforms t : conforms_v spec_payload (payload_ipld t true) = true.
Proof.
  destruct t as [ver iss aud s att prf exp fct nnc nbf].
  destruct prf as [prf|], exp as [exp|], fct as [fct|], nnc as [nnc|], nbf as [nbf|]; reflexivity.
Qed.

(* non-vacuity: conforms rejects a wrong key, a wrong type, a missing required field, an extra field *)
Example conforms_rejects :
  conforms spec_archive [(bs "ucan@0.9.2", ILink [])] = false /\
  conforms spec_archive [(bs "ucan@0.9.1", IString [])] = false /\
  conforms spec_capability [(bs "with", IString []); (bs "nb", INull)] = false /\
  conforms spec_effects [(bs "fork", IList []); (bs "join", ILink []); (bs "extra", INull)] = false /\
  conforms spec_token [(bs "v", IString [])] = false.
Proof. repeat split; reflexivity. Qed.
