(* Signing.v — issuing and verifying UCAN tokens (ucan/lib.go Issue / VerifySignature,
   ucan/formatter) over the token layout of Formats.v, with symbolic signatures. *)
From Ucanto Require Import Base Ipld Cbor Formats.
Open Scope N_scope.

(* the JWT-style payload that is signed: iss/aud as DID strings, prf as CID strings *)
Definition payload_ipld (did_string cid_string : bstr -> bstr) (t : utoken) (with_nnc_nbf : bool) : ipld :=
  struct_map [
    field k_iss (IString (did_string (u_iss t)));
    field k_aud (IString (did_string (u_aud t)));
    field k_att (IList (map cap_ipld (u_att t)));
    field k_prf (IList (map (fun c => IString (cid_string c)) (match u_prf t with Some l => l | None => [] end)));
    field k_exp (nullable (option_map IInt (u_exp t)));
    opt_field k_fct (option_map (fun l => IList (map IMap l)) (u_fct t));
    opt_field k_nnc (if with_nnc_nbf then option_map IString (u_nnc t) else None);
    opt_field k_nbf (if with_nnc_nbf then option_map IInt (u_nbf t) else None) ].

Definition header_ipld (alg ver : bstr) : ipld :=
  struct_map [field (bs "alg") (IString alg); field (bs "ucv") (IString ver); field (bs "typ") (IString (bs "JWT"))].

Section Sign.
  (* external encodings: oracles, exercised by the correspondence, not verified *)
  Variable did_string : bstr -> bstr.      (* did.Decode(bytes).String(); "" when undecodable *)
  Variable cid_string : bstr -> bstr.      (* link.String() *)
  Variable json : ipld -> bstr.            (* dag-json of header / payload (then base64url, joined by '.') *)
  (* symbolic crypto: key ids, signing is deterministic *)
  Variable sign : N -> bstr -> bstr.       (* key, message -> signature bytes (framed) *)
  Variable valid : N -> bstr -> bstr -> bool.   (* verifier of key accepts (message, signature) *)
  Variable alg_of : N -> bstr.             (* algorithm name of a key: "EdDSA" / "RS256" *)
  Variable did_of : N -> bstr.             (* DID bytes of a key *)

  Hypothesis valid_sign : forall k m, valid k m (sign k m) = true.
  (* a signature validates at most one message under a key (unforgeability + determinism) *)
  Hypothesis valid_unique : forall k m m' s, valid k m s = true -> valid k m' s = true -> m = m'.
  (* the two halves of the signed string determine header and payload values *)
  Hypothesis json_inj : forall a b, wf_ipld a = true -> wf_ipld b = true -> json a = json b -> canon a = canon b.
  Hypothesis json_canon : forall a, json (canon a) = json a.
  Hypothesis cid_string_inj : forall a b, cid_string a = cid_string b -> a = b.
  (* DID strings: distinct decodable DIDs print differently (C14_did_string_injective) *)
  Hypothesis did_string_inj : forall a b, did_string a <> [] -> did_string a = did_string b -> a = b.
  Hypothesis did_of_defined : forall k, did_string (did_of k) <> [].

  (* the message handed to Sign / Verify: (header json, payload json) *)
  Definition sign_input (alg : bstr) (t : utoken) (full : bool) : bstr * bstr :=
    (json (header_ipld alg (u_v t)), json (payload_ipld did_string cid_string t full)).
  (* abstract joining of the two base64url halves with '.', injective *)
  Variable join : bstr * bstr -> bstr.
  Hypothesis join_inj : forall a b, join a = join b -> a = b.

  (* ucan.Issue: build the token, sign the payload that includes nnc / nbf when set *)
  Definition issue (k : N) (ver aud : bstr) (att : list capm) (prf : option (list bstr)) (exp : option Z)
             (fct : option (list (list (bstr * ipld)))) (nnc : option bstr) (nbf : option Z) : utoken :=
    let t0 := mkU ver (did_of k) aud [] att prf exp fct nnc nbf in
    mkU ver (did_of k) aud (sign k (join (sign_input (alg_of k) t0 true))) att prf exp fct nnc nbf.

  (* ucan.VerifySignature(view, verifier of key k): rebuild the payload from the token *)
  Definition verify (t : utoken) (k : N) : bool :=
    beq (u_iss t) (did_of k) && valid k (join (sign_input (alg_of k) t true)) (u_s t).

  (* the pinned VerifySignature rebuilt the payload WITHOUT nnc and nbf *)
  Definition verify_pinned (t : utoken) (k : N) : bool :=
    beq (u_iss t) (did_of k) && valid k (join (sign_input (alg_of k) t false)) (u_s t).

  Lemma sign_input_ignores_sig alg t s full :
    sign_input alg (mkU (u_v t) (u_iss t) (u_aud t) s (u_att t) (u_prf t) (u_exp t) (u_fct t) (u_nnc t) (u_nbf t)) full
    = sign_input alg t full.
  Proof. reflexivity. Qed.

  (* every issued token verifies against its issuer — for every option combination *)
  Theorem issue_verifies k ver aud att prf exp fct nnc nbf :
    verify (issue k ver aud att prf exp fct nnc nbf) k = true.
  Proof.
    unfold verify, issue. cbn [u_iss u_s]. rewrite beq_refl. cbn [andb].
    unfold sign_input. cbn [u_v u_iss u_aud u_att u_prf u_exp u_fct u_nnc u_nbf]. apply valid_sign.
  Qed.

  (* transport: the decoded token (caveats / facts in canonical form) still verifies *)
  Lemma cap_canon c : canon (cap_ipld (canon_cap c)) = canon (cap_ipld c).
  Proof.
    unfold cap_ipld, canon_cap, struct_map. cbn [cm_with cm_can cm_nb concat field app].
    rewrite !canon_map_eq. cbn [map]. unfold on_snd. cbn [fst snd]. rewrite canon_idem. reflexivity.
  Qed.

  Lemma fact_canon f : canon (IMap (canon_fact f)) = canon (IMap f).
  Proof.
    unfold canon_fact. rewrite (canon_map_eq f).
    change (IMap (sort_map (map (on_snd canon) f))) with (canon (IMap f)). apply canon_idem.
  Qed.

  Lemma caps_canon l : canon (IList (map cap_ipld (map canon_cap l))) = canon (IList (map cap_ipld l)).
  Proof.
    cbn [canon]. f_equal. rewrite !map_map. apply map_ext. intros c. apply cap_canon.
  Qed.

  Lemma facts_canon l : canon (IList (map IMap (map canon_fact l))) = canon (IList (map IMap l)).
  Proof.
    cbn [canon]. f_equal. rewrite !map_map. apply map_ext. intros f.
    pose proof (fact_canon f) as H. exact H.
  Qed.

  Lemma payload_canon t full :
    canon (payload_ipld did_string cid_string (canon_token t) full) = canon (payload_ipld did_string cid_string t full).
  Proof.
    unfold payload_ipld, canon_token, struct_map.
    cbn [u_iss u_aud u_att u_prf u_exp u_fct u_nnc u_nbf].
    rewrite !canon_map_eq. f_equal. f_equal.
    pose proof (caps_canon (u_att t)) as CA.
    destruct (u_fct t) as [fl|]; [pose proof (facts_canon fl) as FA|];
      destruct (u_nnc t), (u_nbf t), full;
      cbn [option_map opt_field field concat app map]; unfold on_snd; cbn [fst snd];
      rewrite ?CA, ?FA; reflexivity.
  Qed.

  Theorem verify_after_transport t k :
    verify t k = true -> verify (canon_token t) k = true.
  Proof.
    unfold verify. cbn [canon_token u_iss u_s]. intros H. rewrite andb_true_iff in *. destruct H as [H1 H2].
    split; [exact H1|]. unfold sign_input in *. cbn [canon_token u_v].
    rewrite <- (json_canon (payload_ipld did_string cid_string (canon_token t) true)).
    rewrite payload_canon. rewrite json_canon. exact H2.
  Qed.

  (* tamper detection: a token that verifies for key k carries exactly the signed payload *)
  Theorem verify_binds_payload t t' k :
    wf_ipld (payload_ipld did_string cid_string t true) = true ->
    wf_ipld (payload_ipld did_string cid_string t' true) = true ->
    wf_ipld (header_ipld (alg_of k) (u_v t)) = true -> wf_ipld (header_ipld (alg_of k) (u_v t')) = true ->
    verify t k = true -> verify t' k = true -> u_s t' = u_s t ->
    u_iss t' = u_iss t /\
    canon (payload_ipld did_string cid_string t' true) = canon (payload_ipld did_string cid_string t true) /\
    canon (header_ipld (alg_of k) (u_v t')) = canon (header_ipld (alg_of k) (u_v t)).
  Proof.
    intros W W' WH WH' V V' S. unfold verify in *. rewrite andb_true_iff in *.
    destruct V as [I Vs]. destruct V' as [I' Vs']. apply beq_eq in I. apply beq_eq in I'.
    split; [congruence|]. rewrite S in Vs'.
    pose proof (valid_unique _ _ _ _ Vs Vs') as E. apply join_inj in E. unfold sign_input in E.
    inversion E as [[E1 E2]]. split; symmetry; apply json_inj; auto.
  Qed.

  (* verification against any other principal fails *)
  Theorem verify_other_principal t k k' :
    verify t k = true -> did_of k' <> did_of k -> verify t k' = false.
  Proof.
    unfold verify. intros H NE. rewrite andb_true_iff in H. destruct H as [I _]. apply beq_eq in I.
    destruct (beq (u_iss t) (did_of k')) eqn:E; [|reflexivity]. apply beq_eq in E. congruence.
  Qed.
End Sign.

(* the payload determines every signed field *)
Section PayloadInj.
  Variable did_string cid_string : bstr -> bstr.
  Hypothesis cid_string_inj : forall a b, cid_string a = cid_string b -> a = b.

  Lemma map_inj {A B} (f : A -> B) : (forall a b, f a = f b -> a = b) -> forall l l', map f l = map f l' -> l = l'.
  Proof.
    intros Hf l. induction l as [|x l IH]; destruct l' as [|y l']; cbn; try discriminate; [reflexivity|].
    intros E. inversion E. f_equal; auto.
  Qed.

  Lemma opt3_inj (a a' b b' c c' : option ipld) :
    opt_field k_fct a ++ opt_field k_nnc b ++ opt_field k_nbf c =
    opt_field k_fct a' ++ opt_field k_nnc b' ++ opt_field k_nbf c' -> a = a' /\ b = b' /\ c = c'.
  Proof.
    destruct a, a', b, b', c, c'; cbn [opt_field app]; intros E; inversion E; subst; auto; discriminate.
  Qed.

  Lemma option_map_inj {A B} (f : A -> B) : (forall x y, f x = f y -> x = y) ->
    forall a b, option_map f a = option_map f b -> a = b.
  Proof. intros Hf [a|] [b|]; cbn; intros E; inversion E; auto. f_equal. auto. Qed.

  (* equal payloads (as built, before canonicalisation) => equal signed fields *)
  Theorem payload_inj t t' :
    payload_ipld did_string cid_string t true = payload_ipld did_string cid_string t' true ->
    did_string (u_iss t) = did_string (u_iss t') /\ did_string (u_aud t) = did_string (u_aud t') /\
    u_att t = u_att t' /\
    match u_prf t with Some l => l | None => [] end = match u_prf t' with Some l => l | None => [] end /\
    u_exp t = u_exp t' /\ u_fct t = u_fct t' /\ u_nnc t = u_nnc t' /\ u_nbf t = u_nbf t'.
  Proof.
    unfold payload_ipld, struct_map. intros E.
    assert (CAPS : forall l l', map cap_ipld l = map cap_ipld l' -> l = l').
    { apply map_inj. intros [w c n] [w' c' n'] X. unfold cap_ipld, struct_map in X. cbn in X. inversion X. reflexivity. }
    assert (PRF : forall l l', map (fun c => IString (cid_string c)) l = map (fun c => IString (cid_string c)) l' -> l = l').
    { apply map_inj. intros a b X. inversion X. auto. }
    assert (FCT : forall l l' : list (list (bstr * ipld)), map IMap l = map IMap l' -> l = l').
    { apply map_inj. intros a b X. inversion X. reflexivity. }
    inversion E.
    match goal with H : opt_field k_fct _ ++ _ = _ |- _ =>
      rewrite ?app_nil_r in H; apply opt3_inj in H; destruct H as [Ef [En Eb]] end.
    match goal with H : nullable _ = nullable _ |- _ => rename H into Eexp end.
    repeat split; auto.
    - destruct (u_exp t), (u_exp t'); cbn in Eexp; inversion Eexp; reflexivity.
    - apply (option_map_inj (fun l => IList (map IMap l))); [|exact Ef]. intros x y X. inversion X. auto.
    - apply (option_map_inj IString); [|exact En]. intros x y X. inversion X. reflexivity.
    - apply (option_map_inj IInt); [|exact Eb]. intros x y X. inversion X. reflexivity.
  Qed.
End PayloadInj.
