(* Signing.v — issuing and verifying UCAN tokens (ucan/lib.go Issue / VerifySignature,
   ucan/formatter) over the token layout of Formats.v.
   The signed message is modelled BYTE FOR BYTE (DagJson.v): base64url(dag-json(header)) "."
   base64url(dag-json(payload)), with the DID and CID string forms; only the signature
   primitive itself is symbolic (Section hypotheses valid_sign / valid_unique). *)
From Ucanto Require Import Base Varint VarintMore Ipld Cbor Formats BaseEnc JsonText Sig Did DagJson.
Open Scope N_scope.

(* the JWT-style payload that is signed (ucan/datamodel/payload): iss/aud as DID strings,
   prf as CID strings; bindnode hands the fields over in schema order, the dag-json encoder
   sorts them *)
Definition prf_list (t : utoken) : list bstr := match u_prf t with Some l => l | None => [] end.

Definition payload_ipld (t : utoken) (with_nnc_nbf : bool) : ipld :=
  struct_map [
    field k_iss (IString (did_string (u_iss t)));
    field k_aud (IString (did_string (u_aud t)));
    field k_att (IList (map cap_ipld (u_att t)));
    field k_prf (IList (map (fun c => IString (cid_string c)) (prf_list t)));
    field k_exp (nullable (option_map IInt (u_exp t)));
    opt_field k_fct (option_map (fun l => IList (map IMap l)) (u_fct t));
    opt_field k_nnc (if with_nnc_nbf then option_map IString (u_nnc t) else None);
    opt_field k_nbf (if with_nnc_nbf then option_map IInt (u_nbf t) else None) ].

Definition k_alg := bs "alg". Definition k_ucv := bs "ucv". Definition k_typ := bs "typ".

Definition header_ipld (alg ver : bstr) : ipld :=
  struct_map [field k_alg (IString alg); field k_ucv (IString ver); field k_typ (IString (bs "JWT"))].

(* formatter.FormatSignPayload: the exact bytes handed to Sign / Verify *)
Definition sign_bytes (alg ver : bstr) (payload : ipld) : bstr :=
  b64url (json_encode (header_ipld alg ver)) ++ 46 :: b64url (json_encode payload).
Definition sign_payload_of (alg : bstr) (t : utoken) (full : bool) : bstr :=
  sign_bytes alg (u_v t) (payload_ipld t full).
Definition sign_payload (alg : bstr) (t : utoken) : bstr := sign_payload_of alg t true.

(* the formatter succeeds (no caveat / fact integer outside int64) *)
Definition sign_payload_ok (t : utoken) : bool := json_encodable (payload_ipld t true).
Definition sign_payload_opt (alg : bstr) (t : utoken) : option bstr :=
  let p := payload_ipld t true in
  if json_encodable p then Some (sign_bytes alg (u_v t) p) else None.

Lemma sign_payload_opt_eq alg t :
  sign_payload_opt alg t = if sign_payload_ok t then Some (sign_payload alg t) else None.
Proof. reflexivity. Qed.

Section Sign.
  (* symbolic crypto: key ids, signing is deterministic *)
  Variable sign : N -> bstr -> bstr.       (* key, message -> signature bytes (framed) *)
  Variable valid : N -> bstr -> bstr -> bool.   (* verifier of key accepts (message, signature) *)
  Variable alg_of : N -> bstr.             (* algorithm name of a key: "EdDSA" / "RS256" *)
  Variable did_of : N -> bstr.             (* DID bytes of a key *)

  Hypothesis valid_sign : forall k m, valid k m (sign k m) = true.
  (* a signature validates at most one message under a key (unforgeability + determinism) *)
  Hypothesis valid_unique : forall k m m' s, valid k m s = true -> valid k m' s = true -> m = m'.

  (* ucan.Issue: build the token, sign the payload that includes nnc / nbf when set *)
  Definition issue (k : N) (ver aud : bstr) (att : list capm) (prf : option (list bstr)) (exp : option Z)
             (fct : option (list (list (bstr * ipld)))) (nnc : option bstr) (nbf : option Z) : utoken :=
    let t0 := mkU ver (did_of k) aud [] att prf exp fct nnc nbf in
    mkU ver (did_of k) aud (sign k (sign_payload_of (alg_of k) t0 true)) att prf exp fct nnc nbf.

  (* ucan.VerifySignature(view, verifier of key k): rebuild the payload from the token *)
  Definition verify (t : utoken) (k : N) : bool :=
    beq (u_iss t) (did_of k) && valid k (sign_payload_of (alg_of k) t true) (u_s t).

  (* the pinned VerifySignature rebuilt the payload WITHOUT nnc and nbf *)
  Definition verify_pinned (t : utoken) (k : N) : bool :=
    beq (u_iss t) (did_of k) && valid k (sign_payload_of (alg_of k) t false) (u_s t).

  Lemma sign_payload_ignores_sig alg t s full :
    sign_payload_of alg (mkU (u_v t) (u_iss t) (u_aud t) s (u_att t) (u_prf t) (u_exp t) (u_fct t) (u_nnc t) (u_nbf t)) full
    = sign_payload_of alg t full.
  Proof using. reflexivity. Qed.

  (* every issued token verifies against its issuer — for every option combination *)
  Theorem issue_verifies k ver aud att prf exp fct nnc nbf :
    verify (issue k ver aud att prf exp fct nnc nbf) k = true.
  Proof using valid_sign.
    unfold verify, issue. cbn [u_iss u_s]. rewrite beq_refl. cbn [andb].
    unfold sign_payload_of, sign_bytes, payload_ipld, prf_list. cbn [u_v u_iss u_aud u_att u_prf u_exp u_fct u_nnc u_nbf]. apply valid_sign.
  Qed.

  (* transport: the decoded token (caveats / facts in canonical form) still verifies *)
  Lemma cap_canon c : canon (cap_ipld (canon_cap c)) = canon (cap_ipld c).
  Proof using.
    unfold cap_ipld, canon_cap, struct_map. cbn [cm_with cm_can cm_nb concat field app].
    rewrite !canon_map_eq. cbn [map]. unfold on_snd. cbn [fst snd]. rewrite canon_idem. reflexivity.
  Qed.

  Lemma fact_canon f : canon (IMap (canon_fact f)) = canon (IMap f).
  Proof using.
    unfold canon_fact. rewrite (canon_map_eq f).
    change (IMap (sort_map (map (on_snd canon) f))) with (canon (IMap f)). apply canon_idem.
  Qed.

  Lemma caps_canon l : canon (IList (map cap_ipld (map canon_cap l))) = canon (IList (map cap_ipld l)).
  Proof using.
    cbn [canon]. f_equal. rewrite !map_map. apply map_ext. intros c. apply cap_canon.
  Qed.

  Lemma facts_canon l : canon (IList (map IMap (map canon_fact l))) = canon (IList (map IMap l)).
  Proof using.
    cbn [canon]. f_equal. rewrite !map_map. apply map_ext. intros f.
    pose proof (fact_canon f) as H. exact H.
  Qed.

  Lemma payload_canon t full :
    canon (payload_ipld (canon_token t) full) = canon (payload_ipld t full).
  Proof using.
    unfold payload_ipld, canon_token, struct_map, prf_list.
    cbn [u_iss u_aud u_att u_prf u_exp u_fct u_nnc u_nbf].
    rewrite !canon_map_eq. f_equal. f_equal.
    pose proof (caps_canon (u_att t)) as CA.
    destruct (u_fct t) as [fl|]; [pose proof (facts_canon fl) as FA|];
      destruct (u_nnc t), (u_nbf t), full;
      cbn [option_map opt_field field concat app map]; unfold on_snd; cbn [fst snd];
      rewrite ?CA, ?FA; reflexivity.
  Qed.

  (* the signed bytes do not depend on the order of the entries of caveat / fact maps *)
  Lemma sign_payload_canon alg t full : sign_payload_of alg (canon_token t) full = sign_payload_of alg t full.
  Proof using.
    unfold sign_payload_of, sign_bytes. cbn [canon_token u_v]. do 3 f_equal.
    rewrite <- (json_encode_canon (payload_ipld (canon_token t) full)), payload_canon, json_encode_canon. reflexivity.
  Qed.

  Theorem verify_after_transport t k :
    verify t k = true -> verify (canon_token t) k = true.
  Proof using.
    unfold verify. rewrite sign_payload_canon. cbn [canon_token u_iss u_s]. auto.
  Qed.

  (* verification against any other principal fails *)
  Theorem verify_other_principal t k k' :
    verify t k = true -> did_of k' <> did_of k -> verify t k' = false.
  Proof using.
    unfold verify. intros H NE. rewrite andb_true_iff in H. destruct H as [I _]. apply beq_eq in I.
    destruct (beq (u_iss t) (did_of k')) eqn:E; [|reflexivity]. apply beq_eq in E. congruence.
  Qed.
End Sign.

(* ------------------------------------------------------------------ *)
(* the signed bytes determine every signed field                        *)

Lemma dot_split a b x y : ~ In 46 a -> ~ In 46 b -> a ++ 46 :: x = b ++ 46 :: y -> a = b /\ x = y.
Proof.
  revert b. induction a as [|c a IH]; intros [|d b] Na Nb E; cbn [app] in E.
  - inversion E. auto.
  - inversion E; subst. exfalso. apply Nb. left. reflexivity.
  - inversion E; subst. exfalso. apply Na. left. reflexivity.
  - inversion E; subst. destruct (IH b) as [-> ->]; auto; intros I; [apply Na | apply Nb]; right; exact I.
Qed.

Lemma b64url_no_dot s : ~ In 46 (b64url s).
Proof.
  intros I. pose proof (b64url_chars s) as F. rewrite Forall_forall in F. specialize (F 46 I).
  vm_compute in F. repeat (destruct F as [F|F]; [discriminate F|]). exact F.
Qed.

Theorem sign_payload_halves alg alg' t t' full full' :
  json_safe (header_ipld alg (u_v t)) = true -> json_safe (header_ipld alg' (u_v t')) = true ->
  json_safe (payload_ipld t full) = true -> json_safe (payload_ipld t' full') = true ->
  sign_payload_of alg t full = sign_payload_of alg' t' full' ->
  json_encode (header_ipld alg (u_v t)) = json_encode (header_ipld alg' (u_v t')) /\
  json_encode (payload_ipld t full) = json_encode (payload_ipld t' full').
Proof.
  intros Sh Sh' Sp Sp' E. unfold sign_payload_of, sign_bytes in E.
  apply dot_split in E; try apply b64url_no_dot. destruct E as [E1 E2].
  split; apply b64url_inj; auto; apply jprint_bytes, jok_to_json; assumption.
Qed.

(* reading the payload back from its canonical form *)
Definition payload_read (v : ipld) :=
  iss <- (x <- map_get k_iss v ;; as_string x) ;;
  aud <- (x <- map_get k_aud v ;; as_string x) ;;
  att <- (x <- map_get k_att v ;; l <- as_list x ;; omap cap_of_ipld l) ;;
  prf <- (x <- map_get k_prf v ;; l <- as_list x ;; omap as_string l) ;;
  exp <- (x <- map_get k_exp v ;; if is_null x then Some None else (z <- as_int x ;; Some (Some z))) ;;
  fct <- opt_get k_fct v (fun x => l <- as_list x ;; omap as_map l) ;;
  nnc <- opt_get k_nnc v as_string ;;
  nbf <- opt_get k_nbf v as_int ;;
  Some (iss, aud, att, prf, exp, fct, nnc, nbf).

Lemma payload_fields_nodup t full : match payload_ipld t full with IMap m => NoDup (map fst m) | _ => False end.
Proof.
  unfold payload_ipld, struct_map.
  destruct (u_fct t), (u_nnc t), (u_nbf t), full; cbn;
    repeat constructor; cbn; intuition discriminate.
Qed.

Theorem payload_read_canon t :
  payload_read (canon (payload_ipld t true)) =
  Some (did_string (u_iss t), did_string (u_aud t), map canon_cap (u_att t), map cid_string (prf_list t),
        u_exp t, option_map (map canon_fact) (u_fct t), u_nnc t, u_nbf t).
Proof.
  pose proof (payload_fields_nodup t true) as ND.
  unfold payload_read. unfold payload_ipld, struct_map in *.
  set (m := concat _) in *.
  unfold opt_get. rewrite !(map_get_canon_top _ _ ND).
  assert (ATT : omap cap_of_ipld (map canon (map cap_ipld (u_att t))) = Some (map canon_cap (u_att t))).
  { rewrite map_map. rewrite omap_map. apply omap_some. intros c _. apply cap_roundtrip. }
  assert (FCT : forall l, omap as_map (map canon (map IMap l)) = Some (map canon_fact l)).
  { intros l. rewrite map_map, omap_map. apply omap_some. intros f _. unfold canon_fact.
    rewrite canon_map_eq. reflexivity. }
  assert (PRF : forall l, omap as_string (map canon (map (fun c => IString (cid_string c)) l)) = Some (map cid_string l)).
  { intros l. rewrite map_map, omap_map. apply omap_some. intros; reflexivity. }
  subst m.
  destruct t as [ver iss aud s att prf exp fct nnc nbf]. unfold prf_list in *.
  cbn [u_v u_iss u_aud u_s u_att u_prf u_exp u_fct u_nnc u_nbf] in *.
  destruct exp as [exp|], fct as [fct|], nnc as [nnc|], nbf as [nbf|];
    cbn [option_map opt_field field concat app slookup beq N.eqb Pos.eqb andb k_iss k_aud k_att k_prf k_exp k_fct k_nnc k_nbf bs N_of_ascii N_of_digits nullable];
    cbn; rewrite ?ATT, ?FCT, ?PRF; cbn; reflexivity.
Qed.

Lemma header_canon_inj alg ver alg' ver' :
  canon (header_ipld alg ver) = canon (header_ipld alg' ver') -> alg = alg' /\ ver = ver'.
Proof.
  intros E. unfold header_ipld, struct_map in E. cbn [concat field app] in E.
  assert (ND : forall a v, NoDup (map fst [(k_alg, IString a); (k_ucv, IString v); (k_typ, IString (bs "JWT"))])).
  { intros. cbn. repeat constructor; cbn; intuition discriminate. }
  pose proof (f_equal (map_get k_alg) E) as Ea. pose proof (f_equal (map_get k_ucv) E) as Ev.
  rewrite !(map_get_canon_top _ _ (ND _ _)) in Ea. rewrite !(map_get_canon_top _ _ (ND _ _)) in Ev.
  cbn in Ea, Ev. inversion Ea. inversion Ev. auto.
Qed.

Lemma map_inj_on {A B} (P : A -> Prop) (f : A -> B) :
  (forall a b, P a -> P b -> f a = f b -> a = b) ->
  forall l l', Forall P l -> Forall P l' -> map f l = map f l' -> l = l'.
Proof.
  intros Hf l. induction l as [|x l IH]; intros [|y l'] Hl Hl' E; cbn in E; try discriminate; [reflexivity|].
  inversion E. inversion Hl; inversion Hl'; subst. f_equal; auto.
Qed.

(* the identifiers of a token are byte strings, its principals decodable DIDs *)
Definition token_ids_ok (t : utoken) : bool :=
  bytes_okb (u_iss t) && did_okb (u_iss t) && bytes_okb (u_aud t) && did_okb (u_aud t) && forallb bytes_okb (prf_list t).

(* equal signed bytes: same algorithm, version, and payload fields as strings *)
Theorem sign_payload_fields alg alg' t t' :
  json_safe (header_ipld alg (u_v t)) = true -> json_safe (header_ipld alg' (u_v t')) = true ->
  wf_ipld (header_ipld alg (u_v t)) = true -> wf_ipld (header_ipld alg' (u_v t')) = true ->
  json_safe (payload_ipld t true) = true -> json_safe (payload_ipld t' true) = true ->
  wf_ipld (payload_ipld t true) = true -> wf_ipld (payload_ipld t' true) = true ->
  sign_payload alg t = sign_payload alg' t' ->
  alg = alg' /\ u_v t = u_v t' /\
  did_string (u_iss t) = did_string (u_iss t') /\ did_string (u_aud t) = did_string (u_aud t') /\
  map canon_cap (u_att t) = map canon_cap (u_att t') /\
  map cid_string (prf_list t) = map cid_string (prf_list t') /\
  u_exp t = u_exp t' /\ option_map (map canon_fact) (u_fct t) = option_map (map canon_fact) (u_fct t') /\
  u_nnc t = u_nnc t' /\ u_nbf t = u_nbf t'.
Proof.
  intros Sh Sh' Wh Wh' Sp Sp' Wp Wp' E.
  destruct (sign_payload_halves _ _ _ _ _ _ Sh Sh' Sp Sp' E) as [Eh Ep].
  apply json_encode_inj in Eh; auto. apply json_encode_inj in Ep; auto.
  apply header_canon_inj in Eh. destruct Eh as [-> Ev].
  pose proof (payload_read_canon t) as R. pose proof (payload_read_canon t') as R'. rewrite Ep in R. rewrite R' in R.
  inversion R. repeat split; auto.
Qed.

(* ... hence the same token, field by field (caveats and facts up to the order of map entries;
   an absent proof list and an empty one are the same signed value) *)
Theorem sign_payload_inj alg alg' t t' :
  json_safe (header_ipld alg (u_v t)) = true -> json_safe (header_ipld alg' (u_v t')) = true ->
  wf_ipld (header_ipld alg (u_v t)) = true -> wf_ipld (header_ipld alg' (u_v t')) = true ->
  json_safe (payload_ipld t true) = true -> json_safe (payload_ipld t' true) = true ->
  wf_ipld (payload_ipld t true) = true -> wf_ipld (payload_ipld t' true) = true ->
  token_ids_ok t = true -> token_ids_ok t' = true ->
  sign_payload alg t = sign_payload alg' t' ->
  alg = alg' /\ u_v t = u_v t' /\ u_iss t = u_iss t' /\ u_aud t = u_aud t' /\
  map canon_cap (u_att t) = map canon_cap (u_att t') /\ prf_list t = prf_list t' /\
  u_exp t = u_exp t' /\ option_map (map canon_fact) (u_fct t) = option_map (map canon_fact) (u_fct t') /\
  u_nnc t = u_nnc t' /\ u_nbf t = u_nbf t'.
Proof.
  intros Sh Sh' Wh Wh' Sp Sp' Wp Wp' I I' E.
  destruct (sign_payload_fields _ _ _ _ Sh Sh' Wh Wh' Sp Sp' Wp Wp' E) as [Ea [Ev [Ei [Eu [Ec [Epr [Ee [Ef [En Eb]]]]]]]]].
  unfold token_ids_ok in I, I'. rewrite !andb_true_iff in I, I'.
  destruct I as [[[[Bi Di] Ba] Da] Bp]. destruct I' as [[[[Bi' Di'] Ba'] Da'] Bp'].
  apply bytes_okb_ok in Bi, Bi', Ba, Ba'.
  repeat split; auto.
  - apply did_string_inj; auto.
  - apply did_string_inj; auto.
  - apply (map_inj_on bytes_lt cid_string cid_string_inj); auto;
      apply Forall_forall; intros c Hc; [rewrite forallb_forall in Bp; specialize (Bp c Hc) | rewrite forallb_forall in Bp'; specialize (Bp' c Hc)];
      apply bytes_okb_ok; assumption.
Qed.

(* tamper detection: two tokens that verify for key k with the same signature bytes carry the
   same signed bytes *)
Section Tamper.
  Variable valid : N -> bstr -> bstr -> bool.
  Variable alg_of did_of : N -> bstr.
  Hypothesis valid_unique : forall k m m' s, valid k m s = true -> valid k m' s = true -> m = m'.

  Lemma verify_same_bytes t t' k :
    verify valid alg_of did_of t k = true -> verify valid alg_of did_of t' k = true -> u_s t' = u_s t ->
    u_iss t' = u_iss t /\ sign_payload (alg_of k) t' = sign_payload (alg_of k) t.
  Proof using valid_unique.
    intros V V' S. unfold verify in *. rewrite andb_true_iff in *.
    destruct V as [I Vs]. destruct V' as [I' Vs']. apply beq_eq in I. apply beq_eq in I'.
    split; [congruence|]. rewrite S in Vs'. symmetry. exact (valid_unique _ _ _ _ Vs Vs').
  Qed.

  Theorem verify_binds_payload t t' k :
    json_safe (header_ipld (alg_of k) (u_v t)) = true -> json_safe (header_ipld (alg_of k) (u_v t')) = true ->
    wf_ipld (header_ipld (alg_of k) (u_v t)) = true -> wf_ipld (header_ipld (alg_of k) (u_v t')) = true ->
    json_safe (payload_ipld t true) = true -> json_safe (payload_ipld t' true) = true ->
    wf_ipld (payload_ipld t true) = true -> wf_ipld (payload_ipld t' true) = true ->
    token_ids_ok t = true -> token_ids_ok t' = true ->
    verify valid alg_of did_of t k = true -> verify valid alg_of did_of t' k = true -> u_s t' = u_s t ->
    u_v t' = u_v t /\ u_iss t' = u_iss t /\ u_aud t' = u_aud t /\
    map canon_cap (u_att t') = map canon_cap (u_att t) /\ prf_list t' = prf_list t /\
    u_exp t' = u_exp t /\ option_map (map canon_fact) (u_fct t') = option_map (map canon_fact) (u_fct t) /\
    u_nnc t' = u_nnc t /\ u_nbf t' = u_nbf t.
  Proof using valid_unique.
    intros Sh Sh' Wh Wh' Sp Sp' Wp Wp' I I' V V' S.
    destruct (verify_same_bytes t t' k V V' S) as [_ E].
    destruct (sign_payload_inj _ _ _ _ Sh' Sh Wh' Wh Sp' Sp Wp' Wp I' I E) as [_ H]. exact H.
  Qed.
End Tamper.

(* json_safe of the payload, in terms of the token *)
Definition cap_safe (c : capm) : bool := utf8_valid (cm_with c) && utf8_valid (cm_can c) && json_safe (cm_nb c).

Definition token_json_safe (t : utoken) : bool :=
  utf8_valid (did_string (u_iss t)) && utf8_valid (did_string (u_aud t)) &&
  forallb cap_safe (u_att t) &&
  match u_fct t with Some l => forallb (fun f => json_safe (IMap f)) l | None => true end &&
  match u_nnc t with Some s => utf8_valid s | None => true end.

Lemma payload_safe_of_token t : token_json_safe t = true -> json_safe (payload_ipld t true) = true.
Proof.
  unfold token_json_safe. rewrite !andb_true_iff. intros [[[[Hi Ha] Hc] Hf] Hn].
  assert (CAPS : forallb json_safe (map cap_ipld (u_att t)) = true).
  { rewrite forallb_forall in *. intros v Hv. apply in_map_iff in Hv. destruct Hv as [c [<- Hc']]. specialize (Hc c Hc').
    unfold cap_safe in Hc. rewrite !andb_true_iff in Hc. destruct Hc as [[H1 H2] H3].
    unfold cap_ipld, struct_map. cbn [concat field app json_safe slash_shape negb andb forallb fst snd].
    rewrite H1, H2, H3. reflexivity. }
  assert (PRF : forallb json_safe (map (fun c => IString (cid_string c)) (prf_list t)) = true).
  { rewrite forallb_forall. intros v Hv. apply in_map_iff in Hv. destruct Hv as [c [<- _]]. cbn [json_safe]. apply cid_string_valid. }
  assert (EXP : json_safe (nullable (option_map IInt (u_exp t))) = true) by (destruct (u_exp t); reflexivity).
  assert (FCT : forall l, forallb (fun f => json_safe (IMap f)) l = true -> forallb json_safe (map IMap l) = true).
  { intros l H. rewrite forallb_forall in *. intros v Hv. apply in_map_iff in Hv. destruct Hv as [f [<- Hf']]. auto. }
  unfold payload_ipld, struct_map.
  destruct (u_fct t) as [fl|]; [specialize (FCT fl Hf)|]; destruct (u_nnc t), (u_nbf t);
    cbn [option_map opt_field field concat app json_safe slash_shape negb andb forallb fst snd];
    rewrite ?Hi, ?Ha, ?CAPS, ?PRF, ?EXP, ?FCT, ?Hn; reflexivity.
Qed.
