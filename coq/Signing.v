(* Signing.v — issuing and verifying UCAN tokens (ucan/lib.go Issue / VerifySignature,
   ucan/formatter) over the token layout of Formats.v.
   The signed message is modelled BYTE FOR BYTE (DagJson.v): base64url(dag-json(header)) "."
   base64url(dag-json(payload)), with the DID and CID string forms; only the signature
   primitive itself is symbolic (Section hypotheses valid_sign / valid_unique). *)
From Ucanto Require Import Base Varint VarintMore Ipld Cbor Formats BaseEnc JsonText Sig Did DagJson.
Open Scope N_scope.

(* the JWT-style payload that is signed (ucan/datamodel/payload): iss/aud as DID strings,
   prf as CID strings; bindnode hands the fields over in schema order, the dag-json encoder
   sorts them *)
Definition prf_list (t : utoken) : list bstr := match u_prf t with Some l => l | None => [] end.

Definition payload_ipld (t : utoken) (with_nnc_nbf : bool) : ipld :=
  struct_map [
    field k_iss (IString (did_string (u_iss t)));
    field k_aud (IString (did_string (u_aud t)));
    field k_att (IList (map cap_ipld (u_att t)));
    field k_prf (IList (map (fun c => IString (cid_string c)) (prf_list t)));
    field k_exp (nullable (option_map IInt (u_exp t)));
    opt_field k_fct (option_map (fun l => IList (map IMap l)) (u_fct t));
    opt_field k_nnc (if with_nnc_nbf then option_map IString (u_nnc t) else None);
    opt_field k_nbf (if with_nnc_nbf then option_map IInt (u_nbf t) else None) ].

Definition k_alg := bs "alg". Definition k_ucv := bs "ucv". Definition k_typ := bs "typ".

Definition header_ipld (alg ver : bstr) : ipld :=
  struct_map [field k_alg (IString alg); field k_ucv (IString ver); field k_typ (IString (bs "JWT"))].

(* formatter.FormatSignPayload: the exact bytes handed to Sign / Verify *)
Definition sign_bytes (alg ver : bstr) (payload : ipld) : bstr :=
  b64url (json_encode (header_ipld alg ver)) ++ 46 :: b64url (json_encode payload).
Definition sign_payload_of (alg : bstr) (t : utoken) (full : bool) : bstr :=
  sign_bytes alg (u_v t) (payload_ipld t full).
Definition sign_payload (alg : bstr) (t : utoken) : bstr := sign_payload_of alg t true.

(* the formatter succeeds (no caveat / fact integer outside int64) *)
Definition sign_payload_ok (t : utoken) : bool := json_encodable (payload_ipld t true).
Definition sign_payload_opt (alg : bstr) (t : utoken) : option bstr :=
  let p := payload_ipld t true in
  if json_encodable p then Some (sign_bytes alg (u_v t) p) else None.

Lemma sign_payload_opt_eq alg t :
  sign_payload_opt alg t = if sign_payload_ok t then Some (sign_payload alg t) else None.
Proof. reflexivity. Qed.

(* ------------------------------------------------------------------ *)
(* ucan/lib.go checkSignable (fixes/C07_signable.diff): encodeSignaturePayload, used by both
   Issue and VerifySignature, refuses a payload that DAG-JSON cannot represent unambiguously:
   issuer / audience that are not DIDs (they print as ""), a string that is not valid UTF-8
   (version, algorithm, DID text, with, can, nonce, fact keys, strings and keys inside caveats
   and facts), a caveat / fact map of a reserved shape.  Floats are outside the model (Ipld.v has
   no float constructor): the guard does not look at them and an integral float still prints
   like the integer (KNOWN_FINDINGS json-integral-float). *)
Definition cap_safe (c : capm) : bool := utf8_valid (cm_with c) && utf8_valid (cm_can c) && json_safe (cm_nb c).
Definition did_text_ok (s : bstr) : bool := negb (beq s []) && utf8_valid s.

Definition signable_with (ds : bstr -> bstr) (alg : bstr) (t : utoken) : bool :=
  did_text_ok (ds (u_iss t)) && did_text_ok (ds (u_aud t)) &&
  utf8_valid (u_v t) && utf8_valid alg &&
  match u_nnc t with Some s => utf8_valid s | None => true end &&
  forallb cap_safe (u_att t) &&
  match u_fct t with Some l => forallb (fun f => json_safe (IMap f)) l | None => true end.
Definition signable (alg : bstr) (t : utoken) : bool := signable_with did_string alg t.

(* encodeSignaturePayload: the message to sign / verify, or an error *)
Definition signing_input (alg : bstr) (t : utoken) : option bstr :=
  if signable alg t then sign_payload_opt alg t else None.

Section Sign.
  (* symbolic crypto: key ids, signing is deterministic *)
  Variable sign : N -> bstr -> bstr.       (* key, message -> signature bytes (framed) *)
  Variable valid : N -> bstr -> bstr -> bool.   (* verifier of key accepts (message, signature) *)
  Variable alg_of : N -> bstr.             (* algorithm name of a key: "EdDSA" / "RS256" *)
  Variable did_of : N -> bstr.             (* DID bytes of a key *)

  Hypothesis valid_sign : forall k m, valid k m (sign k m) = true.
  (* a signature validates at most one message under a key (unforgeability + determinism) *)
  Hypothesis valid_unique : forall k m m' s, valid k m s = true -> valid k m' s = true -> m = m'.

  (* the token Issue builds once the payload is accepted *)
  Definition issued (k : N) (ver aud : bstr) (att : list capm) (prf : option (list bstr)) (exp : option Z)
             (fct : option (list (list (bstr * ipld)))) (nnc : option bstr) (nbf : option Z) : utoken :=
    let t0 := mkU ver (did_of k) aud [] att prf exp fct nnc nbf in
    mkU ver (did_of k) aud (sign k (sign_payload_of (alg_of k) t0 true)) att prf exp fct nnc nbf.

  (* ucan.Issue: sign the payload that includes nnc / nbf when set; an error (None) when
     encodeSignaturePayload refuses the payload *)
  Definition issue (k : N) (ver aud : bstr) (att : list capm) (prf : option (list bstr)) (exp : option Z)
             (fct : option (list (list (bstr * ipld)))) (nnc : option bstr) (nbf : option Z) : option utoken :=
    let t0 := mkU ver (did_of k) aud [] att prf exp fct nnc nbf in
    match signing_input (alg_of k) t0 with
    | Some _ => Some (issued k ver aud att prf exp fct nnc nbf)
    | None => None
    end.

  (* Issue as it was before the guard (5d39523) *)
  Definition issue_unguarded := issued.

  (* ucan.VerifySignature(view, verifier of key k): rebuild the payload from the token; an
     encodeSignaturePayload error is (false, err) *)
  Definition verify (t : utoken) (k : N) : bool :=
    match signing_input (alg_of k) t with
    | Some m => beq (u_iss t) (did_of k) && valid k m (u_s t)
    | None => false
    end.

  (* VerifySignature before the guard (5d39523) *)
  Definition verify_unguarded (t : utoken) (k : N) : bool :=
    beq (u_iss t) (did_of k) && valid k (sign_payload_of (alg_of k) t true) (u_s t).

  (* the pinned VerifySignature rebuilt the payload WITHOUT nnc and nbf *)
  Definition verify_pinned (t : utoken) (k : N) : bool :=
    beq (u_iss t) (did_of k) && valid k (sign_payload_of (alg_of k) t false) (u_s t).

  Lemma verify_spec t k : verify t k = signable (alg_of k) t && sign_payload_ok t && verify_unguarded t k.
  Proof using.
    unfold verify, verify_unguarded, signing_input. rewrite sign_payload_opt_eq.
    destruct (signable (alg_of k) t); [|reflexivity]. destruct (sign_payload_ok t); reflexivity.
  Qed.

  Lemma signing_input_ignores_sig alg t s :
    signing_input alg (mkU (u_v t) (u_iss t) (u_aud t) s (u_att t) (u_prf t) (u_exp t) (u_fct t) (u_nnc t) (u_nbf t))
    = signing_input alg t.
  Proof using. reflexivity. Qed.

  Lemma sign_payload_ignores_sig alg t s full :
    sign_payload_of alg (mkU (u_v t) (u_iss t) (u_aud t) s (u_att t) (u_prf t) (u_exp t) (u_fct t) (u_nnc t) (u_nbf t)) full
    = sign_payload_of alg t full.
  Proof using. reflexivity. Qed.

  (* every issued token verifies against its issuer — for every option combination *)
  Theorem issue_verifies k ver aud att prf exp fct nnc nbf t :
    issue k ver aud att prf exp fct nnc nbf = Some t -> verify t k = true.
  Proof using valid_sign.
    unfold issue, verify. set (t0 := mkU ver (did_of k) aud [] att prf exp fct nnc nbf).
    destruct (signing_input (alg_of k) t0) as [m|] eqn:E; [|discriminate]. intros H. inversion H; subst t. clear H.
    unfold issued. fold t0.
    change (signing_input (alg_of k) (mkU ver (did_of k) aud (sign k (sign_payload_of (alg_of k) t0 true)) att prf exp fct nnc nbf))
      with (signing_input (alg_of k) t0). rewrite E. cbn [u_iss u_s]. rewrite beq_refl. cbn [andb].
    unfold signing_input in E. destruct (signable (alg_of k) t0); [|discriminate].
    rewrite sign_payload_opt_eq in E. destruct (sign_payload_ok t0); [|discriminate]. inversion E. apply valid_sign.
  Qed.

  (* Issue fails exactly on the payloads encodeSignaturePayload refuses *)
  Theorem issue_none_iff k ver aud att prf exp fct nnc nbf :
    issue k ver aud att prf exp fct nnc nbf = None <->
    signing_input (alg_of k) (mkU ver (did_of k) aud [] att prf exp fct nnc nbf) = None.
  Proof using. unfold issue. destruct (signing_input _ _); split; congruence. Qed.

  (* an unsignable token verifies for nobody *)
  Theorem unsignable_rejected t k : signable (alg_of k) t = false -> verify t k = false.
  Proof using. intros H. rewrite verify_spec, H. reflexivity. Qed.

  (* transport: the decoded token (caveats / facts in canonical form) still verifies *)
  Lemma cap_canon c : canon (cap_ipld (canon_cap c)) = canon (cap_ipld c).
  Proof using.
    unfold cap_ipld, canon_cap, struct_map. cbn [cm_with cm_can cm_nb concat field app].
    rewrite !canon_map_eq. cbn [map]. unfold on_snd. cbn [fst snd]. rewrite canon_idem. reflexivity.
  Qed.

  Lemma fact_canon f : canon (IMap (canon_fact f)) = canon (IMap f).
  Proof using.
    unfold canon_fact. rewrite (canon_map_eq f).
    change (IMap (sort_map (map (on_snd canon) f))) with (canon (IMap f)). apply canon_idem.
  Qed.

  Lemma caps_canon l : canon (IList (map cap_ipld (map canon_cap l))) = canon (IList (map cap_ipld l)).
  Proof using.
    cbn [canon]. f_equal. rewrite !map_map. apply map_ext. intros c. apply cap_canon.
  Qed.

  Lemma facts_canon l : canon (IList (map IMap (map canon_fact l))) = canon (IList (map IMap l)).
  Proof using.
    cbn [canon]. f_equal. rewrite !map_map. apply map_ext. intros f.
    pose proof (fact_canon f) as H. exact H.
  Qed.

  Lemma payload_canon t full :
    canon (payload_ipld (canon_token t) full) = canon (payload_ipld t full).
  Proof using.
    unfold payload_ipld, canon_token, struct_map, prf_list.
    cbn [u_iss u_aud u_att u_prf u_exp u_fct u_nnc u_nbf].
    rewrite !canon_map_eq. f_equal. f_equal.
    pose proof (caps_canon (u_att t)) as CA.
    destruct (u_fct t) as [fl|]; [pose proof (facts_canon fl) as FA|];
      destruct (u_nnc t), (u_nbf t), full;
      cbn [option_map opt_field field concat app map]; unfold on_snd; cbn [fst snd];
      rewrite ?CA, ?FA; reflexivity.
  Qed.

  (* the signed bytes do not depend on the order of the entries of caveat / fact maps *)
  Lemma sign_payload_canon alg t full : sign_payload_of alg (canon_token t) full = sign_payload_of alg t full.
  Proof using.
    unfold sign_payload_of, sign_bytes. cbn [canon_token u_v]. do 3 f_equal.
    rewrite <- (json_encode_canon (payload_ipld (canon_token t) full)), payload_canon, json_encode_canon. reflexivity.
  Qed.

  Lemma cap_safe_canon c : cap_safe (canon_cap c) = cap_safe c.
  Proof using. unfold cap_safe, canon_cap. cbn [cm_with cm_can cm_nb]. rewrite json_safe_canon. reflexivity. Qed.

  Lemma fact_safe_canon f : json_safe (IMap (canon_fact f)) = json_safe (IMap f).
  Proof using.
    unfold canon_fact. rewrite (canon_map_eq f).
    change (IMap (sort_map (map (on_snd canon) f))) with (canon (IMap f)). apply json_safe_canon.
  Qed.

  Lemma signable_canon alg t : signable alg (canon_token t) = signable alg t.
  Proof using.
    unfold signable, signable_with, canon_token. cbn [u_v u_iss u_aud u_att u_fct u_nnc].
    f_equal; [f_equal|].
    - apply forallb_map_ext. apply Forall_forall. intros c _. apply cap_safe_canon.
    - destruct (u_fct t) as [l|]; [|reflexivity]. cbn [option_map].
      apply forallb_map_ext. apply Forall_forall. intros f _. apply fact_safe_canon.
  Qed.

  Lemma sign_payload_ok_canon t : sign_payload_ok (canon_token t) = sign_payload_ok t.
  Proof using.
    unfold sign_payload_ok.
    rewrite <- (json_encodable_canon (payload_ipld (canon_token t) true)), payload_canon, json_encodable_canon. reflexivity.
  Qed.

  Lemma signing_input_canon alg t : signing_input alg (canon_token t) = signing_input alg t.
  Proof using.
    unfold signing_input. rewrite signable_canon, !sign_payload_opt_eq, sign_payload_ok_canon.
    unfold sign_payload. rewrite sign_payload_canon. reflexivity.
  Qed.

  Theorem verify_after_transport t k :
    verify t k = true -> verify (canon_token t) k = true.
  Proof using.
    unfold verify. rewrite signing_input_canon. cbn [canon_token u_iss u_s]. auto.
  Qed.

  (* verification against any other principal fails *)
  Theorem verify_other_principal t k k' :
    verify t k = true -> did_of k' <> did_of k -> verify t k' = false.
  Proof using.
    rewrite !verify_spec. unfold verify_unguarded. intros H NE. rewrite !andb_true_iff in H. destruct H as [_ [I _]]. apply beq_eq in I.
    destruct (beq (u_iss t) (did_of k')) eqn:E; [|rewrite andb_false_r; reflexivity]. apply beq_eq in E. congruence.
  Qed.
End Sign.

(* ------------------------------------------------------------------ *)
(* the signed bytes determine every signed field                        *)

Lemma dot_split a b x y : ~ In 46 a -> ~ In 46 b -> a ++ 46 :: x = b ++ 46 :: y -> a = b /\ x = y.
Proof.
  revert b. induction a as [|c a IH]; intros [|d b] Na Nb E; cbn [app] in E.
  - inversion E. auto.
  - inversion E; subst. exfalso. apply Nb. left. reflexivity.
  - inversion E; subst. exfalso. apply Na. left. reflexivity.
  - inversion E; subst. destruct (IH b) as [-> ->]; auto; intros I; [apply Na | apply Nb]; right; exact I.
Qed.

Lemma b64url_no_dot s : ~ In 46 (b64url s).
Proof.
  intros I. pose proof (b64url_chars s) as F. rewrite Forall_forall in F. specialize (F 46 I).
  vm_compute in F. repeat (destruct F as [F|F]; [discriminate F|]). exact F.
Qed.

Theorem sign_payload_halves alg alg' t t' full full' :
  json_safe (header_ipld alg (u_v t)) = true -> json_safe (header_ipld alg' (u_v t')) = true ->
  json_safe (payload_ipld t full) = true -> json_safe (payload_ipld t' full') = true ->
  sign_payload_of alg t full = sign_payload_of alg' t' full' ->
  json_encode (header_ipld alg (u_v t)) = json_encode (header_ipld alg' (u_v t')) /\
  json_encode (payload_ipld t full) = json_encode (payload_ipld t' full').
Proof.
  intros Sh Sh' Sp Sp' E. unfold sign_payload_of, sign_bytes in E.
  apply dot_split in E; try apply b64url_no_dot. destruct E as [E1 E2].
  split; apply b64url_inj; auto; apply jprint_bytes, jok_to_json; assumption.
Qed.

(* reading the payload back from its canonical form *)
Definition payload_read (v : ipld) :=
  iss <- (x <- map_get k_iss v ;; as_string x) ;;
  aud <- (x <- map_get k_aud v ;; as_string x) ;;
  att <- (x <- map_get k_att v ;; l <- as_list x ;; omap cap_of_ipld l) ;;
  prf <- (x <- map_get k_prf v ;; l <- as_list x ;; omap as_string l) ;;
  exp <- (x <- map_get k_exp v ;; if is_null x then Some None else (z <- as_int x ;; Some (Some z))) ;;
  fct <- opt_get k_fct v (fun x => l <- as_list x ;; omap as_map l) ;;
  nnc <- opt_get k_nnc v as_string ;;
  nbf <- opt_get k_nbf v as_int ;;
  Some (iss, aud, att, prf, exp, fct, nnc, nbf).

Lemma payload_fields_nodup t full : match payload_ipld t full with IMap m => NoDup (map fst m) | _ => False end.
Proof.
  unfold payload_ipld, struct_map.
  destruct (u_fct t), (u_nnc t), (u_nbf t), full; cbn;
    repeat constructor; cbn; intuition discriminate.
Qed.

Theorem payload_read_canon t :
  payload_read (canon (payload_ipld t true)) =
  Some (did_string (u_iss t), did_string (u_aud t), map canon_cap (u_att t), map cid_string (prf_list t),
        u_exp t, option_map (map canon_fact) (u_fct t), u_nnc t, u_nbf t).
Proof.
  pose proof (payload_fields_nodup t true) as ND.
  unfold payload_read. unfold payload_ipld, struct_map in *.
  set (m := concat _) in *.
  unfold opt_get. rewrite !(map_get_canon_top _ _ ND).
  assert (ATT : omap cap_of_ipld (map canon (map cap_ipld (u_att t))) = Some (map canon_cap (u_att t))).
  { rewrite map_map. rewrite omap_map. apply omap_some. intros c _. apply cap_roundtrip. }
  assert (FCT : forall l, omap as_map (map canon (map IMap l)) = Some (map canon_fact l)).
  { intros l. rewrite map_map, omap_map. apply omap_some. intros f _. unfold canon_fact.
    rewrite canon_map_eq. reflexivity. }
  assert (PRF : forall l, omap as_string (map canon (map (fun c => IString (cid_string c)) l)) = Some (map cid_string l)).
  { intros l. rewrite map_map, omap_map. apply omap_some. intros; reflexivity. }
  subst m.
  destruct t as [ver iss aud s att prf exp fct nnc nbf]. unfold prf_list in *.
  cbn [u_v u_iss u_aud u_s u_att u_prf u_exp u_fct u_nnc u_nbf] in *.
  destruct exp as [exp|], fct as [fct|], nnc as [nnc|], nbf as [nbf|];
    cbn [option_map opt_field field concat app slookup beq N.eqb Pos.eqb andb k_iss k_aud k_att k_prf k_exp k_fct k_nnc k_nbf bs N_of_ascii N_of_digits nullable];
    cbn; rewrite ?ATT, ?FCT, ?PRF; cbn; reflexivity.
Qed.

Lemma header_canon_inj alg ver alg' ver' :
  canon (header_ipld alg ver) = canon (header_ipld alg' ver') -> alg = alg' /\ ver = ver'.
Proof.
  intros E. unfold header_ipld, struct_map in E. cbn [concat field app] in E.
  assert (ND : forall a v, NoDup (map fst [(k_alg, IString a); (k_ucv, IString v); (k_typ, IString (bs "JWT"))])).
  { intros. cbn. repeat constructor; cbn; intuition discriminate. }
  pose proof (f_equal (map_get k_alg) E) as Ea. pose proof (f_equal (map_get k_ucv) E) as Ev.
  rewrite !(map_get_canon_top _ _ (ND _ _)) in Ea. rewrite !(map_get_canon_top _ _ (ND _ _)) in Ev.
  cbn in Ea, Ev. inversion Ea. inversion Ev. auto.
Qed.

Lemma map_inj_on {A B} (P : A -> Prop) (f : A -> B) :
  (forall a b, P a -> P b -> f a = f b -> a = b) ->
  forall l l', Forall P l -> Forall P l' -> map f l = map f l' -> l = l'.
Proof.
  intros Hf l. induction l as [|x l IH]; intros [|y l'] Hl Hl' E; cbn in E; try discriminate; [reflexivity|].
  inversion E. inversion Hl; inversion Hl'; subst. f_equal; auto.
Qed.

(* the identifiers of a token are byte strings, its principals decodable DIDs *)
Definition token_ids_ok (t : utoken) : bool :=
  bytes_okb (u_iss t) && did_okb (u_iss t) && bytes_okb (u_aud t) && did_okb (u_aud t) && forallb bytes_okb (prf_list t).

(* equal signed bytes: same algorithm, version, and payload fields as strings *)
Theorem sign_payload_fields alg alg' t t' :
  json_safe (header_ipld alg (u_v t)) = true -> json_safe (header_ipld alg' (u_v t')) = true ->
  wf_ipld (header_ipld alg (u_v t)) = true -> wf_ipld (header_ipld alg' (u_v t')) = true ->
  json_safe (payload_ipld t true) = true -> json_safe (payload_ipld t' true) = true ->
  wf_ipld (payload_ipld t true) = true -> wf_ipld (payload_ipld t' true) = true ->
  sign_payload alg t = sign_payload alg' t' ->
  alg = alg' /\ u_v t = u_v t' /\
  did_string (u_iss t) = did_string (u_iss t') /\ did_string (u_aud t) = did_string (u_aud t') /\
  map canon_cap (u_att t) = map canon_cap (u_att t') /\
  map cid_string (prf_list t) = map cid_string (prf_list t') /\
  u_exp t = u_exp t' /\ option_map (map canon_fact) (u_fct t) = option_map (map canon_fact) (u_fct t') /\
  u_nnc t = u_nnc t' /\ u_nbf t = u_nbf t'.
Proof.
  intros Sh Sh' Wh Wh' Sp Sp' Wp Wp' E.
  destruct (sign_payload_halves _ _ _ _ _ _ Sh Sh' Sp Sp' E) as [Eh Ep].
  apply json_encode_inj in Eh; auto. apply json_encode_inj in Ep; auto.
  apply header_canon_inj in Eh. destruct Eh as [-> Ev].
  pose proof (payload_read_canon t) as R. pose proof (payload_read_canon t') as R'. rewrite Ep in R. rewrite R' in R.
  inversion R. repeat split; auto.
Qed.

(* ... hence the same token, field by field (caveats and facts up to the order of map entries;
   an absent proof list and an empty one are the same signed value) *)
Theorem sign_payload_inj alg alg' t t' :
  json_safe (header_ipld alg (u_v t)) = true -> json_safe (header_ipld alg' (u_v t')) = true ->
  wf_ipld (header_ipld alg (u_v t)) = true -> wf_ipld (header_ipld alg' (u_v t')) = true ->
  json_safe (payload_ipld t true) = true -> json_safe (payload_ipld t' true) = true ->
  wf_ipld (payload_ipld t true) = true -> wf_ipld (payload_ipld t' true) = true ->
  token_ids_ok t = true -> token_ids_ok t' = true ->
  sign_payload alg t = sign_payload alg' t' ->
  alg = alg' /\ u_v t = u_v t' /\ u_iss t = u_iss t' /\ u_aud t = u_aud t' /\
  map canon_cap (u_att t) = map canon_cap (u_att t') /\ prf_list t = prf_list t' /\
  u_exp t = u_exp t' /\ option_map (map canon_fact) (u_fct t) = option_map (map canon_fact) (u_fct t') /\
  u_nnc t = u_nnc t' /\ u_nbf t = u_nbf t'.
Proof.
  intros Sh Sh' Wh Wh' Sp Sp' Wp Wp' I I' E.
  destruct (sign_payload_fields _ _ _ _ Sh Sh' Wh Wh' Sp Sp' Wp Wp' E) as [Ea [Ev [Ei [Eu [Ec [Epr [Ee [Ef [En Eb]]]]]]]]].
  unfold token_ids_ok in I, I'. rewrite !andb_true_iff in I, I'.
  destruct I as [[[[Bi Di] Ba] Da] Bp]. destruct I' as [[[[Bi' Di'] Ba'] Da'] Bp'].
  apply bytes_okb_ok in Bi, Bi', Ba, Ba'.
  repeat split; auto.
  - apply did_string_inj; auto.
  - apply did_string_inj; auto.
  - apply (map_inj_on bytes_lt cid_string cid_string_inj); auto;
      apply Forall_forall; intros c Hc; [rewrite forallb_forall in Bp; specialize (Bp c Hc) | rewrite forallb_forall in Bp'; specialize (Bp' c Hc)];
      apply bytes_okb_ok; assumption.
Qed.

(* ------------------------------------------------------------------ *)
(* what the guard gives: the premises of sign_payload_inj                *)

Definition token_json_safe (t : utoken) : bool :=
  utf8_valid (did_string (u_iss t)) && utf8_valid (did_string (u_aud t)) &&
  forallb cap_safe (u_att t) &&
  match u_fct t with Some l => forallb (fun f => json_safe (IMap f)) l | None => true end &&
  match u_nnc t with Some s => utf8_valid s | None => true end.

Lemma payload_safe_of_token t : token_json_safe t = true -> json_safe (payload_ipld t true) = true.
Proof.
  unfold token_json_safe. rewrite !andb_true_iff. intros [[[[Hi Ha] Hc] Hf] Hn].
  assert (CAPS : forallb json_safe (map cap_ipld (u_att t)) = true).
  { rewrite forallb_forall in *. intros v Hv. apply in_map_iff in Hv. destruct Hv as [c [<- Hc']]. specialize (Hc c Hc').
    unfold cap_safe in Hc. rewrite !andb_true_iff in Hc. destruct Hc as [[H1 H2] H3].
    unfold cap_ipld, struct_map. cbn [concat field app json_safe slash_shape negb andb forallb fst snd].
    rewrite H1, H2, H3. reflexivity. }
  assert (PRF : forallb json_safe (map (fun c => IString (cid_string c)) (prf_list t)) = true).
  { rewrite forallb_forall. intros v Hv. apply in_map_iff in Hv. destruct Hv as [c [<- _]]. cbn [json_safe]. apply cid_string_valid. }
  assert (EXP : json_safe (nullable (option_map IInt (u_exp t))) = true) by (destruct (u_exp t); reflexivity).
  assert (FCT : forall l, forallb (fun f => json_safe (IMap f)) l = true -> forallb json_safe (map IMap l) = true).
  { intros l H. rewrite forallb_forall in *. intros v Hv. apply in_map_iff in Hv. destruct Hv as [f [<- Hf']]. auto. }
  unfold payload_ipld, struct_map.
  destruct (u_fct t) as [fl|]; [specialize (FCT fl Hf)|]; destruct (u_nnc t), (u_nbf t);
    cbn [option_map opt_field field concat app json_safe slash_shape negb andb forallb fst snd];
    rewrite ?Hi, ?Ha, ?CAPS, ?PRF, ?EXP, ?FCT, ?Hn; reflexivity.
Qed.

Lemma header_safe alg ver : utf8_valid alg = true -> utf8_valid ver = true -> json_safe (header_ipld alg ver) = true.
Proof.
  intros Ha Hv. unfold header_ipld, struct_map. cbn [concat field app json_safe slash_shape negb andb forallb fst snd].
  rewrite Ha, Hv. reflexivity.
Qed.

(* a DID string is empty exactly for undecodable bytes *)
Lemma did_string_nonempty b : negb (beq (did_string b) []) = true -> did_okb b = true.
Proof.
  unfold did_string, did_okb. destruct (did_decode b); [reflexivity|]. intros H. vm_compute in H. discriminate.
Qed.

(* the identifiers of a token are byte strings *)
Definition token_bytes_ok (t : utoken) : bool :=
  bytes_okb (u_iss t) && bytes_okb (u_aud t) && forallb bytes_okb (prf_list t).

Theorem signable_gives alg t : signable alg t = true ->
  json_safe (header_ipld alg (u_v t)) = true /\ json_safe (payload_ipld t true) = true /\
  did_okb (u_iss t) = true /\ did_okb (u_aud t) = true.
Proof.
  unfold signable, signable_with, did_text_ok. rewrite !andb_true_iff.
  intros [[[[[[[Ni Vi] [Na Va]] Hv] Hal] Hn] Hc] Hf].
  repeat split.
  - apply header_safe; assumption.
  - apply payload_safe_of_token. unfold token_json_safe. rewrite Vi, Va, Hc, Hf, Hn. reflexivity.
  - apply did_string_nonempty. exact Ni.
  - apply did_string_nonempty. exact Na.
Qed.

Lemma token_ids_of t alg : signable alg t = true -> token_bytes_ok t = true -> token_ids_ok t = true.
Proof.
  intros S B. destruct (signable_gives _ _ S) as [_ [_ [Di Da]]].
  unfold token_bytes_ok in B. unfold token_ids_ok. rewrite !andb_true_iff in *. tauto.
Qed.

(* tamper detection: two tokens that verify for key k with the same signature bytes carry the
   same signed bytes, hence the same fields *)
Section Tamper.
  Variable valid : N -> bstr -> bstr -> bool.
  Variable alg_of did_of : N -> bstr.
  Hypothesis valid_unique : forall k m m' s, valid k m s = true -> valid k m' s = true -> m = m'.

  Lemma verify_same_bytes t t' k :
    verify_unguarded valid alg_of did_of t k = true -> verify_unguarded valid alg_of did_of t' k = true -> u_s t' = u_s t ->
    u_iss t' = u_iss t /\ sign_payload (alg_of k) t' = sign_payload (alg_of k) t.
  Proof using valid_unique.
    intros V V' S. unfold verify_unguarded in *. rewrite andb_true_iff in *.
    destruct V as [I Vs]. destruct V' as [I' Vs']. apply beq_eq in I. apply beq_eq in I'.
    split; [congruence|]. rewrite S in Vs'. symmetry. exact (valid_unique _ _ _ _ Vs Vs').
  Qed.

  (* no json_safe premise: verification implies it *)
  Theorem verify_binds_payload t t' k :
    wf_ipld (header_ipld (alg_of k) (u_v t)) = true -> wf_ipld (header_ipld (alg_of k) (u_v t')) = true ->
    wf_ipld (payload_ipld t true) = true -> wf_ipld (payload_ipld t' true) = true ->
    token_bytes_ok t = true -> token_bytes_ok t' = true ->
    verify valid alg_of did_of t k = true -> verify valid alg_of did_of t' k = true -> u_s t' = u_s t ->
    u_v t' = u_v t /\ u_iss t' = u_iss t /\ u_aud t' = u_aud t /\
    map canon_cap (u_att t') = map canon_cap (u_att t) /\ prf_list t' = prf_list t /\
    u_exp t' = u_exp t /\ option_map (map canon_fact) (u_fct t') = option_map (map canon_fact) (u_fct t) /\
    u_nnc t' = u_nnc t /\ u_nbf t' = u_nbf t.
  Proof using valid_unique.
    intros Wh Wh' Wp Wp' B B' V V' S.
    rewrite verify_spec in V, V'. rewrite !andb_true_iff in V, V'. destruct V as [[G _] V]. destruct V' as [[G' _] V'].
    destruct (signable_gives _ _ G) as [Sh [Sp _]]. destruct (signable_gives _ _ G') as [Sh' [Sp' _]].
    pose proof (token_ids_of _ _ G B) as I. pose proof (token_ids_of _ _ G' B') as I'.
    destruct (verify_same_bytes t t' k V V' S) as [_ E].
    destruct (sign_payload_inj _ _ _ _ Sh' Sh Wh' Wh Sp' Sp Wp' Wp I' I E) as [_ H]. exact H.
  Qed.
End Tamper.
