(* ReceiptFormat.v — receipts (core/receipt/datamodel/receipt.ipldsch): layout, reader,
   byte round trip, signing of the DAG-CBOR outcome (core/receipt/receipt.go Issue). *)
From Ucanto Require Import Base Ipld Cbor Formats.
Open Scope N_scope.

Record outcome := mkOcm {
  o_ran : bstr;                       (* CID of the invocation *)
  o_ok : bool;                        (* out.ok (true) or out.error (false) *)
  o_val : ipld;                       (* the result value *)
  o_fork : list bstr;                 (* fx.fork: CIDs *)
  o_join : option bstr;               (* fx.join *)
  o_meta : list (bstr * ipld);
  o_iss : option bstr;                (* DID string of the issuer *)
  o_prf : list bstr }.

Record rcpt := mkRc { r_ocm : outcome; r_sig : bstr }.

Definition k_ran := bs "ran".   Definition k_out := bs "out".   Definition k_fx := bs "fx".
Definition k_meta := bs "meta". Definition k_ok := bs "ok".     Definition k_error := bs "error".
Definition k_fork := bs "fork". Definition k_join := bs "join". Definition k_ocm := bs "ocm".
Definition k_sig := bs "sig".

Definition outcome_ipld (o : outcome) : ipld :=
  struct_map [
    field k_ran (ILink (o_ran o));
    field k_out (IMap [((if o_ok o then k_ok else k_error), o_val o)]);
    field k_fx (struct_map [field k_fork (IList (map ILink (o_fork o))); opt_field k_join (option_map ILink (o_join o))]);
    field k_meta (IMap (o_meta o));
    opt_field k_iss (option_map IString (o_iss o));
    field k_prf (IList (map ILink (o_prf o))) ].

Definition receipt_ipld (r : rcpt) : ipld :=
  struct_map [field k_ocm (outcome_ipld (r_ocm r)); field k_sig (IBytes (r_sig r))].

Definition outcome_of_ipld (v : ipld) : option outcome :=
  ran <- (x <- map_get k_ran v ;; as_link x) ;;
  out <- map_get k_out v ;;
  res <- (match map_get k_ok out, map_get k_error out with
          | Some x, _ => Some (true, x)
          | None, Some x => Some (false, x)
          | None, None => None
          end) ;;
  fx <- map_get k_fx v ;;
  fork <- (x <- map_get k_fork fx ;; l <- as_list x ;; omap as_link l) ;;
  join <- opt_get k_join fx as_link ;;
  meta <- (x <- map_get k_meta v ;; as_map x) ;;
  iss <- opt_get k_iss v as_string ;;
  prf <- (x <- map_get k_prf v ;; l <- as_list x ;; omap as_link l) ;;
  Some (mkOcm ran (fst res) (snd res) fork join meta iss prf).

Definition receipt_of_ipld (v : ipld) : option rcpt :=
  o <- (x <- map_get k_ocm v ;; outcome_of_ipld x) ;;
  s <- (x <- map_get k_sig v ;; as_bytes x) ;;
  Some (mkRc o s).

Definition canon_outcome (o : outcome) : outcome :=
  mkOcm (o_ran o) (o_ok o) (canon (o_val o)) (o_fork o) (o_join o) (canon_fact (o_meta o)) (o_iss o) (o_prf o).
Definition canon_rcpt (r : rcpt) : rcpt := mkRc (canon_outcome (r_ocm r)) (r_sig r).

Definition outcome_bytes (o : outcome) : bstr := cbor_encode (outcome_ipld o).   (* what is signed *)
Definition receipt_bytes (r : rcpt) : bstr := cbor_encode (receipt_ipld r).      (* the root block *)
Definition receipt_decode (b : bstr) : option rcpt := v <- cbor_decode_all b ;; receipt_of_ipld v.

Lemma links_roundtrip l : omap as_link (map canon (map ILink l)) = Some l.
Proof.
  rewrite map_map, omap_map. rewrite (omap_some _ (fun x => x)); [rewrite map_id; reflexivity|]. intros; reflexivity.
Qed.

Lemma outcome_fields_nodup o : match outcome_ipld o with IMap m => NoDup (map fst m) | _ => False end.
Proof.
  unfold outcome_ipld, struct_map. destruct (o_iss o); cbn; repeat constructor; cbn; intuition discriminate.
Qed.

Theorem outcome_roundtrip_ipld o :
  NoDup (map fst (o_meta o)) -> outcome_of_ipld (canon (outcome_ipld o)) = Some (canon_outcome o).
Proof.
  intros NDm. pose proof (outcome_fields_nodup o) as ND.
  unfold outcome_of_ipld. unfold outcome_ipld, struct_map in *. set (m := concat _) in *.
  unfold opt_get. rewrite !(map_get_canon_top _ _ ND). subst m.
  destruct o as [ran okk val fork join meta iss prf].
  cbn [o_ran o_ok o_val o_fork o_join o_meta o_iss o_prf] in *.
  assert (FX : forall j, canon (IMap (concat [field k_fork (IList (map ILink fork)); opt_field k_join (option_map ILink j)]))
                 = IMap (sort_map (map (on_snd canon) (concat [field k_fork (IList (map ILink fork)); opt_field k_join (option_map ILink j)])))).
  { intros j. apply canon_map_eq. }
  unfold canon_outcome. cbn [o_ran o_ok o_val o_fork o_join o_meta o_iss o_prf].
  destruct okk, join as [j|], iss as [i|]; cbn; rewrite ?links_roundtrip; cbn; reflexivity.
Qed.

Theorem receipt_roundtrip_ipld r :
  NoDup (map fst (o_meta (r_ocm r))) -> receipt_of_ipld (canon (receipt_ipld r)) = Some (canon_rcpt r).
Proof.
  intros NDm. unfold receipt_of_ipld, receipt_ipld, struct_map. cbn [concat field app].
  assert (ND : NoDup (map fst [(k_ocm, outcome_ipld (r_ocm r)); (k_sig, IBytes (r_sig r))])).
  { cbn. repeat constructor; cbn; intuition discriminate. }
  rewrite !(map_get_canon_top _ _ ND).
  assert (L1 : slookup k_ocm [(k_ocm, outcome_ipld (r_ocm r)); (k_sig, IBytes (r_sig r))] = Some (outcome_ipld (r_ocm r))) by reflexivity.
  assert (L2 : slookup k_sig [(k_ocm, outcome_ipld (r_ocm r)); (k_sig, IBytes (r_sig r))] = Some (IBytes (r_sig r))) by reflexivity.
  rewrite L1, L2. cbn [option_map obind]. rewrite (outcome_roundtrip_ipld _ NDm). reflexivity.
Qed.

(* transport through the CAR codec = through the block bytes *)
Theorem receipt_transport r :
  wf_ipld (receipt_ipld r) = true -> in_budget (receipt_ipld r) = true ->
  NoDup (map fst (o_meta (r_ocm r))) ->
  receipt_decode (receipt_bytes r) = Some (canon_rcpt r).
Proof.
  intros W B ND. unfold receipt_decode, receipt_bytes. rewrite (cbor_roundtrip _ W B). cbn [obind].
  apply receipt_roundtrip_ipld. exact ND.
Qed.

(* re-encoding the decoded outcome reproduces the signed bytes *)
Lemma outcome_canon o : canon (outcome_ipld (canon_outcome o)) = canon (outcome_ipld o).
Proof.
  unfold outcome_ipld, canon_outcome, struct_map.
  cbn [o_ran o_ok o_val o_fork o_join o_meta o_iss o_prf].
  rewrite !canon_map_eq. f_equal. f_equal.
  assert (OUT : forall k, canon (IMap [(k, canon (o_val o))]) = canon (IMap [(k, o_val o)])).
  { intros k. rewrite !canon_map_eq. cbn [map]. unfold on_snd. cbn [fst snd]. rewrite canon_idem. reflexivity. }
  assert (META : canon (IMap (canon_fact (o_meta o))) = canon (IMap (o_meta o))).
  { unfold canon_fact. rewrite (canon_map_eq (o_meta o)).
    change (IMap (sort_map (map (on_snd canon) (o_meta o)))) with (canon (IMap (o_meta o))). apply canon_idem. }
  destruct (o_iss o); cbn [option_map opt_field field concat app map]; unfold on_snd; cbn [fst snd];
    rewrite OUT, META; reflexivity.
Qed.

Theorem outcome_reencode o : outcome_bytes (canon_outcome o) = outcome_bytes o.
Proof.
  unfold outcome_bytes. rewrite <- (cbor_encode_canon (outcome_ipld (canon_outcome o))).
  rewrite outcome_canon. apply cbor_encode_canon.
Qed.

(* the signed bytes determine the outcome *)
Theorem outcome_bytes_inj a b :
  wf_ipld (outcome_ipld a) = true -> wf_ipld (outcome_ipld b) = true ->
  NoDup (map fst (o_meta a)) -> NoDup (map fst (o_meta b)) ->
  outcome_bytes a = outcome_bytes b -> canon_outcome a = canon_outcome b.
Proof.
  intros Wa Wb Na Nb E. unfold outcome_bytes in E.
  pose proof (cbor_encode_inj _ _ Wa Wb E) as C.
  pose proof (outcome_roundtrip_ipld a Na) as Ra. pose proof (outcome_roundtrip_ipld b Nb) as Rb.
  rewrite C in Ra. congruence.
Qed.

(* ------------------------------------------------------------------ *)
Section ReceiptSign.
  Variable sign : N -> bstr -> bstr.
  Variable valid : N -> bstr -> bstr -> bool.
  Hypothesis valid_sign : forall k m, valid k m (sign k m) = true.
  Hypothesis valid_unique : forall k m m' s, valid k m s = true -> valid k m' s = true -> m = m'.

  (* receipt.Issue: sign cbor(outcome) *)
  Definition issue_receipt (k : N) (o : outcome) : rcpt := mkRc o (sign k (outcome_bytes o)).
  (* verification as a consumer does it: over the DAG-CBOR of the outcome of the (decoded) receipt *)
  Definition verify_receipt (k : N) (r : rcpt) : bool := valid k (outcome_bytes (r_ocm r)) (r_sig r).

  Theorem receipt_issue_verifies k o : verify_receipt k (issue_receipt k o) = true.
  Proof. apply valid_sign. Qed.

  (* ... also on the receipt read back after transport *)
  Theorem receipt_verifies_after_transport k r :
    verify_receipt k r = true -> verify_receipt k (canon_rcpt r) = true.
  Proof. unfold verify_receipt. cbn [canon_rcpt r_ocm r_sig]. rewrite outcome_reencode. auto. Qed.

  (* a receipt with the same signature that verifies has the same outcome *)
  Theorem receipt_tamper k r r' :
    wf_ipld (outcome_ipld (r_ocm r)) = true -> wf_ipld (outcome_ipld (r_ocm r')) = true ->
    NoDup (map fst (o_meta (r_ocm r))) -> NoDup (map fst (o_meta (r_ocm r'))) ->
    verify_receipt k r = true -> verify_receipt k r' = true -> r_sig r' = r_sig r ->
    canon_outcome (r_ocm r') = canon_outcome (r_ocm r).
  Proof.
    intros W W' N N' V V' S. unfold verify_receipt in *. rewrite S in V'.
    pose proof (valid_unique _ _ _ _ V V') as E. symmetry. apply outcome_bytes_inj; auto.
  Qed.
End ReceiptSign.
