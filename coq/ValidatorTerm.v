(* ValidatorTerm.v — termination of the validator (C11, C04): on a content-addressed
   (acyclic) token store the mutual recursion Claim -> Validate -> VerifySession -> Claim
   and Authorize -> Authorize is bounded; with enough fuel the model never answers AFuel,
   i.e. the real recursion cannot run away (no stack overflow).  The bound rests on the
   exclusion of the delegation under verification from its own candidate attestations:
   the candidate list shrinks at every nesting level at the same DAG depth. *)
From Ucanto Require Import Base Pattern Time Validator ValidatorSpec.
From Coq Require Import ZifyBool ZifyN ZifyNat.
Open Scope N_scope.

Section Term.
  Variable U : link -> option token.
  Variable C : ctx.
  Hypothesis Hres : forall l p, resolve_proof C l = Some p -> d_link p = l.
  (* content addressing: a token's proofs have strictly smaller rank (the proof DAG is acyclic) *)
  Variable rank : link -> nat.
  Hypothesis Hacyclic : forall l t p, U l = Some t -> In p (t_prf t) -> (rank p < rank l)%nat.
  (* every token cites at most K proofs *)
  Variable K : nat.
  Hypothesis HK : forall l t, U l = Some t -> (length (t_prf t) <= K)%nat.

  Definition ranks_le (r : nat) (ds : list dlg) : Prop := Forall (fun d => (rank (d_link d) <= r)%nat) ds.

  Definition no_fuel (x : ares * list event) : Prop := fst x <> AFuel.

  (* "claim with this much fuel is total on lists of rank <= r and length <= c" *)
  Definition claim_total (n : nat) (r c : nat) : Prop :=
    forall ds prfs, ranks_le r prfs -> (length prfs <= c)%nat -> no_fuel (claim U C n ds prfs).

  Lemma filter_length_le {A} (f : A -> bool) l : (length (filter f l) <= length l)%nat.
  Proof. induction l as [|x l IH]; cbn; [lia|]. destruct (f x); cbn; lia. Qed.

  Lemma session_candidates_shrink d sibs :
    In d sibs -> (length (session_candidates U d sibs) < length sibs)%nat.
  Proof.
    unfold session_candidates. induction sibs as [|x sibs IH]; intros Hin; [destruct Hin|].
    cbn [filter length]. destruct Hin as [<-|Hin].
    - rewrite N.eqb_refl. cbn [negb andb].
      pose proof (filter_length_le (fun p => negb (d_link p =? d_link x) && first_is_attest U p) sibs). lia.
    - specialize (IH Hin).
      destruct (negb (d_link x =? d_link d) && first_is_attest U x); cbn [length]; lia.
  Qed.

  Lemma session_candidates_ranks r d sibs : ranks_le r sibs -> ranks_le r (session_candidates U d sibs).
  Proof.
    unfold ranks_le, session_candidates. rewrite !Forall_forall. intros H x Hx.
    apply filter_In in Hx. apply H. apply Hx.
  Qed.

  (* Validate is total when the previous claim level is total on shorter lists *)
  Lemma validate_total n r c d sibs :
    claim_total n r c -> ranks_le r sibs -> In d sibs -> (length sibs <= S c)%nat ->
    fst (validate U C (claim U C n) d sibs) <> VFuel.
  Proof.
    intros CT HR Hin HL. unfold validate.
    destruct (tok U d) as [t|]; [|cbn; discriminate].
    destruct (is_expired (t_exp t) (now C)); [cbn; discriminate|].
    destruct (is_too_early (t_nbf t) (now C)); [cbn; discriminate|].
    unfold verify_authorization.
    destruct (prefixb did_key_prefix (did_str (t_iss t))).
    { destruct (parse_principal C (did_str (t_iss t))); [|cbn; discriminate].
      unfold verify_sig. destruct (existsb _ _); [|cbn; discriminate].
      destruct (did_eqb _ _); cbn; [destruct (_ && _)|]; discriminate. }
    destruct (did_eqb (t_iss t) (v_did (authority C))).
    { unfold verify_sig. destruct (existsb _ _); [|cbn; discriminate].
      destruct (did_eqb _ _); cbn; [destruct (_ && _)|]; discriminate. }
    unfold verify_session.
    pose proof (session_candidates_shrink d sibs Hin) as SH.
    assert (NF : no_fuel (claim U C n (attest_desc (v_did (authority C)) (d_link d)) (session_candidates U d sibs))).
    { apply CT; [apply session_candidates_ranks; exact HR | lia]. }
    destruct (claim U C n (attest_desc (v_did (authority C)) (d_link d)) (session_candidates U d sibs)) as [res ev].
    unfold no_fuel in NF. cbn [fst] in NF.
    destruct res as [a|e|]; [cbn; discriminate| |contradiction].
    destruct (has_failed e); [cbn; discriminate|].
    destruct (resolve_did_key C (t_iss t)); [|cbn; discriminate].
    destruct (parse_principal C (did_str d0)); [|cbn; discriminate].
    destruct (prefixb did_key_prefix (did_str (v_did v))); [|cbn; discriminate].
    unfold verify_sig. destruct (existsb _ _); [|cbn; discriminate].
    destruct (did_eqb _ _); cbn; [destruct (_ && _)|]; discriminate.
  Qed.

  Lemma sources_of_total n r c sibs : claim_total n r c -> ranks_le r sibs -> (length sibs <= S c)%nat ->
    forall ds, (forall d, In d ds -> In d sibs) -> fst (sources_of U C (claim U C n) ds sibs) <> None.
  Proof.
    intros CT HR HL. induction ds as [|d ds IH]; intros Hsub; cbn [sources_of]; [cbn; discriminate|].
    pose proof (validate_total n r c d sibs CT HR (Hsub d (or_introl eq_refl)) HL) as VT.
    destruct (validate U C (claim U C n) d sibs) as [v ev]. cbn [fst] in VT.
    assert (IH' := IH (fun x Hx => Hsub x (or_intror Hx))).
    destruct (sources_of U C (claim U C n) ds sibs) as [res ev']. cbn [fst] in IH'.
    destruct v; cbn [fst]; try contradiction; try exact IH'.
    destruct res; [discriminate | contradiction].
  Qed.

  (* sources of a delegation's proofs: all of strictly smaller rank *)
  Lemma proofs_view_rank d t p : tok U d = Some t -> In p (proofs_view U C d t) ->
    (rank (d_link p) < rank (d_link d))%nat.
  Proof.
    intros T Hin. eapply Hacyclic; [exact T|]. eapply proofs_view_in; eauto.
  Qed.

  Lemma filter_map_length {A B} (f : A -> option B) l : (length (filter_map f l) <= length l)%nat.
  Proof. induction l as [|x l IH]; cbn; [lia|]. destruct (f x); cbn; lia. Qed.

  Lemma aligned_props d t :
    tok U d = Some t ->
    let ps := aligned U t (proofs_view U C d t) in
    (length ps <= K)%nat /\ Forall (fun p => (rank (d_link p) < rank (d_link d))%nat) ps.
  Proof.
    intros T ps. split.
    - unfold ps, aligned. eapply Nat.le_trans; [apply filter_length_le|].
      unfold proofs_view. eapply Nat.le_trans; [apply filter_map_length|]. eapply HK. exact T.
    - rewrite Forall_forall. intros p Hp. unfold ps, aligned in Hp. apply filter_In in Hp.
      eapply proofs_view_rank; [exact T | apply Hp].
  Qed.

  Lemma sources_of_dlg_in n ds sibs srcs :
    fst (sources_of U C (claim U C n) ds sibs) = Some srcs -> forall s, In s srcs -> In (snd s) ds.
  Proof.
    revert srcs. induction ds as [|d ds IH]; cbn [sources_of]; intros srcs H s Hs.
    - cbn in H. inversion H; subst. destruct Hs.
    - destruct (validate U C (claim U C n) d sibs) as [v ev].
      destruct (sources_of U C (claim U C n) ds sibs) as [res ev'] eqn:SO. cbn [fst] in *.
      destruct v; try discriminate.
      + destruct res as [l|]; [|discriminate]. inversion H; subst.
        apply in_app_or in Hs. destruct Hs as [Hs|Hs].
        * unfold caps_of in Hs. destruct (tok U d); [|destruct Hs].
          apply in_map_iff in Hs. destruct Hs as [c [<- _]]. left. reflexivity.
        * right. eapply IH; eauto.
      + right. eapply IH; eauto.
      + right. eapply IH; eauto.
  Qed.

  (* Authorize is total: its own fuel exceeds the rank of the matched delegation and the
     claim level used for sessions is total one rank below *)
  Lemma authorize_total n : forall j ds m,
    (forall r', (r' < rank (d_link (m_dlg m)))%nat -> claim_total n r' K) ->
    (rank (d_link (m_dlg m)) < j)%nat ->
    no_fuel (authorize U C (claim U C n) j ds m).
  Proof.
    induction j as [|j IH]; intros ds m CT HJ; [lia|].
    unfold no_fuel. cbn [authorize]. unfold resolve_sources.
    destruct (tok U (m_dlg m)) as [t|] eqn:T.
    2:{ cbn. destruct (auth_loop U C (authorize U C (claim U C n) j ds) [] false) eqn:AL. cbn in *. inversion AL. discriminate. }
    destruct (aligned_props (m_dlg m) t T) as [LK RK].
    set (ps := aligned U t (proofs_view U C (m_dlg m) t)) in *.
    assert (HR : ranks_le (rank (d_link (m_dlg m)) - 1) ps).
    { unfold ranks_le. rewrite Forall_forall in *. intros p Hp. specialize (RK p Hp). lia. }
    destruct (Nat.eq_dec (rank (d_link (m_dlg m))) 0) as [Z|NZ].
    { (* rank 0: no proofs at all *)
      assert (ps = []) as ->.
      { destruct ps as [|p ps']; [reflexivity|]. rewrite Forall_forall in RK. specialize (RK p (or_introl eq_refl)). lia. }
      cbn. discriminate. }
    assert (CT' : claim_total n (rank (d_link (m_dlg m)) - 1) K) by (apply CT; lia).
    assert (CT'' : claim_total n (rank (d_link (m_dlg m)) - 1) (K - 1)).
    { intros ds0 prfs A B. apply CT'; [exact A | lia]. }
    pose proof (sources_of_total n _ (K - 1) ps CT'' HR ltac:(lia) ps (fun d H => H)) as ST.
    destruct (sources_of U C (claim U C n) ps ps) as [srcs ev] eqn:SO. cbn [fst] in ST.
    destruct srcs as [ss|]; [|contradiction].
    destruct (select_derived ds (m_cap m) ss) as [ms evd] eqn:SD.
    (* every candidate match sits on a delegation of smaller rank *)
    assert (HM : forall m', In m' ms -> (rank (d_link (m_dlg m')) < rank (d_link (m_dlg m)))%nat).
    { intros [s c'] Hm. assert (X : In (s, c') (fst (select_derived ds (m_cap m) ss))) by (rewrite SD; exact Hm).
      apply select_derived_in in X. destruct X as [Hs _].
      assert (In (snd s) ps) by (eapply sources_of_dlg_in; [rewrite SO; reflexivity | exact Hs]).
      rewrite Forall_forall in RK. apply RK. exact H. }
    assert (AL : forall failed, fst (auth_loop U C (authorize U C (claim U C n) j ds) ms failed) <> AFuel).
    { clear SD. induction ms as [|m0 ms IHms]; intros failed; cbn [auth_loop]; [cbn; discriminate|].
      destruct (can_issue C (m_cap m0) (iss_of U (m_dlg m0))); [cbn; discriminate|].
      assert (NF : no_fuel (authorize U C (claim U C n) j ds m0)).
      { apply IH.
        - intros r' Hr'. apply CT. specialize (HM m0 (or_introl eq_refl)). lia.
        - specialize (HM m0 (or_introl eq_refl)). lia. }
      destruct (authorize U C (claim U C n) j ds m0) as [res ev0]. unfold no_fuel in NF. cbn [fst] in NF.
      destruct res as [a|e|]; [cbn; discriminate| |contradiction].
      specialize (IHms (fun x Hx => HM x (or_intror Hx)) true).
      destruct (auth_loop U C (authorize U C (claim U C n) j ds) ms true). cbn [fst] in *. exact IHms. }
    specialize (AL false).
    destruct (auth_loop U C (authorize U C (claim U C n) j ds) ms false). cbn [fst] in *. exact AL.
  Qed.

  (* one more unit of fuel extends totality by one list element at the same rank,
     provided the previous level is total at every smaller rank with K siblings *)
  Lemma claim_step n r c :
    claim_total n r c -> (forall r', (r' < r)%nat -> claim_total n r' K) -> (r < n)%nat ->
    claim_total (S n) r (S c).
  Proof.
    intros CT CTlow HN ds prfs HR HL. unfold no_fuel. cbn [claim]. unfold claim_body.
    pose proof (sources_of_total n r c prfs CT HR HL prfs (fun d H => H)) as ST.
    destruct (sources_of U C (claim U C n) prfs prfs) as [srcs ev] eqn:SO. cbn [fst] in ST.
    destruct srcs as [ss|]; [|contradiction].
    assert (HM : forall m, In m (select_top ds ss) -> (rank (d_link (m_dlg m)) <= r)%nat).
    { intros [s c0] Hm. apply select_top_in in Hm. destruct Hm as [Hs _].
      assert (In (snd s) prfs) by (eapply sources_of_dlg_in; [rewrite SO; reflexivity | exact Hs]).
      unfold ranks_le in HR. rewrite Forall_forall in HR. apply HR. exact H. }
    assert (CL : forall failed rev, fst (claim_loop U C (authorize U C (claim U C n) n ds) (select_top ds ss) failed rev) <> AFuel).
    { generalize (select_top ds ss) HM. clear HM. intros ms. induction ms as [|m0 ms IHms]; intros HM failed rev;
        cbn [claim_loop]; [cbn; discriminate|].
      destruct (can_issue C (m_cap m0) (iss_of U (m_dlg m0))).
      { destruct (revoked C _); [|cbn; discriminate].
        specialize (IHms (fun x Hx => HM x (or_intror Hx)) failed true).
        destruct (claim_loop U C _ ms failed true). cbn [fst] in *. exact IHms. }
      assert (NF : no_fuel (authorize U C (claim U C n) n ds m0)).
      { apply authorize_total.
        - intros r' Hr'. apply CTlow. specialize (HM m0 (or_introl eq_refl)). lia.
        - specialize (HM m0 (or_introl eq_refl)). lia. }
      destruct (authorize U C (claim U C n) n ds m0) as [res ev0]. unfold no_fuel in NF. cbn [fst] in NF.
      destruct res as [a|e|]; [| |contradiction].
      - destruct (revoked C _); [|cbn; discriminate].
        specialize (IHms (fun x Hx => HM x (or_intror Hx)) failed true).
        destruct (claim_loop U C _ ms failed true). cbn [fst] in *. exact IHms.
      - specialize (IHms (fun x Hx => HM x (or_intror Hx)) true rev).
        destruct (claim_loop U C _ ms true rev). cbn [fst] in *. exact IHms. }
    specialize (CL false false).
    destruct (claim_loop U C (authorize U C (claim U C n) n ds) (select_top ds ss) false false).
    cbn [fst] in *. exact CL.
  Qed.

  (* the empty proof list needs one unit of fuel *)
  Lemma claim_nil n r : claim_total (S n) r 0.
  Proof.
    intros ds prfs _ HL. destruct prfs as [|x p]; [|cbn in HL; lia].
    unfold no_fuel. cbn. discriminate.
  Qed.

  (* fuel that suffices for rank r and lists of length c *)
  Fixpoint need (r : nat) : nat :=
    match r with
    | O => S K
    | S r' => need r' + S (S K)
    end.

  Lemma need_ge r : (r < need r)%nat.
  Proof. induction r; cbn [need]; lia. Qed.
  Lemma need_ge_K r : (S K <= need r)%nat.
  Proof. induction r; cbn [need]; lia. Qed.
  Lemma need_mono r r' : (r' <= r)%nat -> (need r' <= need r)%nat.
  Proof. induction 1; cbn [need]; lia. Qed.

  (* totality is monotone in the parameters it is stated for *)
  Lemma claim_total_weaken n r c r' c' :
    claim_total n r c -> (r' <= r)%nat -> (c' <= c)%nat -> claim_total n r' c'.
  Proof.
    intros CT Hr Hc ds prfs HR HL. apply CT; [|lia].
    unfold ranks_le in *. rewrite Forall_forall in *. intros d Hd. specialize (HR d Hd). lia.
  Qed.

  (* main induction: for all n >= need r - K + c ... stated as: from need r' (all r' < r) up *)
  Lemma claim_total_all : forall r c n, (need r - K + c <= n)%nat -> (c <= K)%nat -> claim_total n r c.
  Proof.
    induction r as [r IHr] using (well_founded_induction lt_wf).
    induction c as [|c IHc]; intros n Hn Hc.
    - pose proof (need_ge_K r). destruct n as [|n]; [lia|]. apply claim_nil.
    - destruct n as [|n]; [lia|].
      pose proof (need_ge_K r) as GK. pose proof (need_ge r) as GR.
      apply claim_step.
      + apply IHc; lia.
      + intros r' Hr'. apply IHr; [exact Hr' | | lia].
        pose proof (need_mono r (S r') ltac:(lia)) as M. cbn [need] in M.
        pose proof (need_ge_K r'). lia.
      + destruct r as [|r0]; [lia|]. cbn [need] in *. pose proof (need_ge r0). lia.
  Qed.

  (* Access (one proof: the invocation) never runs out of fuel from need(rank inv) + 1 on *)
  Theorem access_terminates ds inv n :
    (0 < K)%nat -> (need (rank (d_link inv)) + 1 <= n)%nat -> fst (access U C n ds inv) <> AFuel.
  Proof.
    intros HKpos Hn. unfold access.
    assert (CT : claim_total n (rank (d_link inv)) 1).
    { apply claim_total_all; lia. }
    apply CT; [constructor; [lia | constructor] | cbn; lia].
  Qed.
End Term.
