(* Car.v — CARv1 as go-ucanto core/car writes and reads it.

   car_encode  models car.Encode: util.LdWrite(header) then util.LdWrite(cid, data)
               per block; header = cbor.DumpObject(CarHeader{Roots, Version:1})
               = dag-cbor map {"roots": [tag 42 (0x00 ++ cid) ...], "version": v}.
   car_decode  models car.Decode: ipldcar.ReadHeader (util.LdRead + cbor decode),
               the version check, and the lazy iterator over blkReader.next
               (util.ReadNode = util.LdRead + cid.CidFromReader, then the
               cid.Prefix().Sum(bytes) re-hash).  The iterator is modelled for a
               consumer that never stops: after an error the reader stands where
               the failing call left it and the next call continues from there,
               exactly as the Go loop does.

   `fixed` selects the behaviour of next() on an io.EOF that arrives after the
   first byte of a section: the pinned tree (fixed = false) treats it as the
   clean end of the stream, the repaired tree (fixes/C12_eof.diff, fixed = true)
   reports io.ErrUnexpectedEOF.  All property theorems are about fixed = true. *)
From Ucanto Require Import Base Varint Cid.
From Coq Require Import ZifyBool ZifyN ZifyNat.
Open Scope N_scope.

(* util.MaxAllowedSectionSize = 32 MiB *)
Definition max_section : N := 33554432.

(* ------------------------------------------------------------------ *)
(* encoding/binary.ReadUvarint (the Go standard library reader used by
   util.LdRead): at most 10 bytes, the 10th at most 1, non-minimal forms
   accepted.  i = index of the byte, m = 2^(7 i).                       *)

Inductive uv_read :=
| UvEof                         (* ran out of bytes *)
| UvOverflow (rest : bstr)      (* 10 bytes consumed *)
| UvOk (v : N) (rest : bstr).

Fixpoint sdec (buf : bstr) (i : nat) (x m : N) : uv_read :=
  match buf with
  | [] => UvEof
  | b :: r =>
    if b <? 128 then
      (if (i =? 9)%nat && (1 <? b) then UvOverflow r else UvOk (x + b * m) r)
    else if (i =? 9)%nat then UvOverflow r
    else sdec r (S i) (x + (b - 128) * m) (m * 128)
  end.

Definition std_read_uvarint (s : bstr) : uv_read := sdec s 0 0 1.

Lemma sdec_enc f : forall n i x m rest,
  n < 128 ^ N.of_nat (S f) -> (i + S f <= 9)%nat ->
  sdec (enc_fuel f n ++ rest) i x m = UvOk (x + n * m) rest.
Proof.
  induction f as [|f IH]; intros n i x m rest Hn Hi; cbn [enc_fuel].
  - change (128 ^ N.of_nat 1) with 128 in Hn. rewrite N.mod_small by lia.
    cbn [app sdec]. replace (n <? 128) with true by lia.
    replace ((i =? 9)%nat) with false by lia. reflexivity.
  - destruct (n <? 128) eqn:E.
    + cbn [app sdec]. rewrite E. replace ((i =? 9)%nat) with false by lia. reflexivity.
    + cbn [app sdec].
      assert (Hm : n mod 128 < 128) by (apply N.mod_lt; lia).
      replace (n mod 128 + 128 <? 128) with false by lia.
      replace ((i =? 9)%nat) with false by lia.
      rewrite IH.
      * f_equal. replace (n mod 128 + 128 - 128) with (n mod 128) by lia.
        pose proof (N.div_mod n 128). nia.
      * rewrite pow128_S in Hn. apply N.div_lt_upper_bound; lia.
      * lia.
Qed.

Lemma enc_fuel_small : forall f g k,
  k < 128 ^ N.of_nat (S f) -> (f <= g)%nat -> enc_fuel g k = enc_fuel f k.
Proof.
  induction f as [|f IH]; intros g k Hk Hg.
  - change (128 ^ N.of_nat 1) with 128 in Hk. destruct g; cbn [enc_fuel].
    + reflexivity.
    + replace (k <? 128) with true by lia. rewrite N.mod_small by lia. reflexivity.
  - destruct g as [|g]; [lia|]. cbn [enc_fuel]. destruct (k <? 128); [reflexivity|].
    f_equal. apply IH; [|lia]. rewrite pow128_S in Hk. apply N.div_lt_upper_bound; lia.
Qed.

Lemma uvarint_enc8 n : n < 2 ^ 63 -> uvarint n = enc_fuel 8 n.
Proof.
  intros H. unfold uvarint. apply enc_fuel_small; [|lia].
  change (128 ^ N.of_nat 9) with (2 ^ 63). exact H.
Qed.

Theorem std_read_uvarint_uvarint n rest :
  n < 2 ^ 63 -> std_read_uvarint (uvarint n ++ rest) = UvOk n rest.
Proof.
  intros H. unfold std_read_uvarint. rewrite uvarint_enc8 by exact H.
  rewrite sdec_enc.
  - f_equal. lia.
  - change (128 ^ N.of_nat 9) with (2 ^ 63). exact H.
  - lia.
Qed.

Lemma sdec_shorter : forall buf i x m,
  match sdec buf i x m with
  | UvEof => True
  | UvOverflow r | UvOk _ r => (length r < length buf)%nat
  end.
Proof.
  induction buf as [|b r IH]; intros i x m; cbn [sdec]; [exact I|].
  destruct (b <? 128).
  - destruct ((i =? 9)%nat && (1 <? b)); cbn [length]; lia.
  - destruct (i =? 9)%nat; [cbn [length]; lia|].
    specialize (IH (S i) (x + (b - 128) * m) (m * 128)).
    destruct (sdec r (S i) (x + (b - 128) * m) (m * 128)); cbn [length]; try exact I; lia.
Qed.

Lemma enc_fuel_length f n : (length (enc_fuel f n) <= S f)%nat.
Proof.
  revert n; induction f as [|f IH]; intros n; cbn [enc_fuel]; [simpl; lia|].
  destruct (n <? 128); cbn [length]; [lia|]. specialize (IH (n / 128)). lia.
Qed.

(* every byte before the last one of a varint has the continuation bit *)
Lemma enc_fuel_proper_prefix f : forall n p q,
  enc_fuel f n = p ++ q -> q <> [] -> Forall (fun b => 128 <= b) p.
Proof.
  induction f as [|f IH]; intros n p q E Hq; cbn [enc_fuel] in E.
  - destruct p as [|a p]; [constructor|].
    destruct p; destruct q; try discriminate; congruence.
  - destruct (n <? 128).
    + destruct p as [|a p]; [constructor|].
      destruct p; destruct q; try discriminate; congruence.
    + destruct p as [|a p]; [constructor|].
      inversion E; subst. constructor; [lia|]. eapply IH; eauto.
Qed.

Lemma sdec_cont : forall p i x m,
  Forall (fun b => 128 <= b) p -> (i + length p <= 9)%nat -> sdec p i x m = UvEof.
Proof.
  induction p as [|b p IH]; intros i x m F L; [reflexivity|].
  inversion F; subst. cbn [sdec length] in *.
  replace (b <? 128) with false by lia.
  replace ((i =? 9)%nat) with false by lia.
  apply IH; [assumption|lia].
Qed.

Lemma std_read_uvarint_proper_prefix n p q :
  n < 2 ^ 63 -> uvarint n = p ++ q -> q <> [] -> std_read_uvarint p = UvEof.
Proof.
  intros H E Hq. rewrite uvarint_enc8 in E by exact H.
  unfold std_read_uvarint. apply sdec_cont.
  - eapply enc_fuel_proper_prefix; eauto.
  - pose proof (enc_fuel_length 8 n) as L. rewrite E, app_length in L.
    destruct q; [congruence|]. cbn [length] in L. lia.
Qed.

(* ------------------------------------------------------------------ *)
(* util.LdWrite / util.LdRead                                           *)

Definition ld (x : bstr) : bstr := uvarint (N.of_nat (length x)) ++ x.

Inductive ld_result :=
| LdEof                          (* Peek(1) failed: no byte at all, io.EOF *)
| LdEofLate                      (* length read, io.ReadFull read nothing: also io.EOF *)
| LdErr (rest : bstr)            (* an error; the reader is left at rest *)
| LdOk (data rest : bstr).

Definition ld_read (s : bstr) : ld_result :=
  match s with
  | [] => LdEof
  | _ =>
    match std_read_uvarint s with
    | UvEof => LdErr []                     (* io.ErrUnexpectedEOF *)
    | UvOverflow rest => LdErr rest
    | UvOk l rest =>
      if max_section <? l then LdErr rest   (* "malformed car; header is bigger than ..." *)
      else if l =? 0 then LdOk [] rest      (* io.ReadFull of an empty buffer succeeds *)
      else
        match rest with
        | [] => LdEofLate
        | _ => if l <=? N.of_nat (length rest)
               then LdOk (firstn (N.to_nat l) rest) (skipn (N.to_nat l) rest)
               else LdErr []                (* io.ErrUnexpectedEOF, everything consumed *)
        end
    end
  end.

Lemma ld_read_shorter s :
  match ld_read s with
  | LdEof | LdEofLate => True
  | LdErr r | LdOk _ r => (length r < length s)%nat \/ (s <> [] /\ r = [])
  end.
Proof.
  unfold ld_read. destruct s as [|b s]; [exact I|].
  unfold std_read_uvarint. pose proof (sdec_shorter (b :: s) 0 0 1) as H.
  destruct (sdec (b :: s) 0 0 1) as [|r|l r].
  - right. split; [discriminate|reflexivity].
  - left. exact H.
  - destruct (max_section <? l); [left; exact H|].
    destruct (l =? 0); [left; exact H|].
    destruct r as [|c r]; [exact I|].
    destruct (l <=? N.of_nat (length (c :: r))).
    + left. rewrite skipn_length. lia.
    + right. split; [discriminate|reflexivity].
Qed.

Lemma ld_read_ld x rest :
  x <> [] -> N.of_nat (length x) <= max_section -> ld_read (ld x ++ rest) = LdOk x rest.
Proof.
  intros Hx Hl. unfold ld. rewrite <- app_assoc. unfold ld_read.
  destruct (uvarint (N.of_nat (length x)) ++ x ++ rest) eqn:E.
  { destruct (uvarint (N.of_nat (length x))) eqn:U; [exact (False_rect _ (uvarint_nonempty _ U))|discriminate]. }
  rewrite <- E. rewrite std_read_uvarint_uvarint by (unfold max_section in Hl; lia).
  replace (max_section <? N.of_nat (length x)) with false by lia.
  assert (length x <> 0%nat) by (destruct x; [congruence|discriminate]).
  replace (N.of_nat (length x) =? 0) with false by lia.
  destruct (x ++ rest) eqn:E2; [destruct x; [congruence|discriminate]|]. rewrite <- E2.
  replace (N.of_nat (length x) <=? N.of_nat (length (x ++ rest))) with true by (rewrite app_length; lia).
  rewrite Nat2N.id, firstn_app, skipn_app, Nat.sub_diag, firstn_all, skipn_all.
  simpl. rewrite app_nil_r. reflexivity.
Qed.

(* ------------------------------------------------------------------ *)
(* the dag-cbor header                                                  *)

Fixpoint be_bytes (k : nat) (n : N) : bstr :=
  match k with O => [] | S k' => be_bytes k' (n / 256) ++ [n mod 256] end.

Definition be_val (s : bstr) : N := fold_left (fun a b => a * 256 + b) s 0.

Lemma be_bytes_length k : forall n, length (be_bytes k n) = k.
Proof.
  induction k as [|k IH]; intros n; [reflexivity|].
  cbn [be_bytes]. rewrite app_length, IH. simpl. lia.
Qed.

Lemma be_val_be_bytes k : forall n, n < 256 ^ N.of_nat k -> be_val (be_bytes k n) = n.
Proof.
  induction k as [|k IH]; intros n H.
  - change (256 ^ N.of_nat 0) with 1 in H. cbn. lia.
  - cbn [be_bytes]. unfold be_val in *. rewrite fold_left_app. cbn [fold_left].
    rewrite IH.
    + pose proof (N.div_mod n 256). lia.
    + rewrite Nat2N.inj_succ, N.pow_succ_r' in H. apply N.div_lt_upper_bound; lia.
Qed.

(* head of a CBOR item: major type and argument in its shortest form *)
Definition cbor_head (major n : N) : bstr :=
  if n <? 24 then [32 * major + n]
  else if n <? 256 then (32 * major + 24) :: be_bytes 1 n
  else if n <? 65536 then (32 * major + 25) :: be_bytes 2 n
  else if n <? 4294967296 then (32 * major + 26) :: be_bytes 4 n
  else (32 * major + 27) :: be_bytes 8 n.

Definition head_extra (ai : N) : nat :=
  if ai =? 24 then 1 else if ai =? 25 then 2 else if ai =? 26 then 4 else if ai =? 27 then 8 else 0.

Definition read_head (s : bstr) : option (N * N * bstr) :=
  match s with
  | [] => None
  | b :: r =>
    if b mod 32 <? 24 then Some (b / 32, b mod 32, r)
    else if (head_extra (b mod 32) =? 0)%nat then None
    else if (head_extra (b mod 32) <=? length r)%nat
         then Some (b / 32, be_val (firstn (head_extra (b mod 32)) r), skipn (head_extra (b mod 32)) r)
         else None
  end.

Lemma head_byte major c : c < 32 -> (32 * major + c) / 32 = major /\ (32 * major + c) mod 32 = c.
Proof.
  intros H. split.
  - symmetry. apply (N.div_unique _ 32 major c); lia.
  - symmetry. apply (N.mod_unique _ 32 major c); lia.
Qed.

Lemma firstn_app_exact {A} (a b : list A) k : length a = k -> firstn k (a ++ b) = a.
Proof. intros <-. rewrite firstn_app, Nat.sub_diag, firstn_all. simpl. apply app_nil_r. Qed.

Lemma skipn_app_exact {A} (a b : list A) k : length a = k -> skipn k (a ++ b) = b.
Proof. intros <-. rewrite skipn_app, Nat.sub_diag, skipn_all. reflexivity. Qed.

Lemma read_head_multi major c k n rest :
  24 <= c < 32 -> head_extra c = k -> k <> 0%nat -> n < 256 ^ N.of_nat k ->
  read_head (((32 * major + c) :: be_bytes k n) ++ rest) = Some (major, n, rest).
Proof.
  intros Hc Hk Hk0 Hn. cbn [app read_head].
  destruct (head_byte major c) as [D M]; [lia|]. rewrite D, M.
  replace (c <? 24) with false by lia. rewrite Hk.
  replace ((k =? 0)%nat) with false by lia.
  replace ((k <=? length (be_bytes k n ++ rest))%nat) with true
    by (rewrite app_length, be_bytes_length; lia).
  rewrite firstn_app_exact, skipn_app_exact by apply be_bytes_length.
  rewrite be_val_be_bytes by exact Hn. reflexivity.
Qed.

Lemma read_head_cbor_head major n rest :
  n < 2 ^ 64 -> read_head (cbor_head major n ++ rest) = Some (major, n, rest).
Proof.
  intros Hn. unfold cbor_head.
  destruct (n <? 24) eqn:E1.
  { cbn [app read_head]. destruct (head_byte major n) as [D M]; [lia|]. rewrite D, M, E1. reflexivity. }
  destruct (n <? 256) eqn:E2.
  { apply read_head_multi; [lia|reflexivity|lia|change (256 ^ N.of_nat 1) with 256; lia]. }
  destruct (n <? 65536) eqn:E3.
  { apply read_head_multi; [lia|reflexivity|lia|change (256 ^ N.of_nat 2) with 65536; lia]. }
  destruct (n <? 4294967296) eqn:E4.
  { apply read_head_multi; [lia|reflexivity|lia|change (256 ^ N.of_nat 4) with 4294967296; lia]. }
  apply read_head_multi; [lia|reflexivity|lia|change (256 ^ N.of_nat 8) with (2 ^ 64); lia].
Qed.

Lemma cbor_head_nonempty major n : cbor_head major n <> [].
Proof. unfold cbor_head. repeat destruct (_ <? _); discriminate. Qed.

Definition roots_key : bstr := [101; 114; 111; 111; 116; 115].              (* text(5) "roots" *)
Definition version_key : bstr := [103; 118; 101; 114; 115; 105; 111; 110].   (* text(7) "version" *)

(* tag 42, byte string = multibase identity prefix 0x00 ++ cid *)
Definition root_item (c : bstr) : bstr :=
  [216; 42] ++ cbor_head 2 (N.of_nat (S (length c))) ++ 0 :: c.

Definition header_bytes (roots : list bstr) (v : N) : bstr :=
  (162 :: roots_key) ++ cbor_head 4 (N.of_nat (length roots)) ++ flat_map root_item roots
  ++ version_key ++ cbor_head 0 v.

Definition expect (p s : bstr) : option bstr :=
  if prefixb p s then Some (skipn (length p) s) else None.

Lemma expect_app p r : expect p (p ++ r) = Some r.
Proof.
  unfold expect. replace (prefixb p (p ++ r)) with true.
  - rewrite skipn_app_exact by reflexivity. reflexivity.
  - symmetry. apply prefixb_spec. exists r. reflexivity.
Qed.

Fixpoint read_roots (fuel : nat) (n : N) (s : bstr) : option (list bstr * bstr) :=
  match fuel with
  | O => if n =? 0 then Some ([], s) else None
  | S f =>
    if n =? 0 then Some ([], s) else
    match expect [216; 42] s with
    | None => None
    | Some s1 =>
      match read_head s1 with
      | Some (mj, L, s2) =>
        if (mj =? 2) && (1 <=? L) && (L <=? N.of_nat (length s2)) then
          match firstn (N.to_nat L) s2 with
          | 0 :: c =>
            match read_roots f (n - 1) (skipn (N.to_nat L) s2) with
            | Some (cs, r) => Some (c :: cs, r)
            | None => None
            end
          | _ => None
          end
        else None
      | None => None
      end
    end
  end.

Lemma read_roots_items : forall roots fuel rest,
  (length roots <= fuel)%nat ->
  Forall (fun c => N.of_nat (S (length c)) < 2 ^ 64) roots ->
  read_roots fuel (N.of_nat (length roots)) (flat_map root_item roots ++ rest) = Some (roots, rest).
Proof.
  induction roots as [|c roots IH]; intros fuel rest Hf Hr.
  - destruct fuel; reflexivity.
  - destruct fuel as [|f]; [cbn [length] in Hf; lia|].
    inversion Hr as [|? ? Hc Hr']; subst.
    cbn [read_roots length flat_map].
    replace (N.of_nat (S (length roots)) =? 0) with false by lia.
    unfold root_item at 1. repeat rewrite <- app_assoc.
    rewrite expect_app. rewrite read_head_cbor_head by exact Hc.
    change (2 =? 2) with true.
    replace (1 <=? N.of_nat (S (length c))) with true by lia.
    replace (N.of_nat (S (length c)) <=? N.of_nat (length ((0 :: c) ++ flat_map root_item roots ++ rest)))
      with true by (rewrite app_length; cbn [length]; lia).
    cbn [andb]. rewrite Nat2N.id.
    rewrite firstn_app_exact, skipn_app_exact by reflexivity.
    replace (N.of_nat (S (length roots)) - 1) with (N.of_nat (length roots)) by lia.
    rewrite IH; [reflexivity| cbn [length] in Hf; lia | exact Hr'].
Qed.

(* Some (roots, v) exactly when hb is the canonical header for (roots, v) *)
Definition canon_header (hb : bstr) : option (list bstr * N) :=
  match expect (162 :: roots_key) hb with
  | None => None
  | Some s1 =>
    match read_head s1 with
    | Some (mj, n, s2) =>
      if mj =? 4 then
        match read_roots (length s2) n s2 with
        | None => None
        | Some (roots, s3) =>
          match expect version_key s3 with
          | None => None
          | Some s4 =>
            match read_head s4 with
            | Some (mj2, v, []) =>
              if (mj2 =? 0) && beq (header_bytes roots v) hb then Some (roots, v) else None
            | _ => None
            end
          end
        end
      else None
    | None => None
    end
  end.

Lemma canon_header_sound hb roots v : canon_header hb = Some (roots, v) -> hb = header_bytes roots v.
Proof.
  unfold canon_header.
  destruct (expect (162 :: roots_key) hb) as [s1|]; [|discriminate].
  destruct (read_head s1) as [[[mj n] s2]|]; [|discriminate].
  destruct (mj =? 4); [|discriminate].
  destruct (read_roots (length s2) n s2) as [[rs s3]|]; [|discriminate].
  destruct (expect version_key s3) as [s4|]; [|discriminate].
  destruct (read_head s4) as [[[mj2 v'] [|? ?]]|]; try discriminate.
  destruct (mj2 =? 0); cbn [andb]; [|discriminate].
  destruct (beq (header_bytes rs v') hb) eqn:B; [|discriminate].
  intros E. inversion E; subst. symmetry. apply beq_eq. exact B.
Qed.

Lemma flat_map_length_ge {A B} (f : A -> list B) l :
  (forall x, f x <> []) -> (length l <= length (flat_map f l))%nat.
Proof.
  intros Hf. induction l as [|x l IH]; [simpl; lia|].
  cbn [flat_map length]. rewrite app_length.
  specialize (Hf x). destruct (f x); [congruence|]. cbn [length]. lia.
Qed.

Lemma canon_header_complete roots v :
  v < 2 ^ 64 -> N.of_nat (length roots) < 2 ^ 64 ->
  Forall (fun c => N.of_nat (S (length c)) < 2 ^ 64) roots ->
  canon_header (header_bytes roots v) = Some (roots, v).
Proof.
  intros Hv Hn Hr. unfold canon_header.
  unfold header_bytes at 1. rewrite expect_app.
  rewrite read_head_cbor_head by exact Hn.
  change (4 =? 4) with true. cbv iota.
  rewrite read_roots_items; [| |exact Hr].
  - rewrite expect_app.
    pose proof (read_head_cbor_head 0 v [] Hv) as E. rewrite app_nil_r in E. rewrite E.
    change (0 =? 0) with true. rewrite beq_refl. reflexivity.
  - rewrite app_length.
    pose proof (flat_map_length_ge root_item roots) as G.
    assert (forall x, root_item x <> []) as NE by (intros x; discriminate).
    specialize (G NE). eapply Nat.le_trans; [exact G|apply Nat.le_add_r].
Qed.

(* ------------------------------------------------------------------ *)
(* encoder                                                              *)

Definition block := (bstr * bstr)%type.          (* (cid bytes, data) *)

Definition section (b : block) : bstr := ld (fst b ++ snd b).

Definition car_encode_v (v : N) (roots : list bstr) (blocks : list block) : bstr :=
  ld (header_bytes roots v) ++ flat_map section blocks.

Definition car_encode := car_encode_v 1.

(* ------------------------------------------------------------------ *)
(* decoder                                                              *)

Inductive item := IOk (c data : bstr) | IErr.

Inductive hdr := HdrErr | HdrOk (roots : list bstr).

Definition item_of_block (b : block) : item := IOk (fst b) (snd b).

Section Decode.
  Variable mh_digest : N -> N -> bstr -> option bstr.
  Variable fixed : bool.

  (* util.ReadNode on the section bytes + the re-hash of blkReader.next;
     None = cid.CidFromReader returned a bare io.EOF (empty section) *)
  Definition node_of (data : bstr) : option item :=
    match cid_from_reader data with
    | CrEof => None
    | CrErr => Some IErr
    | CrOk c d =>
      match cid_sum mh_digest (cid_prefix c) d with
      | Some c' => if beq c' c then Some (IOk c d) else Some IErr
      | None => Some IErr
      end
    end.

  Fixpoint car_blocks (fuel : nat) (s : bstr) : list item :=
    match fuel with
    | O => []
    | S f =>
      match ld_read s with
      | LdEof => []
      | LdEofLate => if fixed then [IErr] else []
      | LdErr rest => IErr :: car_blocks f rest
      | LdOk data rest =>
        match node_of data with
        | None => if fixed then IErr :: car_blocks f rest else []
        | Some it => it :: car_blocks f rest
        end
      end
    end.

  Definition car_iter (s : bstr) : list item := car_blocks (length s) s.

  (* --- fuel: the length of the input is enough ----------------------- *)

  Lemma car_blocks_fuel : forall f1 f2 s,
    (length s <= f1)%nat -> (length s <= f2)%nat -> car_blocks f1 s = car_blocks f2 s.
  Proof.
    induction f1 as [|f1 IH]; intros f2 s H1 H2.
    - destruct s; [|cbn [length] in H1; lia]. destruct f2; reflexivity.
    - destruct f2 as [|f2].
      + destruct s; [reflexivity|cbn [length] in H2; lia].
      + cbn [car_blocks]. pose proof (ld_read_shorter s) as L.
        destruct (ld_read s) as [| |r|d r]; try reflexivity.
        * f_equal. apply IH; destruct L as [L|[_ ->]]; cbn [length]; lia.
        * assert (car_blocks f1 r = car_blocks f2 r) as E
            by (apply IH; destruct L as [L|[_ ->]]; cbn [length]; lia).
          rewrite E. reflexivity.
  Qed.

  (* the iterator, without fuel *)
  Lemma car_iter_eq s :
    car_iter s =
    match ld_read s with
    | LdEof => []
    | LdEofLate => if fixed then [IErr] else []
    | LdErr rest => IErr :: car_iter rest
    | LdOk data rest =>
      match node_of data with
      | None => if fixed then IErr :: car_iter rest else []
      | Some it => it :: car_iter rest
      end
    end.
  Proof.
    unfold car_iter. destruct s as [|b s]; [reflexivity|].
    cbn [length car_blocks]. pose proof (ld_read_shorter (b :: s)) as L.
    destruct (ld_read (b :: s)) as [| |r|d r]; try reflexivity.
    - f_equal. apply car_blocks_fuel; destruct L as [L|[_ ->]]; cbn [length] in *; lia.
    - assert (car_blocks (length s) r = car_blocks (length r) r) as E
        by (apply car_blocks_fuel; destruct L as [L|[_ ->]]; cbn [length] in *; lia).
      rewrite E. reflexivity.
  Qed.

  Lemma car_iter_nil : car_iter [] = [].
  Proof. reflexivity. Qed.

  (* --- integrity: for EVERY input ------------------------------------ *)

  Definition item_ok (it : item) : Prop :=
    match it with
    | IOk c d => cid_sum mh_digest (cid_prefix c) d = Some c
    | IErr => True
    end.

  Lemma node_of_ok data it : node_of data = Some it -> item_ok it.
  Proof.
    unfold node_of. destruct (cid_from_reader data) as [| |c d]; try discriminate.
    - intros E; inversion E; exact I.
    - destruct (cid_sum mh_digest (cid_prefix c) d) as [c'|] eqn:S.
      + destruct (beq c' c) eqn:B; intros E; inversion E; subst; cbn [item_ok]; [|exact I].
        apply beq_eq in B. subst. exact S.
      + intros E; inversion E; exact I.
  Qed.

  Lemma car_blocks_integrity : forall fuel s, Forall item_ok (car_blocks fuel s).
  Proof.
    induction fuel as [|f IH]; intros s; cbn [car_blocks]; [constructor|].
    destruct (ld_read s) as [| |r|d r]; try constructor.
    - destruct fixed; repeat constructor.
    - exact I.
    - apply IH.
    - destruct (node_of d) as [it|] eqn:N.
      + constructor; [eapply node_of_ok; eauto | apply IH].
      + destruct fixed; constructor; [exact I | apply IH].
  Qed.

  (* --- sections of well-formed blocks -------------------------------- *)

  Definition block_ok (b : block) : Prop :=
    cid_wf (fst b) /\ cid_sum mh_digest (cid_prefix (fst b)) (snd b) = Some (fst b)
    /\ N.of_nat (length (fst b ++ snd b)) <= max_section.

  Lemma node_of_wf c d : cid_wf c ->
    node_of (c ++ d) =
    Some (match cid_sum mh_digest (cid_prefix c) d with
          | Some c' => if beq c' c then IOk c d else IErr
          | None => IErr end).
  Proof.
    intros W. unfold node_of. rewrite cid_from_reader_wf by exact W.
    destruct (cid_sum mh_digest (cid_prefix c) d) as [c'|]; [|reflexivity].
    destruct (beq c' c); reflexivity.
  Qed.

  Lemma car_iter_section b t : block_ok b ->
    car_iter (section b ++ t) = item_of_block b :: car_iter t.
  Proof.
    intros [W [S L]]. rewrite car_iter_eq. unfold section.
    rewrite ld_read_ld; [| |exact L].
    - rewrite node_of_wf by exact W. rewrite S, beq_refl. reflexivity.
    - pose proof (cid_wf_nonempty _ W). destruct (fst b); [congruence|discriminate].
  Qed.

  Lemma car_iter_sections bs t : Forall block_ok bs ->
    car_iter (flat_map section bs ++ t) = map item_of_block bs ++ car_iter t.
  Proof.
    induction bs as [|b bs IH]; intros F; [reflexivity|].
    inversion F; subst. cbn [flat_map map]. rewrite <- app_assoc.
    rewrite car_iter_section by assumption. rewrite IH by assumption. reflexivity.
  Qed.


  (* verdict of go-ipld-cbor (refmt) on header bytes that are NOT the canonical
     encoding of a (roots, version) pair: not modelled, an oracle *)
  Variable hdr_oracle : bstr -> option (list bstr * N).

  Definition hdr_decode (hb : bstr) : option (list bstr * N) :=
    match canon_header hb with
    | Some (roots, v) => if forallb cid_cast roots then Some (roots, v) else None
    | None => hdr_oracle hb
    end.

  Definition car_decode (s : bstr) : hdr * list item :=
    match ld_read s with
    | LdOk hb rest =>
      match hdr_decode hb with
      | Some (roots, v) => if v =? 1 then (HdrOk roots, car_iter rest) else (HdrErr, [])
      | None => (HdrErr, [])
      end
    | _ => (HdrErr, [])
    end.

  Theorem car_decode_integrity s c d :
    In (IOk c d) (snd (car_decode s)) -> cid_sum mh_digest (cid_prefix c) d = Some c.
  Proof.
    intros H.
    assert (F : Forall item_ok (snd (car_decode s))).
    { unfold car_decode. destruct (ld_read s) as [| |r|hb r]; try constructor.
      destruct (hdr_decode hb) as [[roots v]|]; [|constructor].
      destruct (v =? 1); [|constructor]. apply car_blocks_integrity. }
    rewrite Forall_forall in F. exact (F _ H).
  Qed.

End Decode.

  (* --- header --------------------------------------------------------- *)

  Definition roots_ok (v : N) (roots : list bstr) : Prop :=
    Forall cid_wf roots /\ N.of_nat (length (header_bytes roots v)) <= max_section.

  Lemma header_bytes_nonempty roots v : header_bytes roots v <> [].
  Proof. discriminate. Qed.

  Lemma header_root_bounds roots v :
    N.of_nat (length (header_bytes roots v)) <= max_section ->
    N.of_nat (length roots) < 2 ^ 64 /\ Forall (fun c => N.of_nat (S (length c)) < 2 ^ 64) roots.
  Proof.
    intros H. unfold header_bytes in H. repeat rewrite app_length in H.
    set (fm := length (flat_map root_item roots)) in *.
    assert (B : N.of_nat fm <= max_section) by lia.
    clear H. split.
    - pose proof (flat_map_length_ge root_item roots) as G.
      assert (forall x, root_item x <> []) as NE by (intros x; discriminate).
      specialize (G NE). fold fm in G. unfold max_section in B.
      assert (N.of_nat (length roots) <= N.of_nat fm) by lia.
      change (2 ^ 64) with 18446744073709551616. lia.
    - unfold fm in B. clear fm. induction roots as [|c roots IH]; constructor.
      + cbn [flat_map] in B. rewrite app_length in B. unfold root_item in B at 1.
        repeat rewrite app_length in B. cbn [length] in B. unfold max_section in B.
        change (2 ^ 64) with 18446744073709551616. lia.
      + apply IH. cbn [flat_map] in B. rewrite app_length in B. lia.
  Qed.

(* ------------------------------------------------------------------ *)
(* theorems about encoder output (any hash oracle, any header oracle)   *)

Section Theorems.
  Variable mh_digest : N -> N -> bstr -> option bstr.
  Variable hdr_oracle : bstr -> option (list bstr * N).

  Notation decode := (car_decode mh_digest true hdr_oracle).
  Notation iter := (car_iter mh_digest true).
  Notation blk_ok := (block_ok mh_digest).

  Lemma hdr_decode_canonical roots v :
    v < 2 ^ 64 -> roots_ok v roots ->
    hdr_decode hdr_oracle (header_bytes roots v) = Some (roots, v).
  Proof.
    intros Hv [W L]. unfold hdr_decode.
    destruct (header_root_bounds roots v L) as [B1 B2].
    rewrite canon_header_complete by assumption.
    replace (forallb cid_cast roots) with true; [reflexivity|].
    symmetry. apply forallb_forall. intros c Hc. apply cid_cast_wf.
    rewrite Forall_forall in W. exact (W c Hc).
  Qed.

  Lemma decode_encode_v fixed v roots blocks :
    v < 2 ^ 64 -> roots_ok v roots ->
    car_decode mh_digest fixed hdr_oracle (car_encode_v v roots blocks) =
    if v =? 1 then (HdrOk roots, car_iter mh_digest fixed (flat_map section blocks)) else (HdrErr, []).
  Proof.
    intros Hv R. unfold car_decode, car_encode_v.
    rewrite ld_read_ld; [|apply header_bytes_nonempty|exact (proj2 R)].
    rewrite hdr_decode_canonical by assumption. reflexivity.
  Qed.

  (* decode (encode roots blocks) = roots and exactly the blocks, all Ok *)
  Theorem car_roundtrip roots blocks :
    roots_ok 1 roots -> Forall blk_ok blocks ->
    decode (car_encode roots blocks) = (HdrOk roots, map item_of_block blocks).
  Proof.
    intros R F. unfold car_encode. rewrite decode_encode_v by (try exact R; reflexivity).
    change (1 =? 1) with true. cbv iota. f_equal.
    rewrite <- (app_nil_r (flat_map section blocks)).
    rewrite car_iter_sections by exact F. rewrite car_iter_nil. apply app_nil_r.
  Qed.

  (* a header that announces another version is refused, whatever follows *)
  Theorem car_header_version v roots blocks :
    v < 2 ^ 64 -> v <> 1 -> roots_ok v roots ->
    decode (car_encode_v v roots blocks) = (HdrErr, []).
  Proof.
    intros Hv Hne R. rewrite decode_encode_v by assumption.
    replace (v =? 1) with false by lia. reflexivity.
  Qed.

  (* ... also when the header is not in canonical form and refmt accepted it *)
  Theorem car_decode_version_any s hb rest roots v :
    ld_read s = LdOk hb rest -> hdr_decode hdr_oracle hb = Some (roots, v) -> v <> 1 ->
    decode s = (HdrErr, []).
  Proof.
    intros E1 E2 Hne. unfold car_decode. rewrite E1, E2.
    replace (v =? 1) with false by lia. reflexivity.
  Qed.

  (* --- truncation ------------------------------------------------------ *)

  Lemma iter_cut_section b p q :
    blk_ok b -> section b = p ++ q -> p <> [] -> q <> [] -> iter p = [IErr].
  Proof.
    intros [W [_ L]] E Hp Hq.
    set (x := fst b ++ snd b) in *.
    assert (Hx : x <> []).
    { pose proof (cid_wf_nonempty _ W). unfold x. destruct (fst b); [congruence|discriminate]. }
    assert (Hl63 : N.of_nat (length x) < 2 ^ 63) by (unfold max_section in L; lia).
    unfold section, ld in E. fold x in E.
    apply app_eq_app in E. destruct E as [l [[E1 E2]|[E1 E2]]].
    - (* the cut is inside the length varint (or exactly at its end when l = []) *)
      destruct l as [|y0 l].
      + (* p = uvarint L *)
        rewrite app_nil_r in E1. subst p.
        rewrite car_iter_eq. unfold ld_read.
        destruct (uvarint (N.of_nat (length x))) eqn:U; [exact (False_rect _ (uvarint_nonempty _ U))|].
        rewrite <- U.
        pose proof (std_read_uvarint_uvarint (N.of_nat (length x)) [] Hl63) as R.
        rewrite app_nil_r in R. rewrite R.
        replace (max_section <? N.of_nat (length x)) with false by lia.
        assert (length x <> 0%nat) by (destruct x; [congruence|discriminate]).
        replace (N.of_nat (length x) =? 0) with false by lia. reflexivity.
      + rewrite car_iter_eq. unfold ld_read.
        destruct p as [|p0 p]; [congruence|].
        rewrite (std_read_uvarint_proper_prefix (N.of_nat (length x)) (p0 :: p) (y0 :: l));
          [|exact Hl63|exact E1|discriminate].
        rewrite car_iter_nil. reflexivity.
    - (* p = uvarint L ++ l, x = l ++ q *)
      subst p. rewrite car_iter_eq. unfold ld_read.
      destruct (uvarint (N.of_nat (length x)) ++ l) eqn:U.
      { destruct (uvarint (N.of_nat (length x))) eqn:U'; [exact (False_rect _ (uvarint_nonempty _ U'))|discriminate]. }
      rewrite <- U. rewrite std_read_uvarint_uvarint by exact Hl63.
      replace (max_section <? N.of_nat (length x)) with false by lia.
      assert (length x <> 0%nat) by (destruct x; [congruence|discriminate]).
      replace (N.of_nat (length x) =? 0) with false by lia.
      destruct l as [|y0 l]; [reflexivity|].
      assert (length (y0 :: l) < length x)%nat.
      { rewrite E2, app_length. destruct q; [congruence|]. cbn [length]. lia. }
      replace (N.of_nat (length x) <=? N.of_nat (length (y0 :: l))) with false by lia.
      rewrite car_iter_nil. reflexivity.
  Qed.

  (* every cut strictly inside a section: the blocks before it, then an error *)
  Theorem car_truncate roots bs1 b p q :
    roots_ok 1 roots -> Forall blk_ok bs1 -> blk_ok b ->
    section b = p ++ q -> p <> [] -> q <> [] ->
    decode (car_encode roots bs1 ++ p) = (HdrOk roots, map item_of_block bs1 ++ [IErr]).
  Proof.
    intros R F B E Hp Hq. unfold car_decode, car_encode, car_encode_v.
    rewrite <- app_assoc.
    rewrite ld_read_ld; [|apply header_bytes_nonempty|exact (proj2 R)].
    rewrite hdr_decode_canonical by (try exact R; reflexivity).
    change (1 =? 1) with true. cbv iota. f_equal.
    rewrite car_iter_sections by exact F. f_equal.
    eapply iter_cut_section; eauto.
  Qed.

  (* a cut at a section boundary is a shorter valid archive (inherent to CARv1) *)
  Theorem car_truncate_boundary roots bs1 :
    roots_ok 1 roots -> Forall blk_ok bs1 ->
    decode (car_encode roots bs1) = (HdrOk roots, map item_of_block bs1).
  Proof. apply car_roundtrip. Qed.

  (* a cut inside the header (or the empty input) is a header error *)
  Theorem car_truncate_header roots p q :
    roots_ok 1 roots -> ld (header_bytes roots 1) = p ++ q -> q <> [] ->
    decode p = (HdrErr, []).
  Proof.
    intros [_ L] E Hq. unfold car_decode.
    set (x := header_bytes roots 1) in *.
    assert (Hx : x <> []) by apply header_bytes_nonempty.
    assert (Hl63 : N.of_nat (length x) < 2 ^ 63) by (unfold max_section in L; lia).
    unfold ld in E. apply app_eq_app in E. destruct E as [l [[E1 E2]|[E1 E2]]].
    - destruct l as [|y0 l].
      + rewrite app_nil_r in E1. subst p. unfold ld_read.
        destruct (uvarint (N.of_nat (length x))) eqn:U; [exact (False_rect _ (uvarint_nonempty _ U))|].
        rewrite <- U.
        pose proof (std_read_uvarint_uvarint (N.of_nat (length x)) [] Hl63) as R.
        rewrite app_nil_r in R. rewrite R.
        replace (max_section <? N.of_nat (length x)) with false by lia.
        assert (length x <> 0%nat) by (destruct x; [congruence|discriminate]).
        replace (N.of_nat (length x) =? 0) with false by lia. reflexivity.
      + unfold ld_read. destruct p as [|p0 p]; [reflexivity|].
        rewrite (std_read_uvarint_proper_prefix (N.of_nat (length x)) (p0 :: p) (y0 :: l));
          [reflexivity|exact Hl63|exact E1|discriminate].
    - subst p. unfold ld_read.
      destruct (uvarint (N.of_nat (length x)) ++ l) eqn:U.
      { destruct (uvarint (N.of_nat (length x))) eqn:U'; [exact (False_rect _ (uvarint_nonempty _ U'))|discriminate]. }
      rewrite <- U. rewrite std_read_uvarint_uvarint by exact Hl63.
      replace (max_section <? N.of_nat (length x)) with false by lia.
      assert (length x <> 0%nat) by (destruct x; [congruence|discriminate]).
      replace (N.of_nat (length x) =? 0) with false by lia.
      destruct l as [|y0 l]; [reflexivity|].
      assert (length (y0 :: l) < length x)%nat.
      { rewrite E2, app_length. destruct q; [congruence|]. cbn [length]. lia. }
      replace (N.of_nat (length x) <=? N.of_nat (length (y0 :: l))) with false by lia.
      reflexivity.
  Qed.

  (* --- corruption of a block's data ------------------------------------ *)

  (* the data of one block replaced by other bytes that do not hash to its CID:
     an error at exactly that section, every other block is still delivered *)
  Theorem car_corrupt_data roots bs1 c d' bs2 :
    roots_ok 1 roots -> Forall blk_ok bs1 -> Forall blk_ok bs2 ->
    cid_wf c -> N.of_nat (length (c ++ d')) <= max_section ->
    cid_sum mh_digest (cid_prefix c) d' <> Some c ->
    decode (car_encode roots bs1 ++ section (c, d') ++ flat_map section bs2) =
    (HdrOk roots, map item_of_block bs1 ++ IErr :: map item_of_block bs2).
  Proof.
    intros R F1 F2 W L NS. unfold car_decode, car_encode, car_encode_v.
    rewrite <- app_assoc.
    rewrite ld_read_ld; [|apply header_bytes_nonempty|exact (proj2 R)].
    rewrite hdr_decode_canonical by (try exact R; reflexivity).
    change (1 =? 1) with true. cbv iota. f_equal.
    rewrite car_iter_sections by exact F1. f_equal.
    rewrite car_iter_eq. unfold section at 1. cbn [fst snd].
    rewrite ld_read_ld; [| |exact L].
    - rewrite node_of_wf by exact W.
      rewrite <- (app_nil_r (flat_map section bs2)).
      rewrite car_iter_sections by exact F2. rewrite car_iter_nil, app_nil_r.
      destruct (cid_sum mh_digest (cid_prefix c) d') as [c'|]; [|reflexivity].
      destruct (beq c' c) eqn:B; [|reflexivity].
      apply beq_eq in B. subst. congruence.
    - pose proof (cid_wf_nonempty _ W). destruct c; [congruence|discriminate].
  Qed.

  Lemma mh_encode_inj code d1 d2 :
    N.of_nat (length d1) < 2 ^ 63 -> N.of_nat (length d2) < 2 ^ 63 ->
    mh_encode code d1 = mh_encode code d2 -> d1 = d2.
  Proof.
    intros H1 H2 E. unfold mh_encode in E. apply app_inv_head in E.
    apply uvarint_prefix_free in E; [tauto|assumption|assumption].
  Qed.

  (* identity-multihash blocks: any change of the data is detected (no assumption) *)
  Corollary car_corrupt_identity roots bs1 codec d d' bs2 :
    roots_ok 1 roots -> Forall blk_ok bs1 -> Forall blk_ok bs2 ->
    codec < 2 ^ 63 -> N.of_nat (length d) <= max_digest_alloc ->
    N.of_nat (length (cidv1 codec (mh_encode 0 d) ++ d')) <= max_section -> d' <> d ->
    decode (car_encode roots bs1 ++ section (cidv1 codec (mh_encode 0 d), d') ++ flat_map section bs2) =
    (HdrOk roots, map item_of_block bs1 ++ IErr :: map item_of_block bs2).
  Proof.
    intros R F1 F2 Hc Hd L Hne. apply car_corrupt_data; try assumption.
    - apply wf_v1; [exact Hc|reflexivity|exact Hd].
    - unfold max_digest_alloc in Hd.
      rewrite cid_prefix_v1 by (try assumption; try reflexivity; lia).
      intros S. apply cid_sum_v1_inv in S. destruct S as [dg [S1 S2]].
      unfold mh_sum in S1. change (0 =? mh_identity) with true in S1. inversion S1; subst dg.
      unfold cidv1 in S2. apply app_inv_head in S2. apply app_inv_head in S2.
      apply mh_encode_inj in S2; [congruence|lia|].
      rewrite app_length in L. unfold max_section in L. lia.
  Qed.

  (* hashed (non-identity) v1 blocks: detected unless d' is a second preimage of the
     digest the CID carries — the only assumption, and it is about this one pair *)
  Corollary car_corrupt_hashed roots bs1 codec code dg d' bs2 :
    roots_ok 1 roots -> Forall blk_ok bs1 -> Forall blk_ok bs2 ->
    codec < 2 ^ 63 -> code < 2 ^ 63 -> code <> 0 -> N.of_nat (length dg) <= max_digest_alloc ->
    N.of_nat (length (cidv1 codec (mh_encode code dg) ++ d')) <= max_section ->
    mh_digest code (N.of_nat (length dg)) d' <> Some dg ->
    decode (car_encode roots bs1 ++ section (cidv1 codec (mh_encode code dg), d') ++ flat_map section bs2) =
    (HdrOk roots, map item_of_block bs1 ++ IErr :: map item_of_block bs2).
  Proof.
    intros R F1 F2 Hc Hm Hm0 Hd L Hne. apply car_corrupt_data; try assumption.
    - apply wf_v1; assumption.
    - unfold max_digest_alloc in Hd.
      rewrite cid_prefix_v1 by (try assumption; lia).
      intros S. apply cid_sum_v1_inv in S. destruct S as [dg' [S1 S2]].
      unfold mh_sum in S1. replace (code =? mh_identity) with false in S1 by (unfold mh_identity; lia).
      unfold cidv1 in S2. apply app_inv_head in S2. apply app_inv_head in S2.
      assert (Hl' : N.of_nat (length dg') < 2 ^ 63).
      { (* equal framings have equal lengths *)
        apply (f_equal (@length N)) in S2. unfold mh_encode in S2.
        repeat rewrite app_length in S2.
        assert (G : forall n, (length (uvarint n) <= 11)%nat) by (intros n; apply enc_fuel_length).
        pose proof (G (N.of_nat (length dg))). pose proof (G (N.of_nat (length dg'))). lia. }
      apply mh_encode_inj in S2; [|lia|exact Hl']. subst dg'. cbv iota in S1. exact (Hne S1).
  Qed.
End Theorems.

(* ------------------------------------------------------------------ *)
(* the pinned tree: a cut right after a section's length varint is silent *)

Lemma iter_cut_after_length_pinned mhd b :
  block_ok mhd b -> car_iter mhd false (uvarint (N.of_nat (length (fst b ++ snd b)))) = [].
Proof.
  intros [W [_ L]]. set (x := fst b ++ snd b) in *.
  assert (Hx : x <> []).
  { pose proof (cid_wf_nonempty _ W). unfold x. destruct (fst b); [congruence|discriminate]. }
  assert (Hl63 : N.of_nat (length x) < 2 ^ 63) by (unfold max_section in L; lia).
  rewrite car_iter_eq. unfold ld_read.
  destruct (uvarint (N.of_nat (length x))) eqn:U; [exact (False_rect _ (uvarint_nonempty _ U))|].
  rewrite <- U.
  pose proof (std_read_uvarint_uvarint (N.of_nat (length x)) [] Hl63) as R.
  rewrite app_nil_r in R. rewrite R.
  replace (max_section <? N.of_nat (length x)) with false by lia.
  assert (length x <> 0%nat) by (destruct x; [congruence|discriminate]).
  replace (N.of_nat (length x) =? 0) with false by lia. reflexivity.
Qed.

(* ------------------------------------------------------------------ *)
(* non-vacuity: the hypotheses are satisfiable (toy hash: 32 bytes made of
   the data's length and first byte — any function will do) *)

Definition toy_digest (code len : N) (data : bstr) : option bstr :=
  if code =? 18 then Some (firstn (N.to_nat len) (N.of_nat (length data) :: nth 0 data 0 :: repeat 7 30)) else None.

Definition ex_b1 : block := (cidv1 85 (mh_encode 0 [104; 105]), [104; 105]).             (* identity, raw *)
Definition ex_dg : bstr := 3 :: 1 :: repeat 7 30.
Definition ex_b2 : block := (cidv1 113 (mh_encode 18 ex_dg), [1; 2; 3]).                  (* "sha2-256", dag-cbor *)
Definition ex_b3 : block := (18 :: 32 :: 0 :: 0 :: repeat 7 30, []).                      (* CIDv0, empty data *)
Definition ex_roots : list bstr := [fst ex_b2; fst ex_b3].
Definition ex_blocks : list block := [ex_b1; ex_b2; ex_b3; ex_b1].                        (* with a duplicate *)

Ltac wf1 codec code d := apply (wf_v1 codec code d); [reflexivity | reflexivity | vm_compute; discriminate].

Example ex_blocks_ok : Forall (block_ok toy_digest) ex_blocks.
Proof.
  assert (B1 : block_ok toy_digest ex_b1).
  { split; [wf1 85 0 [104; 105]|]. split; vm_compute; [reflexivity|discriminate]. }
  assert (B2 : block_ok toy_digest ex_b2).
  { split; [wf1 113 18 ex_dg|]. split; vm_compute; [reflexivity|discriminate]. }
  assert (B3 : block_ok toy_digest ex_b3).
  { split; [apply wf_v0; reflexivity|]. split; vm_compute; [reflexivity|discriminate]. }
  unfold ex_blocks. repeat (apply Forall_cons; [assumption|]). apply Forall_nil.
Qed.

Example ex_roots_ok : roots_ok 1 ex_roots.
Proof.
  split.
  - apply Forall_cons; [wf1 113 18 ex_dg|]. apply Forall_cons; [apply wf_v0; reflexivity|]. apply Forall_nil.
  - vm_compute. discriminate.
Qed.

Example ex_roundtrip :
  car_decode toy_digest true (fun _ => None) (car_encode ex_roots ex_blocks)
  = (HdrOk ex_roots, map item_of_block ex_blocks).
Proof. vm_compute. reflexivity. Qed.

(* the witness of the defect on the pinned tree: the archive cut right after the
   length varint of its second section decodes, without any error, to one block *)
Example ex_pinned_silent :
  let cut := car_encode ex_roots [ex_b1] ++ uvarint (N.of_nat (length (fst ex_b2 ++ snd ex_b2))) in
  car_decode toy_digest false (fun _ => None) cut = (HdrOk ex_roots, [item_of_block ex_b1])
  /\ car_decode toy_digest true (fun _ => None) cut = (HdrOk ex_roots, [item_of_block ex_b1; IErr]).
Proof. vm_compute. split; reflexivity. Qed.

(* an empty (zero-length) section in the middle of an archive *)
Example ex_zero_section :
  let a := car_encode ex_roots [ex_b1] ++ [0] ++ section ex_b2 in
  car_decode toy_digest false (fun _ => None) a = (HdrOk ex_roots, [item_of_block ex_b1])
  /\ car_decode toy_digest true (fun _ => None) a = (HdrOk ex_roots, [item_of_block ex_b1; IErr; item_of_block ex_b2]).
Proof. vm_compute. split; reflexivity. Qed.
