(* Check_C14.v — evaluation of the Sig / Did / Crypto models on the cases the
   harness ran through the implementation (correspondence check for C14).
   The base encodings are the concrete functions of BaseEnc.v / BaseDec.v; what the
   Go libraries answered on the same strings is the EXPECTED result of those
   functions (check_base).  The remaining third-party oracles (x509, the signature
   schemes) are instantiated by finite tables observed by the harness. *)
From Ucanto Require Import Base Varint VarintMore Sig BaseEnc BaseDec Did Crypto.
Open Scope N_scope.

(* oracle tables (x509) *)
Definition tab_dec (t : list (bstr * option bstr)) (s : bstr) : option bstr :=
  match slookup s t with Some r => r | None => None end.
Definition tab_bool (t : list (bstr * bool)) (b : bstr) : bool :=
  match slookup b t with Some r => r | None => false end.

(* observed outcome: None = the call panicked *)
Definition out_eqb {A} (eqb : A -> A -> bool) (o : outcome A) (obs : option A) : bool :=
  match o, obs with
  | Ret a, Some b => eqb a b
  | Panic _, None => true
  | _, _ => false
  end.

(* ---- signature framing ---- *)
(* (bytes, Code(), Size(), Raw()) *)
Definition check_sig (c : bstr * N * option N * option bstr) : bool :=
  match c with (s, code, osz, oraw) =>
    (sig_code s =? code) && out_eqb N.eqb (sig_size s) osz && out_eqb beq (sig_raw s) oraw
  end.
(* (code, raw, NewSignature(code, raw).Bytes()) *)
Definition check_newsig (c : N * bstr * bstr) : bool :=
  match c with (code, raw, b) => beq (new_signature code raw) b end.
(* (name, raw, NewNonStandard(name, raw).Bytes()) *)
Definition check_nonstd (c : bstr * bstr * bstr) : bool :=
  match c with (name, raw, b) => beq (new_non_standard name raw) b end.

Definition check_sigs (a : list (bstr * N * option N * option bstr)) : list N := bad_ids check_sig a 0.
Definition check_newsigs (a : list (N * bstr * bstr)) : list N := bad_ids check_newsig a 0.
Definition check_nonstds (a : list (bstr * bstr * bstr)) : list N := bad_ids check_nonstd a 0.

(* ---- DIDs ---- *)
(* class of a Parse / Decode result: 0 error, 1 key DID, 2 other DID *)
Definition did_class (o : option did) : N :=
  match o with None => 0 | Some d => if dkey d then 1 else 2 end.

(* what is compared for an accepted DID: Bytes(), String(), and the model's
   own claim that it round-trips (did_wf) *)
Definition did_obs_ok (d : did) (obytes : bstr) (ostr : option bstr) : bool :=
  beq (did_bytes d) obytes && out_eqb beq (did_to_string b58enc d) ostr && did_wf d.

(* (string, class, Bytes(), String()) *)
Definition check_did_parse (c : bstr * N * bstr * option bstr) : bool :=
  match c with (s, cls, obytes, ostr) =>
    let r := did_parse b58dec s in
    (did_class r =? cls) &&
    match r with None => true | Some d => did_obs_ok d obytes ostr end
  end.

(* (bytes, class, Bytes(), String()) *)
Definition check_did_decode (c : bstr * N * bstr * option bstr) : bool :=
  match c with (b, cls, obytes, ostr) =>
    let r := did_decode b in
    (did_class r =? cls) &&
    match r with None => true | Some d => did_obs_ok d obytes ostr end
  end.

Definition check_did_parses a : list N := bad_ids check_did_parse a 0.
Definition check_did_decodes a : list N := bad_ids check_did_decode a 0.

(* ---- principals ---- *)
Definition alg_of (n : N) : alg := if n =? 0 then Ed25519 else RSA.

(* verifier.Decode: (alg, bytes, x509 public table, observed: None = error |
   Some (Encode(), DID().Bytes())) *)
Definition check_vdecode (c : N * bstr * list (bstr * bool) * option (bstr * bstr)) : bool :=
  match c with (a, b, pt, obs) =>
    match verifier_decode (tab_bool pt) (alg_of a) b, obs with
    | None, None => true
    | Some v, Some (oenc, odid) =>
      beq (verifier_encode v) oenc && beq (did_bytes (v_did v)) odid && dkey (v_did v)
    | _, _ => false
    end
  end.

(* verifier.Parse: (alg, string, x509 public table, observed) *)
Definition check_vparse
  (c : N * bstr * list (bstr * bool) * option (bstr * bstr)) : bool :=
  match c with (a, s, pt, obs) =>
    match verifier_parse b58dec (tab_bool pt) (alg_of a) s, obs with
    | None, None => true
    | Some v, Some (oenc, odid) =>
      beq (verifier_encode v) oenc && beq (did_bytes (v_did v)) odid && dkey (v_did v)
    | _, _ => false
    end
  end.

(* signer.Decode: (alg, bytes, x509 public table, x509 private table,
   observed: None = error | Some (Encode(), Verifier().Encode(), DID().Bytes())) *)
Definition check_sdecode
  (c : N * bstr * list (bstr * bool) * list (bstr * option bstr) * option (bstr * bstr * bstr)) : bool :=
  match c with (a, b, pt, qt, obs) =>
    match signer_decode (tab_bool pt) (tab_dec qt) (alg_of a) b, obs with
    | None, None => true
    | Some s, Some (oenc, ovenc, odid) =>
      beq (signer_encode s) oenc && beq (verifier_encode (signer_verifier s)) ovenc &&
      beq (did_bytes (signer_did s)) odid && dkey (signer_did s)
    | _, _ => false
    end
  end.

(* signer.Parse: (alg, string, x509 public table, x509 private table, observed as for
   signer.Decode).  The string goes through multibase.Decode: only strings whose
   prefix mb_decode models are given (mb_modelled); any other is reported. *)
Definition check_sparse
  (c : N * bstr * list (bstr * bool) * list (bstr * option bstr) * option (bstr * bstr * bstr)) : bool :=
  match c with (a, str, pt, qt, obs) =>
    mb_modelled str &&
    match signer_parse mb_decode (tab_bool pt) (tab_dec qt) (alg_of a) str, obs with
    | None, None => true
    | Some s, Some (oenc, ovenc, odid) =>
      beq (signer_encode s) oenc && beq (verifier_encode (signer_verifier s)) ovenc &&
      beq (did_bytes (signer_did s)) odid && dkey (signer_did s)
    | _, _ => false
    end
  end.

(* signer.Format: (Encode(), Format()) *)
Definition check_sformat (c : bstr * bstr) : bool :=
  match c with (b, str) => beq (mb64enc b) str end.

Definition check_sparses a : list N := bad_ids check_sparse a 0.
Definition check_sformats a : list N := bad_ids check_sformat a 0.
Definition check_vdecodes a : list N := bad_ids check_vdecode a 0.
Definition check_vparses a : list N := bad_ids check_vparse a 0.
Definition check_sdecodes a : list N := bad_ids check_sdecode a 0.

(* ---- signing and verification with real keys ----
   keys : (alg, verifier bytes, signer bytes); msgs; sigs : (key, msg, raw signature
   the crypto library produced).  The symbolic oracles are the tables:
   raw_verify accepts exactly the recorded signature of that key and message. *)
Definition keytab := list (N * bstr * bstr).
Definition sigtab := list (N * N * bstr).

Definition raw_verify_tab (keys : keytab) (msgs : list bstr) (sigs : sigtab)
  (a : alg) (pub m r : bstr) : bool :=
  existsb (fun e => match e with (i, j, raw) =>
    match nth_error keys (N.to_nat i), nth_error msgs (N.to_nat j) with
    | Some (a', vb, _), Some m' =>
      alg_eqb a (alg_of a') && beq (skipn 2 vb) pub && beq m m' && beq r raw
    | _, _ => false
    end end) sigs.

Definition bool_code (o : outcome bool) : N :=
  match o with Ret false => 0 | Ret true => 1 | Panic _ => 2 | Diverge => 3 end.

Definition key_verifier (k : N * bstr * bstr) : verifier :=
  match k with (a, vb, _) => mkver (alg_of a) vb (did_of_bytes vb) end.

(* (verifier index, message index, signature bytes, observed 0 false / 1 true / 2 panic) *)
Definition check_verify (keys : keytab) (msgs : list bstr) (sigs : sigtab)
  (c : N * N * bstr * N) : bool :=
  match c with (i, j, sg, obs) =>
    match nth_error keys (N.to_nat i), nth_error msgs (N.to_nat j) with
    | Some k, Some m =>
      bool_code (verifier_verify (raw_verify_tab keys msgs sigs) (key_verifier k) m sg) =? obs
    | _, _ => false
    end
  end.

Definition check_verifies keys msgs sigs a : list N := bad_ids (check_verify keys msgs sigs) a 0.

(* Sign: the frame the model builds around the recorded raw signature =
   the bytes Sign returned: (key, msg, Sign(msg).Bytes()) *)
Definition check_sign (sigs : sigtab) (keys : keytab) (c : N * N * bstr) : bool :=
  match c with (i, j, sb) =>
    match nth_error keys (N.to_nat i),
          find (fun e => match e with (i', j', _) => (i' =? i) && (j' =? j) end) sigs with
    | Some (a, _, _), Some (_, _, raw) => beq (new_signature (sig_alg_code (alg_of a)) raw) sb
    | _, _ => false
    end
  end.
Definition check_signs sigs keys a : list N := bad_ids (check_sign sigs keys) a 0.

(* Wrap: (key index, wrapping DID bytes,
   observed: None = refused | Some (DID().Bytes(), Encode())) *)
Definition check_wrap (keys : keytab) (c : N * bstr * option (bstr * bstr)) : bool :=
  match c with (i, idb, obs) =>
    match nth_error keys (N.to_nat i) with
    | Some k =>
      match verifier_wrap b58enc (key_verifier k) (did_of_bytes idb), obs with
      | Ret None, None => true
      | Ret (Some w), Some (odid, oenc) => beq (did_bytes (v_did w)) odid && beq (verifier_encode w) oenc
      | _, _ => false
      end
    | None => false
    end
  end.
Definition check_wraps keys a : list N := bad_ids (check_wrap keys) a 0.

(* ---- the base encodings against the Go libraries ----
   (which, input, what the Go library returned: None = error)
     0  multibase.Decode("z" ++ input), encoding Base58BTC   = b58dec input
     1  multibase.Decode(input)  (modelled prefixes only)    = mb_decode input
     2  multibase.Encode(Base58BTC, input) without the "z"   = b58enc input
     3  multibase.Encode(Base64pad, input)                   = mb64enc input *)
Definition check_base (c : N * bstr * option bstr) : bool :=
  match c with (which, x, exp) =>
    if which =? 0 then option_eqb beq (b58dec x) exp
    else if which =? 1 then mb_modelled x && option_eqb beq (mb_decode x) exp
    else if which =? 2 then option_eqb beq (Some (b58enc x)) exp
    else if which =? 3 then option_eqb beq (Some (mb64enc x)) exp
    else false
  end.
Definition check_bases a : list N := bad_ids check_base a 0.
