(* Http.v — content negotiation of the CAR inbound codec (transport/car/codec.go,
   carInbound.Accept with fixes/C20_accept.diff applied), the status mapping of
   server.Handle, and the client HTTP channel (transport/http/channel.go).

   Header values are byte strings; media types are compared byte for byte, as
   the code does for Content-Type and for the media ranges of Accept (RFC 9110
   makes type/subtype case-insensitive; the property text only says "is the CAR
   media type" / "admits the CAR media type or */*", and the code's comparison
   is exact, so the model keeps exact comparison).  Weights (q=) and all other
   parameters of a media range are ignored, as the code ignores them. *)
From Ucanto Require Import Base Strs.
From Coq Require Import ZifyBool ZifyN ZifyNat.
Open Scope N_scope.

Definition comma : N := 44.
Definition semicolon : N := 59.
Definition ows : bstr := [32; 9].                      (* SP / HTAB *)
Definition car_type : bstr := bs "application/vnd.ipld.car".
Definition star_star : bstr := [42; 47; 42].           (* "*/*" *)

(* ------------------------------------------------------------------ *)
(* one element of a comma separated Accept value -> its media range    *)

(* strings.Trim(before(strings.Cut(part, ";")), " \t") *)
Definition media_range (e : bstr) : bstr := trim_set ows (cut_byte semicolon e).

(* declarative reading: e is  OWS m OWS [ ";" parameters ] *)
Definition denotes (e m : bstr) : Prop :=
  exists l r, all_in ows l /\ all_in ows r /\
    (e = l ++ m ++ r \/ exists params, e = l ++ m ++ r ++ semicolon :: params).

(* a media type without ';' that neither begins nor ends with SP / HTAB *)
Definition clean (m : bstr) : Prop := ~ In semicolon m /\ tight ows m.

Lemma all_in_ows_no_semicolon l : all_in ows l -> ~ In semicolon l.
Proof.
  intros H Hin. unfold all_in in H. rewrite Forall_forall in H.
  specialize (H _ Hin). simpl in H. unfold semicolon in H.
  destruct H as [H|[H|[]]]; discriminate.
Qed.

Theorem media_range_denotes e m : clean m -> (media_range e = m <-> denotes e m).
Proof.
  intros [Hsc Ht]. unfold media_range. split.
  - intros E.
    destruct (cut_byte_is_cut semicolon e) as [_ Hcut].
    destruct (trim_set_is_trim ows (cut_byte semicolon e)) as [_ [l [r [Ep [Al Ar]]]]].
    rewrite E in Ep. exists l, r. split; [exact Al|]. split; [exact Ar|].
    destruct Hcut as [Hc|[params Hc]].
    + left. rewrite Hc at 1. exact Ep.
    + right. exists params. rewrite Hc at 1. rewrite Ep. rewrite <- !app_assoc. reflexivity.
  - intros [l [r [Al [Ar He]]]].
    assert (Hp : cut_byte semicolon e = l ++ m ++ r).
    { symmetry. apply is_cut_of_unique. split.
      - intros Hin. apply in_app_or in Hin. destruct Hin as [Hin|Hin].
        + exact (all_in_ows_no_semicolon l Al Hin).
        + apply in_app_or in Hin. destruct Hin as [Hin|Hin]; [exact (Hsc Hin)|].
          exact (all_in_ows_no_semicolon r Ar Hin).
      - destruct He as [He|[params He]]; [left; exact He|].
        right. exists params. rewrite He. rewrite <- !app_assoc. reflexivity. }
    rewrite Hp. symmetry. apply is_trim_of_unique. split; [exact Ht|].
    exists l, r. auto.
Qed.

Lemma clean_car_type : clean car_type.
Proof.
  split; [|split].
  - apply memb_not_In. vm_compute. reflexivity.
  - intros x r E. inversion E; subst. apply memb_not_In. vm_compute. reflexivity.
  - intros x r E. apply (f_equal (@rev N)) in E. rewrite rev_app_distr in E.
    vm_compute in E. inversion E; subst. apply memb_not_In. vm_compute. reflexivity.
Qed.

Lemma clean_star_star : clean star_star.
Proof.
  split; [|split].
  - apply memb_not_In. vm_compute. reflexivity.
  - intros x r E. inversion E; subst. apply memb_not_In. vm_compute. reflexivity.
  - intros x r E. apply (f_equal (@rev N)) in E. rewrite rev_app_distr in E.
    vm_compute in E. inversion E; subst. apply memb_not_In. vm_compute. reflexivity.
Qed.

(* ------------------------------------------------------------------ *)
(* the decision of carInbound.Accept (fixed tree)                      *)

(* func acceptable(accept, contentType string) bool *)
Definition acceptable (accept ct : bstr) : bool :=
  existsb (fun part => let m := media_range part in beq m star_star || beq m ct)
          (split_byte comma accept).

(* hct  = req.Headers().Get("Content-Type")
   hacc = strings.Join(req.Headers().Values("Accept"), ",")
   0 = a codec is selected; otherwise the status of the refusal *)
Definition accept_decision (hct hacc : bstr) : Z :=
  if negb (beq hct car_type) then 415%Z
  else let accept := if beq hacc [] then star_star else hacc in
       if negb (acceptable accept hct) then 406%Z else 0%Z.

(* the Accept header value admits a CAR reply *)
Definition admits (hacc : bstr) : bool :=
  acceptable (if beq hacc [] then star_star else hacc) car_type.

(* what the property text says: the header is absent/empty, or one of its comma
   separated elements is (OWS, parameters aside) the CAR media type or "*/*" *)
Definition admits_spec (a : bstr) : Prop :=
  a = [] \/
  exists l e, is_list_of comma a l /\ In e l /\ (denotes e car_type \/ denotes e star_star).

Theorem admits_iff a : admits a = true <-> admits_spec a.
Proof.
  unfold admits, admits_spec. destruct (beq a []) eqn:E.
  - apply beq_eq in E. subst a. split; [left; reflexivity | intros _; vm_compute; reflexivity].
  - apply beq_neq in E. unfold acceptable. rewrite existsb_exists. split.
    + intros [e [Hin Hm]]. right. exists (split_byte comma a), e.
      split; [apply split_byte_is_list|]. split; [exact Hin|].
      cbv zeta in Hm. apply orb_true_iff in Hm. destruct Hm as [Hm|Hm]; apply beq_eq in Hm.
      * right. apply (media_range_denotes e star_star clean_star_star). exact Hm.
      * left. apply (media_range_denotes e car_type clean_car_type). exact Hm.
    + intros [Hnil|[l [e [Hl [Hin Hd]]]]]; [contradiction|].
      apply is_list_of_unique in Hl. subst l. exists e. split; [exact Hin|].
      cbv zeta. apply orb_true_iff. destruct Hd as [Hd|Hd].
      * right. apply beq_eq. apply (media_range_denotes e car_type clean_car_type). exact Hd.
      * left. apply beq_eq. apply (media_range_denotes e star_star clean_star_star). exact Hd.
Qed.

Corollary admits_false_iff a : admits a = false <-> ~ admits_spec a.
Proof.
  rewrite <- admits_iff. destruct (admits a); split; intros H; congruence.
Qed.

Theorem accept_decision_spec hct hacc :
  (hct <> car_type -> accept_decision hct hacc = 415%Z) /\
  (hct = car_type -> admits hacc = false -> accept_decision hct hacc = 406%Z) /\
  (hct = car_type -> admits hacc = true -> accept_decision hct hacc = 0%Z).
Proof.
  unfold accept_decision, admits. repeat split.
  - intros H. apply beq_neq in H. rewrite H. reflexivity.
  - intros -> H. rewrite beq_refl. cbn [negb]. cbv zeta. rewrite H. reflexivity.
  - intros -> H. rewrite beq_refl. cbn [negb]. cbv zeta. rewrite H. reflexivity.
Qed.

Lemma accept_decision_range hct hacc :
  accept_decision hct hacc = 415%Z \/ accept_decision hct hacc = 406%Z \/ accept_decision hct hacc = 0%Z.
Proof.
  unfold accept_decision. destruct (negb (beq hct car_type)); [auto|].
  cbv zeta. destruct (negb _); auto.
Qed.

(* examples from the property's quantifier *)
Example admits_list_with_star : admits (bs "text/html, */*;q=0.1") = true.
Proof. vm_compute. reflexivity. Qed.
Example admits_list_with_car : admits (bs "text/html;q=0.9,	application/vnd.ipld.car ; q=0.5") = true.
Proof. vm_compute. reflexivity. Qed.
Example admits_near_miss_suffix : admits (bs "application/vnd.ipld.carx") = false.
Proof. vm_compute. reflexivity. Qed.
Example admits_near_miss_prefix : admits (bs "xapplication/vnd.ipld.car") = false.
Proof. vm_compute. reflexivity. Qed.
Example admits_star_inside_token : admits (bs "image/*/*") = false.
Proof. vm_compute. reflexivity. Qed.
Example admits_other : admits (bs "text/html, application/json") = false.
Proof. vm_compute. reflexivity. Qed.
Example admits_absent : admits [] = true.
Proof. vm_compute. reflexivity. Qed.
Example admits_upper_case : admits (bs "Application/Vnd.Ipld.Car") = false.   (* exact comparison *)
Proof. vm_compute. reflexivity. Qed.

(* The pinned tree's decision (before the fix), kept to state what was wrong:
   accept == "*/*" || strings.Contains(accept, contentType), first header line only. *)
Definition accept_decision_pinned (hct hacc1 : bstr) : Z :=
  if negb (beq hct car_type) then 415%Z
  else let accept := if beq hacc1 [] then star_star else hacc1 in
       if negb (beq accept star_star) && negb (containsb hct accept) then 406%Z else 0%Z.

Example pinned_refuses_admitting_list :
  admits (bs "text/html, */*;q=0.1") = true /\
  accept_decision_pinned car_type (bs "text/html, */*;q=0.1") = 406%Z.
Proof. vm_compute. split; reflexivity. Qed.
Example pinned_accepts_near_miss :
  admits (bs "application/vnd.ipld.carx") = false /\
  accept_decision_pinned car_type (bs "application/vnd.ipld.carx") = 0%Z.
Proof. vm_compute. split; reflexivity. Qed.

(* ------------------------------------------------------------------ *)
(* request headers: the values of all lines of one field, in order     *)

Definition hget (lines : list bstr) : bstr :=           (* http.Header.Get *)
  match lines with [] => [] | v :: _ => v end.
Definition hjoin (lines : list bstr) : bstr :=          (* strings.Join(Header.Values(k), ",") *)
  join_byte comma lines.

(* ------------------------------------------------------------------ *)
(* server.Handle                                                       *)

Section Handle.
  Variable msg : Type.        (* decoded agent messages *)
  Variable call : Type.       (* one call of a service handler *)
  (* server.Execute: the handler calls it makes and the reply message, or an error *)
  Variable execute : msg -> list call * option msg.

  (* what the selected codec's Decode makes of the request body *)
  Inductive body : Type := Undecodable | Decodes (m : msg).

  Inductive reply : Type :=
  | Response (status : Z) (content_type : option bstr) (payload : option msg)
      (* payload = Some m: the body is the CAR encoding of agent message m *)
  | Failure.   (* Handle returned (nil, err): Execute failed, no response is built *)

  (* Handle, together with the log of handler calls made while it ran.
     Handler calls can only come from [execute]. *)
  Definition handle (cts accs : list bstr) (b : body) : reply * list call :=
    let d := accept_decision (hget cts) (hjoin accs) in
    if negb (d =? 0)%Z then (Response d None None, [])
    else match b with
         | Undecodable => (Response 400%Z None None, [])
         | Decodes m =>
             match execute m with
             | (calls, Some r) => (Response 200%Z (Some car_type) (Some r), calls)
             | (calls, None) => (Failure, calls)
             end
         end.

  Lemma handle_415 cts accs b :
    hget cts <> car_type -> handle cts accs b = (Response 415%Z None None, []).
  Proof.
    intros H. unfold handle.
    destruct (accept_decision_spec (hget cts) (hjoin accs)) as [H1 _].
    rewrite (H1 H). reflexivity.
  Qed.

  Lemma handle_406 cts accs b :
    hget cts = car_type -> ~ admits_spec (hjoin accs) ->
    handle cts accs b = (Response 406%Z None None, []).
  Proof.
    intros H Ha. apply admits_false_iff in Ha. unfold handle.
    destruct (accept_decision_spec (hget cts) (hjoin accs)) as [_ [H2 _]].
    rewrite (H2 H Ha). reflexivity.
  Qed.

  Lemma handle_400 cts accs :
    hget cts = car_type -> admits_spec (hjoin accs) ->
    handle cts accs Undecodable = (Response 400%Z None None, []).
  Proof.
    intros H Ha. apply admits_iff in Ha. unfold handle.
    destruct (accept_decision_spec (hget cts) (hjoin accs)) as [_ [_ H3]].
    rewrite (H3 H Ha). reflexivity.
  Qed.

  Lemma handle_200 cts accs m calls r :
    hget cts = car_type -> admits_spec (hjoin accs) -> execute m = (calls, Some r) ->
    handle cts accs (Decodes m) = (Response 200%Z (Some car_type) (Some r), calls).
  Proof.
    intros H Ha He. apply admits_iff in Ha. unfold handle.
    destruct (accept_decision_spec (hget cts) (hjoin accs)) as [_ [_ H3]].
    rewrite (H3 H Ha). cbn [Z.eqb negb]. rewrite He. reflexivity.
  Qed.

  Lemma handle_failure cts accs m calls :
    hget cts = car_type -> admits_spec (hjoin accs) -> execute m = (calls, None) ->
    handle cts accs (Decodes m) = (Failure, calls).
  Proof.
    intros H Ha He. apply admits_iff in Ha. unfold handle.
    destruct (accept_decision_spec (hget cts) (hjoin accs)) as [_ [_ H3]].
    rewrite (H3 H Ha). cbn [Z.eqb negb]. rewrite He. reflexivity.
  Qed.

  (* whenever a handler ran, the request was acceptable and decodable, and the
     calls are exactly those of Execute on the decoded message *)
  Lemma handle_calls cts accs b :
    snd (handle cts accs b) <> [] ->
    hget cts = car_type /\ admits_spec (hjoin accs) /\
    exists m, b = Decodes m /\ snd (handle cts accs b) = fst (execute m).
  Proof.
    intros Hc.
    destruct (beq (hget cts) car_type) eqn:Ect.
    - apply beq_eq in Ect. destruct (admits (hjoin accs)) eqn:Ea.
      + apply admits_iff in Ea. split; [exact Ect|]. split; [exact Ea|].
        destruct b as [|m].
        * rewrite (handle_400 cts accs Ect Ea) in Hc. simpl in Hc. congruence.
        * exists m. split; [reflexivity|].
          destruct (execute m) as [calls [r|]] eqn:Ee.
          -- rewrite (handle_200 cts accs m calls r Ect Ea Ee). reflexivity.
          -- rewrite (handle_failure cts accs m calls Ect Ea Ee). reflexivity.
      + apply admits_false_iff in Ea. rewrite (handle_406 cts accs b Ect Ea) in Hc.
        simpl in Hc. congruence.
    - apply beq_neq in Ect. rewrite (handle_415 cts accs b Ect) in Hc. simpl in Hc. congruence.
  Qed.

  (* Handle never answers with any other status *)
  Lemma handle_status_range cts accs b st ct p calls :
    handle cts accs b = (Response st ct p, calls) ->
    st = 415%Z \/ st = 406%Z \/ st = 400%Z \/ st = 200%Z.
  Proof.
    unfold handle. destruct (accept_decision_range (hget cts) (hjoin accs)) as [E|[E|E]]; rewrite E; cbn [Z.eqb negb].
    - intros H. inversion H. auto.
    - intros H. inversion H. auto.
    - destruct b as [|m]; [intros H; inversion H; auto|].
      destruct (execute m) as [c [r|]]; intros H; inversion H; auto.
  Qed.
End Handle.

Arguments Undecodable {msg}.
Arguments Decodes {msg} m.
Arguments Response {msg} status content_type payload.
Arguments Failure {msg}.

(* ------------------------------------------------------------------ *)
(* client side: transport/http channel.Request on a reply with the given
   status (a reply was received; transport failures are a different error) *)

Inductive chan_result : Type :=
| ChanResponse (status : Z)      (* (HTTPResponse, nil) *)
| ChanHTTPError (status : Z).    (* (nil, HTTPError) with Status() = status *)

Definition channel_request (status : Z) : chan_result :=
  if negb (status =? 200)%Z then ChanHTTPError status else ChanResponse status.

Lemma channel_non_200 status : status <> 200%Z -> channel_request status = ChanHTTPError status.
Proof. intros H. unfold channel_request. apply Z.eqb_neq in H. rewrite H. reflexivity. Qed.

Lemma channel_200 : channel_request 200%Z = ChanResponse 200%Z.
Proof. reflexivity. Qed.

Lemma channel_response_only_200 status s : channel_request status = ChanResponse s -> status = 200%Z /\ s = 200%Z.
Proof.
  unfold channel_request. destruct (status =? 200)%Z eqn:E; cbn [negb]; [|discriminate].
  apply Z.eqb_eq in E. intros H. inversion H. subst. auto.
Qed.

(* client.Execute over that channel: an error of the channel is returned as an
   error; a 200 reply is decoded with the outbound codec *)
Inductive exec_result : Type := ExecOk | ExecError.

Definition client_execute (status : Z) (body_decodes : bool) : exec_result :=
  match channel_request status with
  | ChanHTTPError _ => ExecError
  | ChanResponse _ => if body_decodes then ExecOk else ExecError
  end.

Lemma client_execute_non_200 status b : status <> 200%Z -> client_execute status b = ExecError.
Proof. intros H. unfold client_execute. rewrite (channel_non_200 status H). reflexivity. Qed.

(* ------------------------------------------------------------------ *)
(* the hypotheses of the C20 theorems are satisfiable                  *)

Example C20_415_sat : hget [bs "text/plain"] <> car_type.
Proof. vm_compute. discriminate. Qed.

Example C20_406_sat :
  hget [car_type] = car_type /\ ~ admits_spec (hjoin [bs "text/html"; bs "application/vnd.ipld.carx"]).
Proof. split; [reflexivity|]. apply admits_false_iff. vm_compute. reflexivity. Qed.

Example C20_400_sat : hget [car_type] = car_type /\ admits_spec (hjoin [bs "text/html, */*;q=0.1"]).
Proof. split; [reflexivity|]. apply admits_iff. vm_compute. reflexivity. Qed.
Example C20_200_sat :
  let execute := fun n : nat => (seq 0 n, Some n) in
  hget [car_type] = car_type /\ admits_spec (hjoin [bs "text/html"; bs "*/*;q=0.1"]) /\
  execute 2%nat = ([0; 1]%nat, Some 2%nat) /\
  handle nat nat execute [car_type] [bs "text/html"; bs "*/*;q=0.1"] (Decodes 2%nat)
    = (Response 200%Z (Some car_type) (Some 2%nat), [0; 1]%nat).
Proof. repeat split. apply admits_iff. vm_compute. reflexivity. Qed.
