(* TokenBytes.v — the typed decoding of a UCAN root block, on ARBITRARY byte strings:

     block.Decode(root, &UCANModel{}, udm.Type(), dag-cbor, sha2-256)      core/delegation Data()
       = ipld.Unmarshal(bytes, dagcbor.Decode, &model, schema UCAN)

   i.e. go-ipld-prime's dag-cbor decoder driving bindnode's assemblers for

       type UCAN struct { v String  iss Bytes  aud Bytes  s Bytes  att [Capability]
                          prf optional [&UCAN]  exp nullable Int
                          fct optional [Fact]  nnc optional String  nbf optional Int }
       type Capability struct { with String  can String  nb Any }
       type Fact { String: Any }

   Modelled, as MessageBytes.v does for the message envelope, by the dag-cbor decoder WITHOUT its
   duplicate-key check (MessageBytes.cbor_decode_all_t: that check is basicnode's, bindnode has
   none) followed by a matcher that mirrors what the assemblers accept.  Established by reading
   node/bindnode and by experiment (notes/NOTES_STACK.md, hand-written root blocks), then checked
   on every run (Check_TokenView.v, the `blocks` family):

     * the block must be a map; a key that is not a field is refused; a required field
       (v iss aud s att exp) that is missing is refused;
     * a field may REPEAT: for v / iss / aud / s / exp / nnc / nbf and the optional lists prf / fct
       the last occurrence wins (every occurrence must be well typed); for the required list
       `att` the occurrences are CONCATENATED (the assembler appends to the same slice);
     * kinds are exact (String vs Bytes vs Int vs Link), nothing but `exp` is nullable: null /
       undefined is refused for prf, its elements, nnc, nbf, `nb` and the values of a fact;
     * Capability: unknown key refused, with / can / nb required, a repeated key: last wins;
     * `nb` and fact values are Any: built by basicnode, which refuses a repeated map key at any
       depth (nodup_deep); null INSIDE an Any value is fine;
     * Fact: a typed map, no duplicate check: a repeated key is listed twice, both positions show
       the last value (fact_view);
     * integers land in Go `int`: exp / nbf are reduced modulo 2^64 into int64 (wrap64) — a
       uint64 ≥ 2^63 reads as a negative number;
     * an optional list that is present but EMPTY (prf: [] — which is what the library writes for a
       token without proofs — or fct: []) leaves the Go slice nil: it reads as absent, and the
       signature payload rebuilt from the model has no `fct` then (none_if_empty);
     * on ANY failure the model struct stays zero (Unmarshal copies on success only).
   Floats are outside the Coq data model (Cbor.v answers DUnsup): a block holding a float anywhere
   counts as undecodable here although the library accepts it inside `nb` / facts. *)
From Coq Require Import ZifyBool ZifyN ZifyNat.
From Ucanto Require Import Base Varint Ipld Cbor Formats MessageBytes.
Open Scope N_scope.

(* ------------------------------------------------------------------ *)
(* Any values: basicnode refuses a repeated map key                     *)

Fixpoint nodup_deep (v : ipld) : bool :=
  match v with
  | IList l => forallb nodup_deep l
  | IMap m => nodupb (map fst m) && forallb (fun kv => nodup_deep (snd kv)) m
  | _ => true
  end.

Lemma wf_nodup_deep v : wf_ipld v = true -> nodup_deep v = true.
Proof.
  induction v as [| | | | | l IH | m IH |] using ipld_ind'; try reflexivity.
  - cbn [wf_ipld nodup_deep]. rewrite andb_true_iff. intros [_ F].
    rewrite forallb_forall in *. rewrite Forall_forall in IH. auto.
  - cbn [wf_ipld nodup_deep]. rewrite !andb_true_iff. intros [[_ F] ND]. split; [exact ND|].
    rewrite forallb_forall in *. rewrite Forall_forall in IH. intros kv Hkv.
    specialize (F kv Hkv). rewrite andb_true_iff in F. apply IH; tauto.
Qed.

(* an Any field: not null, no repeated key inside *)
Definition as_any (v : ipld) : option ipld :=
  if is_null v then None else if nodup_deep v then Some v else None.

(* a list assembler that appended nothing leaves the slice nil *)
Definition none_if_empty {A} (o : option (list A)) : option (list A) :=
  match o with Some [] => None | _ => o end.

(* Go int: two's complement on 64 bits *)
Definition wrap64 (z : Z) : Z := ((z + 2 ^ 63) mod 2 ^ 64 - 2 ^ 63)%Z.
Definition int64_ok (z : Z) : bool := ((- 2 ^ 63 <=? z) && (z <? 2 ^ 63))%Z.

Lemma wrap64_id z : int64_ok z = true -> wrap64 z = z.
Proof.
  unfold int64_ok, wrap64. rewrite andb_true_iff. intros [A B].
  rewrite Z.mod_small by lia. lia.
Qed.

(* ------------------------------------------------------------------ *)
(* Capability                                                           *)

Record cacc := mkCacc { ca_with : option bstr; ca_can : option bstr; ca_nb : option ipld }.

Definition cap_step (acc : cacc) (kv : bstr * ipld) : option cacc :=
  let (k, x) := kv in
  if beq k k_with then s <- as_string x ;; Some (mkCacc (Some s) (ca_can acc) (ca_nb acc))
  else if beq k k_can then s <- as_string x ;; Some (mkCacc (ca_with acc) (Some s) (ca_nb acc))
  else if beq k k_nb then n <- as_any x ;; Some (mkCacc (ca_with acc) (ca_can acc) (Some n))
  else None.

Fixpoint ofold {A B} (f : A -> B -> option A) (l : list B) (a : A) : option A :=
  match l with
  | [] => Some a
  | x :: r => a' <- f a x ;; ofold f r a'
  end.

Definition cap_typed (v : ipld) : option capm :=
  es <- as_map v ;;
  acc <- ofold cap_step es (mkCacc None None None) ;;
  w <- ca_with acc ;; c <- ca_can acc ;; n <- ca_nb acc ;;
  Some (mkCapm w c n).

(* ------------------------------------------------------------------ *)
(* Fact: { String : Any }                                               *)

Definition last_of {A} (k : bstr) (m : list (bstr * A)) : option A :=
  fold_left (fun acc kv => if beq k (fst kv) then Some (snd kv) else acc) m None.

(* Keys in wire order, Values[k] = the value of the last entry with key k *)
Definition fact_view {A} (m : list (bstr * A)) : list (bstr * A) :=
  map (fun kv => (fst kv, match last_of (fst kv) m with Some v => v | None => snd kv end)) m.

Definition fact_typed (v : ipld) : option (list (bstr * ipld)) :=
  es <- as_map v ;;
  _ <- omap (fun kv => as_any (snd kv)) es ;;
  Some (fact_view es).

Lemma last_of_nodup {A} (m : list (bstr * A)) : NoDup (map fst m) ->
  forall k v, In (k, v) m -> last_of k m = Some v.
Proof.
  unfold last_of. intros ND k v I.
  assert (G : forall (l : list (bstr * A)) acc, NoDup (map fst l) ->
            (In (k, v) l -> fold_left (fun a kv => if beq k (fst kv) then Some (snd kv) else a) l acc = Some v) /\
            (~ In k (map fst l) -> fold_left (fun a kv => if beq k (fst kv) then Some (snd kv) else a) l acc = acc)).
  { induction l as [|[k' v'] l IH]; intros acc NDl; cbn [fold_left map fst snd In].
    - split; [intros [] | reflexivity].
    - inversion NDl as [|? ? NI ND']; subst. split.
      + intros [E|Hin].
        * inversion E; subst. rewrite beq_refl. apply (IH (Some v) ND'). exact NI.
        * destruct (beq k k') eqn:B.
          -- apply beq_eq in B. subst. exfalso. apply NI. apply in_map_iff. exists (k', v). auto.
          -- apply (IH acc ND'). exact Hin.
      + intros NIk. destruct (beq k k') eqn:B.
        * apply beq_eq in B. subst. exfalso. apply NIk. left. reflexivity.
        * apply (IH acc ND'). intros X. apply NIk. right. exact X. }
  apply (G m None ND). exact I.
Qed.

Lemma fact_view_nodup {A} (m : list (bstr * A)) : NoDup (map fst m) -> fact_view m = m.
Proof.
  intros ND. unfold fact_view. rewrite <- (map_id m) at 2. apply map_ext_in.
  intros [k v] I. cbn [fst snd]. rewrite (last_of_nodup m ND k v I). reflexivity.
Qed.

(* ------------------------------------------------------------------ *)
(* UCAN                                                                 *)

Inductive fid := FV | FIss | FAud | FS | FAtt | FPrf | FExp | FFct | FNnc | FNbf.

Definition field_id (k : bstr) : option fid :=
  if beq k k_v then Some FV else if beq k k_iss then Some FIss else if beq k k_aud then Some FAud
  else if beq k k_s then Some FS else if beq k k_att then Some FAtt else if beq k k_prf then Some FPrf
  else if beq k k_exp then Some FExp else if beq k k_fct then Some FFct else if beq k k_nnc then Some FNnc
  else if beq k k_nbf then Some FNbf else None.

Record uacc := mkUacc {
  a_v : option bstr; a_iss : option bstr; a_aud : option bstr; a_s : option bstr;
  a_att : option (list capm); a_prf : option (list bstr); a_exp : option (option Z);
  a_fct : option (list (list (bstr * ipld))); a_nnc : option bstr; a_nbf : option Z }.

Definition uacc0 : uacc := mkUacc None None None None None None None None None None.

Definition ucan_step (a : uacc) (kv : bstr * ipld) : option uacc :=
  let (k, x) := kv in
  match field_id k with
  | None => None                                 (* "invalid key: … is not a field in type UCAN" *)
  | Some FV => s <- as_string x ;;
      Some (mkUacc (Some s) (a_iss a) (a_aud a) (a_s a) (a_att a) (a_prf a) (a_exp a) (a_fct a) (a_nnc a) (a_nbf a))
  | Some FIss => s <- as_bytes x ;;
      Some (mkUacc (a_v a) (Some s) (a_aud a) (a_s a) (a_att a) (a_prf a) (a_exp a) (a_fct a) (a_nnc a) (a_nbf a))
  | Some FAud => s <- as_bytes x ;;
      Some (mkUacc (a_v a) (a_iss a) (Some s) (a_s a) (a_att a) (a_prf a) (a_exp a) (a_fct a) (a_nnc a) (a_nbf a))
  | Some FS => s <- as_bytes x ;;
      Some (mkUacc (a_v a) (a_iss a) (a_aud a) (Some s) (a_att a) (a_prf a) (a_exp a) (a_fct a) (a_nnc a) (a_nbf a))
  | Some FAtt => l <- as_list x ;; cs <- omap cap_typed l ;;
      (* a repeated `att` appends to the list assembled so far *)
      Some (mkUacc (a_v a) (a_iss a) (a_aud a) (a_s a)
                   (Some (match a_att a with Some old => old ++ cs | None => cs end))
                   (a_prf a) (a_exp a) (a_fct a) (a_nnc a) (a_nbf a))
  | Some FPrf => l <- as_list x ;; ps <- omap as_link l ;;
      Some (mkUacc (a_v a) (a_iss a) (a_aud a) (a_s a) (a_att a) (none_if_empty (Some ps)) (a_exp a) (a_fct a) (a_nnc a) (a_nbf a))
  | Some FExp =>
      e <- (if is_null x then Some None else (z <- as_int x ;; Some (Some (wrap64 z)))) ;;
      Some (mkUacc (a_v a) (a_iss a) (a_aud a) (a_s a) (a_att a) (a_prf a) (Some e) (a_fct a) (a_nnc a) (a_nbf a))
  | Some FFct => l <- as_list x ;; fs <- omap fact_typed l ;;
      Some (mkUacc (a_v a) (a_iss a) (a_aud a) (a_s a) (a_att a) (a_prf a) (a_exp a) (none_if_empty (Some fs)) (a_nnc a) (a_nbf a))
  | Some FNnc => s <- as_string x ;;
      Some (mkUacc (a_v a) (a_iss a) (a_aud a) (a_s a) (a_att a) (a_prf a) (a_exp a) (a_fct a) (Some s) (a_nbf a))
  | Some FNbf => z <- as_int x ;;
      Some (mkUacc (a_v a) (a_iss a) (a_aud a) (a_s a) (a_att a) (a_prf a) (a_exp a) (a_fct a) (a_nnc a) (Some (wrap64 z)))
  end.

(* Finish: "missing required fields: …" *)
Definition ucan_finish (a : uacc) : option utoken :=
  ver <- a_v a ;; iss <- a_iss a ;; aud <- a_aud a ;; s <- a_s a ;; att <- a_att a ;; exp <- a_exp a ;;
  Some (mkU ver iss aud s att (a_prf a) exp (a_fct a) (a_nnc a) (a_nbf a)).

Definition ucan_of_typed (v : ipld) : option utoken :=
  es <- as_map v ;; a <- ofold ucan_step es uacc0 ;; ucan_finish a.

(* the typed decoding of a root block *)
Definition token_decode_typed (b : bstr) : option utoken :=
  v <- cbor_decode_all_t b ;; ucan_of_typed v.

(* ------------------------------------------------------------------ *)
(* on the encoder's output it is the reader of Formats.v                *)

Lemma fid_v : field_id k_v = Some FV. Proof. reflexivity. Qed.
Lemma fid_iss : field_id k_iss = Some FIss. Proof. reflexivity. Qed.
Lemma fid_aud : field_id k_aud = Some FAud. Proof. reflexivity. Qed.
Lemma fid_s : field_id k_s = Some FS. Proof. reflexivity. Qed.
Lemma fid_att : field_id k_att = Some FAtt. Proof. reflexivity. Qed.
Lemma fid_prf : field_id k_prf = Some FPrf. Proof. reflexivity. Qed.
Lemma fid_exp : field_id k_exp = Some FExp. Proof. reflexivity. Qed.
Lemma fid_fct : field_id k_fct = Some FFct. Proof. reflexivity. Qed.
Lemma fid_nnc : field_id k_nnc = Some FNnc. Proof. reflexivity. Qed.
Lemma fid_nbf : field_id k_nbf = Some FNbf. Proof. reflexivity. Qed.

(* canonical order of the fields of a token map: by length, then bytewise *)
Lemma sort_token_fields (x1 x2 x3 x4 x5 : ipld) (p : option ipld) (x7 : ipld) (f n b : option ipld) :
  sort_map (concat [field k_v x1; field k_iss x2; field k_aud x3; field k_s x4; field k_att x5;
                    opt_field k_prf p; field k_exp x7; opt_field k_fct f; opt_field k_nnc n; opt_field k_nbf b])
  = concat [field k_s x4; field k_v x1; field k_att x5; field k_aud x3; field k_exp x7; opt_field k_fct f;
            field k_iss x2; opt_field k_nbf b; opt_field k_nnc n; opt_field k_prf p].
Proof. destruct p, f, n, b; vm_compute; reflexivity. Qed.

Lemma sort_cap_fields (x1 x2 x3 : ipld) :
  sort_map [(k_with, x1); (k_can, x2); (k_nb, x3)] = [(k_nb, x3); (k_can, x2); (k_with, x1)].
Proof. vm_compute. reflexivity. Qed.

Lemma is_null_canon v : is_null (canon v) = is_null v.
Proof. destruct v; reflexivity. Qed.

Lemma as_any_canon v : wf_ipld v = true -> is_null v = false -> as_any (canon v) = Some (canon v).
Proof.
  intros W N. unfold as_any. rewrite is_null_canon, N.
  rewrite (wf_nodup_deep _ (wf_canon _ W)). reflexivity.
Qed.

(* a capability whose nb is not null and well formed *)
Definition cap_typed_ok (c : capm) : bool := negb (is_null (cm_nb c)) && wf_ipld (cm_nb c).

Lemma cap_typed_canon c : cap_typed_ok c = true -> cap_typed (canon (cap_ipld c)) = Some (canon_cap c).
Proof.
  unfold cap_typed_ok. rewrite andb_true_iff, negb_true_iff. intros [N W].
  unfold cap_ipld, struct_map. cbn [concat field app]. rewrite canon_map_eq.
  cbn [map]. unfold on_snd. cbn [fst snd canon]. rewrite sort_cap_fields.
  unfold cap_typed. cbn [as_map obind ofold cap_step].
  change (beq k_nb k_with) with false. change (beq k_nb k_can) with false. change (beq k_nb k_nb) with true.
  change (beq k_can k_with) with false. change (beq k_can k_can) with true.
  change (beq k_with k_with) with true. cbv iota.
  rewrite (as_any_canon _ W N). cbn [obind as_string ca_with ca_can ca_nb]. reflexivity.
Qed.

(* the side conditions under which the library's own encoder output is typed-decodable: what
   ucan.Issue can produce (Go ints, a present nb) *)
Definition opt_int64 (o : option Z) : bool := match o with Some z => int64_ok z | None => true end.
Definition fact_typed_ok (f : list (bstr * ipld)) : bool :=
  forallb (fun kv => negb (is_null (snd kv)) && wf_ipld (snd kv)) f && nodupb (map fst f).
Definition token_typed_ok (t : utoken) : bool :=
  opt_int64 (u_exp t) && opt_int64 (u_nbf t) && forallb cap_typed_ok (u_att t) &&
  match u_fct t with Some l => forallb fact_typed_ok l | None => true end.


Lemma omap_as_any_canon f :
  forallb (fun kv => negb (is_null (snd kv)) && wf_ipld (snd kv)) f = true ->
  forall l, Permutation.Permutation l (map (on_snd canon) f) ->
  exists r, omap (fun kv => as_any (snd kv)) l = Some r.
Proof.
  intros H l P.
  assert (G : forall kv, In kv l -> exists x, as_any (snd kv) = Some x).
  { intros kv I. apply (Permutation.Permutation_in _ P) in I. apply in_map_iff in I.
    destruct I as [[k v] [<- Hin]]. unfold on_snd. cbn [fst snd].
    rewrite forallb_forall in H. specialize (H _ Hin). cbn [snd] in H.
    rewrite andb_true_iff, negb_true_iff in H. destruct H as [N W].
    exists (canon v). apply as_any_canon; assumption. }
  clear P. induction l as [|kv l IH]; [exists []; reflexivity|].
  destruct (G kv (or_introl eq_refl)) as [x Hx]. destruct IH as [r Hr].
  { intros y Hy. apply G. right. exact Hy. }
  cbn [omap]. rewrite Hx. cbn [obind]. rewrite Hr. cbn [obind]. eauto.
Qed.

Lemma fact_typed_canon f : fact_typed_ok f = true -> fact_typed (canon (IMap f)) = Some (canon_fact f).
Proof.
  unfold fact_typed_ok. rewrite andb_true_iff. intros [H ND]. apply nodupb_NoDup in ND.
  unfold canon_fact. rewrite canon_map_eq. unfold fact_typed. cbn [as_map obind].
  destruct (omap_as_any_canon f H (sort_map (map (on_snd canon) f)) (sort_map_perm _)) as [r Hr].
  rewrite Hr. cbn [obind]. f_equal. apply fact_view_nodup.
  eapply Permutation.Permutation_NoDup; [apply Permutation.Permutation_map; symmetry; apply sort_map_perm|].
  rewrite map_fst_on_snd. exact ND.
Qed.

(* one assembler step per field (the accumulator is never duplicated in a goal) *)
Lemma step_v a s : ucan_step a (k_v, IString s) =
  Some (mkUacc (Some s) (a_iss a) (a_aud a) (a_s a) (a_att a) (a_prf a) (a_exp a) (a_fct a) (a_nnc a) (a_nbf a)).
Proof. reflexivity. Qed.
Lemma step_iss a s : ucan_step a (k_iss, IBytes s) =
  Some (mkUacc (a_v a) (Some s) (a_aud a) (a_s a) (a_att a) (a_prf a) (a_exp a) (a_fct a) (a_nnc a) (a_nbf a)).
Proof. reflexivity. Qed.
Lemma step_aud a s : ucan_step a (k_aud, IBytes s) =
  Some (mkUacc (a_v a) (a_iss a) (Some s) (a_s a) (a_att a) (a_prf a) (a_exp a) (a_fct a) (a_nnc a) (a_nbf a)).
Proof. reflexivity. Qed.
Lemma step_s a s : ucan_step a (k_s, IBytes s) =
  Some (mkUacc (a_v a) (a_iss a) (a_aud a) (Some s) (a_att a) (a_prf a) (a_exp a) (a_fct a) (a_nnc a) (a_nbf a)).
Proof. reflexivity. Qed.
Lemma step_att a l cs : omap cap_typed l = Some cs -> ucan_step a (k_att, IList l) =
  Some (mkUacc (a_v a) (a_iss a) (a_aud a) (a_s a) (Some (match a_att a with Some old => old ++ cs | None => cs end))
               (a_prf a) (a_exp a) (a_fct a) (a_nnc a) (a_nbf a)).
Proof. intros H. unfold ucan_step. rewrite fid_att. cbn [as_list obind]. rewrite H. reflexivity. Qed.
Lemma step_prf a l ps : omap as_link l = Some ps -> ucan_step a (k_prf, IList l) =
  Some (mkUacc (a_v a) (a_iss a) (a_aud a) (a_s a) (a_att a) (none_if_empty (Some ps)) (a_exp a) (a_fct a) (a_nnc a) (a_nbf a)).
Proof. intros H. unfold ucan_step. rewrite fid_prf. cbn [as_list obind]. rewrite H. reflexivity. Qed.
Lemma step_exp_null a : ucan_step a (k_exp, INull) =
  Some (mkUacc (a_v a) (a_iss a) (a_aud a) (a_s a) (a_att a) (a_prf a) (Some None) (a_fct a) (a_nnc a) (a_nbf a)).
Proof. reflexivity. Qed.
Lemma step_exp_int a z : ucan_step a (k_exp, IInt z) =
  Some (mkUacc (a_v a) (a_iss a) (a_aud a) (a_s a) (a_att a) (a_prf a) (Some (Some (wrap64 z))) (a_fct a) (a_nnc a) (a_nbf a)).
Proof. reflexivity. Qed.
Lemma step_fct a l fs : omap fact_typed l = Some fs -> ucan_step a (k_fct, IList l) =
  Some (mkUacc (a_v a) (a_iss a) (a_aud a) (a_s a) (a_att a) (a_prf a) (a_exp a) (none_if_empty (Some fs)) (a_nnc a) (a_nbf a)).
Proof. intros H. unfold ucan_step. rewrite fid_fct. cbn [as_list obind]. rewrite H. reflexivity. Qed.
Lemma step_nnc a s : ucan_step a (k_nnc, IString s) =
  Some (mkUacc (a_v a) (a_iss a) (a_aud a) (a_s a) (a_att a) (a_prf a) (a_exp a) (a_fct a) (Some s) (a_nbf a)).
Proof. reflexivity. Qed.
Lemma step_nbf a z : ucan_step a (k_nbf, IInt z) =
  Some (mkUacc (a_v a) (a_iss a) (a_aud a) (a_s a) (a_att a) (a_prf a) (a_exp a) (a_fct a) (a_nnc a) (Some (wrap64 z))).
Proof. reflexivity. Qed.

Lemma ofold_cons {A B} (f : A -> B -> option A) x r a : ofold f (x :: r) a = (a' <- f a x ;; ofold f r a').
Proof. reflexivity. Qed.

(* what the Go model holds for a token: empty optional lists are absent *)
Definition norm_token (t : utoken) : utoken :=
  mkU (u_v t) (u_iss t) (u_aud t) (u_s t) (u_att t) (none_if_empty (u_prf t)) (u_exp t)
      (none_if_empty (u_fct t)) (u_nnc t) (u_nbf t).

Theorem ucan_of_typed_canon t :
  token_typed_ok t = true -> ucan_of_typed (canon (token_ipld t)) = Some (norm_token (canon_token t)).
Proof.
  unfold token_typed_ok. rewrite !andb_true_iff. intros [[[Ee En] Ec] Ef].
  assert (ATT : omap cap_typed (map canon (map cap_ipld (u_att t))) = Some (map canon_cap (u_att t))).
  { rewrite map_map, omap_map. apply omap_some. intros c Hc. apply cap_typed_canon.
    rewrite forallb_forall in Ec. auto. }
  assert (PRF : forall l, omap as_link (map canon (map ILink l)) = Some l).
  { intros l. rewrite map_map, omap_map. rewrite (omap_some _ (fun x => x)); [rewrite map_id; reflexivity|].
    intros; reflexivity. }
  assert (FCT : forall l, forallb fact_typed_ok l = true ->
                omap fact_typed (map canon (map IMap l)) = Some (map canon_fact l)).
  { intros l H. rewrite map_map, omap_map. apply omap_some. intros f Hf.
    apply fact_typed_canon. rewrite forallb_forall in H. auto. }
  destruct t as [ver iss aud s att prf exp fct nnc nbf].
  cbn [u_v u_iss u_aud u_s u_att u_prf u_exp u_fct u_nnc u_nbf] in *.
  unfold token_ipld, struct_map. cbn [u_v u_iss u_aud u_s u_att u_prf u_exp u_fct u_nnc u_nbf].
  rewrite canon_map_eq.
  assert (MC : forall fields, map (on_snd canon) (concat fields) = concat (map (map (on_snd canon)) fields)).
  { intros fields. rewrite concat_map. reflexivity. }
  assert (FF : forall k x, map (on_snd canon) (field k x) = field k (canon x)) by reflexivity.
  assert (OF : forall k o, map (on_snd canon) (opt_field k o) = opt_field k (option_map canon o)).
  { intros k [x|]; reflexivity. }
  rewrite MC. cbn [map]. rewrite !FF, !OF. rewrite sort_token_fields.
  unfold ucan_of_typed. cbn [as_map obind].
  unfold norm_token, canon_token. cbn [u_v u_iss u_aud u_s u_att u_prf u_exp u_fct u_nnc u_nbf].
  assert (CL : forall l, canon (IList l) = IList (map canon l)) by reflexivity.
  assert (NE : forall A B (g : A -> B) l, none_if_empty (Some (map g l)) = none_if_empty (option_map (map g) (Some l))) by reflexivity.
  destruct prf as [prf|], exp as [exp|], fct as [fct|], nnc as [nnc|], nbf as [nbf|];
    cbn [option_map opt_field field concat app nullable];
    rewrite ?CL; cbn [canon];
    repeat (rewrite ofold_cons;
            first [ rewrite step_s | rewrite step_v | rewrite (step_att _ _ _ ATT) | rewrite step_aud
                  | rewrite step_exp_null | rewrite step_exp_int | rewrite (step_fct _ _ _ (FCT _ Ef))
                  | rewrite step_iss | rewrite step_nbf | rewrite step_nnc | rewrite (step_prf _ _ _ (PRF _)) ];
            cbn [obind a_v a_iss a_aud a_s a_att a_prf a_exp a_fct a_nnc a_nbf uacc0]);
    cbn [ofold obind ucan_finish a_v a_iss a_aud a_s a_att a_prf a_exp a_fct a_nnc a_nbf];
    cbn [opt_int64] in Ee, En; rewrite ?(wrap64_id _ Ee), ?(wrap64_id _ En); reflexivity.
Qed.

(* transport through the bytes, with the typed decoder *)
Theorem token_transport_typed t :
  wf_ipld (token_ipld t) = true -> in_budget (token_ipld t) = true -> token_typed_ok t = true ->
  token_decode_typed (token_bytes t) = Some (norm_token (canon_token t)).
Proof.
  intros W B T. unfold token_decode_typed, token_bytes.
  rewrite (cbor_roundtrip_t _ W B). cbn [obind]. apply ucan_of_typed_canon. exact T.
Qed.

(* hence, on what the library's encoder writes, the typed decoder and the generic reader of
   Formats.v agree up to the empty optional lists *)
Corollary token_decode_typed_agrees t :
  wf_ipld (token_ipld t) = true -> in_budget (token_ipld t) = true -> token_typed_ok t = true ->
  token_decode_typed (token_bytes t) = option_map norm_token (token_decode (token_bytes t)).
Proof. intros W B T. rewrite (token_transport_typed t W B T), (token_transport t W B). reflexivity. Qed.

Theorem token_typed_transport_both t :
  wf_ipld (token_ipld t) = true -> in_budget (token_ipld t) = true -> token_typed_ok t = true ->
  token_decode_typed (token_bytes t) = Some (norm_token (canon_token t))
  /\ token_decode_typed (token_bytes t) = option_map norm_token (token_decode (token_bytes t)).
Proof. intros W B T. split; [exact (token_transport_typed t W B T) | exact (token_decode_typed_agrees t W B T)]. Qed.

(* ------------------------------------------------------------------ *)
(* non-vacuity and the decision on hand-written blocks (vm_compute)     *)

Definition ex_cap : capm := mkCapm (bs "x:y") (bs "a/b") (IMap []).
Definition ex_tok : utoken :=
  mkU (bs "0.9.1") [237; 1; 7] [237; 1; 8] [237; 161; 3; 2; 1; 2] [ex_cap] None None None None None.

Example ex_tok_ok :
  wf_ipld (token_ipld ex_tok) = true /\ in_budget (token_ipld ex_tok) = true /\ token_typed_ok ex_tok = true
  /\ token_decode_typed (token_bytes ex_tok) = Some ex_tok.
Proof. vm_compute. repeat split; reflexivity. Qed.

Definition ex_entry (k : bstr) (v : bstr) : bstr := Cbor.head 3 (len k) ++ k ++ v.
Definition ex_cap_bytes (nb : bstr) : bstr :=
  Cbor.head 5 3 ++ ex_entry k_nb nb ++ ex_entry k_can (cbor_encode (IString (bs "a/b")))
               ++ ex_entry k_with (cbor_encode (IString (bs "x:y"))).
Definition ex_fields (att : bstr) : bstr :=
  ex_entry k_s (cbor_encode (IBytes [237; 161; 3; 2; 1; 2])) ++ ex_entry k_v (cbor_encode (IString (bs "0.9.1")))
  ++ ex_entry k_att att ++ ex_entry k_aud (cbor_encode (IBytes [237; 1; 8]))
  ++ ex_entry k_exp [246] ++ ex_entry k_iss (cbor_encode (IBytes [237; 1; 7])).
Definition ex_att1 : bstr := Cbor.head 4 1 ++ ex_cap_bytes [160].

(* 1 decodes, 0 refused *)
Definition ex_dec (b : bstr) : N := match token_decode_typed b with Some _ => 1 | None => 0 end.

Example ex_typed_decisions :
  map ex_dec
    [ Cbor.head 5 6 ++ ex_fields ex_att1                                             (* the token *)
    ; Cbor.head 5 7 ++ ex_fields ex_att1 ++ ex_entry (bs "zzz") [1]                   (* unknown key last *)
    ; Cbor.head 5 7 ++ ex_fields ex_att1 ++ ex_entry k_iss (cbor_encode (IBytes [1])) (* iss twice *)
    ; Cbor.head 5 5 ++ ex_entry k_s (cbor_encode (IBytes [1])) ++ ex_entry k_v (cbor_encode (IString [])) (* exp missing *)
                    ++ ex_entry k_att ex_att1 ++ ex_entry k_aud (cbor_encode (IBytes [])) ++ ex_entry k_iss (cbor_encode (IBytes []))
    ; Cbor.head 5 6 ++ ex_fields (Cbor.head 4 1 ++ ex_cap_bytes [246])                (* nb: null *)
    ; Cbor.head 5 6 ++ ex_fields (Cbor.head 4 1 ++ ex_cap_bytes (Cbor.head 5 1 ++ ex_entry (bs "a") [246]))   (* null inside nb *)
    ; Cbor.head 5 6 ++ ex_fields (Cbor.head 4 1 ++ ex_cap_bytes (Cbor.head 5 2 ++ ex_entry (bs "a") [1] ++ ex_entry (bs "a") [2]))  (* repeated key inside nb *)
    ; Cbor.head 5 7 ++ ex_fields ex_att1 ++ ex_entry k_nnc [246]                      (* nnc: null *)
    ; Cbor.head 4 0                                                                   (* not a map *)
    ; Cbor.head 5 6 ++ ex_fields ex_att1 ++ [0] ]                                     (* trailing byte *)
  = [1; 0; 1; 0; 0; 1; 0; 0; 0; 0].
Proof. vm_compute. reflexivity. Qed.

(* `att` twice: the lists are concatenated; `iss` twice: the last wins; exp 2^63 reads negative *)
Example ex_repeats :
  option_map (fun t => (length (u_att t), u_iss t))
    (token_decode_typed (Cbor.head 5 8 ++ ex_fields ex_att1 ++ ex_entry k_att ex_att1 ++ ex_entry k_iss (cbor_encode (IBytes [9]))))
  = Some (2%nat, [9])
  /\ wrap64 (2 ^ 63) = (- 2 ^ 63)%Z /\ wrap64 (2 ^ 64 - 1) = (-1)%Z /\ wrap64 (- 2 ^ 64) = 0%Z /\ wrap64 1700000000 = 1700000000%Z.
Proof. vm_compute. repeat split; reflexivity. Qed.
