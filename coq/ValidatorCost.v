(* ValidatorCost.v — the number of signature verifications (C19). *)
From Ucanto Require Import Base Pattern Time Validator Check_Validator.
Open Scope N_scope.

(* layered proof DAG: `depth` layers of `width` tokens, every token of layer i cites every
   token of layer i-1; layer 1 is issued by a principal that does not own the resource, so
   every path fails at its end and the whole DAG is explored *)
Definition prin (i : N) : did := Did true (bs "did:key:L" ++ [48 + i]).
Definition stranger : did := Did true (bs "did:key:S").
Definition owner_with : bstr := bs "did:key:L0".
Definition c_add : bstr := bs "store/add".

Definition layer_links (width : nat) (layer : N) : list link :=
  map (fun j => layer * 100 + N.of_nat j) (seq 0 width).

Definition layer_tokens (width : nat) (layer : N) : list (link * token) :=
  map (fun l => (l, mkTok (if layer =? 1 then stranger else prin (layer - 1)) (prin layer)
                      [mkRaw c_add owner_with (NbMap [])]
                      (if layer =? 1 then [] else layer_links width (layer - 1))
                      None 0%Z 53485 (Some (if layer =? 1 then 99 else layer - 1))))
      (layer_links width layer).

Definition layered_tokens (width depth : nat) : list (link * token) :=
  flat_map (fun i => layer_tokens width (N.of_nat i)) (seq 1 depth) ++
  [(1, mkTok (prin (N.of_nat depth)) (Did true (bs "did:key:svc"))
         [mkRaw c_add owner_with (NbMap [])] (layer_links width (N.of_nat depth)) None 0%Z 53485
         (Some (N.of_nat depth)))].

Definition layered_world (width depth : nat) : wcase :=
  let toks := layered_tokens width depth in
  {| wc_id := 0; wc_tokens := toks; wc_inv := mkDlg 1 (map fst toks); wc_can := c_add;
     wc_authority := mkVf 1000 53485 (Did true (bs "did:key:svc")); wc_self := true; wc_owners := [];
     wc_revoked := []; wc_resolver := [];
     wc_principals := (did_str stranger, mkVf 99 53485 stranger) ::
                      map (fun i => (did_str (prin (N.of_nat i)), mkVf (N.of_nat i) 53485 (prin (N.of_nat i)))) (seq 0 (S depth));
     wc_keyres := []; wc_now := 50%Z;
     ob_auth := false; ob_path := []; ob_verifies := []; ob_checks := []; ob_derives := []; ob_err_revoked := false |}.

Definition delegations (w : wcase) : N := N.of_nat (length (wc_tokens w)).
Definition verifications (w : wcase) : N := count_verifies (snd (run_world w)).

(* the property's bound: at most quadratic in the number of distinct delegations *)
Definition quadratic_bound (w : wcase) : Prop := verifications w <= delegations w * delegations w + 2.

(* measured on the model (and, by the correspondence, on the implementation):
   width 3: 4, 13, 40, 121, 364 = (3^(d+1)-1)/2 verifications for 4, 7, 10, 13, 16 delegations *)
Example layered_3_5 : verifications (layered_world 3 5) = 364 /\ delegations (layered_world 3 5) = 16.
Proof. split; vm_compute; reflexivity. Qed.
Example layered_2_6 : verifications (layered_world 2 6) = 127 /\ delegations (layered_world 2 6) = 13.
Proof. split; vm_compute; reflexivity. Qed.

Theorem quadratic_bound_refuted : ~ (forall w, quadratic_bound w).
Proof.
  intros H. specialize (H (layered_world 3 5)). unfold quadratic_bound in H.
  destruct layered_3_5 as [V D]. rewrite V, D in H. vm_compute in H. apply H. reflexivity.
Qed.

(* growth: each added layer of width 3 triples the work (tested instances of the closed form) *)
Example layered_growth :
  map (fun d => verifications (layered_world 3 d)) [1; 2; 3; 4; 5]%nat = [4; 13; 40; 121; 364].
Proof. vm_compute. reflexivity. Qed.

(* chains (every token cites one proof and carries one capability): one verification per token *)
Definition chain_world (depth : nat) (root_ok : bool) : wcase :=
  let w := layered_world 1 depth in
  if root_ok then
    {| wc_id := 0;
       wc_tokens := map (fun lt => if fst lt =? 100 then
                                     (100, mkTok (prin 0) (prin 1) [mkRaw c_add owner_with (NbMap [])] [] None 0%Z 53485 (Some 0))
                                   else lt) (wc_tokens w);
       wc_inv := wc_inv w; wc_can := wc_can w; wc_authority := wc_authority w; wc_self := true; wc_owners := [];
       wc_revoked := []; wc_resolver := []; wc_principals := wc_principals w; wc_keyres := []; wc_now := 50%Z;
       ob_auth := true; ob_path := []; ob_verifies := []; ob_checks := []; ob_derives := []; ob_err_revoked := false |}
  else w.

Example chains_linear :
  forallb (fun d => (verifications (chain_world d false) =? N.of_nat d + 1) &&
                    (verifications (chain_world d true) =? N.of_nat d + 1))
          (seq 1 12) = true.
Proof. vm_compute. reflexivity. Qed.
