(* Check_Server.v — evaluation of the server model on batches the harness sent
   through server.NewServer + client.Execute (correspondence for C08, C09, C11). *)
From Ucanto Require Import Base Pattern Time Validator Check_Validator Server.
Open Scope N_scope.

Record bcase := {
  bc_world : wcase;                       (* tokens + validation context of the server *)
  bc_vis : list link;                     (* blocks that travelled in the request *)
  bc_exec : list link;                    (* the message's execute list *)
  bc_handlers : list (bstr * N);          (* ability -> 0: handler returns a value, 1: returns an error *)
  bc_fx : list (bstr * effects);          (* ability -> the effects its handler returns with its value (no entry: none) *)
  bc_server : did;
  ob_exec_err : bool;                     (* the request failed as a whole *)
  ob_rcpts : list (link * bool * rclass * link * bstr);   (* per execute entry: found, class, ran, issuer *)
  ob_fx : list (link * effects);          (* per receipt found and decoded (keyed by the execute entry): the fork links in
                                             order and the join written in its outcome *)
  ob_calls : list call;
  ob_nreceipts : N }.

(* what the harness handler of an ability returns (batch.go sharedProvider) *)
Definition handler_result (fxs : list (bstr * effects)) (e : bstr * N) : hres :=
  if snd e =? 1 then HFail
  else HOk (match slookup (fst e) fxs with Some fx => fx | None => no_fx end).

Definition bc_srv (b : bcase) : server :=
  mkServer (bc_server b) (wc_ctx (bc_world b))
    (map (fun e => mkHandler (fst e) (std_desc (fst e)) (fun _ => handler_result (bc_fx b) e)) (bc_handlers b)).

Definition olink_eqb (a b : option link) : bool :=
  match a, b with
  | Some x, Some y => x =? y
  | None, None => true
  | _, _ => false
  end.
Definition effects_eqb (a b : effects) : bool :=
  list_eqb N.eqb (fst a) (fst b) && olink_eqb (snd a) (snd b).

Definition rclass_eqb (a b : rclass) : bool :=
  match a, b with
  | ROk, ROk => true
  | RErr x, RErr y => beq x y
  | _, _ => false
  end.

Definition call_eqb (a b : call) : bool := beq (fst a) (fst b) && cap_eqb (snd a) (snd b).

(* multiset equality (handler calls of one batch happen on concurrent goroutines) *)
Fixpoint remove_first {A} (eqb : A -> A -> bool) (x : A) (l : list A) : option (list A) :=
  match l with
  | [] => None
  | y :: r => if eqb x y then Some r else
              match remove_first eqb x r with Some r' => Some (y :: r') | None => None end
  end.
Fixpoint multiset_eqb {A} (eqb : A -> A -> bool) (a b : list A) : bool :=
  match a with
  | [] => match b with [] => true | _ => false end
  | x :: a' => match remove_first eqb x b with Some b' => multiset_eqb eqb a' b' | None => false end
  end.

Definition run_batch (b : bcase) : exec_result :=
  execute (wc_U (bc_world b)) fuel (bc_srv b) (bc_vis b) (bc_exec b).

(* 0 agreement; 1 whole-request outcome; 2 a receipt missing/unexpected; 3 receipt class;
   4 ran / issuer of a receipt; 5 handler calls; 6 number of receipts; 7 effects of a receipt
   (fork links in order, join); 9 fuel *)
Definition check_fx (rep : report) (obs : list (link * effects)) : bool :=
  forallb (fun o => match rget (fst o) rep with
                    | Some r => effects_eqb (rc_fx r) (snd o)
                    | None => true       (* a missing receipt is code 2 *)
                    end) obs.

Definition check_batch (b : bcase) : N :=
  match run_batch b with
  | ExecFuel => 9
  | ExecErr => if ob_exec_err b then 0 else 1
  | ExecOk rep calls =>
    if ob_exec_err b then 1 else
    let per := map (fun o =>
      match o with (l, found, cls, ran, iss) =>
        match rget l rep with
        | None => if found then 2 else 0
        | Some r => if negb found then 2
                    else if negb (rclass_eqb (rc_out r) cls) then 3
                    else if negb ((rc_ran r =? ran) && beq (did_str (rc_iss r)) iss) then 4 else 0
        end end) (ob_rcpts b) in
    match filter (fun c => negb (c =? 0)) per with
    | c :: _ => c
    | [] => if negb (multiset_eqb call_eqb calls (ob_calls b)) then 5
            else if negb (N.of_nat (length rep) =? ob_nreceipts b) then 6
            else if negb (check_fx rep (ob_fx b)) then 7 else 0
    end
  end.

Definition check_batches (l : list bcase) : list (N * N) :=
  filter_map (fun b => let c := check_batch b in if c =? 0 then None else Some (wc_id (bc_world b), c)) l.
