(* Check_Formats.v — byte-for-byte comparison of the layouts of Formats.v with the blocks the
   implementation wrote (C07, C10, C13, C18). *)
From Ucanto Require Import Base Ipld Cbor Formats.
Open Scope N_scope.

Fixpoint utoken_eqb_caps (a b : list capm) : bool :=
  match a, b with
  | [], [] => true
  | x :: a', y :: b' => beq (cm_with x) (cm_with y) && beq (cm_can x) (cm_can y) && ipld_eqb (cm_nb x) (cm_nb y) && utoken_eqb_caps a' b'
  | _, _ => false
  end.

Definition fact_eqb (a b : list (bstr * ipld)) : bool := ipld_eqb (IMap a) (IMap b).

Definition utoken_eqb (a b : utoken) : bool :=
  beq (u_v a) (u_v b) && beq (u_iss a) (u_iss b) && beq (u_aud a) (u_aud b) && beq (u_s a) (u_s b) &&
  utoken_eqb_caps (u_att a) (u_att b) && option_eqb (list_eqb beq) (u_prf a) (u_prf b) &&
  option_eqb Z.eqb (u_exp a) (u_exp b) && option_eqb (list_eqb fact_eqb) (u_fct a) (u_fct b) &&
  option_eqb beq (u_nnc a) (u_nnc b) && option_eqb Z.eqb (u_nbf a) (u_nbf b).

(* 0 agreement; 1 the model's bytes differ from the block; 2 decoding the block does not give the token back *)
Definition check_token (c : N * utoken * bstr) : N :=
  match c with (_, t, bytes) =>
    if negb (beq (token_bytes t) bytes) then 1
    else match token_decode bytes with
         | Some t' => if utoken_eqb t' (canon_token t) then 0 else 2
         | None => 2
         end
  end.

Definition check_tokens (l : list (N * utoken * bstr)) : list (N * N) :=
  filter_map (fun c => let r := check_token c in if r =? 0 then None else Some (fst (fst c), r)) l.
