(* Check_Formats.v — byte-for-byte comparison of the layouts of Formats.v with the blocks the
   implementation wrote (C07, C10, C13, C18). *)
From Ucanto Require Import Base Ipld Cbor Formats.
Open Scope N_scope.

Fixpoint utoken_eqb_caps (a b : list capm) : bool :=
  match a, b with
  | [], [] => true
  | x :: a', y :: b' => beq (cm_with x) (cm_with y) && beq (cm_can x) (cm_can y) && ipld_eqb (cm_nb x) (cm_nb y) && utoken_eqb_caps a' b'
  | _, _ => false
  end.

Definition fact_eqb (a b : list (bstr * ipld)) : bool := ipld_eqb (IMap a) (IMap b).

Definition utoken_eqb (a b : utoken) : bool :=
  beq (u_v a) (u_v b) && beq (u_iss a) (u_iss b) && beq (u_aud a) (u_aud b) && beq (u_s a) (u_s b) &&
  utoken_eqb_caps (u_att a) (u_att b) && option_eqb (list_eqb beq) (u_prf a) (u_prf b) &&
  option_eqb Z.eqb (u_exp a) (u_exp b) && option_eqb (list_eqb fact_eqb) (u_fct a) (u_fct b) &&
  option_eqb beq (u_nnc a) (u_nnc b) && option_eqb Z.eqb (u_nbf a) (u_nbf b).

(* 0 agreement; 1 the model's bytes differ from the block; 2 decoding the block does not give the token back *)
Definition check_token (c : N * utoken * bstr) : N :=
  match c with (_, t, bytes) =>
    if negb (beq (token_bytes t) bytes) then 1
    else match token_decode bytes with
         | Some t' => if utoken_eqb t' (canon_token t) then 0 else 2
         | None => 2
         end
  end.

Definition check_tokens (l : list (N * utoken * bstr)) : list (N * N) :=
  filter_map (fun c => let r := check_token c in if r =? 0 then None else Some (fst (fst c), r)) l.

(* ---- receipts (C10) ---- *)
From Ucanto Require Import ReceiptFormat.

Definition outcome_eqb (a b : outcome) : bool :=
  beq (o_ran a) (o_ran b) && Bool.eqb (o_ok a) (o_ok b) && ipld_eqb (o_val a) (o_val b) &&
  list_eqb beq (o_fork a) (o_fork b) && option_eqb beq (o_join a) (o_join b) &&
  fact_eqb (o_meta a) (o_meta b) && option_eqb beq (o_iss a) (o_iss b) && list_eqb beq (o_prf a) (o_prf b).

(* (id, receipt as decoded generically from the transported root block, root block bytes,
    DAG-CBOR of the outcome as the implementation re-encodes it)
   0 agreement; 1 root bytes differ; 2 outcome (signed) bytes differ; 3 decoding does not give the receipt back *)
Definition check_receipt (c : N * rcpt * bstr * bstr) : N :=
  match c with (_, r, root, obytes) =>
    if negb (beq (receipt_bytes r) root) then 1
    else if negb (beq (outcome_bytes (r_ocm r)) obytes) then 2
    else match receipt_decode root with
         | Some r' => if outcome_eqb (r_ocm r') (canon_outcome (r_ocm r)) && beq (r_sig r') (r_sig r) then 0 else 3
         | None => 3
         end
  end.

Definition check_receipts (l : list (N * rcpt * bstr * bstr)) : list (N * N) :=
  filter_map (fun c => let r := check_receipt c in if r =? 0 then None else Some (fst (fst (fst c)), r)) l.

(* ---- messages, archives and block sets (C13) ---- *)
From Ucanto Require Import Blockstore MessageFormat.

Definition amsg_eqb (a b : amsg) : bool :=
  option_eqb (list_eqb beq) (m_execute a) (m_execute b) &&
  option_eqb (list_eqb (fun x y => beq (fst x) (fst y) && beq (snd x) (snd y))) (m_report a) (m_report b).

(* kind 0: message root block (msg, bytes); kind 1: archive variant block (link, bytes);
   result 0 agreement, 1 bytes differ, 2 decode differs *)
Definition check_message (c : N * amsg * bstr) : N :=
  match c with (_, m, bytes) =>
    if negb (beq (message_bytes m) bytes) then 1
    else match message_decode bytes with
         | Some m' => if amsg_eqb m' (canon_msg m) then 0 else 2
         | None => 2
         end
  end.
Definition check_messages (l : list (N * amsg * bstr)) : list (N * N) :=
  filter_map (fun c => let r := check_message c in if r =? 0 then None else Some (fst (fst c), r)) l.

Definition check_archive (c : N * bstr * bstr) : N :=
  match c with (_, l, bytes) =>
    if negb (beq (cbor_encode (archive_ipld l)) bytes) then 1
    else match cbor_decode_all bytes with
         | Some v => match archive_of_ipld v with Some l' => if beq l l' then 0 else 2 | None => 2 end
         | None => 2
         end
  end.
Definition check_archives (l : list (N * bstr * bstr)) : list (N * N) :=
  filter_map (fun c => let r := check_archive c in if r =? 0 then None else Some (fst (fst c), r)) l.

(* block sequences: Delegation.Blocks() and message Blocks() as link ids *)
Definition check_dblocks (c : N * dtree * list N) : N :=
  match c with (_, d, obs) => if list_eqb N.eqb (d_links d) obs then 0 else 1 end.
Definition check_dblocks_all (l : list (N * dtree * list N)) : list (N * N) :=
  filter_map (fun c => let r := check_dblocks c in if r =? 0 then None else Some (fst (fst c), r)) l.

Definition check_mblocks (c : N * list dtree * list (list blk) * blk * list N) : N :=
  match c with (_, invs, rb, root, obs) => if list_eqb N.eqb (message_blocks invs rb root) obs then 0 else 1 end.
Definition check_mblocks_all (l : list (N * list dtree * list (list blk) * blk * list N)) : list (N * N) :=
  filter_map (fun c => let r := check_mblocks c in if r =? 0 then None else Some (fst (fst (fst (fst c))), r)) l.
