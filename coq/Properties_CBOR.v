(* CBOR — component theorems (DAG-CBOR codec model); proofs are in Ipld.v / Cbor.v. *)
From Ucanto Require Import Base Ipld Cbor.
