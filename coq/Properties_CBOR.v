(* CBOR — component theorems about the DAG-CBOR codec model (not a numbered
   property; C07, C10, C13 and C18 build on them).  This file contains only
   the theorem statements; proofs and definitions are in Ipld.v / Cbor.v. *)
From Ucanto Require Import Base Ipld Cbor.
From Coq Require Import Sorting.Permutation.
Open Scope N_scope.

(* decoding the encoding of a well-formed value that fits the decoder's allocation
   budget yields its canonical form (maps sorted), and leaves the rest of the input *)
Theorem CBOR_roundtrip : forall v, wf_ipld v = true -> in_budget v = true ->
  cbor_decode_all (cbor_encode v) = Some (canon v).
Proof. exact cbor_roundtrip. Qed.
Print Assumptions CBOR_roundtrip.

Theorem CBOR_roundtrip_rest : forall v rest, wf_ipld v = true -> in_budget v = true ->
  cbor_decode (cbor_encode v ++ rest) = Some (canon v, rest).
Proof. exact cbor_roundtrip_rest. Qed.
Print Assumptions CBOR_roundtrip_rest.

(* the budget hypothesis is necessary: go-ipld-prime's decoder rejects its own
   encoder's output once a string is longer than 10 MiB *)
Theorem CBOR_budget_exceeded : forall s, bytes_ok s = true -> go_gas < len s -> len s <= 33554432 ->
  cbor_decode_all (cbor_encode (IString s)) = None.
Proof. exact cbor_budget_exceeded. Qed.
Print Assumptions CBOR_budget_exceeded.

Theorem CBOR_encode_canon : forall v, cbor_encode (canon v) = cbor_encode v.
Proof. exact cbor_encode_canon. Qed.
Print Assumptions CBOR_encode_canon.

(* insertion order of a map (receipt metadata, fact keys, struct fields) does not influence the bytes *)
Theorem CBOR_encode_perm : forall m m', NoDup (map fst m) -> Permutation m m' ->
  cbor_encode (IMap m) = cbor_encode (IMap m').
Proof. exact cbor_encode_perm. Qed.
Print Assumptions CBOR_encode_perm.

(* equal bytes => equal canonical values (no budget hypothesis) *)
Theorem CBOR_encode_inj : forall a b, wf_ipld a = true -> wf_ipld b = true ->
  cbor_encode a = cbor_encode b -> canon a = canon b.
Proof. exact cbor_encode_inj. Qed.
Print Assumptions CBOR_encode_inj.

Theorem CBOR_encode_prefix_free : forall a b ra rb, wf_ipld a = true -> wf_ipld b = true ->
  cbor_encode a ++ ra = cbor_encode b ++ rb -> canon a = canon b /\ ra = rb.
Proof. exact cbor_encode_prefix_free. Qed.
Print Assumptions CBOR_encode_prefix_free.

(* re-encoding the decoded value reproduces the bytes (signatures stay verifiable after transport) *)
Theorem CBOR_reencode : forall v, wf_ipld v = true -> in_budget v = true ->
  exists v', cbor_decode_all (cbor_encode v) = Some v' /\ cbor_encode v' = cbor_encode v.
Proof. exact cbor_reencode. Qed.
Print Assumptions CBOR_reencode.

(* no input makes the model diverge or panic *)
Theorem CBOR_decode_total : forall b,
  (exists v r, cbor_decode_r b = DOk (v, r)) \/ cbor_decode_r b = DErr \/ cbor_decode_r b = DUnsup.
Proof. exact cbor_decode_total. Qed.
Print Assumptions CBOR_decode_total.

Theorem CBOR_canon_idem : forall v, canon (canon v) = canon v.
Proof. exact canon_idem. Qed.
Print Assumptions CBOR_canon_idem.

Theorem CBOR_sort_permutation : forall (m m' : list (bstr * ipld)),
  NoDup (map fst m) -> Permutation m m' -> sort_map m = sort_map m'.
Proof. exact (@sort_map_permutation ipld). Qed.
Print Assumptions CBOR_sort_permutation.
