(* StoredFormats.v — what a stored artefact reads back to (C18): the CAR framing of Car.v, the
   `ucan@0.9.1` archive variant block and the UCAN token block composed into one statement. *)
From Ucanto Require Import Base Varint Ipld Cbor Cid Car Formats Blockstore MessageFormat Signing.
Open Scope N_scope.

Section Stored.
  Variable mh_digest : N -> N -> bstr -> option bstr.
  Variable hdr_oracle : bstr -> option (list bstr * N).

  (* Delegation.Archive(): a CARv1 whose single root is the variant block {"ucan@0.9.1": link};
     blocks: whatever the delegation carries (proofs, attachments), its own root block, the variant *)
  Definition archive_blocks (others : list block) (l : bstr) (t : utoken) (vc : bstr) : list block :=
    others ++ [(l, token_bytes t); (vc, cbor_encode (archive_ipld l))].
  Definition archive_car others l t vc : bstr := car_encode [vc] (archive_blocks others l t vc).

  Theorem stored_archive_readable others l t vc :
    roots_ok 1 [vc] -> Forall (block_ok mh_digest) (archive_blocks others l t vc) ->
    wf_ipld (token_ipld t) = true -> in_budget (token_ipld t) = true ->
    wf_ipld (archive_ipld l) = true -> in_budget (archive_ipld l) = true ->
    (* the CAR decodes to its root and exactly its blocks ... *)
    car_decode mh_digest true hdr_oracle (archive_car others l t vc)
      = (HdrOk [vc], map item_of_block (archive_blocks others l t vc)) /\
    (* ... the root block names the same link ... *)
    (v <- cbor_decode_all (cbor_encode (archive_ipld l)) ;; archive_of_ipld v) = Some l /\
    (* ... and the block under that link is the same token: fields, signature bytes *)
    token_decode (token_bytes t) = Some (canon_token t).
  Proof.
    intros R F W B WA BA. split; [|split].
    - apply car_roundtrip; assumption.
    - apply archive_transport; assumption.
    - apply token_transport; assumption.
  Qed.
End Stored.

(* the signing payload does not depend on the map order of caveats / facts *)
Lemma sign_payload_canon_token alg t : sign_payload alg (canon_token t) = sign_payload alg t.
Proof. unfold sign_payload. apply sign_payload_canon. Qed.

(* non-vacuity: a concrete archive meets every hypothesis (identity-multihash CIDs, so any digest function does) *)
Definition ex_token : utoken :=
  mkU (bs "0.9.1") [237; 1; 7] [237; 1; 9] [237; 161; 3; 1; 1]
      [mkCapm (bs "did:key:zAlice") (bs "store/add") (IMap [(bs "size", IInt 5)])] None (Some 1900000000%Z) None (Some (bs "n")) None.
Definition ex_l : bstr := cidv1 113 (mh_encode 0 (token_bytes ex_token)).
Definition ex_vc : bstr := cidv1 113 (mh_encode 0 (cbor_encode (archive_ipld ex_l))).

Example ex_archive_hyps :
  roots_ok 1 [ex_vc] /\ Forall (block_ok toy_digest) (archive_blocks [] ex_l ex_token ex_vc) /\
  wf_ipld (token_ipld ex_token) = true /\ in_budget (token_ipld ex_token) = true /\
  wf_ipld (archive_ipld ex_l) = true /\ in_budget (archive_ipld ex_l) = true.
Proof.
  split; [|split; [|repeat split; vm_compute; reflexivity]].
  - split; [|vm_compute; discriminate].
    apply Forall_cons; [|apply Forall_nil].
    apply (wf_v1 113 0 (cbor_encode (archive_ipld ex_l))); [reflexivity | reflexivity | vm_compute; discriminate].
  - unfold archive_blocks. cbn [app].
    apply Forall_cons; [|apply Forall_cons; [|apply Forall_nil]].
    + split; [apply (wf_v1 113 0 (token_bytes ex_token)); [reflexivity | reflexivity | vm_compute; discriminate]|].
      split; vm_compute; [reflexivity|discriminate].
    + split; [apply (wf_v1 113 0 (cbor_encode (archive_ipld ex_l))); [reflexivity | reflexivity | vm_compute; discriminate]|].
      split; vm_compute; [reflexivity|discriminate].
Qed.
