(* Did.v — did/did.go: DID = {key bool; str string}; Decode / Parse / String / Bytes.
   Models the code at /repo HEAD (String() returns "" for a too-short non-key
   DID) plus the proposed repair fixes/C14_did_key_alias.diff (Decode rejects
   the generic 0x0d1d encoding of the method "key").  The behaviour WITHOUT the
   repair is kept as did_decode_pinned with the refuting witness.

   Base58btc (go-multibase / mr-tron/base58) is a Section variable with its
   laws as hypotheses, so that the proofs use nothing else about it; the laws
   are THEOREMS of the concrete codec BaseEnc.b58enc / BaseDec.b58dec (the
   instance at the end of this file; Properties_C14.v states everything for
   the concrete functions). *)
From Ucanto Require Import Base Varint VarintMore Sig BaseEnc BaseDec.
From Coq Require Import ZifyBool ZifyN ZifyNat.
Open Scope N_scope.

Record did := mkdid { dkey : bool; dstr : bstr }.

Definition did_undef : did := mkdid false [].
Definition did_eqb (a b : did) : bool := Bool.eqb (dkey a) (dkey b) && beq (dstr a) (dstr b).

Lemma did_eqb_eq a b : did_eqb a b = true <-> a = b.
Proof.
  destruct a as [ka sa], b as [kb sb]. unfold did_eqb. cbn [dkey dstr].
  rewrite andb_true_iff, eqb_true_iff, beq_eq. split; [intros [-> ->]; reflexivity|].
  intros E; inversion E; auto.
Qed.

Definition code_ed : N := 237.        (* 0xed   *)
Definition code_rsa : N := 4613.      (* 0x1205 *)
Definition code_didcore : N := 3357.  (* 0x0d1d *)
Definition method_offset : nat := uvarint_size code_didcore.  (* MethodOffset = 2 *)

Definition pfx_did : bstr := bs "did:".
Definition pfx_did_key : bstr := bs "did:key:".
Definition pfx_key : bstr := bs "key:".
Definition core_tag : bstr := uvarint code_didcore.             (* 9d 1a *)
Definition core_key_prefix : bstr := core_tag ++ pfx_key.       (* 9d 1a "key:" *)
Definition mb_z : N := 122.                                     (* 'z' = multibase Base58BTC *)

(* d.Bytes(): nil for the undefined DID, the stored bytes otherwise *)
Definition did_bytes (d : did) : bstr := dstr d.
Definition did_defined (d : did) : bool := negb (beq (dstr d) []).

(* did.Decode (with the repair) *)
Definition did_decode (b : bstr) : option did :=
  match from_uvarint b with
  | inl _ => None
  | inr (code, _) =>
    if (code =? code_ed) || (code =? code_rsa) then Some (mkdid true b)
    else if code =? code_didcore then
      (if prefixb core_key_prefix b then None else Some (mkdid false b))
    else None
  end.

(* did.Decode as it is on the tree without the repair *)
Definition did_decode_pinned (b : bstr) : option did :=
  match from_uvarint b with
  | inl _ => None
  | inr (code, _) =>
    if (code =? code_ed) || (code =? code_rsa) then Some (mkdid true b)
    else if code =? code_didcore then Some (mkdid false b)
    else None
  end.

(* boolean well-formedness: what Decode accepts, as a predicate on the value *)
Definition did_wf (d : did) : bool :=
  if dkey d then
    match from_uvarint (dstr d) with
    | inr (c, _) => (c =? code_ed) || (c =? code_rsa)
    | inl _ => false
    end
  else prefixb core_tag (dstr d) && negb (prefixb core_key_prefix (dstr d)).

  Lemma did_decode_some b d :
    bytes_ok b -> did_decode b = Some d -> did_wf d = true /\ dstr d = b.
  Proof.
    intros Hb H. unfold did_decode in H.
    destruct (from_uvarint b) as [e|[c k]] eqn:E; [discriminate|].
    destruct ((c =? code_ed) || (c =? code_rsa)) eqn:Ek.
    - inversion H; subst d. unfold did_wf. cbn [dkey dstr]. rewrite E, Ek. auto.
    - destruct (c =? code_didcore) eqn:Ec; [|discriminate].
      destruct (prefixb core_key_prefix b) eqn:Ep; [discriminate|].
      inversion H; subst d. unfold did_wf. cbn [dkey dstr]. rewrite Ep.
      split; [|reflexivity]. rewrite andb_true_r.
      apply from_uvarint_canonical in E; [|exact Hb].
      destruct E as [_ [_ [_ E]]]. apply N.eqb_eq in Ec. subst c.
      apply prefixb_spec. eexists. exact E.
  Qed.

  Lemma prefixb_app p s : prefixb p (p ++ s) = true.
  Proof. apply prefixb_spec. exists s. reflexivity. Qed.

  Lemma did_wf_nonkey r : prefixb pfx_key r = false -> did_wf (mkdid false (core_tag ++ r)) = true.
  Proof.
    intros K. unfold did_wf. cbn [dkey dstr]. rewrite prefixb_app. cbn [andb].
    apply negb_true_iff. destruct (prefixb core_key_prefix (core_tag ++ r)) eqn:E3; [|reflexivity].
    apply prefixb_spec in E3. destruct E3 as [r' E3].
    unfold core_key_prefix in E3. rewrite <- app_assoc in E3. apply app_inv_head in E3.
    subst r. rewrite prefixb_app in K. discriminate.
  Qed.

  Theorem did_bytes_roundtrip d : did_wf d = true -> did_decode (did_bytes d) = Some d.
  Proof.
    destruct d as [k s]. unfold did_wf, did_bytes, did_decode. cbn [dkey dstr].
    destruct k.
    - destruct (from_uvarint s) as [e|[c n]]; [discriminate|]. intros ->. reflexivity.
    - rewrite andb_true_iff, negb_true_iff. intros [Hp Hn].
      apply prefixb_spec in Hp. destruct Hp as [r Hs].
      rewrite Hn. rewrite Hs at 1. unfold core_tag.
      rewrite from_uvarint_uvarint by (vm_compute; reflexivity).
      reflexivity.
  Qed.


Lemma core_tag_len r : (length (core_tag ++ r) <? method_offset)%nat = false.
Proof. rewrite app_length. change (length core_tag) with 2%nat. change method_offset with 2%nat. lia. Qed.

Section Dec.
  Variable b58dec : bstr -> option bstr.

  (* did.Parse, parametrised by the Decode it calls *)
  Definition did_parse_with (decode : bstr -> option did) (s : bstr) : option did :=
    if negb (prefixb pfx_did s) then None
    else if prefixb pfx_did_key s then
      match skipn 8 s with
      | [] => None                                   (* multibase: zero length string *)
      | c :: rest =>
        if c =? mb_z then
          match b58dec rest with Some b => decode b | None => None end
        else None                                    (* decode error or "not Base58BTC encoded" *)
      end
    else Some (mkdid false (core_tag ++ skipn 4 s)).

  Definition did_parse := did_parse_with did_decode.
  Definition did_parse_pinned := did_parse_with did_decode_pinned.

  (* ---------------------------------------------------------------- *)
  (* every DID that Decode or Parse returns is well-formed             *)

  Hypothesis b58dec_bytes : forall s b, b58dec s = Some b -> bytes_ok b.

  Lemma did_parse_some s d : did_parse s = Some d -> did_wf d = true.
  Proof.
    unfold did_parse, did_parse_with. intros H.
    destruct (prefixb pfx_did s) eqn:E1; cbn [negb] in H; [|discriminate].
    destruct (prefixb pfx_did_key s) eqn:E2.
    - destruct (skipn 8 s) as [|c rest]; [discriminate|].
      destruct (c =? mb_z); [|discriminate].
      destruct (b58dec rest) as [b|] eqn:Eb; [|discriminate].
      apply did_decode_some in H; [tauto|]. eapply b58dec_bytes; eassumption.
    - assert (D : d = mkdid false (core_tag ++ skipn 4 s)) by congruence.
      rewrite D. clear H D. apply did_wf_nonkey.
      (* "did:" ++ r does not start with "did:key:", so r does not start with "key:" *)
      apply prefixb_spec in E1. destruct E1 as [r ->].
      change (skipn 4 (pfx_did ++ r)) with r. exact E2.
  Qed.

  (* the bytes of a key DID that Parse returns are bytes (they come out of the decoder) *)
  Lemma did_parse_key_bytes s d : did_parse s = Some d -> dkey d = true -> bytes_ok (dstr d).
  Proof.
    unfold did_parse, did_parse_with. intros H K.
    destruct (prefixb pfx_did s); cbn [negb] in H; [|discriminate].
    destruct (prefixb pfx_did_key s).
    - destruct (skipn 8 s) as [|c rest]; [discriminate|].
      destruct (c =? mb_z); [|discriminate].
      destruct (b58dec rest) as [b|] eqn:Eb; [|discriminate].
      pose proof (b58dec_bytes _ _ Eb) as Hb.
      apply did_decode_some in H; [|exact Hb]. destruct H as [_ ->]. exact Hb.
    - assert (D : d = mkdid false (core_tag ++ skipn 4 s)) by congruence.
      rewrite D in K. discriminate.
  Qed.

End Dec.

Section Codec.
  (* base58btc encode / decode of go-multibase.  The decoder rejects the empty
     string, so the round trip holds for non-empty byte strings. *)
  Variable b58enc : bstr -> bstr.
  Variable b58dec : bstr -> option bstr.

  (* d.String() *)
  Definition did_to_string (d : did) : outcome bstr :=
    if dkey d then Ret (pfx_did_key ++ mb_z :: b58enc (dstr d))
    else if (length (dstr d) <? method_offset)%nat then Ret []
    else bind (slice_from (dstr d) method_offset) (fun t => Ret (pfx_did ++ t)).

  Definition did_to_string_v (d : did) : bstr :=
    if dkey d then pfx_did_key ++ mb_z :: b58enc (dstr d)
    else if (length (dstr d) <? method_offset)%nat then []
    else pfx_did ++ skipn method_offset (dstr d).

  (* String() never panics, for any DID value (also DID{}) *)
  Theorem did_to_string_total d : did_to_string d = Ret (did_to_string_v d).
  Proof using.
    unfold did_to_string, did_to_string_v. destruct (dkey d); [reflexivity|].
    destruct (length (dstr d) <? method_offset)%nat eqn:E; [reflexivity|].
    rewrite slice_from_ok; [reflexivity|]. clear - E. lia.
  Qed.

  Corollary did_to_string_no_panic d : forall site, did_to_string d <> Panic site.
  Proof using. intros site. rewrite did_to_string_total. discriminate. Qed.

  (* ---------------------------------------------------------------- *)
  (* round trips                                                        *)

  Hypothesis b58dec_bytes : forall s b, b58dec s = Some b -> bytes_ok b.
  Hypothesis b58_roundtrip : forall b, bytes_ok b -> b <> [] -> b58dec (b58enc b) = Some b.

  Notation did_parse := (did_parse b58dec).
  Notation did_parse_pinned := (did_parse_pinned b58dec).

  Theorem did_string_roundtrip d :
    did_wf d = true -> (dkey d = true -> bytes_ok (dstr d)) ->
    did_parse (did_to_string_v d) = Some d.
  Proof using b58_roundtrip.
    destruct d as [k s]. unfold did_wf, did_to_string_v, did_parse, did_parse_with. cbn [dkey dstr].
    destruct k.
    - intros Hwf Hb. specialize (Hb eq_refl).
      assert (Hne : s <> []) by (intros ->; vm_compute in Hwf; discriminate).
      change (prefixb pfx_did (pfx_did_key ++ mb_z :: b58enc s)) with true.
      change (prefixb pfx_did_key (pfx_did_key ++ mb_z :: b58enc s)) with true.
      change (skipn 8 (pfx_did_key ++ mb_z :: b58enc s)) with (mb_z :: b58enc s).
      cbn [negb]. rewrite N.eqb_refl, b58_roundtrip by assumption.
      unfold did_decode. destruct (from_uvarint s) as [e|[c n]]; [discriminate|].
      rewrite Hwf. reflexivity.
    - rewrite andb_true_iff, negb_true_iff. intros [Hp Hn] _.
      apply prefixb_spec in Hp. destruct Hp as [r ->].
      rewrite core_tag_len.
      change (skipn method_offset (core_tag ++ r)) with r.
      change (prefixb pfx_did (pfx_did ++ r)) with true. cbn [negb].
      change (prefixb pfx_did_key (pfx_did ++ r)) with (prefixb pfx_key r).
      assert (K : prefixb pfx_key r = false).
      { destruct (prefixb pfx_key r) eqn:E; [|reflexivity].
        apply prefixb_spec in E. destruct E as [r' ->].
        unfold core_key_prefix in Hn. rewrite app_assoc, prefixb_app in Hn. discriminate. }
      rewrite K. change (skipn 4 (pfx_did ++ r)) with r. reflexivity.
  Qed.

  (* the property, on everything Parse / Decode can return *)
  Theorem did_roundtrip_of_parse s d :
    did_parse s = Some d ->
    did_decode (did_bytes d) = Some d /\
    exists s', did_to_string d = Ret s' /\ did_parse s' = Some d.
  Proof using b58dec_bytes b58_roundtrip.
    intros H. pose proof (did_parse_key_bytes b58dec b58dec_bytes s d H) as Hb.
    apply (did_parse_some b58dec b58dec_bytes) in H. split; [apply did_bytes_roundtrip; exact H|].
    exists (did_to_string_v d). split; [apply did_to_string_total|apply did_string_roundtrip; assumption].
  Qed.

  Theorem did_roundtrip_of_decode b d :
    bytes_ok b -> did_decode b = Some d ->
    did_bytes d = b /\ did_decode (did_bytes d) = Some d /\
    exists s', did_to_string d = Ret s' /\ did_parse s' = Some d.
  Proof using b58_roundtrip.
    intros Hb H. apply did_decode_some in H; [|exact Hb]. destruct H as [H E].
    split; [exact E|]. split; [apply did_bytes_roundtrip; exact H|].
    exists (did_to_string_v d). split; [apply did_to_string_total|apply did_string_roundtrip; [exact H|]].
    intros _. rewrite E. exact Hb.
  Qed.

  (* two well-formed DIDs that print the same are the same DID (no aliasing) *)
  Corollary did_to_string_inj d1 d2 :
    did_wf d1 = true -> did_wf d2 = true -> bytes_ok (did_bytes d1) -> bytes_ok (did_bytes d2) ->
    did_to_string_v d1 = did_to_string_v d2 -> d1 = d2.
  Proof using b58_roundtrip.
    intros H1 H2 B1 B2 E. apply did_string_roundtrip in H1; [|intros _; exact B1].
    apply did_string_roundtrip in H2; [|intros _; exact B2].
    rewrite E in H1. congruence.
  Qed.

  (* key-ness is visible in the string: used by Wrap and by the validator *)
  Lemma did_key_string d : dkey d = true -> prefixb pfx_did_key (did_to_string_v d) = true.
  Proof using. unfold did_to_string_v. intros ->. apply prefixb_app. Qed.

  Lemma did_nonkey_string d :
    did_wf d = true -> dkey d = false -> prefixb pfx_did_key (did_to_string_v d) = false.
  Proof using.
    destruct d as [k s]. cbn [dkey]. intros Hwf ->. unfold did_wf in Hwf. cbn [dkey dstr] in Hwf.
    apply andb_true_iff in Hwf. destruct Hwf as [Hp Hn]. apply negb_true_iff in Hn.
    apply prefixb_spec in Hp. destruct Hp as [r ->].
    unfold did_to_string_v. cbn [dkey dstr].
    rewrite core_tag_len. change (skipn method_offset (core_tag ++ r)) with r.
    change (prefixb pfx_did_key (pfx_did ++ r)) with (prefixb pfx_key r).
    destruct (prefixb pfx_key r) eqn:E; [|reflexivity].
    apply prefixb_spec in E. destruct E as [r' ->].
    unfold core_key_prefix in Hn. rewrite app_assoc, prefixb_app in Hn. discriminate.
  Qed.

  (* ---------------------------------------------------------------- *)
  (* the tree WITHOUT the repair: a DID string that parses, but whose
     DID does not survive String() -> Parse().  (base58 "TH6gADdcuEQ" is
     9d 1a "key:zQ"; base58 "Q" is the byte 0x17.) *)

  Definition alias_string : bstr := bs "did:key:zTH6gADdcuEQ".
  Definition alias_did : did := mkdid false (core_tag ++ bs "key:zQ").

  Lemma did_alias_pinned :
    b58dec (bs "TH6gADdcuEQ") = Some (core_tag ++ bs "key:zQ") ->
    b58dec (bs "Q") = Some [23] ->
    did_parse_pinned alias_string = Some alias_did /\
    did_decode_pinned (did_bytes alias_did) = Some alias_did /\
    did_to_string alias_did = Ret (bs "did:key:zQ") /\
    did_parse_pinned (bs "did:key:zQ") = None.
  Proof using.
    intros H1 H2. unfold did_parse_pinned, did_parse_with, alias_string.
    cbn [bs prefixb pfx_did pfx_did_key N_of_ascii skipn negb N.eqb Pos.eqb andb mb_z].
    cbn [bs N_of_ascii] in H1, H2. rewrite H1, H2.
    repeat split; vm_compute; reflexivity.
  Qed.

  (* with the repair the same string is rejected, so no such DID exists *)
  Lemma did_alias_fixed :
    b58dec (bs "TH6gADdcuEQ") = Some (core_tag ++ bs "key:zQ") ->
    did_parse alias_string = None /\ did_decode (did_bytes alias_did) = None.
  Proof using.
    intros H1. unfold did_parse, did_parse_with, alias_string.
    cbn [bs prefixb pfx_did pfx_did_key N_of_ascii skipn negb N.eqb Pos.eqb andb mb_z].
    cbn [bs N_of_ascii] in H1. rewrite H1.
    split; vm_compute; reflexivity.
  Qed.
End Codec.

(* ------------------------------------------------------------------ *)
(* the concrete codec satisfies the hypotheses of the Sections above *)

Lemma b58dec_bytes_ok : forall s b, BaseDec.b58dec s = Some b -> bytes_ok b.
Proof. exact BaseDec.b58dec_bytes. Qed.
Lemma b58_roundtrip_ok : forall b, bytes_ok b -> b <> [] -> BaseDec.b58dec (BaseEnc.b58enc b) = Some b.
Proof. exact BaseDec.b58_roundtrip. Qed.

(* the unrepaired behaviour refutes the round trip (real base58btc) *)
Definition did_roundtrip_pinned_full : Prop :=
  forall s d, did_parse_pinned BaseDec.b58dec s = Some d ->
  exists s', did_to_string BaseEnc.b58enc d = Ret s' /\ did_parse_pinned BaseDec.b58dec s' = Some d.

Theorem did_roundtrip_pinned_refuted : ~ did_roundtrip_pinned_full.
Proof.
  intros H. specialize (H alias_string alias_did).
  destruct H as [s' [A B]]; [vm_compute; reflexivity|].
  vm_compute in A. inversion A; subst s'. vm_compute in B. discriminate.
Qed.

(* with the repair the alias string is rejected *)
Example did_alias_fixed_concrete :
  did_parse BaseDec.b58dec alias_string = None /\ did_decode (did_bytes alias_did) = None.
Proof. vm_compute. split; reflexivity. Qed.

Example did_wf_examples :
  did_wf (mkdid true (uvarint code_ed ++ repeat 7 32)) = true /\
  did_wf (mkdid true (uvarint code_rsa ++ [48; 1; 2])) = true /\
  did_wf (mkdid false (core_tag ++ bs "web:example.com")) = true /\
  did_wf (mkdid false core_tag) = true /\                        (* "did:" *)
  did_wf (mkdid false (core_tag ++ bs "key")) = true /\          (* "did:key" *)
  did_wf (mkdid false (core_tag ++ bs "key:zQ")) = false /\
  did_wf did_undef = false.
Proof. vm_compute. repeat split; reflexivity. Qed.
