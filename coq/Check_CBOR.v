(* Check_CBOR.v — evaluation of the DAG-CBOR model on the cases the harness
   ran through go-ipld-prime's dagcbor codec (correspondence check "CBOR"). *)
From Ucanto Require Import Base Ipld Cbor.
From Coq Require Import Uint63.
Open Scope N_scope.

(* packed byte strings: Coq interprets primitive-integer literals much faster
   than string literals; seven bytes per integer, big endian, n bytes in all *)
Definition unpack7 (i : int) : bstr :=
  let z := Z.to_N (Uint63.to_Z i) in
  map (fun s => N.land (N.shiftr z s) 255) [48; 40; 32; 24; 16; 8; 0].
Definition pk (n : N) (l : list int) : bstr := firstn (N.to_nat n) (flat_map unpack7 l).

(* encode stream: (value as built, maps in insertion order; bytes emitted by
   ipld.Encode(node, dagcbor.Encode)).  A case passes when the value is well
   formed, the model emits the same bytes, and the model decodes those bytes
   to the canonical form of the value. *)
Definition enc_ok (c : ipld * bstr) : bool :=
  let (v, b) := c in
  wf_ipld v && beq (cbor_encode v) b
  && match cbor_decode_all b with Some v' => ipld_eqb v' (canon v) | None => false end.

Definition check_enc (base : N) (cases : list (ipld * bstr)) : list N := bad_ids enc_ok cases base.

(* decode stream: what dagcbor.Decode into basicnode.Prototype.Any did *)
Inductive expect := EOk (v : ipld) | ERej | EFloat | EPanic.

Definition dec_ok (c : bstr * expect) : bool :=
  let (b, e) := c in
  match cbor_decode_r b, e with
  | DOk (v, []), EOk v' => ipld_eqb v v'
  | DOk (_, _ :: _), ERej => true            (* trailing bytes *)
  | DErr, ERej => true
  | DUnsup, EFloat => true                   (* a float was decoded: outside the model *)
  | DUnsup, ERej => true                     (* a float was met, then the input was rejected *)
  | _, _ => false
  end.

Definition check_dec (base : N) (cases : list (bstr * expect)) : list N := bad_ids dec_ok cases base.

Definition count_unsup (cases : list (bstr * expect)) : N :=
  len (filter (fun c => match cbor_decode_r (fst c) with DUnsup => true | _ => false end) cases).
