(* LinkIntegrity.v — "links are numbered CIDs", as a definition and theorems at byte level.

   In the library a delegation view is built from a block = (link, bytes) that a CALLER or the
   CAR reader supplies (delegation.NewDelegation(root, blocks)).  Its fields are read by

     delegation.Data()  ->  block.Decode(root, &model, UCAN schema, dag-cbor, sha2-256)

   which (core/ipld/block/block.go) decodes the bytes, hashes them with sha2-256, builds
   cid.NewCidV1(0x71, multihash) and compares the BYTES of that CID with the bytes of the link;
   after fix 996c43f a block that fails either step leaves the zero model: the delegation has no
   fields at all (undefined issuer and audience, no capability, no proof).  The CAR reader is
   weaker (go-car checks the bytes against the link's OWN prefix: any codec, any hash function,
   any digest length), so a raw / CIDv0 / dag-json CID over the same multihash, or another
   token's link put on foreign bytes by a caller, reach this check.

   The validator model (Validator.v) is parametrised by a store U : link -> option token and
   the property theorems ASSUMED that U l is the token whose bytes hash to l.  Here the store is
   DEFINED from a list of blocks, and that reading is proved:

     cid_of b            the CIDv1 / dag-cbor (0x71) / sha2-256 CID of b (digest = Section variable,
                         as in Cid.v / MessageBytes.v; MessageBytes.root_integrity is the check)
     fields c b          Some (view b) exactly when c = cid_of b      (delegation.Data())
     store_of blocks c   the fields of the first block carried under c (blockstore: first put wins)
     token_at c b        what the accessors report: the fields, or the empty token
     ustore_of blocks    the validator's world: link number -> token_at of the block under it

   store_binds_bytes, relabelled_contributes_nothing, other_cids_unbound, store_deterministic,
   and the compositions with the validator theorems: attestation_names_bytes (C04),
   revocation_names_bytes (C05). *)
From Coq Require Import ZifyBool ZifyN ZifyNat.
From Ucanto Require Import Base Varint Cid MessageBytes TokenBytes.
From Ucanto Require Import Pattern Time Validator ValidatorSpec ValidatorProps TokenView LinkId.
Open Scope N_scope.

Definition dag_cbor_code : N := 113.     (* 0x71 *)
Definition raw_code : N := 85.           (* 0x55 *)
Definition dag_json_code : N := 297.     (* 0x0129 *)

Lemma some_inj {A} (x y : A) : Some x = Some y -> x = y.
Proof. congruence. Qed.

Lemma uvarint_18 : uvarint 18 = [18].
Proof. reflexivity. Qed.

(* CIDv1 framing is injective in the codec, multihash framing in the hash code *)
Lemma cidv1_inj codec codec' mh mh' :
  codec < 2 ^ 63 -> codec' < 2 ^ 63 -> cidv1 codec mh = cidv1 codec' mh' -> codec = codec' /\ mh = mh'.
Proof.
  intros H H' E. unfold cidv1 in E. rewrite uvarint_1 in E. cbn [app] in E. inversion E as [E'].
  exact (uvarint_prefix_free _ _ _ _ H H' E').
Qed.

Lemma mh_encode_code_inj code code' d d' :
  code < 2 ^ 63 -> code' < 2 ^ 63 -> mh_encode code d = mh_encode code' d' -> code = code'.
Proof.
  intros H H' E. unfold mh_encode in E. exact (proj1 (uvarint_prefix_free _ _ _ _ H H' E)).
Qed.

(* a CIDv0 (the bare sha2-256 multihash) is never a CIDv1 *)
Lemma v0_not_v1 d codec mh : mh_encode mh_sha2_256 d <> cidv1 codec mh.
Proof.
  unfold mh_encode, cidv1, mh_sha2_256. rewrite uvarint_18, uvarint_1. cbn [app]. intros E. inversion E.
Qed.

(* every delegation of a returned authorization contributes a capability (generic in the store) *)
Lemma chain_nodes_caps U C claim_prev P_prev ds a :
  chain_ok U C claim_prev P_prev ds a ->
  (match a with Authz d _ _ => exists t c0, tok U d = Some t /\ In c0 (t_caps t) end) ->
  forall l, In l (map fst (path_of a)) -> exists t c0, U l = Some t /\ In c0 (t_caps t).
Proof.
  induction 1 as [d c CI | d c p c' ps t tp sibs T Tp L Al TO ST CH IH]; intros Hd l Hl.
  - cbn [path_of map fst In] in Hl. destruct Hl as [<-|[]]. exact Hd.
  - cbn [path_of map fst In] in Hl. destruct Hl as [<-|Hl]; [exact Hd|].
    apply IH; [|exact Hl]. destruct ST as [tp' [c0 [Tp' [Hin _]]]]. exists tp', c0. auto.
Qed.

Lemma P_nodes_caps U C n ds prfs a :
  P U C n ds prfs a ->
  forall l, In l (map fst (path_of a)) -> exists t c0, U l = Some t /\ In c0 (t_caps t).
Proof.
  destruct n as [|n]; [intros []|]. cbn [P].
  intros (d & c & ps & t & c0 & E & I & TO & T & Hc & PC & CH & RV). subst a.
  eapply chain_nodes_caps; [exact CH|]. exists t, c0. auto.
Qed.

Section Link.
  (* go-multihash Sum for the non-identity codes (Cid.v); only sha2-256 / 32 is consulted here *)
  Variable mh_digest : N -> N -> bstr -> option bstr.
  (* how block bytes are read as a token: TokenView.view_block (typed decoding + the accessors) *)
  Variable view : bstr -> token.

  (* block.Encode / block.Decode: cid.NewCidV1(0x71, multihash(sha2-256, Sum(bytes))) *)
  Definition cid_of (b : bstr) : option bstr :=
    match mh_digest mh_sha2_256 32 b with
    | Some d => Some (cidv1 dag_cbor_code (mh_encode mh_sha2_256 d))
    | None => None
    end.

  (* block.Decode's closing check (the same function as for the root block of a message) *)
  Definition bound (c b : bstr) : bool := root_integrity mh_digest c b.

  Lemma bound_iff c b : bound c b = true <-> cid_of b = Some c.
  Proof.
    unfold bound, root_integrity, cid_of, dag_cbor_code. destruct (mh_digest mh_sha2_256 32 b) as [d|].
    - rewrite beq_eq. split; [intros <-; reflexivity | intros E; inversion E; reflexivity].
    - split; discriminate.
  Qed.

  Lemma bound_false_iff c b : bound c b = false <-> cid_of b <> Some c.
  Proof.
    split.
    - intros F E. apply bound_iff in E. congruence.
    - intros NE. destruct (bound c b) eqn:B; [|reflexivity]. apply bound_iff in B. contradiction.
  Qed.

  (* delegation.Data() of NewDelegation(block(c, b), _): the fields, or none *)
  Definition fields (c b : bstr) : option token := if bound c b then Some (view b) else None.

  (* what the accessors of that delegation report *)
  Definition token_at (c b : bstr) : token :=
    match fields c b with Some t => t | None => empty_token end.

  (* the block a block reader holds under CID c: first put wins *)
  Definition block_at (blocks : list (bstr * bstr)) (c : bstr) : option bstr :=
    match find (fun cb => beq (fst cb) c) blocks with Some cb => Some (snd cb) | None => None end.

  (* the token store a set of blocks induces: CID bytes -> token *)
  Definition store_of (blocks : list (bstr * bstr)) (c : bstr) : option token :=
    match block_at blocks c with Some b => fields c b | None => None end.

  Lemma block_at_in blocks c b : block_at blocks c = Some b -> In (c, b) blocks.
  Proof.
    unfold block_at. destruct (find (fun cb => beq (fst cb) c) blocks) as [[k v]|] eqn:F; [|discriminate].
    intros E. inversion E; subst. apply find_some in F. destruct F as [I H]. cbn [fst] in H.
    apply beq_eq in H. subst. exact I.
  Qed.

  Lemma fields_some c b t : fields c b = Some t <-> cid_of b = Some c /\ view b = t.
  Proof.
    unfold fields. destruct (bound c b) eqn:B.
    - apply bound_iff in B. split; [intros E; inversion E; auto | intros [_ <-]; reflexivity].
    - apply bound_false_iff in B. split; [discriminate | intros [E _]; contradiction].
  Qed.

  Lemma fields_unbound c b : cid_of b <> Some c -> fields c b = None.
  Proof. intros H. unfold fields. apply bound_false_iff in H. rewrite H. reflexivity. Qed.

  (* ---------------------------------------------------------------- *)
  (* (a) a link that has a token has it from bytes that hash to it      *)

  Theorem store_binds_bytes blocks c t :
    store_of blocks c = Some t ->
    exists b, In (c, b) blocks /\ block_at blocks c = Some b /\ cid_of b = Some c /\ view b = t.
  Proof.
    unfold store_of. destruct (block_at blocks c) as [b|] eqn:A; [|discriminate].
    intros F. apply fields_some in F. destruct F as [E V]. exists b.
    split; [apply block_at_in; exact A|]. auto.
  Qed.

  (* conversely a block under its own CID is read (unless an earlier block shadows it) *)
  Theorem store_of_bound blocks c b :
    block_at blocks c = Some b -> cid_of b = Some c -> store_of blocks c = Some (view b).
  Proof. intros A E. unfold store_of. rewrite A. apply fields_some. auto. Qed.

  (* ---------------------------------------------------------------- *)
  (* (b) bytes under any other CID contribute nothing                   *)

  Lemma block_at_cons k v blocks c :
    block_at ((k, v) :: blocks) c = if beq k c then Some v else block_at blocks c.
  Proof. unfold block_at. cbn [find fst snd]. destruct (beq k c); reflexivity. Qed.

  Lemma block_at_app blocks ext c :
    block_at (blocks ++ ext) c = match block_at blocks c with Some b => Some b | None => block_at ext c end.
  Proof.
    induction blocks as [|[k v] blocks IH]; [cbn [app]; unfold block_at at 2; cbn [find]; reflexivity|].
    cbn [app]. rewrite !block_at_cons. destruct (beq k c); [reflexivity | exact IH].
  Qed.

  Theorem relabelled_contributes_nothing blocks c' b :
    cid_of b <> Some c' ->
    fields c' b = None /\ token_at c' b = empty_token /\
    (* carried after the other blocks it changes no lookup at all *)
    (forall c, store_of (blocks ++ [(c', b)]) c = store_of blocks c) /\
    (* carried first it changes no lookup of another link, and its own link has no token *)
    (forall c, c <> c' -> store_of ((c', b) :: blocks) c = store_of blocks c) /\
    store_of ((c', b) :: blocks) c' = None.
  Proof.
    intros NE. pose proof (fields_unbound c' b NE) as F.
    split; [exact F|]. split; [unfold token_at; rewrite F; reflexivity|]. split; [|split].
    - intros c. unfold store_of. rewrite block_at_app. destruct (block_at blocks c) as [x|]; [reflexivity|].
      rewrite block_at_cons. destruct (beq c' c) eqn:E.
      + apply beq_eq in E. subst c. exact F.
      + unfold block_at. cbn [find]. reflexivity.
    - intros c Hc. unfold store_of. rewrite block_at_cons. destruct (beq c' c) eqn:E; [|reflexivity].
      apply beq_eq in E. congruence.
    - unfold store_of. rewrite block_at_cons, beq_refl. exact F.
  Qed.

  (* ... in any position: a lookup that succeeds in the larger store is bound to its bytes there
     (store_binds_bytes), and extra blocks never turn one bound token into another *)
  Theorem extra_blocks_never_substitute blocks extra1 extra2 c t t' :
    store_of blocks c = Some t -> store_of (extra1 ++ blocks ++ extra2) c = Some t' ->
    exists b b', cid_of b = Some c /\ cid_of b' = Some c /\ t = view b /\ t' = view b'.
  Proof.
    intros H H'. apply store_binds_bytes in H. apply store_binds_bytes in H'.
    destruct H as [b [_ [_ [E V]]]]. destruct H' as [b' [_ [_ [E' V']]]]. exists b, b'. auto.
  Qed.

  (* the CIDs under which the same bytes travel through a CAR reader: none of them is cid_of b *)
  Theorem other_cids_unbound b d :
    mh_digest mh_sha2_256 32 b = Some d ->
    (* another codec over the same multihash: raw 0x55, dag-json 0x0129, ... *)
    (forall codec, codec < 2 ^ 63 -> codec <> dag_cbor_code ->
       cid_of b <> Some (cidv1 codec (mh_encode mh_sha2_256 d))) /\
    (* another version: CIDv0 = the bare multihash *)
    cid_of b <> Some (mh_encode mh_sha2_256 d) /\
    (* another hash function (or the identity "hash"), whatever the digest *)
    (forall code d', code < 2 ^ 63 -> code <> mh_sha2_256 ->
       cid_of b <> Some (cidv1 dag_cbor_code (mh_encode code d'))).
  Proof.
    intros D. unfold cid_of. rewrite D. split; [|split].
    - intros codec Hc NE E. apply some_inj in E. rename E into E'. apply cidv1_inj in E'; [|reflexivity|exact Hc].
      destruct E' as [E' _]. congruence.
    - intros E. apply some_inj in E. symmetry in E. exact (v0_not_v1 _ _ _ E).
    - intros code d' Hc NE E. apply some_inj in E. rename E into E'. apply cidv1_inj in E'; [|reflexivity|reflexivity].
      destruct E' as [_ E']. apply mh_encode_code_inj in E'; [|reflexivity|exact Hc]. congruence.
  Qed.

  Corollary relabelled_kinds_no_fields b d :
    mh_digest mh_sha2_256 32 b = Some d ->
    fields (cidv1 raw_code (mh_encode mh_sha2_256 d)) b = None /\
    fields (cidv1 dag_json_code (mh_encode mh_sha2_256 d)) b = None /\
    fields (mh_encode mh_sha2_256 d) b = None /\
    fields (cidv1 dag_cbor_code (mh_encode mh_sha2_256 d)) b = Some (view b).
  Proof.
    intros D. destruct (other_cids_unbound b d D) as [H1 [H2 _]].
    split; [apply fields_unbound, H1; [reflexivity | discriminate]|].
    split; [apply fields_unbound, H1; [reflexivity | discriminate]|].
    split; [apply fields_unbound, H2|].
    apply fields_some. split; [unfold cid_of; rewrite D|]; reflexivity.
  Qed.

  (* ---------------------------------------------------------------- *)
  (* the validator's world over a set of blocks                          *)

  (* Links are numbered by LinkId.lid, an injective function of the CID bytes.  A block that
     is present gives a delegation (NewDelegation never fails); its token is what the accessors
     report: the fields when the bytes hash to the link, the empty token otherwise. *)
  Definition ustore_of (blocks : list (bstr * bstr)) : link -> option token :=
    fun l => match find (fun cb => lid (fst cb) =? l) blocks with
             | Some cb => Some (token_at (fst cb) (snd cb))
             | None => None
             end.

  Lemma ustore_of_lid blocks c : ustore_of blocks (lid c) = option_map (token_at c) (block_at blocks c).
  Proof.
    unfold ustore_of, block_at. induction blocks as [|[k v] blocks IH]; [reflexivity|].
    cbn [find fst snd]. destruct (beq k c) eqn:E.
    - apply beq_eq in E. subst k. rewrite N.eqb_refl. reflexivity.
    - destruct (lid k =? lid c) eqn:L; [|exact IH].
      apply N.eqb_eq in L. apply lid_inj in L. subst k. rewrite beq_refl in E. discriminate.
  Qed.

  Lemma ustore_some blocks l t :
    ustore_of blocks l = Some t ->
    exists c b, l = lid c /\ In (c, b) blocks /\ block_at blocks c = Some b /\ t = token_at c b.
  Proof.
    intros H. unfold ustore_of in H.
    destruct (find (fun cb => lid (fst cb) =? l) blocks) as [[c b]|] eqn:F; [|discriminate].
    cbn [fst snd] in H. apply some_inj in H.
    pose proof (find_some _ _ F) as [I E]. cbn [fst] in E. apply N.eqb_eq in E. subst l.
    exists c, b. split; [reflexivity|]. split; [exact I|].
    pose proof (ustore_of_lid blocks c) as S. unfold ustore_of in S. rewrite F in S. cbn [fst snd] in S.
    destruct (block_at blocks c) as [b'|] eqn:A; [|discriminate]. cbn [option_map] in S. apply some_inj in S.
    (* the first block by number is the first block by bytes *)
    assert (Q : b' = b).
    { clear S H. unfold block_at in A. revert F A. induction blocks as [|[k v] blocks IH]; [discriminate|].
      cbn [find fst snd]. destruct (beq k c) eqn:E.
      - apply beq_eq in E. subst k. rewrite N.eqb_refl. intros F A. inversion F; inversion A; subst. reflexivity.
      - destruct (lid k =? lid c) eqn:L.
        + apply N.eqb_eq in L. apply lid_inj in L. subst k. rewrite beq_refl in E. discriminate.
        + intros F A. apply IH; [|exact F|exact A]. destruct I as [I|I]; [inversion I; subst; rewrite beq_refl in E; discriminate | exact I]. }
    subst b'. split; [reflexivity | exact (eq_sym H)].
  Qed.

  (* the token of delegation d is read from bytes that hash to d's link *)
  Definition names_bytes (blocks : list (bstr * bstr)) (d : dlg) (t : token) : Prop :=
    exists c b, d_link d = lid c /\ In (c, b) blocks /\ block_at blocks c = Some b /\
                cid_of b = Some c /\ t = view b.

  (* a token with a capability (hence every token that contributes anything to an authorization)
     has its fields from bytes that hash to its link; every other present block is the empty token *)
  Theorem ustore_fields blocks d t :
    tok (ustore_of blocks) d = Some t ->
    (names_bytes blocks d t /\ exists c, d_link d = lid c /\ store_of blocks c = Some t) \/ t = empty_token.
  Proof.
    unfold tok. intros H. apply ustore_some in H. destruct H as [c [b [L [I [A T]]]]].
    unfold token_at in T. destruct (fields c b) as [t'|] eqn:F; [|right; exact T]. subst t'.
    left. apply fields_some in F. destruct F as [E V]. split.
    - exists c, b. auto.
    - exists c. split; [exact L|]. unfold store_of. rewrite A. apply fields_some. auto.
  Qed.

  Corollary ustore_caps_bound blocks d t c0 :
    tok (ustore_of blocks) d = Some t -> In c0 (t_caps t) -> names_bytes blocks d t.
  Proof.
    intros H Hc. destruct (ustore_fields blocks d t H) as [[N _]|E]; [exact N|]. subst t. destruct Hc.
  Qed.

  (* ---------------------------------------------------------------- *)
  (* (c) a link names ONE token, up to collisions of the digest          *)

  Section CollisionFree.
    (* the digest has the requested length, and sha2-256 collision freedom: stated as hypotheses
       of the theorems that need them, never assumed globally *)
    Hypothesis sha_len : forall a d, mh_digest mh_sha2_256 32 a = Some d -> length d = 32%nat.
    Hypothesis sha_collision_free :
      forall a b d, mh_digest mh_sha2_256 32 a = Some d -> mh_digest mh_sha2_256 32 b = Some d -> a = b.

    Lemma cid_of_inj a b c : cid_of a = Some c -> cid_of b = Some c -> a = b.
    Proof using sha_len sha_collision_free.
      unfold cid_of. destruct (mh_digest mh_sha2_256 32 a) as [da|] eqn:Da; [|discriminate].
      destruct (mh_digest mh_sha2_256 32 b) as [db|] eqn:Db; [|discriminate].
      intros Ea Eb. apply some_inj in Ea. apply some_inj in Eb. rename Ea into Ea'. rewrite <- Eb in Ea'.
      apply cidv1_inj in Ea'; [|reflexivity|reflexivity]. destruct Ea' as [_ M].
      unfold mh_encode in M. apply app_inv_head in M.
      rewrite (sha_len a da Da), (sha_len b db Db) in M. apply app_inv_head in M. subst db.
      exact (sha_collision_free a b da Da Db).
    Qed.

    (* two stores agree on every link both bind: same bytes, same token *)
    Theorem store_deterministic blocks1 blocks2 c t1 t2 :
      store_of blocks1 c = Some t1 -> store_of blocks2 c = Some t2 ->
      t1 = t2 /\ exists b, block_at blocks1 c = Some b /\ block_at blocks2 c = Some b /\ cid_of b = Some c.
    Proof using sha_len sha_collision_free.
      intros H1 H2. apply store_binds_bytes in H1. apply store_binds_bytes in H2.
      destruct H1 as [b1 [_ [A1 [E1 V1]]]]. destruct H2 as [b2 [_ [A2 [E2 V2]]]].
      pose proof (cid_of_inj b1 b2 c E1 E2) as Q. subst b2.
      split; [congruence|]. exists b1. auto.
    Qed.

    (* bytes carried under ANOTHER token's link have no fields *)
    Theorem foreign_link_no_fields b b' c' :
      cid_of b' = Some c' -> b <> b' -> fields c' b = None /\ token_at c' b = empty_token.
    Proof using sha_len sha_collision_free.
      intros E NE.
      assert (F : fields c' b = None).
      { apply fields_unbound. intros E'. apply NE. exact (cid_of_inj b b' c' E' E). }
      split; [exact F|]. unfold token_at. rewrite F. reflexivity.
    Qed.
    (* a link names one token: whatever the block lists, two delegations with the same link whose
       fields come from bytes hashing to it carry the same bytes and the same token *)
    Theorem link_names_one_token blocks1 blocks2 d1 d2 t1 t2 :
      names_bytes blocks1 d1 t1 -> names_bytes blocks2 d2 t2 -> d_link d1 = d_link d2 ->
      t1 = t2 /\ exists c b, d_link d1 = lid c /\ block_at blocks1 c = Some b /\ block_at blocks2 c = Some b.
    Proof using sha_len sha_collision_free.
      intros [c1 [b1 [L1 [_ [A1 [E1 V1]]]]]] [c2 [b2 [L2 [_ [A2 [E2 V2]]]]]] L.
      rewrite L1, L2 in L. apply lid_inj in L. subst c2.
      pose proof (cid_of_inj b1 b2 c1 E1 E2) as Q. subst b2.
      split; [congruence|]. exists c1, b1. auto.
    Qed.
  End CollisionFree.

  (* ---------------------------------------------------------------- *)
  (* (d) composed with the validator theorems                            *)

  (* every delegation of an authorization returned over ustore_of has its fields from bytes that
     hash to its link *)
  Theorem authorization_names_bytes blocks C n ds prfs a :
    P (ustore_of blocks) C n ds prfs a ->
    forall l, In l (map fst (path_of a)) ->
    exists t, ustore_of blocks l = Some t /\ names_bytes blocks (mkDlg l []) t.
  Proof.
    intros H l Hl. destruct (P_nodes_caps _ _ _ _ _ _ H l Hl) as [t [c0 [T Hc]]].
    exists t. split; [exact T|]. apply (ustore_caps_bound blocks (mkDlg l []) t c0); assumption.
  Qed.

  (* C04.  A token whose issuer is neither a did:key nor the authority, accepted by Validate over
     the store of a set of blocks and contributing a capability: (1) its fields are those of bytes
     that hash to its link; (2) when it was accepted through a session, the accepted attestation
     is a ucan/attest capability on the authority's DID whose caveats are exactly
     {proof: the link of those bytes}, found in a sibling other than the token itself, and the
     attestation's own fields are again those of bytes that hash to ITS link.  Whatever else the
     block list holds (the same bytes under other CIDs, other bytes under this link later in the
     list) plays no part: such blocks are the empty token. *)
  Theorem attestation_names_bytes blocks C :
    (forall l p, resolve_proof C l = Some p -> d_link p = l) ->
    forall n d sibs t c0,
    let U := ustore_of blocks in
    fst (validate U C (claim U C n) d sibs) = VOk -> tok U d = Some t ->
    is_key_str (t_iss t) = false -> t_iss t <> v_did (authority C) ->
    In c0 (t_caps t) ->
    names_bytes blocks d t /\
    ((exists da ca psa ta ca0,
        P U C n (attest_desc (v_did (authority C)) (d_link d)) (session_candidates U d sibs) (Authz da ca psa) /\
        In da sibs /\ d_link da <> d_link d /\
        tok U da = Some ta /\ In ca0 (t_caps ta) /\
        r_can ca0 = attest_can /\ r_with ca0 = did_str (v_did (authority C)) /\
        r_nb ca0 = NbMap [(proof_key, VLink (d_link d))] /\
        names_bytes blocks da ta)
     \/
     ((exists e, fst (claim U C n (attest_desc (v_did (authority C)) (d_link d)) (session_candidates U d sibs)) = AErr e
                 /\ has_failed e = false) /\
      exists kd v, resolve_did_key C (t_iss t) = Some kd /\ parse_principal C (did_str kd) = Some v /\
        is_key_str (v_did v) = true /\ sig_ok t (mkVf (v_key v) (v_sigcode v) (t_iss t)))).
  Proof.
    intros Hres n d sibs t c0 U V T NK NA Hc.
    split; [exact (ustore_caps_bound blocks d t c0 T Hc)|].
    destruct (nonkey_validate U C Hres n d sibs t V T NK NA) as [[a PA]|R]; [left|right; exact R].
    destruct n as [|n']; [destruct PA|]. pose proof PA as PA0. cbn [P] in PA.
    destruct PA as (da & ca & psa & ta & ca0 & E & I & TO & Ta & Hca & PC & CH & RV). subst a.
    apply attest_parse_inv in PC. destruct PC as [P1 [P2 [P3 _]]].
    unfold session_candidates in I. apply filter_In in I. destruct I as [I1 I2].
    apply andb_true_iff in I2. destruct I2 as [I2 _]. apply negb_true_iff in I2. apply N.eqb_neq in I2.
    exists da, ca, psa, ta, ca0. repeat split; auto.
    exact (ustore_caps_bound blocks da ta ca0 Ta Hca).
  Qed.

  (* C05.  The checker rejects every authorization that contains the link whose CID bytes are c.
     Then every delegation of every authorization returned over the store of ANY set of blocks has
     a link other than c and has its fields from bytes that hash to that other link — so from no
     bytes that hash to c, under whatever CID such bytes also appear in the block list. *)
  Theorem revocation_names_bytes blocks C c :
    (forall l p, resolve_proof C l = Some p -> d_link p = l) ->
    (forall x, In (lid c) (map fst (path_of x)) -> revoked C x = true) ->
    forall n ds inv a,
    fst (access (ustore_of blocks) C n ds inv) = AOk a ->
    forall l, In l (map fst (path_of a)) ->
    l <> lid c /\
    exists c' b t, l = lid c' /\ c' <> c /\ In (c', b) blocks /\ block_at blocks c' = Some b /\
      cid_of b = Some c' /\ ustore_of blocks l = Some t /\ t = view b /\
      (forall b0, cid_of b0 = Some c -> b <> b0).
  Proof.
    intros Hres HR n ds inv a H l Hl.
    assert (NL : l <> lid c).
    { apply (access_no_revoked (ustore_of blocks) C (fun x => x = lid c) n ds inv a); [|exact H|exact Hl].
      intros x [l' [Hl' ->]]. apply HR. exact Hl'. }
    split; [exact NL|].
    pose proof (access_sound (ustore_of blocks) C Hres n ds inv a H) as PS.
    destruct (authorization_names_bytes blocks C n ds [inv] a PS l Hl) as [t [T [c' [b [L [I [A [E V]]]]]]]].
    cbn [d_link] in L. exists c', b, t. split; [exact L|].
    assert (NC : c' <> c) by (intros ->; contradiction).
    repeat split; auto.
    intros b0 E0 ->. congruence.
  Qed.
End Link.
