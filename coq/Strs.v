(* Strs.v — byte-level models of three more Go string primitives, used with a
   one-byte separator / an ASCII cutset (where Go's implementation is byte-wise):
     strings.Split(s, string(c))            split_byte c s
     before, _, _ := strings.Cut(s, string(c))   cut_byte c s
     strings.Trim(s, cutset)                trim_set cutset s
     strings.Join(l, string(c))             join_byte c l
   Each comes with a specification that determines it uniquely. Stdlib only. *)
From Ucanto Require Import Base.
From Coq Require Import ZifyBool ZifyN ZifyNat.
Open Scope N_scope.

(* ------------------------------------------------------------------ *)
(* membership of a byte in a byte string                               *)

Fixpoint memb (x : N) (s : bstr) : bool :=
  match s with [] => false | y :: s' => (x =? y) || memb x s' end.

Lemma memb_In x s : memb x s = true <-> In x s.
Proof.
  induction s as [|y s IH]; simpl.
  - split; [discriminate | intros []].
  - rewrite orb_true_iff, N.eqb_eq, IH. split; intros [H|H]; auto.
Qed.

Lemma memb_not_In x s : memb x s = false <-> ~ In x s.
Proof.
  rewrite <- memb_In. destruct (memb x s); split; intros H; congruence.
Qed.

(* ------------------------------------------------------------------ *)
(* Join / Split                                                        *)

Fixpoint join_byte (c : N) (l : list bstr) : bstr :=
  match l with
  | [] => []
  | [e] => e
  | e :: l' => e ++ c :: join_byte c l'
  end.

Lemma join_byte_cons c e l : l <> [] -> join_byte c (e :: l) = e ++ c :: join_byte c l.
Proof. destruct l; [congruence | reflexivity]. Qed.

(* strings.Split(s, sep) with the one-byte separator c: never empty, "" gives [""] *)
Fixpoint split_byte (c : N) (s : bstr) : list bstr :=
  match s with
  | [] => [[]]
  | x :: s' =>
      if x =? c then [] :: split_byte c s'
      else match split_byte c s' with
           | h :: t => (x :: h) :: t
           | [] => [[x]]
           end
  end.

(* l is the list of c-separated elements of s *)
Definition is_list_of (c : N) (s : bstr) (l : list bstr) : Prop :=
  l <> [] /\ Forall (fun e => ~ In c e) l /\ join_byte c l = s.

Lemma split_byte_nonempty c s : split_byte c s <> [].
Proof.
  destruct s as [|x s]; simpl; [discriminate|].
  destruct (x =? c); [discriminate|]. destruct (split_byte c s); discriminate.
Qed.

Lemma split_byte_is_list c s : is_list_of c s (split_byte c s).
Proof.
  induction s as [|x s IH].
  - repeat split; [discriminate | repeat constructor; intros []].
  - destruct IH as [Hne [Hall Hj]]. cbn [split_byte].
    destruct (x =? c) eqn:E.
    + apply N.eqb_eq in E. subst x. repeat split.
      * discriminate.
      * constructor; [intros [] | exact Hall].
      * rewrite join_byte_cons by exact Hne. simpl. rewrite Hj. reflexivity.
    + apply N.eqb_neq in E. destruct (split_byte c s) as [|h t]; [congruence|].
      pose proof (Forall_inv Hall) as Hh. pose proof (Forall_inv_tail Hall) as Ht.
      simpl in Hh. repeat split.
      * discriminate.
      * constructor; [|exact Ht]. intros [H|H]; [congruence | exact (Hh H)].
      * destruct t as [|h' t]; simpl in *; rewrite <- Hj; reflexivity.
Qed.

Lemma is_list_of_unique c s l : is_list_of c s l -> l = split_byte c s.
Proof.
  revert l. induction s as [|x s IH]; intros l [Hne [Hall Hj]].
  - destruct l as [|e l]; [congruence|]. destruct l as [|e' l].
    + simpl in Hj. subst e. reflexivity.
    + simpl in Hj. destruct e; discriminate.
  - destruct l as [|e l]; [congruence|]. cbn [split_byte].
    pose proof (Forall_inv Hall) as He. pose proof (Forall_inv_tail Hall) as Hl.
    simpl in He. destruct e as [|y e].
    + (* first element empty: s begins with the separator *)
      destruct l as [|e' l]; [simpl in Hj; discriminate|].
      rewrite join_byte_cons in Hj by discriminate. simpl in Hj. inversion Hj; subst.
      rewrite N.eqb_refl. f_equal. apply IH. repeat split; [discriminate | exact Hl].
    + assert (Hx : y = x).
      { destruct l; simpl in Hj; inversion Hj; reflexivity. }
      subst y. assert (Hxc : x <> c) by (intros ->; apply He; left; reflexivity).
      apply N.eqb_neq in Hxc. rewrite Hxc.
      assert (Hs : is_list_of c s (e :: l)).
      { repeat split; [discriminate | |].
        - constructor; [|exact Hl]. intros H. apply He. right. exact H.
        - destruct l; simpl in Hj |- *; inversion Hj; reflexivity. }
      apply IH in Hs. rewrite <- Hs. reflexivity.
Qed.

Theorem split_byte_spec c s l : is_list_of c s l <-> l = split_byte c s.
Proof. split; [apply is_list_of_unique | intros ->; apply split_byte_is_list]. Qed.

Lemma join_split_byte c s : join_byte c (split_byte c s) = s.
Proof. apply split_byte_is_list. Qed.

Lemma split_byte_no_sep c s : ~ In c s -> split_byte c s = [s].
Proof.
  intros H. symmetry. apply is_list_of_unique. repeat split; [discriminate|].
  constructor; [exact H | constructor].
Qed.

(* ------------------------------------------------------------------ *)
(* Cut: the part before the first occurrence of c (everything if none)  *)

Fixpoint cut_byte (c : N) (s : bstr) : bstr :=
  match s with
  | [] => []
  | x :: s' => if x =? c then [] else x :: cut_byte c s'
  end.

Definition is_cut_of (c : N) (s p : bstr) : Prop :=
  ~ In c p /\ (s = p \/ exists r, s = p ++ c :: r).

Lemma cut_byte_is_cut c s : is_cut_of c s (cut_byte c s).
Proof.
  induction s as [|x s [Hn Hs]]; simpl.
  - split; [intros [] | left; reflexivity].
  - destruct (x =? c) eqn:E.
    + apply N.eqb_eq in E. subst. split; [intros [] | right; exists s; reflexivity].
    + apply N.eqb_neq in E. split.
      * intros [H|H]; [congruence | exact (Hn H)].
      * destruct Hs as [Hs|[r Hs]]; [left | right; exists r]; simpl; congruence.
Qed.

Lemma is_cut_of_unique c s p : is_cut_of c s p -> p = cut_byte c s.
Proof.
  revert s. induction p as [|y p IH]; intros s [Hn Hs].
  - destruct Hs as [->|[r ->]]; simpl; [reflexivity | rewrite N.eqb_refl; reflexivity].
  - assert (Hy : y <> c) by (intros ->; apply Hn; left; reflexivity).
    assert (Hp : ~ In c p) by (intros H; apply Hn; right; exact H).
    apply N.eqb_neq in Hy.
    destruct Hs as [->|[r ->]]; simpl; rewrite Hy; f_equal; apply IH; split; auto.
    right. exists r. reflexivity.
Qed.

Theorem cut_byte_spec c s p : is_cut_of c s p <-> p = cut_byte c s.
Proof. split; [apply is_cut_of_unique | intros ->; apply cut_byte_is_cut]. Qed.

(* ------------------------------------------------------------------ *)
(* Trim(s, cutset): drop the bytes of cutset from both ends            *)

Fixpoint drop_set (cs s : bstr) : bstr :=
  match s with
  | [] => []
  | x :: s' => if memb x cs then drop_set cs s' else s
  end.

Definition trim_set (cs s : bstr) : bstr := rev (drop_set cs (rev (drop_set cs s))).

Definition all_in (cs l : bstr) : Prop := Forall (fun x => In x cs) l.
(* t neither begins nor ends with a byte of cs *)
Definition tight (cs t : bstr) : Prop :=
  (forall x r, t = x :: r -> ~ In x cs) /\ (forall x r, t = r ++ [x] -> ~ In x cs).

Definition is_trim_of (cs s t : bstr) : Prop :=
  tight cs t /\ exists l r, s = l ++ t ++ r /\ all_in cs l /\ all_in cs r.

Lemma drop_set_decomp cs s : exists l, s = l ++ drop_set cs s /\ all_in cs l.
Proof.
  induction s as [|x s [l [E A]]]; simpl.
  - exists []. split; [reflexivity | constructor].
  - destruct (memb x cs) eqn:M.
    + exists (x :: l). split; [simpl; congruence|]. constructor; [apply memb_In; exact M | exact A].
    + exists []. split; [reflexivity | constructor].
Qed.

Lemma drop_set_head cs s x r : drop_set cs s = x :: r -> ~ In x cs.
Proof.
  induction s as [|y s IH]; simpl; [discriminate|].
  destruct (memb y cs) eqn:M; [exact IH|].
  intros E. inversion E; subst. apply memb_not_In. exact M.
Qed.

Lemma drop_set_app_all cs l t : all_in cs l -> drop_set cs (l ++ t) = drop_set cs t.
Proof.
  induction 1 as [|x l Hx _ IH]; [reflexivity|].
  simpl. apply memb_In in Hx. rewrite Hx. exact IH.
Qed.

Lemma drop_set_all cs l : all_in cs l -> drop_set cs l = [].
Proof. intros H. rewrite <- (app_nil_r l), drop_set_app_all by exact H. reflexivity. Qed.

Lemma drop_set_id cs t : (forall x r, t = x :: r -> ~ In x cs) -> drop_set cs t = t.
Proof.
  destruct t as [|x t]; [reflexivity|]. intros H. simpl.
  specialize (H x t eq_refl). apply memb_not_In in H. rewrite H. reflexivity.
Qed.

Lemma all_in_rev cs l : all_in cs l -> all_in cs (rev l).
Proof. unfold all_in. intros H. apply Forall_rev. exact H. Qed.

Lemma trim_set_is_trim cs s : is_trim_of cs s (trim_set cs s).
Proof.
  unfold trim_set.
  destruct (drop_set_decomp cs s) as [l [El Al]].
  destruct (drop_set_decomp cs (rev (drop_set cs s))) as [r [Er Ar]].
  remember (drop_set cs s) as d eqn:Hd.
  remember (drop_set cs (rev d)) as t eqn:Ht.
  assert (Ed : d = rev t ++ rev r).
  { rewrite <- (rev_involutive d), Er, rev_app_distr. reflexivity. }
  split; [split|].
  - (* the first byte of rev t is the first byte of d = drop_set cs s *)
    intros x q E. rewrite E in Ed. simpl in Ed.
    apply (drop_set_head cs s x (q ++ rev r)). rewrite <- Hd. exact Ed.
  - (* the last byte of rev t is the first byte of t = drop_set cs (rev d) *)
    intros x q E.
    assert (E' : t = x :: rev q).
    { rewrite <- (rev_involutive t), E, rev_app_distr. reflexivity. }
    apply (drop_set_head cs (rev d) x (rev q)). rewrite <- Ht. exact E'.
  - exists l, (rev r). split; [rewrite El at 1; rewrite Ed; reflexivity|].
    split; [exact Al | apply all_in_rev; exact Ar].
Qed.

Lemma is_trim_of_unique cs s t : is_trim_of cs s t -> t = trim_set cs s.
Proof.
  intros [[Hh Hl] [l [r [-> [Al Ar]]]]]. unfold trim_set.
  rewrite drop_set_app_all by exact Al.
  destruct t as [|x t0].
  - simpl. rewrite (drop_set_all cs r Ar). reflexivity.
  - remember (x :: t0) as t eqn:Et.
    assert (E1 : drop_set cs (t ++ r) = t ++ r).
    { apply drop_set_id. intros y q E. apply (Hh y t0). rewrite Et in E |- *.
      simpl in E. inversion E. reflexivity. }
    rewrite E1, rev_app_distr, drop_set_app_all by (apply all_in_rev; exact Ar).
    rewrite drop_set_id; [symmetry; apply rev_involutive|].
    intros y q E. apply (Hl y (rev q)).
    rewrite <- (rev_involutive t), E. reflexivity.
Qed.

Theorem trim_set_spec cs s t : is_trim_of cs s t <-> t = trim_set cs s.
Proof. split; [apply is_trim_of_unique | intros ->; apply trim_set_is_trim]. Qed.
