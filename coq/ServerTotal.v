(* ServerTotal.v — C11: handling a request always produces a result (no divergence), and every
   invocation of an accepted request gets its receipt whatever else travels with it. *)
From Ucanto Require Import Base Pattern Time Validator ValidatorSpec ValidatorTerm Server.
From Coq Require Import Permutation.
Open Scope N_scope.

Section Total.
  Variable U : link -> option token.
  Variable srv : server.
  Hypothesis Hres : forall l p, resolve_proof (s_ctx srv) l = Some p -> d_link p = l.
  Variable rank : link -> nat.
  Hypothesis Hacyclic : forall l t p, U l = Some t -> In p (t_prf t) -> (rank p < rank l)%nat.
  Variable K : nat.
  Hypothesis HK : forall l t, U l = Some t -> (length (t_prf t) <= K)%nat.
  Hypothesis HKpos : (0 < K)%nat.

  (* Run always yields a receipt when the fuel covers the rank of the invocation *)
  Theorem run_total fuel inv :
    (need K (rank (d_link inv)) + 1 <= fuel)%nat -> run U fuel srv inv <> None.
  Proof.
    intros HF. unfold run.
    destruct (match tok U inv with Some t => t_caps t | None => [] end) as [|c [|c2 r]]; try discriminate.
    destruct (find_handler (r_can c) (s_service srv)) as [h|]; [|discriminate].
    pose proof (access_terminates U (s_ctx srv) Hres rank Hacyclic K HK (h_desc h) inv fuel HKpos HF) as T.
    destruct (fst (access U (s_ctx srv) fuel (h_desc h) inv)); [discriminate | discriminate | contradiction].
  Qed.

  Lemma run_all_total fuel invs :
    (forall i, In i invs -> (need K (rank (d_link i)) + 1 <= fuel)%nat) -> run_all U fuel srv invs <> None.
  Proof.
    induction invs as [|i r IH]; intros H; cbn [run_all]; [discriminate|].
    pose proof (run_total fuel i (H i (or_introl eq_refl))) as R.
    destruct (run U fuel srv i) as [[rc cs]|]; [|contradiction].
    specialize (IH (fun x Hx => H x (or_intror Hx))).
    destruct (run_all U fuel srv r) as [[rcs css]|]; [discriminate | contradiction].
  Qed.

  (* Execute never diverges: it answers with a report or with an error value *)
  Theorem execute_total fuel vis exec sigma :
    (forall l, In l exec -> (need K (rank l) + 1 <= fuel)%nat) ->
    execute_sched U fuel srv vis exec sigma <> ExecFuel.
  Proof.
    intros H. unfold execute_sched.
    destruct (forallb (fun l => existsb (N.eqb l) vis) (dedupe [] exec)); [|discriminate].
    assert (RA : run_all U fuel srv (map (fun l => mkDlg l vis) (dedupe [] exec)) <> None).
    { apply run_all_total. intros i Hi. apply in_map_iff in Hi. destruct Hi as [l [<- Hl]].
      cbn [d_link]. apply H. destruct (dedupe_spec [] exec) as [_ D]. apply D in Hl. apply Hl. }
    destruct (run_all U fuel srv (map (fun l => mkDlg l vis) (dedupe [] exec))) as [[rcs cs]|];
      [discriminate | contradiction].
  Qed.
End Total.
