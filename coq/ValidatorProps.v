(* ValidatorProps.v — consequences of the soundness theorem used by the
   properties C02 (caveats), C03 (time window), C04 (sessions), C05 (revocation). *)
From Ucanto Require Import Base Pattern Time Validator ValidatorSpec.
Open Scope N_scope.

(* ------------------------------------------------------------------ *)
(* C02: what `inherit` shows the derivation rule                        *)

Lemma has_key_slookup k (m : cmap) : has_key k m = true <-> exists v, slookup k m = Some v.
Proof.
  induction m as [|[k' v'] m IH]; cbn [has_key existsb slookup fst].
  - split; [discriminate | intros [v H]; discriminate].
  - rewrite beq_sym. destruct (beq k k') eqn:E; cbn [orb].
    + split; [intros _; exists v'; reflexivity | reflexivity].
    + exact IH.
Qed.

Lemma slookup_app {V} k (a b : list (bstr * V)) :
  slookup k (a ++ b) = match slookup k a with Some v => Some v | None => slookup k b end.
Proof.
  induction a as [|[k' v'] a IH]; cbn [app slookup]; [reflexivity|].
  destruct (beq k k'); [reflexivity | exact IH].
Qed.

Lemma slookup_filter_other k (d claimed : cmap) :
  has_key k d = false ->
  slookup k (filter (fun e => negb (has_key (fst e) d)) claimed) = slookup k claimed.
Proof.
  intros H. induction claimed as [|[k' v'] c IH]; cbn [filter slookup fst]; [reflexivity|].
  destruct (has_key k' d) eqn:HK; cbn [negb].
  - destruct (beq k k') eqn:E; [|exact IH].
    apply beq_eq in E. subst. congruence.
  - cbn [slookup]. destruct (beq k k'); [reflexivity | exact IH].
Qed.

(* the caveats of the delegated capability, field by field: a field the delegation
   sets is the delegation's value; a field it leaves unset is inherited from the claim *)
Theorem inherit_field (claimed : cmap) (d : cmap) (k : bstr) :
  exists m, inherit claimed (NbMap d) = NbMap m /\
    slookup k m = match slookup k d with Some v => Some v | None => slookup k claimed end.
Proof.
  destruct d as [|e d'].
  - exists claimed. split; reflexivity.
  - set (dd := e :: d'). exists (dd ++ filter (fun e => negb (has_key (fst e) dd)) claimed).
    split; [reflexivity|]. rewrite slookup_app.
    destruct (slookup k dd) eqn:L; [reflexivity|].
    apply slookup_filter_other.
    destruct (has_key k dd) eqn:HK; [|reflexivity].
    apply has_key_slookup in HK. destruct HK as [v Hv]. congruence.
Qed.

Theorem inherit_null (claimed : cmap) : inherit claimed NbNull = NbMap claimed.
Proof. reflexivity. Qed.

(* every step of a returned chain was accepted by the derivation rule against the
   delegated capability whose caveats are read from inherit(claim, delegation) *)
Lemma resolve_cap_inv ds c c0 c' :
  resolve_cap ds c c0 = Some c' ->
  resolve_ability (r_can c0) (can c) = can c' /\ can c' <> [] /\
  ds_with ds (wth c') = true /\
  (wth c' = resolve_resource (r_with c0) (wth c) \/ wth c' = r_with c0) /\
  ds_nb ds (inherit (nb c) (r_nb c0)) = Some (nb c').
Proof.
  unfold resolve_cap.
  destruct (resolve_ability (r_can c0) (can c)) as [|x cn] eqn:RA; [discriminate|].
  set (r' := match resolve_resource (r_with c0) (wth c) with [] => r_with c0 | _ :: _ => resolve_resource (r_with c0) (wth c) end).
  destruct (ds_with ds r') eqn:W; [|discriminate].
  destruct (ds_nb ds (inherit (nb c) (r_nb c0))) as [n|] eqn:NB; [|discriminate].
  intros H. inversion H; subst; cbn [can wth nb].
  repeat split; auto; try discriminate.
  unfold r'. destruct (resolve_resource (r_with c0) (wth c)); auto.
Qed.

Section Props.
  Variable U : link -> option token.
  Variable C : ctx.
  Hypothesis Hres : forall l p, resolve_proof C l = Some p -> d_link p = l.

  Section Level.
    Variable claim_prev : desc -> list dlg -> ares * list event.
    Variable P_prev : desc -> list dlg -> authz -> Prop.

    (* C02: on every step of a valid chain, Derives accepted the claimed capability against
       the delegated one, whose caveats are the reading of inherit(claimed nb, delegation nb) *)
    Theorem chain_steps_derive ds a :
      chain_ok U C claim_prev P_prev ds a ->
      forall d c p c' ps, a = Authz d c [Authz p c' ps] ->
        exists tp c0, tok U p = Some tp /\ In c0 (t_caps tp) /\
          ds_nb ds (inherit (nb c) (r_nb c0)) = Some (nb c') /\ ds_derives ds c c' = true.
    Proof.
      intros H. destruct H as [d0 c0' CI | d0 c0' p0 c0'' ps0 t tp sibs T Tp L Al TO ST CH];
        intros d c p c' ps E; inversion E; subst.
      destruct ST as [tp' [c0 [Tp' [Hin [RC DV]]]]].
      exists tp', c0. apply resolve_cap_inv in RC. destruct RC as [_ [_ [_ [_ NB]]]]. auto.
    Qed.

    (* C03: every token of a valid chain (below the root node) is inside its window *)
    Lemma token_ok_window sibs d :
      token_ok U C claim_prev P_prev sibs d -> exists t, tok U d = Some t /\ window_ok C t.
    Proof. intros H; destruct H; eauto. Qed.

    Theorem chain_window ds a :
      chain_ok U C claim_prev P_prev ds a ->
      forall d c p c' ps, a = Authz d c [Authz p c' ps] ->
        exists tp, tok U p = Some tp /\ window_ok C tp.
    Proof.
      intros H. destruct H as [d0 c0' CI | d0 c0' p0 c0'' ps0 t tp sibs T Tp L Al TO ST CH];
        intros d c p c' ps E; inversion E; subst.
      eapply token_ok_window; eauto.
    Qed.

    (* every step along a valid chain, not only the first *)
    Fixpoint steps (a : authz) : list (cap * authz) :=
      match a with
      | Authz d c (p :: _) => (c, p) :: steps p
      | Authz d c [] => []
      end.

    Definition step_holds (ds : desc) (x : cap * authz) : Prop :=
      let '(c, pa) := x in
      match pa with Authz p c' _ =>
        exists tp c0, tok U p = Some tp /\ window_ok C tp /\ In c0 (t_caps tp) /\
          resolve_ability (r_can c0) (can c) = can c' /\
          ds_nb ds (inherit (nb c) (r_nb c0)) = Some (nb c') /\ ds_derives ds c c' = true
      end.

    Theorem chain_all_steps ds a :
      chain_ok U C claim_prev P_prev ds a -> Forall (step_holds ds) (steps a).
    Proof.
      induction 1 as [d c CI | d c p c' ps t tp sibs T Tp L Al TO ST CH IH]; cbn [steps].
      - constructor.
      - constructor; [|exact IH]. cbn [step_holds].
        destruct ST as [tp' [c0 [Tp' [Hin [RC DV]]]]].
        destruct (token_ok_window _ _ TO) as [t2 [T2 W]].
        assert (t2 = tp') by congruence. subst t2.
        exists tp', c0. apply resolve_cap_inv in RC. destruct RC as [RA [_ [_ [_ NB]]]].
        repeat split; auto; apply W.
    Qed.

    (* returned authorizations are paths: every node has at most one proof *)
    Fixpoint is_path (a : authz) : Prop :=
      match a with
      | Authz _ _ [] => True
      | Authz _ _ [p] => is_path p
      | _ => False
      end.

    Lemma chain_is_path ds a : chain_ok U C claim_prev P_prev ds a -> is_path a.
    Proof. induction 1; cbn [is_path]; auto. Qed.
  End Level.

  (* C03: a token passes Validate only inside its window *)
  Theorem validate_window claim_prev d sibs :
    fst (validate U C claim_prev d sibs) = VOk ->
    exists t, tok U d = Some t /\ is_expired (t_exp t) (now C) = false /\ is_too_early (t_nbf t) (now C) = false.
  Proof.
    unfold validate. destruct (tok U d) as [t|]; [|discriminate].
    destruct (is_expired (t_exp t) (now C)) eqn:E1; [discriminate|].
    destruct (is_too_early (t_nbf t) (now C)) eqn:E2; [discriminate|].
    intros _. exists t. auto.
  Qed.

  (* C03: the top-level token and every session attestation token as well *)
  Theorem top_window n ds prfs a :
    P U C (S n) ds prfs a ->
    exists d c ps t, a = Authz d c ps /\ tok U d = Some t /\ window_ok C t.
  Proof.
    cbn [P]. intros [d [c [ps [t [c0 [E [Hin [TO [T _]]]]]]]]].
    destruct (token_ok_window _ _ _ _ TO) as [t' [T' W]].
    rewrite T in T'. inversion T'; subst t'. exists d, c, ps, t. auto.
  Qed.

  (* ---------------------------------------------------------------- *)
  (* C04: what an applicable attestation is                             *)

  Lemma cmap_proof_inv m l : cmap_proof m = Some l -> m = [(proof_key, VLink l)].
  Proof.
    unfold cmap_proof. destruct m as [|[k v] [|? ?]]; try discriminate;
      destruct v; try discriminate. destruct (beq k proof_key) eqn:E; [|discriminate].
    apply beq_eq in E. intros H. inversion H. subst. reflexivity.
  Qed.

  (* the capability a session is searched for: ucan/attest on the authority's DID whose
     proof caveat is the link of exactly the token under verification *)
  Theorem attest_parse_inv auth l c0 c :
    parse_cap (attest_desc auth l) c0 = Some c ->
    r_can c0 = attest_can /\ r_with c0 = did_str auth /\
    r_nb c0 = NbMap [(proof_key, VLink l)] /\ nb c = [(proof_key, VLink l)].
  Proof.
    unfold parse_cap, attest_desc; cbn [ds_can ds_with ds_nb].
    destruct (beq attest_can (r_can c0)) eqn:E1; [|discriminate]. apply beq_eq in E1.
    destruct (beq (r_with c0) (did_str auth)) eqn:E2; [|discriminate]. apply beq_eq in E2.
    destruct (r_nb c0) as [m| |] eqn:NB; try discriminate.
    destruct (cmap_proof m) as [l'|] eqn:CP; [|discriminate].
    destruct (l' =? l) eqn:EL; [|discriminate]. apply N.eqb_eq in EL. subst l'.
    apply cmap_proof_inv in CP. subst m.
    intros H. inversion H; subst; cbn [nb]. auto.
  Qed.

  (* a re-delegated attestation inherits and is bound by its parent's proof caveat *)
  Theorem attest_resolve_inv auth l c c0 c' :
    resolve_cap (attest_desc auth l) c c0 = Some c' ->
    nb c' = [(proof_key, VLink l)] /\ wth c' = did_str auth /\
    (forall l', r_nb c0 = NbMap [(proof_key, VLink l')] -> l' = l).
  Proof.
    intros H. apply resolve_cap_inv in H. destruct H as [_ [_ [W [_ NB]]]].
    cbn [attest_desc ds_with ds_nb] in *. apply beq_eq in W.
    destruct (inherit (nb c) (r_nb c0)) as [m| |] eqn:I; try discriminate.
    destruct (cmap_proof m) as [l2|] eqn:CP; [|discriminate].
    destruct (l2 =? l) eqn:EL; [|discriminate]. apply N.eqb_eq in EL. subst l2.
    apply cmap_proof_inv in CP. inversion NB. subst.
    repeat split; auto.
    intros l' E. rewrite E in I. cbn in I. inversion I. reflexivity.
  Qed.

  (* C04: a token whose issuer is neither a did:key nor the authority passes Validate
     only through a session for exactly that token, or — when the session search found no
     applicable attestation (no failed proofs) — through the key resolver *)
  Theorem nonkey_validate n d sibs t :
    fst (validate U C (claim U C n) d sibs) = VOk -> tok U d = Some t ->
    is_key_str (t_iss t) = false -> t_iss t <> v_did (authority C) ->
    (exists a, P U C n (attest_desc (v_did (authority C)) (d_link d)) (session_candidates U d sibs) a) \/
    ((exists e, fst (claim U C n (attest_desc (v_did (authority C)) (d_link d)) (session_candidates U d sibs)) = AErr e
                /\ has_failed e = false) /\
     exists kd v, resolve_did_key C (t_iss t) = Some kd /\ parse_principal C (did_str kd) = Some v /\
       is_key_str (v_did v) = true /\ sig_ok t (mkVf (v_key v) (v_sigcode v) (t_iss t))).
  Proof.
    intros V T NK NA.
    pose proof (validate_ok U C (claim U C n) (P U C n) (claim_sound U C Hres n) d sibs V) as TO.
    destruct TO as [t' v T' W K PP S | t' T' W K S | t' a T' W K NA' PA | t' kd v T' W K NA' NoAtt R PP KV S];
      rewrite T in T'; inversion T'; subst t'.
    - congruence.
    - exfalso. apply NA. destruct S as [S _]. exact S.
    - left. exists a. exact PA.
    - right. split; [exact NoAtt|]. exists kd, v. auto.
  Qed.

  (* ---------------------------------------------------------------- *)
  (* C05: the checker saw and accepted the returned authorization        *)

  Lemma claim_loop_checked rec ms : forall failed rev a ev,
    claim_loop U C rec ms failed rev = (AOk a, ev) -> In (EvCheck a false) ev /\ revoked C a = false.
  Proof.
    induction ms as [|m ms IH]; cbn [claim_loop]; intros failed rev a ev H; [discriminate|].
    destruct (can_issue C (m_cap m) (iss_of U (m_dlg m))).
    - destruct (revoked C (Authz (m_dlg m) (m_cap m) [])) eqn:RV.
      + destruct (claim_loop U C rec ms failed true) as [r' ev'] eqn:CL.
        inversion H; subst. destruct (IH _ _ _ _ CL) as [A B]. split; [right; exact A | exact B].
      + inversion H; subst. split; [left; reflexivity | exact RV].
    - destruct (rec m) as [r evr]. destruct r as [a'|e|].
      + destruct (revoked C (Authz (m_dlg m) (m_cap m) [a'])) eqn:RV.
        * destruct (claim_loop U C rec ms failed true) as [r' ev'] eqn:CL.
          inversion H; subst. destruct (IH _ _ _ _ CL) as [A B].
          split; [apply in_or_app; right; right; exact A | exact B].
        * inversion H; subst. split; [apply in_or_app; right; left; reflexivity | exact RV].
      + destruct (claim_loop U C rec ms true rev) as [r' ev'] eqn:CL.
        inversion H; subst. destruct (IH _ _ _ _ CL) as [A B].
        split; [apply in_or_app; right; exact A | exact B].
      + discriminate.
  Qed.

  Theorem access_checked n ds inv a ev :
    access U C n ds inv = (AOk a, ev) -> In (EvCheck a false) ev /\ revoked C a = false.
  Proof.
    unfold access. destruct n as [|n]; cbn [claim]; [discriminate|].
    unfold claim_body.
    destruct (sources_of U C (claim U C n) [inv] [inv]) as [srcs ev0].
    destruct srcs as [ss|]; [|discriminate].
    destruct (claim_loop U C (authorize U C (claim U C n) n ds) (select_top ds ss) false false) as [r ev'] eqn:CL.
    intros H. inversion H; subst.
    destruct (claim_loop_checked _ _ _ _ _ _ CL) as [A B].
    split; [apply in_or_app; right; exact A | exact B].
  Qed.

  (* a rejected candidate is always reported: when the checker answered "revoked" for a
     candidate authorization of this claim, an Unauthorized outcome carries the revocation *)
  Definition candidate_revoked (rec : matchv -> ares * list event) (m : matchv) : Prop :=
    (can_issue C (m_cap m) (iss_of U (m_dlg m)) = true /\ revoked C (Authz (m_dlg m) (m_cap m) []) = true) \/
    (can_issue C (m_cap m) (iss_of U (m_dlg m)) = false /\
     exists a', fst (rec m) = AOk a' /\ revoked C (Authz (m_dlg m) (m_cap m) [a']) = true).

  Lemma claim_loop_reports rec ms : forall failed rev e ev,
    claim_loop U C rec ms failed rev = (AErr e, ev) ->
    (rev = true \/ exists m, In m ms /\ candidate_revoked rec m) -> has_revoked e = true.
  Proof.
    induction ms as [|m ms IH]; cbn [claim_loop]; intros failed rev e ev H Hr.
    - inversion H; subst. cbn. destruct Hr as [->|[m [[] _]]]. reflexivity.
    - destruct (can_issue C (m_cap m) (iss_of U (m_dlg m))) eqn:CI.
      + destruct (revoked C (Authz (m_dlg m) (m_cap m) [])) eqn:RV.
        * destruct (claim_loop U C rec ms failed true) as [r' ev'] eqn:CL.
          inversion H; subst. eapply IH; eauto.
        * discriminate.
      + destruct (rec m) as [r evr] eqn:R. destruct r as [a'|e'|].
        * destruct (revoked C (Authz (m_dlg m) (m_cap m) [a'])) eqn:RV.
          -- destruct (claim_loop U C rec ms failed true) as [r' ev'] eqn:CL.
             inversion H; subst. eapply IH; eauto.
          -- discriminate.
        * destruct (claim_loop U C rec ms true rev) as [r' ev'] eqn:CL.
          inversion H; subst. eapply IH; eauto.
          destruct Hr as [->|[m' [[<-|Hin] CR]]]; [left; reflexivity | | right; exists m'; auto].
          exfalso. destruct CR as [[CI' _]|[_ [a' [RA _]]]]; [congruence|].
          rewrite R in RA. discriminate.
        * discriminate.
  Qed.

  Theorem access_reports_revocation n ds inv e ev ss ev0 :
    access U C (S n) ds inv = (AErr e, ev) ->
    sources_of U C (claim U C n) [inv] [inv] = (Some ss, ev0) ->
    (exists m, In m (select_top ds ss) /\ candidate_revoked (authorize U C (claim U C n) n ds) m) ->
    has_revoked e = true.
  Proof.
    unfold access. cbn [claim]. unfold claim_body. intros H SO Hc. rewrite SO in H.
    destruct (claim_loop U C (authorize U C (claim U C n) n ds) (select_top ds ss) false false) as [r ev'] eqn:CL.
    inversion H; subst. eapply claim_loop_reports; eauto.
  Qed.

  (* ---------------------------------------------------------------- *)
  (* the statements above, for what Access returns                        *)

  Theorem access_steps n ds inv a :
    fst (access U C n ds inv) = AOk a ->
    exists n', n = S n' /\ Forall (step_holds ds) (steps a) /\
               is_path a /\
               exists d c ps t, a = Authz d c ps /\ d = inv /\ tok U d = Some t /\ window_ok C t.
  Proof.
    intros H. destruct n as [|n']; [discriminate|]. exists n'. split; [reflexivity|].
    pose proof (access_sound U C Hres (S n') ds inv a H) as PS. cbn [P] in PS.
    destruct PS as [d [c [ps [t [c0 [E [Hin [TO [T [Hc [PC [CH RV]]]]]]]]]]]].
    split; [eapply chain_all_steps; eauto|]. split; [eapply chain_is_path; eauto|].
    exists d, c, ps, t. repeat split; auto.
    - destruct Hin as [<-|[]]. reflexivity.
    - destruct (token_ok_window _ _ _ _ TO) as [t' [T' W]]. assert (t' = t) by congruence. subst. apply W.
    - destruct (token_ok_window _ _ _ _ TO) as [t' [T' W]]. assert (t' = t) by congruence. subst. apply W.
  Qed.

  (* C05: a checker that rejects every authorization containing a revoked delegation
     guarantees that no returned authorization contains one *)
  Theorem access_no_revoked (R : link -> Prop) n ds inv a :
    (forall x, (exists l, In l (map fst (path_of x)) /\ R l) -> revoked C x = true) ->
    fst (access U C n ds inv) = AOk a -> forall l, In l (map fst (path_of a)) -> ~ R l.
  Proof.
    intros HR H l Hl HRl.
    destruct (access U C n ds inv) as [r ev] eqn:E. cbn [fst] in H. subst r.
    destruct (access_checked n ds inv a ev E) as [_ NR].
    rewrite (HR a) in NR; [discriminate|]. exists l. auto.
  Qed.

  (* C04: a failing session with failed proofs rejects the token whatever the key resolver says *)
  Theorem session_escalation claim_prev d sibs t e ev :
    tok U d = Some t -> is_expired (t_exp t) (now C) = false -> is_too_early (t_nbf t) (now C) = false ->
    is_key_str (t_iss t) = false -> did_eqb (t_iss t) (v_did (authority C)) = false ->
    claim_prev (attest_desc (v_did (authority C)) (d_link d)) (session_candidates U d sibs) = (AErr e, ev) ->
    has_failed e = true ->
    fst (validate U C claim_prev d sibs) = VEscalation.
  Proof.
    intros T E1 E2 K A CP HF. unfold validate. rewrite T, E1, E2.
    unfold verify_authorization. unfold is_key_str in K. rewrite K, A.
    unfold verify_session. rewrite CP. rewrite HF. reflexivity.
  Qed.

  (* C04: an attestation naming another token, another resource or another ability is not a candidate *)
  Theorem attest_other_rejected auth l c0 :
    (r_can c0 <> attest_can \/ r_with c0 <> did_str auth \/ r_nb c0 <> NbMap [(proof_key, VLink l)]) ->
    parse_cap (attest_desc auth l) c0 = None.
  Proof.
    intros H. destruct (parse_cap (attest_desc auth l) c0) as [c|] eqn:PC; [|reflexivity].
    apply attest_parse_inv in PC. destruct PC as [A [B [D _]]].
    destruct H as [H|[H|H]]; contradiction.
  Qed.

End Props.
