(* Check_C17.v — judging the histories the -race harness observed on the real
   block store against the linearizability specification of Blockstore.v.

   A history = for every goroutine the list of (operation, returned result),
   plus the iteration and the Get results observed after the join.
   linearizable_history h  :=  there is ONE merge of the goroutines' operation
   lists (a log of (goroutine, op, result) whose projection on each goroutine
   is exactly what that goroutine did and saw) that is a legal sequential
   history of the store and ends in a store with the observed final iteration
   order and Get results.  This is precisely what Blockstore.linearizable
   guarantees of every run of the model (model_runs_linearizable below).

   check_history searches a merge (greedy simulation of the sequential store)
   and VALIDATES it with a boolean mirror of the specification, so soundness
   (check_history h = true -> linearizable_history h) does not depend on the
   search.  Keys and block payloads are small numbers (pool index, variant). *)
From Ucanto Require Import Base Conc Blockstore.
From Coq Require Import ZifyBool ZifyN ZifyNat.
Open Scope N_scope.

Notation bopN := (bop N N).
Notation bresN := (bres N N).
Notation storeN := (store N N).
Notation eventN := (event N N).
Definition item : Type := (N * option N)%type.
Definition obs : Type := (bopN * bresN)%type.          (* operation, observed result *)

Definition emptyN : storeN := empty N N.
Definition applyN : storeN -> bopN -> storeN * bresN := apply_op N N N.eqb.
Definition iterN : storeN -> list item := bs_iter N N N.eqb.
Definition getN : storeN -> N -> option N := bs_get N N N.eqb.
Definition projN : nat -> list eventN -> list eventN := proj N N.
Definition run_opsN : list bopN -> storeN := run_ops N N N.eqb.

Record hcase := mkH {
  h_id : N;
  h_threads : list (list obs);
  h_final : list item;             (* iteration after the join *)
  h_gets : list item               (* Get of every pool key after the join *)
}.

(* ------------------------------------------------------------------ *)
(* decidable equalities                                                *)

Definition optN_eqb : option N -> option N -> bool := option_eqb N.eqb.
Lemma optN_eqb_eq a b : optN_eqb a b = true <-> a = b.
Proof.
  destruct a, b; cbn; try (split; congruence).
  rewrite N.eqb_eq. split; congruence.
Qed.
Definition item_eqb (a b : item) : bool := (fst a =? fst b) && optN_eqb (snd a) (snd b).
Lemma item_eqb_eq a b : item_eqb a b = true <-> a = b.
Proof.
  destruct a, b. unfold item_eqb. cbn. rewrite andb_true_iff, N.eqb_eq, optN_eqb_eq.
  split; [intros [-> ->]; reflexivity | intros H; inversion H; auto].
Qed.
Definition items_eqb : list item -> list item -> bool := list_eqb item_eqb.
Lemma items_eqb_eq a b : items_eqb a b = true <-> a = b.
Proof. apply list_eqb_eq. exact item_eqb_eq. Qed.

Definition bop_eqb (a b : bopN) : bool :=
  match a, b with
  | OPut k v, OPut k' v' => (k =? k') && (v =? v')
  | OGet k, OGet k' => k =? k'
  | OIter, OIter => true
  | _, _ => false
  end.
Lemma bop_eqb_eq a b : bop_eqb a b = true <-> a = b.
Proof.
  destruct a, b; cbn; try (split; congruence).
  - rewrite andb_true_iff, !N.eqb_eq. split; [intros [-> ->]; reflexivity|intros H; inversion H; auto].
  - rewrite N.eqb_eq. split; congruence.
Qed.
Definition bres_eqb (a b : bresN) : bool :=
  match a, b with
  | RPut, RPut => true
  | RGet x, RGet y => optN_eqb x y
  | RIter x, RIter y => items_eqb x y
  | _, _ => false
  end.
Lemma bres_eqb_eq a b : bres_eqb a b = true <-> a = b.
Proof.
  destruct a, b; cbn; try (split; congruence).
  - rewrite optN_eqb_eq. split; congruence.
  - rewrite items_eqb_eq. split; congruence.
Qed.
Definition obs_eqb (a b : obs) : bool := bop_eqb (fst a) (fst b) && bres_eqb (snd a) (snd b).
Lemma obs_eqb_eq a b : obs_eqb a b = true <-> a = b.
Proof.
  destruct a, b. unfold obs_eqb. cbn. rewrite andb_true_iff, bop_eqb_eq, bres_eqb_eq.
  split; [intros [-> ->]; reflexivity | intros H; inversion H; auto].
Qed.

(* ------------------------------------------------------------------ *)
(* the specification                                                   *)

Definition ev_obs (e : eventN) : obs := (ev_op N N e, ev_res N N e).

Definition explains (h : hcase) (lg : list eventN) : Prop :=
  (* a merge of what the goroutines did and saw *)
  (forall i, map ev_obs (projN i lg) = nth i (h_threads h) []) /\
  (* a legal sequential history of the store *)
  legal_from N N N.eqb emptyN lg /\
  (* ending in the observed store *)
  iterN (run_opsN (map (ev_op N N) lg)) = h_final h /\
  Forall (fun g : item => getN (run_opsN (map (ev_op N N) lg)) (fst g) = snd g) (h_gets h).

Definition linearizable_history (h : hcase) : Prop := exists lg, explains h lg.

(* every finished run of the concurrent model produces a linearizable history *)
Theorem model_runs_linearizable (n : nat) (progs : nat -> list bopN) sched c :
  (forall i, (n <= i)%nat -> progs i = []) ->
  creach N N N.eqb (cinit N N progs) sched c -> finished N N c ->
  linearizable_history
    (mkH 0 (map (fun i => map ev_obs (projN i (log N N c))) (seq 0 n))
         (iterN (st N N c))
         (map (fun k => (k, getN (st N N c) k)) (keys (st N N c)))).
Proof.
  intros Hn R F. destruct (linearizable N N N.eqb _ _ _ R F) as [[HP HL] HS].
  exists (log N N c). repeat split; cbn [h_threads h_final h_gets].
  - intros i. destruct (Nat.lt_ge_cases i n) as [L|G].
    + rewrite (nth_indep _ [] (map ev_obs (projN 0 (log N N c)))) by (rewrite map_length, seq_length; exact L).
      rewrite (map_nth (fun i => map ev_obs (projN i (log N N c))) (seq 0 n) 0%nat i).
      rewrite seq_nth by assumption. reflexivity.
    + rewrite nth_overflow by (rewrite map_length, seq_length; exact G).
      specialize (HP i). rewrite (Hn i G) in HP. apply map_eq_nil in HP.
      unfold projN. rewrite HP. reflexivity.
  - exact HL.
  - unfold iterN, run_opsN. rewrite <- HS. reflexivity.
  - apply Forall_forall. intros g Hg. apply in_map_iff in Hg. destruct Hg as [k [<- _]].
    cbn. unfold run_opsN. rewrite <- HS. reflexivity.
Qed.

(* ------------------------------------------------------------------ *)
(* validator: boolean mirror of `explains`                             *)

Fixpoint legalb (s : storeN) (lg : list eventN) : bool :=
  match lg with
  | [] => true
  | e :: r => bres_eqb (snd (applyN s (ev_op N N e))) (ev_res N N e) && legalb (fst (applyN s (ev_op N N e))) r
  end.
Lemma legalb_sound lg : forall s, legalb s lg = true -> legal_from N N N.eqb s lg.
Proof.
  induction lg as [|e r IH]; intros s H; cbn in *; [exact I|].
  apply andb_true_iff in H. destruct H as [H1 H2]. apply bres_eqb_eq in H1. split; [exact H1|].
  apply IH. exact H2.
Qed.

Definition validates (h : hcase) (lg : list eventN) : bool :=
  let n := length (h_threads h) in
  let fin := run_opsN (map (ev_op N N) lg) in
  forallb (fun e : eventN => Nat.ltb (ev_tid N N e) n) lg &&
  forallb (fun i => list_eqb obs_eqb (map ev_obs (projN i lg)) (nth i (h_threads h) [])) (seq 0 n) &&
  legalb emptyN lg &&
  items_eqb (iterN fin) (h_final h) &&
  forallb (fun g : item => optN_eqb (getN fin (fst g)) (snd g)) (h_gets h).

Lemma proj_out_of_range n lg i :
  forallb (fun e : eventN => Nat.ltb (ev_tid N N e) n) lg = true -> (n <= i)%nat -> projN i lg = [].
Proof.
  intros H G. unfold projN, proj. induction lg as [|e r IH]; [reflexivity|].
  cbn in H. apply andb_true_iff in H. destruct H as [H1 H2]. cbn [filter].
  apply Nat.ltb_lt in H1.
  assert (Nat.eqb (ev_tid N N e) i = false) as -> by (apply Nat.eqb_neq; lia).
  apply IH. exact H2.
Qed.

Theorem validates_sound h lg : validates h lg = true -> explains h lg.
Proof.
  unfold validates. cbn zeta. intros H.
  repeat (apply andb_true_iff in H; destruct H as [H ?]).
  rename H into Htid, H3 into Hproj, H2 into Hleg, H1 into Hfin, H0 into Hgets.
  repeat split.
  - intros i. destruct (Nat.lt_ge_cases i (length (h_threads h))) as [L|G].
    + rewrite forallb_forall in Hproj. specialize (Hproj i). rewrite in_seq in Hproj.
      specialize (Hproj ltac:(lia)). apply (list_eqb_eq obs_eqb obs_eqb_eq) in Hproj. exact Hproj.
    + rewrite nth_overflow by assumption. rewrite (proj_out_of_range _ _ _ Htid G). reflexivity.
  - apply legalb_sound. exact Hleg.
  - apply items_eqb_eq. exact Hfin.
  - apply Forall_forall. intros g Hg. rewrite forallb_forall in Hgets.
    apply optN_eqb_eq. apply Hgets. exact Hg.
Qed.

(* ------------------------------------------------------------------ *)
(* search: simulate the sequential store, always taking an operation   *)
(* whose observed result is what the store returns now                 *)

(* first goroutine (index >= i) whose next observation satisfies pred; it is popped *)
Fixpoint pick (pred : obs -> bool) (i : nat) (ths : list (list obs)) : option (nat * obs * list (list obs)) :=
  match ths with
  | [] => None
  | [] :: r =>
      match pick pred (S i) r with Some (j, e, r') => Some (j, e, [] :: r') | None => None end
  | (e :: t) :: r =>
      if pred e then Some (i, e, t :: r)
      else match pick pred (S i) r with Some (j, e', r') => Some (j, e', (e :: t) :: r') | None => None end
  end.

Definition is_put (o : bopN) : bool := match o with OPut _ _ => true | _ => false end.

(* enabled now and leaves the store unchanged (Get, Iterator, Put of a present key) *)
Definition quiet_now (s : storeN) (e : obs) : bool :=
  bres_eqb (snd (applyN s (fst e))) (snd e) &&
  match fst e with OPut k _ => match getN s k with Some _ => true | None => false end | _ => true end.

(* a Put that inserts exactly the next item of the final iteration *)
Definition inserts_next (s : storeN) (final : list item) (e : obs) : bool :=
  match fst e with
  | OPut k v =>
      match getN s k, nth_error final (length (keys s)) with
      | None, Some it => item_eqb it (k, Some v)
      | _, _ => false
      end
  | _ => false
  end.

Fixpoint search (fuel : nat) (s : storeN) (final : list item) (ths : list (list obs))
                (acc : list eventN) : option (list eventN) :=
  match fuel with
  | O => None
  | S f =>
    match pick (quiet_now s) 0 ths with
    | Some (j, e, ths') => search f s final ths' ((j, fst e, snd e) :: acc)
    | None =>
      match pick (inserts_next s final) 0 ths with
      | Some (j, e, ths') => search f (fst (applyN s (fst e))) final ths' ((j, fst e, snd e) :: acc)
      | None => if forallb (fun t : list obs => match t with [] => true | _ => false end) ths
                then Some (rev acc) else None
      end
    end
  end.

Definition find_lin (h : hcase) : option (list eventN) :=
  search (S (length (concat (h_threads h)))) emptyN (h_final h) (h_threads h) [].

Definition check_history (h : hcase) : bool :=
  match find_lin h with Some lg => validates h lg | None => false end.

Theorem check_history_sound h : check_history h = true -> linearizable_history h.
Proof.
  unfold check_history. destruct (find_lin h) as [lg|]; [|discriminate].
  intros H. exists lg. apply validates_sound. exact H.
Qed.

(* ids of the histories that no sequential execution of a merge explains *)
Definition check_cases (cs : list hcase) : list N :=
  map h_id (filter (fun h => negb (check_history h)) cs).

(* ------------------------------------------------------------------ *)
(* the lock table of the pinned (unfixed) source, as extracted on the  *)
(* pinned tree, kept as a constant: the discipline fails and two Puts  *)
(* reach a race in four steps; so does a Put against the iterator      *)
(* closure that reads bs.keys after the deferred unlock                *)

Definition blockstore_table_pinned : op_table :=
  [(0, [(MR, [mkAcc 1 false; mkAcc 1 true; mkAcc 0 false; mkAcc 0 true; mkAcc 0 true])]);
   (1, [(MW, [mkAcc 1 false])]);
   (2, [(MW, []); (MNone, [mkAcc 0 false; mkAcc 1 false])])].

Lemma pinned_discipline_fails : discipline_ok blockstore_table_pinned = false.
Proof. reflexivity. Qed.

Theorem pinned_put_put_race : ~ race_free blockstore_table_pinned.
Proof.
  apply (race_free_refuted blockstore_table_pinned [[0]; [0]]
           [(0%nat, AEnter); (1%nat, AEnter); (0%nat, AAt 1); (1%nat, AAt 1)]).
  vm_compute. reflexivity.
Qed.

(* the write lock does not help: a goroutine consuming an iterator races with a Put
   that holds the lock correctly (here: the fixed Put) *)
Definition blockstore_table_closure_only : op_table :=
  [(0, [(MW, [mkAcc 1 false; mkAcc 1 true; mkAcc 0 false; mkAcc 0 true])]);
   (2, [(MW, []); (MNone, [mkAcc 0 false; mkAcc 1 false])])].
Theorem pinned_iterator_closure_race : ~ race_free blockstore_table_closure_only.
Proof.
  apply (race_free_refuted blockstore_table_closure_only [[2]; [0]]
           [(0%nat, AEnter); (0%nat, ALeave); (0%nat, AEnter); (0%nat, AAt 0);
            (1%nat, AEnter); (1%nat, AAt 3)]).
  vm_compute. reflexivity.
Qed.

(* ------------------------------------------------------------------ *)
(* examples                                                            *)

(* non-vacuity of Blockstore.linearizable: an executable run of the concurrent model.
   Two goroutines; the second Put of key 1 loses; the reader overlaps nothing it should not. *)
Definition ex_progs (i : nat) : list bopN :=
  match i with
  | 0%nat => [OPut 1 10; OGet 2]
  | 1%nat => [OPut 1 11; OPut 2 20; OIter]
  | _ => []
  end.
Ltac lock_side :=
  cbn; let j := fresh "j" in let Hj := fresh "Hj" in
  intros j Hj; destruct j as [|[|j]]; cbn; try reflexivity; try discriminate; try congruence.
Ltac model_step :=
  first [ eapply s_put_lock; [reflexivity|lock_side]
        | eapply s_put_found; reflexivity
        | eapply s_put_absent; reflexivity
        | eapply s_put_map; reflexivity
        | eapply s_put_keys; reflexivity
        | eapply s_put_unlock; reflexivity
        | eapply s_get_lock; [reflexivity|lock_side]
        | eapply s_get_read; reflexivity
        | eapply s_get_unlock; reflexivity
        | eapply s_iter_lock; [reflexivity|lock_side]
        | eapply s_iter_keys; reflexivity
        | eapply s_iter_blks; reflexivity
        | eapply s_iter_unlock; reflexivity ].
Example ex_model_run : exists c,
  creach N N N.eqb (cinit N N ex_progs)
    ([1; 1; 1; 1; 1] ++ [0; 0; 0] ++ [1; 1; 1; 1; 1] ++ [0; 0; 0] ++ [1; 1; 1; 1])%nat c /\
  finished N N c /\ iterN (st N N c) = [(1, Some 11); (2, Some 20)].
Proof.
  (* goroutine 1 puts key 1 first, goroutine 0's Put of key 1 finds it and changes nothing, ... *)
  eexists. split; [|split].
  - cbn [app].
    do 20 (eapply creach_cons; [cbn [cinit st thr log set_thr]; model_step|]). apply cr_nil.
  - intros i. destruct i as [|[|i]]; reflexivity.
  - reflexivity.
Qed.
(* while goroutine 1 holds the write lock, goroutine 0 cannot start its Put *)
Example ex_model_blocked : forall c1 c2,
  cstep N N N.eqb (cinit N N ex_progs) 1%nat c1 -> ~ cstep N N N.eqb c1 0%nat c2.
Proof.
  intros c1 c2 S1 S2. inversion S1; subst; cbn in *; try discriminate.
  inversion S2; subst; cbn in *; try discriminate.
  match goal with H : forall j, j <> 0%nat -> _ |- _ => specialize (H 1%nat ltac:(discriminate)); cbn in H; discriminate end.
Qed.

(* compact constructors used by the generated case files *)
Definition P (k v : N) : obs := (OPut k v, RPut).
Definition G (k : N) (r : option N) : obs := (OGet k, RGet r).
Definition I (l : list item) : obs := (OIter, RIter l).

(* two goroutines put the same key with different payloads; the one that is first wins *)
Example ex_history_ok :
  check_history (mkH 1 [[P 1 0; G 1 (Some 1)]; [P 1 1; P 2 0; I [(1, Some 1); (2, Some 0)]]]
                     [(1, Some 1); (2, Some 0)] [(1, Some 1); (2, Some 0); (3, None)]) = true.
Proof. vm_compute. reflexivity. Qed.
(* a key iterated twice, a lost block, a wrong order, a stale Get: all rejected *)
Example ex_history_dup :
  check_history (mkH 2 [[P 1 0]; [P 1 0]] [(1, Some 0); (1, Some 0)] []) = false.
Proof. vm_compute. reflexivity. Qed.
Example ex_history_lost :
  check_history (mkH 3 [[P 1 0]; [P 2 0]] [(1, Some 0)] []) = false.
Proof. vm_compute. reflexivity. Qed.
Example ex_history_order :
  check_history (mkH 4 [[P 1 0; P 2 0]] [(2, Some 0); (1, Some 0)] []) = false.
Proof. vm_compute. reflexivity. Qed.
Example ex_history_stale_get :
  check_history (mkH 5 [[P 1 0; G 1 None]] [(1, Some 0)] []) = false.
Proof. vm_compute. reflexivity. Qed.
Example ex_history_iter_not_prefix :
  check_history (mkH 6 [[P 1 0; P 2 0]; [I [(2, Some 0)]]] [(1, Some 0); (2, Some 0)] []) = false.
Proof. vm_compute. reflexivity. Qed.
