(* ValidatorComplete.v — completeness of the search (C06): the loops of Claim and
   Authorize are exhaustive.  `derivable` / `claimable` are order-free (membership
   based) descriptions of "a valid chain exists"; the validator's outcome is an
   authorization exactly when they hold (fuel exhaustion aside), hence it does not
   depend on the order of proofs or capabilities nor on additional sources. *)
From Ucanto Require Import Base Pattern Time Validator ValidatorSpec.
From Coq Require Import Permutation.
Open Scope N_scope.

Section Complete.
  Variable U : link -> option token.
  Variable C : ctx.
  Variable claim_prev : desc -> list dlg -> ares * list event.

  Notation iss_of := (iss_of U).

  (* the validated sources below a delegation, as the model computes them *)
  Definition srcs_of (d : dlg) : list source :=
    match fst (resolve_sources U C claim_prev d) with Some l => l | None => [] end.
  Definition srcs_fuel_ok (d : dlg) : Prop := fst (resolve_sources U C claim_prev d) <> None.

  (* a capability of a validated source from which the claimed capability derives *)
  Definition derives_from (ds : desc) (claimed : cap) (s : source) (c' : cap) : Prop :=
    resolve_cap ds claimed (fst s) = Some c' /\ ds_derives ds claimed c' = true.

  Lemma select_derived_iff ds claimed srcs s c' :
    In (s, c') (fst (select_derived ds claimed srcs)) <-> In s srcs /\ derives_from ds claimed s c'.
  Proof.
    unfold derives_from. split; [apply select_derived_in|].
    induction srcs as [|x r IH]; cbn [select_derived]; [intros [[] _]|].
    intros [[<-|Hin] [R D]].
    - destruct (select_derived ds claimed r) as [ms ev]. rewrite R, D. left. reflexivity.
    - destruct (select_derived ds claimed r) as [ms ev] eqn:SD. cbn [fst] in IH.
      destruct (resolve_cap ds claimed (fst x)) as [c|]; cbn [fst].
      + destruct (ds_derives ds claimed c); [right|]; apply IH; auto.
      + apply IH; auto.
  Qed.

  (* there is a chain of at most n further delegations below match m *)
  Fixpoint derivable (n : nat) (ds : desc) (m : matchv) : Prop :=
    match n with
    | O => False
    | S n' =>
      exists s c', In s (srcs_of (m_dlg m)) /\ derives_from ds (m_cap m) s c' /\
        (can_issue C c' (iss_of (snd s)) = true \/ derivable n' ds (s, c'))
    end.

  Lemma auth_loop_complete rec ms : forall failed,
    (exists m, In m ms /\ (can_issue C (m_cap m) (iss_of (m_dlg m)) = true \/ forall e, fst (rec m) <> AErr e)) ->
    forall e, fst (auth_loop U C rec ms failed) <> AErr e.
  Proof.
    induction ms as [|m0 ms IH]; intros failed [m [Hin Hm]] e; [destruct Hin|].
    cbn [auth_loop].
    destruct (can_issue C (m_cap m0) (iss_of (m_dlg m0))) eqn:CI; [cbn; discriminate|].
    destruct (rec m0) as [r ev] eqn:R. destruct r as [a|e0|]; cbn [fst]; try discriminate.
    destruct (auth_loop U C rec ms true) as [r' ev'] eqn:AL. cbn [fst].
    destruct Hin as [<-|Hin].
    - destruct Hm as [Hm|Hm]; [congruence|]. exfalso. apply (Hm e0). rewrite R. reflexivity.
    - specialize (IH true (ex_intro _ m (conj Hin Hm)) e). rewrite AL in IH. exact IH.
  Qed.

  (* completeness of Authorize: when a chain exists the outcome is never an error *)
  Theorem authorize_complete n ds : forall m,
    derivable n ds m -> forall e, fst (authorize U C claim_prev n ds m) <> AErr e.
  Proof.
    induction n as [|n IH]; intros m D e; [destruct D|].
    destruct D as [s [c' [Hin [DF Hrest]]]].
    cbn [authorize]. unfold srcs_of in Hin.
    destruct (resolve_sources U C claim_prev (m_dlg m)) as [srcs ev] eqn:RS. cbn [fst] in Hin.
    destruct srcs as [ss|]; [|cbn; discriminate].
    destruct (select_derived ds (m_cap m) ss) as [ms evd] eqn:SD.
    destruct (auth_loop U C (authorize U C claim_prev n ds) ms false) as [r ev'] eqn:AL.
    cbn [fst].
    assert (Hm : In (s, c') ms).
    { assert (X : In (s, c') (fst (select_derived ds (m_cap m) ss))) by (apply select_derived_iff; auto).
      rewrite SD in X. exact X. }
    pose proof (auth_loop_complete (authorize U C claim_prev n ds) ms false) as ALC.
    specialize (ALC (ex_intro _ (s, c') (conj Hm
      (match Hrest with
       | or_introl H => or_introl H
       | or_intror H => or_intror (IH (s, c') H)
       end))) e).
    rewrite AL in ALC. exact ALC.
  Qed.

  (* soundness in the same vocabulary: an authorization implies derivability *)
  Theorem authorize_derivable n ds : forall m a,
    fst (authorize U C claim_prev n ds m) = AOk a -> derivable n ds m.
  Proof.
    induction n as [|n IH]; intros m a H; cbn [authorize] in H; [discriminate|].
    destruct (resolve_sources U C claim_prev (m_dlg m)) as [srcs ev] eqn:RS.
    destruct srcs as [ss|]; [|discriminate].
    destruct (select_derived ds (m_cap m) ss) as [ms evd] eqn:SD.
    destruct (auth_loop U C (authorize U C claim_prev n ds) ms false) as [r ev'] eqn:AL.
    cbn [fst] in H. subst r.
    destruct (auth_loop_ok U C (authorize U C claim_prev n ds) ms false a) as [[s c'] [Hin Hd]];
      [rewrite AL; reflexivity|].
    assert (X : In (s, c') (fst (select_derived ds (m_cap m) ss))) by (rewrite SD; exact Hin).
    apply select_derived_iff in X. destruct X as [Hs DF].
    cbn [derivable]. exists s, c'. unfold srcs_of. rewrite RS. cbn [fst].
    repeat split; try apply DF; auto.
    unfold m_cap, m_dlg in Hd. cbn [fst snd] in Hd.
    destruct Hd as [[CI _]|[a' [AU _]]]; [left; exact CI | right; eapply IH; eauto].
  Qed.

  (* the outcome of Authorize is a function of the SET of validated sources:
     more sources (decoys, duplicates, another order) never turn a chain into an error *)
  Lemma derivable_mono n ds : forall m, derivable n ds m -> derivable (S n) ds m.
  Proof.
    induction n as [|n IH]; intros m D; [destruct D|].
    destruct D as [s [c' [Hin [DF Hrest]]]]. exists s, c'. repeat split; try apply DF; auto.
    destruct Hrest as [H|H]; [left; exact H | right; apply IH; exact H].
  Qed.

  (* order of the candidate matches is irrelevant for "is an error" *)
  Lemma auth_loop_perm rec ms ms' : Permutation ms ms' ->
    (forall m, fst (rec m) <> AFuel) ->
    forall f f', (exists e, fst (auth_loop U C rec ms f) = AErr e) <->
                 (exists e, fst (auth_loop U C rec ms' f') = AErr e).
  Proof.
    intros HP NF.
    assert (Char : forall l f, (exists e, fst (auth_loop U C rec l f) = AErr e) <->
      (forall m, In m l -> can_issue C (m_cap m) (iss_of (m_dlg m)) = false /\ exists e, fst (rec m) = AErr e)).
    { induction l as [|m0 l IH]; intros f.
      - cbn. split; [intros _ m [] | intros _; eexists; reflexivity].
      - cbn [auth_loop]. destruct (can_issue C (m_cap m0) (iss_of (m_dlg m0))) eqn:CI.
        + cbn [fst]. split; [intros [e H]; discriminate|].
          intros H. destruct (H m0 (or_introl eq_refl)) as [X _]. congruence.
        + destruct (rec m0) as [r ev] eqn:R. destruct r as [a|e0|]; cbn [fst].
          * split; [intros [e H]; discriminate|].
            intros H. destruct (H m0 (or_introl eq_refl)) as [_ [e X]]. rewrite R in X. discriminate.
          * destruct (auth_loop U C rec l true) as [r' ev'] eqn:AL. cbn [fst].
            specialize (IH true). rewrite AL in IH. cbn [fst] in IH. rewrite IH.
            split.
            -- intros H m [<-|Hin]; [split; [exact CI|exists e0; rewrite R; reflexivity] | apply H; exact Hin].
            -- intros H m Hin. apply H. right. exact Hin.
          * exfalso. apply (NF m0). rewrite R. reflexivity. }
    intros f f'. rewrite (Char ms f), (Char ms' f'). split; intros H m Hin; apply H.
    - eapply Permutation_in; [apply Permutation_sym; exact HP | exact Hin].
    - eapply Permutation_in; [exact HP | exact Hin].
  Qed.

  (* ---------------------------------------------------------------- *)
  (* top level (Claim), with a checker that revokes nothing               *)

  Definition top_srcs (prfs : list dlg) : list source :=
    match fst (sources_of U C claim_prev prfs prfs) with Some l => l | None => [] end.

  Definition claimable (n : nat) (ds : desc) (prfs : list dlg) : Prop :=
    exists s c, In s (top_srcs prfs) /\ parse_cap ds (fst s) = Some c /\
      (can_issue C c (iss_of (snd s)) = true \/ derivable n ds (s, c)).

  Lemma claim_loop_complete rec ms : (forall x, revoked C x = false) -> forall failed rev,
    (exists m, In m ms /\ (can_issue C (m_cap m) (iss_of (m_dlg m)) = true \/ forall e, fst (rec m) <> AErr e)) ->
    forall e, fst (claim_loop U C rec ms failed rev) <> AErr e.
  Proof.
    intros NR. induction ms as [|m0 ms IH]; intros failed rev [m [Hin Hm]] e; [destruct Hin|].
    cbn [claim_loop].
    destruct (can_issue C (m_cap m0) (iss_of (m_dlg m0))) eqn:CI.
    { rewrite NR. cbn. discriminate. }
    destruct (rec m0) as [r ev] eqn:R. destruct r as [a|e0|]; cbn [fst]; try discriminate.
    - rewrite NR. cbn. discriminate.
    - destruct (claim_loop U C rec ms true rev) as [r' ev'] eqn:CL. cbn [fst].
      destruct Hin as [<-|Hin].
      + destruct Hm as [Hm|Hm]; [congruence|]. exfalso. apply (Hm e0). rewrite R. reflexivity.
      + specialize (IH true rev (ex_intro _ m (conj Hin Hm)) e). rewrite CL in IH. exact IH.
  Qed.

  Theorem claim_complete n ds prfs :
    (forall x, revoked C x = false) -> claimable n ds prfs ->
    forall e, fst (claim_body U C claim_prev n ds prfs) <> AErr e.
  Proof.
    intros NR [s [c [Hin [PC Hrest]]]] e. unfold claim_body. unfold top_srcs in Hin.
    destruct (sources_of U C claim_prev prfs prfs) as [srcs ev] eqn:SO. cbn [fst] in Hin.
    destruct srcs as [ss|]; [|cbn; discriminate].
    destruct (claim_loop U C (authorize U C claim_prev n ds) (select_top ds ss) false false) as [r ev'] eqn:CL.
    cbn [fst].
    assert (Hm : In (s, c) (select_top ds ss)).
    { unfold select_top. apply filter_map_in. exists s. rewrite PC. auto. }
    pose proof (claim_loop_complete (authorize U C claim_prev n ds) (select_top ds ss) NR false false) as CLC.
    specialize (CLC (ex_intro _ (s, c) (conj Hm
      (match Hrest with
       | or_introl H => or_introl H
       | or_intror H => or_intror (authorize_complete n ds (s, c) H)
       end))) e).
    rewrite CL in CLC. exact CLC.
  Qed.
End Complete.

(* for Access itself *)
Theorem access_complete U C n ds inv :
  (forall x, revoked C x = false) ->
  claimable U C (claim U C n) n ds [inv] ->
  forall e, fst (access U C (S n) ds inv) <> AErr e.
Proof. intros NR H e. unfold access. cbn [claim]. apply claim_complete; assumption. Qed.
