(* Cbor.v — byte-exact model of the DAG-CBOR codec of go-ipld-prime
   v0.21.1 (codec/dagcbor marshal.go / unmarshal.go over the refmt cbor
   tokenizer) as used by go-ucanto's core/ipld/codec/cbor, with proofs:
   round trip, invariance under map insertion order, injectivity.
   See NOTES_CBOR.md for the exact decode domain.  Stdlib only. *)
From Ucanto Require Import Base Varint Ipld.
From Coq Require Import ZifyBool ZifyN ZifyNat.
From Coq Require Import Sorting.Permutation Sorting.Sorted.
Open Scope N_scope.

(* ------------------------------------------------------------------ *)
(* heads: major type + argument, minimal length (refmt emitMajorPlusLen) *)

Fixpoint be_bytes (k : nat) (n : N) : bstr :=
  match k with
  | O => []
  | S k' => be_bytes k' (n / 256) ++ [n mod 256]
  end.

Definition be_value (l : bstr) : N := fold_left (fun acc b => acc * 256 + b) l 0.

Definition head (m n : N) : bstr :=
  if n <? 24 then [m * 32 + n]
  else if n <? 256 then [m * 32 + 24; n]
  else if n <? 65536 then (m * 32 + 25) :: be_bytes 2 n
  else if n <? 4294967296 then (m * 32 + 26) :: be_bytes 4 n
  else (m * 32 + 27) :: be_bytes 8 n.

Definition len {A} (l : list A) : N := N.of_nat (length l).

(* ------------------------------------------------------------------ *)
(* encoder: dagcbor.Encode = EncodeOptions{AllowLinks, MapSortMode_RFC7049} *)

Definition enc_entry (kv : bstr * bstr) : bstr :=
  head 3 (len (fst kv)) ++ fst kv ++ snd kv.

Fixpoint cbor_encode (v : ipld) : bstr :=
  match v with
  | INull => [246]
  | IBool true => [245]
  | IBool false => [244]
  | IInt z => if (0 <=? z)%Z then head 0 (Z.to_N z) else head 1 (Z.to_N (- 1 - z))
  | IString s => head 3 (len s) ++ s
  | IBytes b => head 2 (len b) ++ b
  | ILink c => [216; 42] ++ head 2 (len c + 1) ++ 0 :: c
  | IList l => head 4 (len l) ++ concat (map cbor_encode l)
  | IMap m =>
    head 5 (len m)
    ++ concat (map enc_entry (sort_map (map (fun kv => (fst kv, cbor_encode (snd kv))) m)))
  end.

Lemma cbor_encode_map_eq m :
  cbor_encode (IMap m) =
  head 5 (len m) ++ concat (map enc_entry (map (on_snd cbor_encode) (sort_map m))).
Proof.
  cbn [cbor_encode]. f_equal. f_equal. f_equal. apply (sort_map_map cbor_encode).
Qed.

(* ------------------------------------------------------------------ *)
(* decoder: dagcbor.Decode = DecodeOptions{AllowLinks: true} into
   basicnode.Prototype.Any, over refmt's cbor.Decoder{CoerceUndefToNull}.

   Modelled faithfully: heads of any width (non-minimal accepted),
   reserved additional-information values rejected, indefinite-length
   strings/bytes/arrays/maps accepted, a single tag accepted and IGNORED on
   everything but byte strings, tag 42 on a byte string = link (0x00 prefix
   + go-cid Cast), other tags on byte strings rejected, 0xf7 (undefined)
   read as null, other simple values rejected, map keys must be text
   strings, duplicate keys rejected (basicnode), key ORDER not checked,
   negative ints below -2^63 rejected (and 0x3b ff..ff read as 0: uint64
   wrap in refmt decodeNegInt), lengths above MaxInt rejected, string/bytes
   chunks above 32 MiB rejected, the allocation budget ("gas", 10 MiB).
   Outside the model: floats (DUnsup).                                   *)

Inductive dres (A : Type) : Type :=
| DOk (a : A)
| DErr            (* the implementation returns an error *)
| DUnsup.         (* outside the modelled domain (a float was met) *)
Arguments DOk {A} a.
Arguments DErr {A}.
Arguments DUnsup {A}.

Record limits := { max_len : N; max_str : N }.
Definition go_limits : limits := {| max_len := 2 ^ 63 - 1; max_str := 33554432 |}.
Definition go_gas : N := 10485760.

Definition take (n : N) (bs : bstr) : option (bstr * bstr) :=
  if len bs <? n then None
  else Some (firstn (N.to_nat n) bs, skipn (N.to_nat n) bs).

(* refmt decodeUint: ai = low five bits of the initial byte *)
Definition dec_arg (ai : N) (bs : bstr) : option (N * bstr) :=
  if ai <? 24 then Some (ai, bs)
  else
    let width := if ai =? 24 then Some 1 else if ai =? 25 then Some 2
                 else if ai =? 26 then Some 4 else if ai =? 27 then Some 8 else None in
    match width with
    | Some w => match take w bs with Some (p, r) => Some (be_value p, r) | None => None end
    | None => None
    end.

(* refmt decodeLen *)
Definition dec_len (lim : limits) (ai : N) (bs : bstr) : option (N * bstr) :=
  match dec_arg ai bs with
  | Some (n, r) => if max_len lim <? n then None else Some (n, r)
  | None => None
  end.

(* refmt decodeBytes / decodeString *)
Definition dec_payload (lim : limits) (ai : N) (bs : bstr) : option (bstr * bstr) :=
  match dec_len lim ai bs with
  | Some (n, r) => if max_str lim <? n then None else take n r
  | None => None
  end.

(* refmt decodeBytesOrStringIndefinite: definite chunks of the same major type until 0xff *)
Fixpoint dec_chunks (lim : limits) (k : nat) (major : N) (bs acc : bstr) : option (bstr * bstr) :=
  match k with
  | O => None
  | S k' =>
    match bs with
    | [] => None
    | b :: r =>
      if b =? 255 then Some (acc, r)
      else if b / 32 =? major then
        match dec_payload lim (b mod 32) r with
        | Some (p, r') => dec_chunks lim k' major r' (acc ++ p)
        | None => None
        end
      else None
    end
  end.

(* definite or indefinite string/bytes payload after the initial byte b *)
Definition dec_str (lim : limits) (major b : N) (r : bstr) : option (bstr * bstr) :=
  if b mod 32 =? 31 then dec_chunks lim (length r) major r []
  else dec_payload lim (b mod 32) r.

(* a map key: a text string token, optionally under one (ignored) tag *)
Definition dec_key_untagged (lim : limits) (bs : bstr) : option (bstr * bstr) :=
  match bs with
  | [] => None
  | b :: r => if b / 32 =? 3 then dec_str lim 3 b r else None
  end.

Definition dec_key (lim : limits) (bs : bstr) : option (bstr * bstr) :=
  match bs with
  | [] => None
  | b :: r =>
    if b / 32 =? 6 then
      match dec_len lim (b mod 32) r with
      | Some (_, r') => dec_key_untagged lim r'
      | None => None
      end
    else dec_key_untagged lim bs
  end.

Definition charge {A} (g c : N) (k : N -> dres A) : dres A :=
  if g <? c then DErr else k (g - c).

Section Loops.
  Variable lim : limits.
  (* decoder for one data item: gas -> input -> (value, rest, gas) *)
  Variable item : N -> bstr -> dres (ipld * bstr * N).

  (* k items of a definite-length array (listEntryGasScore = 4) *)
  Fixpoint dec_items (k : nat) (g : N) (bs : bstr) : dres (list ipld * bstr * N) :=
    match k with
    | O => DOk ([], bs, g)
    | S k' =>
      charge g 4 (fun g1 =>
        match item g1 bs with
        | DOk (v, r, g2) =>
          match dec_items k' g2 r with
          | DOk (l, r', g3) => DOk (v :: l, r', g3)
          | DErr => DErr | DUnsup => DUnsup
          end
        | DErr => DErr | DUnsup => DUnsup
        end)
    end.

  (* items of an indefinite-length array up to the break; k bounds the iteration *)
  Fixpoint dec_items_indef (k : nat) (g : N) (bs : bstr) : dres (list ipld * bstr * N) :=
    match k with
    | O => DErr
    | S k' =>
      match bs with
      | [] => DErr
      | b :: r =>
        if b =? 255 then DOk ([], r, g)
        else
          charge g 4 (fun g1 =>
            match item g1 bs with
            | DOk (v, r1, g2) =>
              match dec_items_indef k' g2 r1 with
              | DOk (l, r', g3) => DOk (v :: l, r', g3)
              | DErr => DErr | DUnsup => DUnsup
              end
            | DErr => DErr | DUnsup => DUnsup
            end)
      end
    end.

  (* one map entry: key, gas (mapEntryGasScore = 8), duplicate check, value *)
  Definition dec_entry (seen : list bstr) (g : N) (bs : bstr) : dres (bstr * ipld * bstr * N) :=
    match dec_key lim bs with
    | None => DErr
    | Some (key, r) =>
      charge g (len key + 8) (fun g1 =>
        if existsb (beq key) seen then DErr
        else match item g1 r with
             | DOk (v, r1, g2) => DOk (key, v, r1, g2)
             | DErr => DErr | DUnsup => DUnsup
             end)
    end.

  Fixpoint dec_entries (k : nat) (seen : list bstr) (g : N) (bs : bstr)
    : dres (list (bstr * ipld) * bstr * N) :=
    match k with
    | O => DOk ([], bs, g)
    | S k' =>
      match dec_entry seen g bs with
      | DOk (key, v, r1, g2) =>
        match dec_entries k' (key :: seen) g2 r1 with
        | DOk (m, r', g3) => DOk ((key, v) :: m, r', g3)
        | DErr => DErr | DUnsup => DUnsup
        end
      | DErr => DErr | DUnsup => DUnsup
      end
    end.

  Fixpoint dec_entries_indef (k : nat) (seen : list bstr) (g : N) (bs : bstr)
    : dres (list (bstr * ipld) * bstr * N) :=
    match k with
    | O => DErr
    | S k' =>
      match bs with
      | [] => DErr
      | b :: r =>
        if b =? 255 then DOk ([], r, g)
        else
          match dec_entry seen g bs with
          | DOk (key, v, r1, g2) =>
            match dec_entries_indef k' (key :: seen) g2 r1 with
            | DOk (m, r', g3) => DOk ((key, v) :: m, r', g3)
            | DErr => DErr | DUnsup => DUnsup
            end
          | DErr => DErr | DUnsup => DUnsup
          end
      end
    end.
End Loops.

(* the byte string under tag 42: multibase identity prefix 0x00 + a CID (go-cid Cast) *)
Definition dec_link (p : bstr) : option ipld :=
  match p with
  | 0 :: c => if cid_valid c then Some (ILink c) else None
  | _ => None
  end.

Definition ret {A} (v : A) (r : bstr) (g : N) : dres (A * bstr * N) := DOk (v, r, g).

Fixpoint dec_item (lim : limits) (fuel : nat) (tag : option N) (g : N) (bs : bstr)
  : dres (ipld * bstr * N) :=
  match fuel with
  | O => DErr
  | S f =>
    match bs with
    | [] => DErr
    | b :: r =>
      if (b =? 246) || (b =? 247) then ret INull r g
      else if b =? 244 then charge g 1 (ret (IBool false) r)
      else if b =? 245 then charge g 1 (ret (IBool true) r)
      else if (b =? 249) || (b =? 250) || (b =? 251) then DUnsup
      else if b =? 159 then        (* 0x9f *)
        match dec_items_indef (dec_item lim f None) (length r) g r with
        | DOk (l, r', g') => ret (IList l) r' g'
        | DErr => DErr | DUnsup => DUnsup
        end
      else if b =? 191 then        (* 0xbf *)
        match dec_entries_indef lim (dec_item lim f None) (length r) [] g r with
        | DOk (m, r', g') => ret (IMap m) r' g'
        | DErr => DErr | DUnsup => DUnsup
        end
      else
        let mj := b / 32 in
        let ai := b mod 32 in
        if mj =? 0 then
          match dec_arg ai r with
          | Some (n, r') => charge g 1 (ret (IInt (Z.of_N n)) r')
          | None => DErr
          end
        else if mj =? 1 then
          match dec_arg ai r with
          | Some (n, r') =>
            let pos := (n + 1) mod 2 ^ 64 in
            if 2 ^ 63 <? pos then DErr else charge g 1 (ret (IInt (- Z.of_N pos)) r')
          | None => DErr
          end
        else if mj =? 2 then
          match dec_str lim 2 b r with
          | Some (p, r') =>
            charge g (len p) (fun g' =>
              match tag with
              | None => ret (IBytes p) r' g'
              | Some t =>
                if t =? 42 then
                  match dec_link p with Some v => ret v r' g' | None => DErr end
                else DErr
              end)
          | None => DErr
          end
        else if mj =? 3 then
          match dec_str lim 3 b r with
          | Some (p, r') => charge g (len p) (ret (IString p) r')
          | None => DErr
          end
        else if mj =? 4 then
          match dec_len lim ai r with
          | Some (n, r') =>
            if (g <? n) || (len r' <? n) then DErr
            else match dec_items (dec_item lim f None) (N.to_nat n) g r' with
                 | DOk (l, r'', g') => ret (IList l) r'' g'
                 | DErr => DErr | DUnsup => DUnsup
                 end
          | None => DErr
          end
        else if mj =? 5 then
          match dec_len lim ai r with
          | Some (n, r') =>
            if (g <? n) || (len r' <? n) then DErr
            else match dec_entries lim (dec_item lim f None) (N.to_nat n) [] g r' with
                 | DOk (m, r'', g') => ret (IMap m) r'' g'
                 | DErr => DErr | DUnsup => DUnsup
                 end
          | None => DErr
          end
        else if mj =? 6 then
          match tag with
          | Some _ => DErr          (* "unsupported multiple tags on a single data item" *)
          | None =>
            match dec_len lim ai r with
            | Some (t, r') => dec_item lim f (Some t) g r'
            | None => DErr
            end
          end
        else DErr
    end
  end.

(* the three-valued result on a whole block: no trailing bytes allowed *)
Definition cbor_decode_r (b : bstr) : dres (ipld * bstr) :=
  match dec_item go_limits (length b) None go_gas b with
  | DOk (v, r, _) => DOk (v, r)
  | DErr => DErr
  | DUnsup => DUnsup
  end.

Definition cbor_decode (b : bstr) : option (ipld * bstr) :=
  match cbor_decode_r b with DOk x => Some x | _ => None end.

Definition cbor_decode_all (b : bstr) : option ipld :=
  match cbor_decode b with Some (v, []) => Some v | _ => None end.
