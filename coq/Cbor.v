(* Cbor.v — byte-exact model of the DAG-CBOR codec of go-ipld-prime
   v0.21.1 (codec/dagcbor marshal.go / unmarshal.go over the refmt cbor
   tokenizer) as used by go-ucanto's core/ipld/codec/cbor, with proofs:
   round trip, invariance under map insertion order, injectivity.
   See NOTES_CBOR.md for the exact decode domain.  Stdlib only. *)
From Ucanto Require Import Base Varint Ipld.
From Coq Require Import ZifyBool ZifyN ZifyNat.
From Coq Require Import Sorting.Permutation Sorting.Sorted.
Open Scope N_scope.

(* ------------------------------------------------------------------ *)
(* heads: major type + argument, minimal length (refmt emitMajorPlusLen) *)

Fixpoint be_bytes (k : nat) (n : N) : bstr :=
  match k with
  | O => []
  | S k' => be_bytes k' (n / 256) ++ [n mod 256]
  end.

Definition be_value (l : bstr) : N := fold_left (fun acc b => acc * 256 + b) l 0.

Definition head (m n : N) : bstr :=
  if n <? 24 then [m * 32 + n]
  else if n <? 256 then [m * 32 + 24; n]
  else if n <? 65536 then (m * 32 + 25) :: be_bytes 2 n
  else if n <? 4294967296 then (m * 32 + 26) :: be_bytes 4 n
  else (m * 32 + 27) :: be_bytes 8 n.

Definition len {A} (l : list A) : N := N.of_nat (length l).

(* ------------------------------------------------------------------ *)
(* encoder: dagcbor.Encode = EncodeOptions{AllowLinks, MapSortMode_RFC7049} *)

Definition enc_entry (kv : bstr * bstr) : bstr :=
  head 3 (len (fst kv)) ++ fst kv ++ snd kv.

Fixpoint cbor_encode (v : ipld) : bstr :=
  match v with
  | INull => [246]
  | IBool true => [245]
  | IBool false => [244]
  | IInt z => if (0 <=? z)%Z then head 0 (Z.to_N z) else head 1 (Z.to_N (- 1 - z))
  | IString s => head 3 (len s) ++ s
  | IBytes b => head 2 (len b) ++ b
  | ILink c => [216; 42] ++ head 2 (len c + 1) ++ 0 :: c
  | IList l => head 4 (len l) ++ concat (map cbor_encode l)
  | IMap m =>
    head 5 (len m)
    ++ concat (map enc_entry (sort_map (map (fun kv => (fst kv, cbor_encode (snd kv))) m)))
  end.

Lemma cbor_encode_map_eq m :
  cbor_encode (IMap m) =
  head 5 (len m) ++ concat (map enc_entry (map (on_snd cbor_encode) (sort_map m))).
Proof.
  cbn [cbor_encode]. f_equal. f_equal. f_equal. apply (sort_map_map cbor_encode).
Qed.

(* ------------------------------------------------------------------ *)
(* decoder: dagcbor.Decode = DecodeOptions{AllowLinks: true} into
   basicnode.Prototype.Any, over refmt's cbor.Decoder{CoerceUndefToNull}.

   Modelled faithfully: heads of any width (non-minimal accepted),
   reserved additional-information values rejected, indefinite-length
   strings/bytes/arrays/maps accepted, a single tag accepted and IGNORED on
   everything but byte strings, tag 42 on a byte string = link (0x00 prefix
   + go-cid Cast), other tags on byte strings rejected, 0xf7 (undefined)
   read as null, other simple values rejected, map keys must be text
   strings, duplicate keys rejected (basicnode), key ORDER not checked,
   negative ints below -2^63 rejected (and 0x3b ff..ff read as 0: uint64
   wrap in refmt decodeNegInt), lengths above MaxInt rejected, string/bytes
   chunks above 32 MiB rejected, the allocation budget ("gas", 10 MiB).
   Outside the model: floats (DUnsup).                                   *)

Inductive dres (A : Type) : Type :=
| DOk (a : A)
| DErr            (* the implementation returns an error *)
| DUnsup.         (* outside the modelled domain (a float was met) *)
Arguments DOk {A} a.
Arguments DErr {A}.
Arguments DUnsup {A}.

Record limits := { max_len : N; max_str : N }.
Definition go_limits : limits := {| max_len := 2 ^ 63 - 1; max_str := 33554432 |}.
Definition go_gas : N := 10485760.

Definition take (n : N) (bs : bstr) : option (bstr * bstr) :=
  if len bs <? n then None
  else Some (firstn (N.to_nat n) bs, skipn (N.to_nat n) bs).

(* refmt decodeUint: ai = low five bits of the initial byte *)
Definition dec_arg (ai : N) (bs : bstr) : option (N * bstr) :=
  if ai <? 24 then Some (ai, bs)
  else
    let width := if ai =? 24 then Some 1 else if ai =? 25 then Some 2
                 else if ai =? 26 then Some 4 else if ai =? 27 then Some 8 else None in
    match width with
    | Some w => match take w bs with Some (p, r) => Some (be_value p, r) | None => None end
    | None => None
    end.

(* refmt decodeLen *)
Definition dec_len (lim : limits) (ai : N) (bs : bstr) : option (N * bstr) :=
  match dec_arg ai bs with
  | Some (n, r) => if max_len lim <? n then None else Some (n, r)
  | None => None
  end.

(* refmt decodeBytes / decodeString *)
Definition dec_payload (lim : limits) (ai : N) (bs : bstr) : option (bstr * bstr) :=
  match dec_len lim ai bs with
  | Some (n, r) => if max_str lim <? n then None else take n r
  | None => None
  end.

(* refmt decodeBytesOrStringIndefinite: definite chunks of the same major type until 0xff *)
Fixpoint dec_chunks (lim : limits) (k : nat) (major : N) (bs acc : bstr) : option (bstr * bstr) :=
  match k with
  | O => None
  | S k' =>
    match bs with
    | [] => None
    | b :: r =>
      if b =? 255 then Some (acc, r)
      else if b / 32 =? major then
        match dec_payload lim (b mod 32) r with
        | Some (p, r') => dec_chunks lim k' major r' (acc ++ p)
        | None => None
        end
      else None
    end
  end.

(* definite or indefinite string/bytes payload after the initial byte b *)
Definition dec_str (lim : limits) (major b : N) (r : bstr) : option (bstr * bstr) :=
  if b mod 32 =? 31 then dec_chunks lim (length r) major r []
  else dec_payload lim (b mod 32) r.

(* a map key: a text string token, optionally under one (ignored) tag *)
Definition dec_key_untagged (lim : limits) (bs : bstr) : option (bstr * bstr) :=
  match bs with
  | [] => None
  | b :: r => if b / 32 =? 3 then dec_str lim 3 b r else None
  end.

Definition dec_key (lim : limits) (bs : bstr) : option (bstr * bstr) :=
  match bs with
  | [] => None
  | b :: r =>
    if b / 32 =? 6 then
      match dec_len lim (b mod 32) r with
      | Some (_, r') => dec_key_untagged lim r'
      | None => None
      end
    else dec_key_untagged lim bs
  end.

Definition charge {A} (g c : N) (k : N -> dres A) : dres A :=
  if g <? c then DErr else k (g - c).

Section Loops.
  Variable lim : limits.
  (* decoder for one data item: gas -> input -> (value, rest, gas) *)
  Variable item : N -> bstr -> dres (ipld * bstr * N).

  (* k items of a definite-length array (listEntryGasScore = 4) *)
  Fixpoint dec_items (k : nat) (g : N) (bs : bstr) : dres (list ipld * bstr * N) :=
    match k with
    | O => DOk ([], bs, g)
    | S k' =>
      charge g 4 (fun g1 =>
        match item g1 bs with
        | DOk (v, r, g2) =>
          match dec_items k' g2 r with
          | DOk (l, r', g3) => DOk (v :: l, r', g3)
          | DErr => DErr | DUnsup => DUnsup
          end
        | DErr => DErr | DUnsup => DUnsup
        end)
    end.

  (* items of an indefinite-length array up to the break; k bounds the iteration *)
  Fixpoint dec_items_indef (k : nat) (g : N) (bs : bstr) : dres (list ipld * bstr * N) :=
    match k with
    | O => DErr
    | S k' =>
      match bs with
      | [] => DErr
      | b :: r =>
        if b =? 255 then DOk ([], r, g)
        else
          charge g 4 (fun g1 =>
            match item g1 bs with
            | DOk (v, r1, g2) =>
              match dec_items_indef k' g2 r1 with
              | DOk (l, r', g3) => DOk (v :: l, r', g3)
              | DErr => DErr | DUnsup => DUnsup
              end
            | DErr => DErr | DUnsup => DUnsup
            end)
      end
    end.

  (* one map entry: key, gas (mapEntryGasScore = 8), duplicate check, value *)
  Definition dec_entry (seen : list bstr) (g : N) (bs : bstr) : dres (bstr * ipld * bstr * N) :=
    match dec_key lim bs with
    | None => DErr
    | Some (key, r) =>
      charge g (len key + 8) (fun g1 =>
        if existsb (beq key) seen then DErr
        else match item g1 r with
             | DOk (v, r1, g2) => DOk (key, v, r1, g2)
             | DErr => DErr | DUnsup => DUnsup
             end)
    end.

  Fixpoint dec_entries (k : nat) (seen : list bstr) (g : N) (bs : bstr)
    : dres (list (bstr * ipld) * bstr * N) :=
    match k with
    | O => DOk ([], bs, g)
    | S k' =>
      match dec_entry seen g bs with
      | DOk (key, v, r1, g2) =>
        match dec_entries k' (key :: seen) g2 r1 with
        | DOk (m, r', g3) => DOk ((key, v) :: m, r', g3)
        | DErr => DErr | DUnsup => DUnsup
        end
      | DErr => DErr | DUnsup => DUnsup
      end
    end.

  Fixpoint dec_entries_indef (k : nat) (seen : list bstr) (g : N) (bs : bstr)
    : dres (list (bstr * ipld) * bstr * N) :=
    match k with
    | O => DErr
    | S k' =>
      match bs with
      | [] => DErr
      | b :: r =>
        if b =? 255 then DOk ([], r, g)
        else
          match dec_entry seen g bs with
          | DOk (key, v, r1, g2) =>
            match dec_entries_indef k' (key :: seen) g2 r1 with
            | DOk (m, r', g3) => DOk ((key, v) :: m, r', g3)
            | DErr => DErr | DUnsup => DUnsup
            end
          | DErr => DErr | DUnsup => DUnsup
          end
      end
    end.
End Loops.

(* the byte string under tag 42: multibase identity prefix 0x00 + a CID (go-cid Cast) *)
Definition dec_link (p : bstr) : option ipld :=
  match p with
  | 0 :: c => if cid_valid c then Some (ILink c) else None
  | _ => None
  end.

Definition ret {A} (v : A) (r : bstr) (g : N) : dres (A * bstr * N) := DOk (v, r, g).

(* one data item whose initial byte is b; rec decodes nested items with one unit of fuel less *)
Definition dec_byte (lim : limits) (rec : option N -> N -> bstr -> dres (ipld * bstr * N))
           (tag : option N) (g : N) (b : N) (r : bstr) : dres (ipld * bstr * N) :=
  if (b =? 246) || (b =? 247) then ret INull r g
  else if b =? 244 then charge g 1 (ret (IBool false) r)
  else if b =? 245 then charge g 1 (ret (IBool true) r)
  else if (b =? 249) || (b =? 250) || (b =? 251) then DUnsup
  else if b =? 159 then        (* 0x9f *)
    match dec_items_indef (rec None) (length r) g r with
    | DOk (l, r', g') => ret (IList l) r' g'
    | DErr => DErr | DUnsup => DUnsup
    end
  else if b =? 191 then        (* 0xbf *)
    match dec_entries_indef lim (rec None) (length r) [] g r with
    | DOk (m, r', g') => ret (IMap m) r' g'
    | DErr => DErr | DUnsup => DUnsup
    end
  else
    let mj := b / 32 in
    let ai := b mod 32 in
    if mj =? 0 then
      match dec_arg ai r with
      | Some (n, r') => charge g 1 (ret (IInt (Z.of_N n)) r')
      | None => DErr
      end
    else if mj =? 1 then
      match dec_arg ai r with
      | Some (n, r') =>
        let pos := (n + 1) mod 2 ^ 64 in
        if 2 ^ 63 <? pos then DErr else charge g 1 (ret (IInt (- Z.of_N pos)) r')
      | None => DErr
      end
    else if mj =? 2 then
      match dec_str lim 2 b r with
      | Some (p, r') =>
        charge g (len p) (fun g' =>
          match tag with
          | None => ret (IBytes p) r' g'
          | Some t =>
            if t =? 42 then
              match dec_link p with Some v => ret v r' g' | None => DErr end
            else DErr
          end)
      | None => DErr
      end
    else if mj =? 3 then
      match dec_str lim 3 b r with
      | Some (p, r') => charge g (len p) (ret (IString p) r')
      | None => DErr
      end
    else if mj =? 4 then
      match dec_len lim ai r with
      | Some (n, r') =>
        if (g <? n) || (len r' <? n) then DErr
        else match dec_items (rec None) (N.to_nat n) g r' with
             | DOk (l, r'', g') => ret (IList l) r'' g'
             | DErr => DErr | DUnsup => DUnsup
             end
      | None => DErr
      end
    else if mj =? 5 then
      match dec_len lim ai r with
      | Some (n, r') =>
        if (g <? n) || (len r' <? n) then DErr
        else match dec_entries lim (rec None) (N.to_nat n) [] g r' with
             | DOk (m, r'', g') => ret (IMap m) r'' g'
             | DErr => DErr | DUnsup => DUnsup
             end
      | None => DErr
      end
    else if mj =? 6 then
      match tag with
      | Some _ => DErr          (* "unsupported multiple tags on a single data item" *)
      | None =>
        match dec_len lim ai r with
        | Some (t, r') => rec (Some t) g r'
        | None => DErr
        end
      end
    else DErr.

Fixpoint dec_item (lim : limits) (fuel : nat) (tag : option N) (g : N) (bs : bstr)
  : dres (ipld * bstr * N) :=
  match fuel with
  | O => DErr
  | S f =>
    match bs with
    | [] => DErr
    | b :: r => dec_byte lim (dec_item lim f) tag g b r
    end
  end.

(* the three-valued result on a whole block: no trailing bytes allowed *)
Definition cbor_decode_r (b : bstr) : dres (ipld * bstr) :=
  match dec_item go_limits (length b) None go_gas b with
  | DOk (v, r, _) => DOk (v, r)
  | DErr => DErr
  | DUnsup => DUnsup
  end.

Definition cbor_decode (b : bstr) : option (ipld * bstr) :=
  match cbor_decode_r b with DOk x => Some x | _ => None end.

Definition cbor_decode_all (b : bstr) : option ipld :=
  match cbor_decode b with Some (v, []) => Some v | _ => None end.

(* ================================================================== *)
(* proofs                                                              *)

Lemma len_app {A} (a b : list A) : len (a ++ b) = len a + len b.
Proof. unfold len. rewrite app_length. lia. Qed.

Lemma be_bytes_length k n : length (be_bytes k n) = k.
Proof.
  revert n. induction k as [|k IH]; intros n; cbn [be_bytes]; [reflexivity|].
  rewrite app_length, IH. cbn. lia.
Qed.

Lemma be_value_snoc l b : be_value (l ++ [b]) = be_value l * 256 + b.
Proof. unfold be_value. rewrite fold_left_app. reflexivity. Qed.

Lemma be_value_be_bytes k n : n < 256 ^ N.of_nat k -> be_value (be_bytes k n) = n.
Proof.
  revert n. induction k as [|k IH]; intros n H; cbn [be_bytes].
  - change (256 ^ N.of_nat 0) with 1 in H. unfold be_value. cbn. lia.
  - rewrite be_value_snoc, IH.
    + pose proof (N.div_mod n 256). lia.
    + rewrite Nat2N.inj_succ, N.pow_succ_r' in H. apply N.div_lt_upper_bound; lia.
Qed.

Lemma take_app p r n : len p = n -> take n (p ++ r) = Some (p, r).
Proof.
  intros <-. unfold take. rewrite len_app.
  replace (len p + len r <? len p) with false by lia.
  unfold len. rewrite Nat2N.id, firstn_app, firstn_all, Nat.sub_diag, skipn_app, skipn_all, Nat.sub_diag.
  cbn [firstn skipn app]. rewrite app_nil_r. reflexivity.
Qed.

Lemma div32 m ai : ai < 32 -> (m * 32 + ai) / 32 = m.
Proof. intros H. rewrite N.div_add_l by lia. rewrite N.div_small by exact H. lia. Qed.

Lemma mod32 m ai : ai < 32 -> (m * 32 + ai) mod 32 = ai.
Proof. intros H. rewrite N.add_comm, N.mod_add by lia. apply N.mod_small. exact H. Qed.

(* the head of an argument below 2^64, and how the decoder reads it back *)
Lemma head_spec m n : n < 2 ^ 64 ->
  exists ai p, head m n = (m * 32 + ai) :: p /\ ai < 28 /\
               forall r, dec_arg ai (p ++ r) = Some (n, r).
Proof.
  intros H. unfold head.
  destruct (n <? 24) eqn:E1.
  { exists n, []. split; [reflexivity|]. split; [lia|]. intros r. unfold dec_arg. rewrite E1. reflexivity. }
  destruct (n <? 256) eqn:E2.
  { exists 24, [n]. split; [reflexivity|]. split; [lia|]. intros r. unfold dec_arg.
    change (24 <? 24) with false. change (24 =? 24) with true. cbv iota.
    change ([n] ++ r) with ([n] ++ r). rewrite (take_app [n] r 1) by reflexivity.
    unfold be_value. cbn [fold_left]. replace (0 * 256 + n) with n by lia. reflexivity. }
  destruct (n <? 65536) eqn:E3.
  { exists 25, (be_bytes 2 n). split; [reflexivity|]. split; [lia|]. intros r. unfold dec_arg.
    change (25 <? 24) with false. change (25 =? 24) with false. change (25 =? 25) with true. cbv iota.
    rewrite take_app by (unfold len; rewrite be_bytes_length; reflexivity).
    rewrite be_value_be_bytes; [reflexivity|]. change (256 ^ N.of_nat 2) with 65536. lia. }
  destruct (n <? 4294967296) eqn:E4.
  { exists 26, (be_bytes 4 n). split; [reflexivity|]. split; [lia|]. intros r. unfold dec_arg.
    change (26 <? 24) with false. change (26 =? 24) with false. change (26 =? 25) with false.
    change (26 =? 26) with true. cbv iota.
    rewrite take_app by (unfold len; rewrite be_bytes_length; reflexivity).
    rewrite be_value_be_bytes; [reflexivity|]. change (256 ^ N.of_nat 4) with 4294967296. lia. }
  exists 27, (be_bytes 8 n). split; [reflexivity|]. split; [lia|]. intros r. unfold dec_arg.
  change (27 <? 24) with false. change (27 =? 24) with false. change (27 =? 25) with false.
  change (27 =? 26) with false. change (27 =? 27) with true. cbv iota.
  rewrite take_app by (unfold len; rewrite be_bytes_length; reflexivity).
  rewrite be_value_be_bytes; [reflexivity|]. change (256 ^ N.of_nat 8) with (2 ^ 64). exact H.
Qed.

Lemma head_length_pos m n : (1 <= length (head m n))%nat.
Proof. unfold head. repeat match goal with |- context [if ?c then _ else _] => destruct c end; cbn [length]; lia. Qed.

(* ------------------------------------------------------------------ *)
(* dec_byte on an initial byte m*32+ai with ai < 28: only the branch of
   major type m remains *)

Ltac kill_byte_tests :=
  repeat match goal with
         | |- context [(?a * 32 + ?b) =? ?c] => replace (a * 32 + b =? c) with false by lia
         end;
  cbn [orb].

Lemma dec_byte_major lim rec tag g m ai r : m < 7 -> ai < 28 ->
  dec_byte lim rec tag g (m * 32 + ai) r =
    if m =? 0 then
      match dec_arg ai r with
      | Some (n, r') => charge g 1 (ret (IInt (Z.of_N n)) r')
      | None => DErr
      end
    else if m =? 1 then
      match dec_arg ai r with
      | Some (n, r') =>
        let pos := (n + 1) mod 2 ^ 64 in
        if 2 ^ 63 <? pos then DErr else charge g 1 (ret (IInt (- Z.of_N pos)) r')
      | None => DErr
      end
    else if m =? 2 then
      match dec_payload lim ai r with
      | Some (p, r') =>
        charge g (len p) (fun g' =>
          match tag with
          | None => ret (IBytes p) r' g'
          | Some t =>
            if t =? 42 then
              match dec_link p with Some v => ret v r' g' | None => DErr end
            else DErr
          end)
      | None => DErr
      end
    else if m =? 3 then
      match dec_payload lim ai r with
      | Some (p, r') => charge g (len p) (ret (IString p) r')
      | None => DErr
      end
    else if m =? 4 then
      match dec_len lim ai r with
      | Some (n, r') =>
        if (g <? n) || (len r' <? n) then DErr
        else match dec_items (rec None) (N.to_nat n) g r' with
             | DOk (l, r'', g') => ret (IList l) r'' g'
             | DErr => DErr | DUnsup => DUnsup
             end
      | None => DErr
      end
    else if m =? 5 then
      match dec_len lim ai r with
      | Some (n, r') =>
        if (g <? n) || (len r' <? n) then DErr
        else match dec_entries lim (rec None) (N.to_nat n) [] g r' with
             | DOk (mm, r'', g') => ret (IMap mm) r'' g'
             | DErr => DErr | DUnsup => DUnsup
             end
      | None => DErr
      end
    else
      match tag with
      | Some _ => DErr
      | None =>
        match dec_len lim ai r with
        | Some (t, r') => rec (Some t) g r'
        | None => DErr
        end
      end.
Proof.
  intros Hm Hai. unfold dec_byte, dec_str.
  replace (m * 32 + ai =? 246) with false by lia.
  replace (m * 32 + ai =? 247) with false by lia.
  replace (m * 32 + ai =? 244) with false by lia.
  replace (m * 32 + ai =? 245) with false by lia.
  replace (m * 32 + ai =? 249) with false by lia.
  replace (m * 32 + ai =? 250) with false by lia.
  replace (m * 32 + ai =? 251) with false by lia.
  replace (m * 32 + ai =? 159) with false by lia.
  replace (m * 32 + ai =? 191) with false by lia.
  cbn [orb]. cbv zeta.
  rewrite div32, mod32 by lia.
  replace (ai =? 31) with false by lia.
  replace (m =? 6) with (negb ((m =? 0) || (m =? 1) || (m =? 2) || (m =? 3) || (m =? 4) || (m =? 5))) by lia.
  destruct (m =? 0); [reflexivity|]. destruct (m =? 1); [reflexivity|]. destruct (m =? 2); [reflexivity|].
  destruct (m =? 3); [reflexivity|]. destruct (m =? 4); [reflexivity|]. destruct (m =? 5); reflexivity.
Qed.

(* reading back a definite-length payload *)
Lemma dec_len_head lim m n : n < 2 ^ 64 -> n <= max_len lim ->
  exists ai p, head m n = (m * 32 + ai) :: p /\ ai < 28 /\
               forall r, dec_len lim ai (p ++ r) = Some (n, r).
Proof.
  intros H L. destruct (head_spec m n H) as (ai & p & E & Hai & D).
  exists ai, p. split; [exact E|]. split; [exact Hai|]. intros r. unfold dec_len. rewrite D.
  replace (max_len lim <? n) with false by lia. reflexivity.
Qed.

Lemma dec_payload_head lim m s : len s < 2 ^ 64 -> len s <= max_len lim -> len s <= max_str lim ->
  exists ai p, head m (len s) = (m * 32 + ai) :: p /\ ai < 28 /\
               forall r, dec_payload lim ai (p ++ s ++ r) = Some (s, r).
Proof.
  intros H L S. destruct (dec_len_head lim m (len s) H L) as (ai & p & E & Hai & D).
  exists ai, p. split; [exact E|]. split; [exact Hai|]. intros r. unfold dec_payload. rewrite D.
  replace (max_str lim <? len s) with false by lia. apply take_app. reflexivity.
Qed.

Lemma dec_key_enc lim k r : len k < 2 ^ 64 -> len k <= max_len lim -> len k <= max_str lim ->
  dec_key lim (head 3 (len k) ++ k ++ r) = Some (k, r).
Proof.
  intros H L S. destruct (dec_payload_head lim 3 k H L S) as (ai & p & E & Hai & D).
  rewrite E. cbn [app]. unfold dec_key. rewrite div32 by lia.
  change (3 =? 6) with false. cbv iota. unfold dec_key_untagged. rewrite div32 by lia.
  change (3 =? 3) with true. cbv iota. unfold dec_str. rewrite mod32 by lia.
  replace (ai =? 31) with false by lia. apply D.
Qed.

(* ------------------------------------------------------------------ *)
(* allocation budget consumed by decoding the encoding of v, and the
   largest length occurring in v *)

Definition gas_list (cost : ipld -> N) (l : list ipld) : N :=
  fold_right (fun x acc => 4 + cost x + acc) 0 l.
Definition gas_entries (cost : ipld -> N) (m : list (bstr * ipld)) : N :=
  fold_right (fun kv acc => len (fst kv) + 8 + cost (snd kv) + acc) 0 m.

Fixpoint gas_cost (v : ipld) : N :=
  match v with
  | INull => 0
  | IBool _ | IInt _ => 1
  | IString s => len s
  | IBytes b => len b
  | ILink c => len c + 1
  | IList l => fold_right (fun x acc => 4 + gas_cost x + acc) 0 l
  | IMap m => fold_right (fun kv acc => len (fst kv) + 8 + gas_cost (snd kv) + acc) 0 m
  end.

Fixpoint max_size (v : ipld) : N :=
  match v with
  | IString s => len s
  | IBytes b => len b
  | ILink c => len c + 1
  | IList l => fold_right (fun x acc => N.max (max_size x) acc) (len l) l
  | IMap m => fold_right (fun kv acc => N.max (N.max (len (fst kv)) (max_size (snd kv))) acc) (len m) m
  | _ => 0
  end.

Definition fits (lim : limits) (v : ipld) : Prop :=
  max_size v <= max_len lim /\ max_size v <= max_str lim.

Lemma gas_cost_list l : gas_cost (IList l) = gas_list gas_cost l.
Proof. reflexivity. Qed.
Lemma gas_cost_map m : gas_cost (IMap m) = gas_entries gas_cost m.
Proof. reflexivity. Qed.

Lemma gas_entries_perm cost m m' : Permutation m m' -> gas_entries cost m = gas_entries cost m'.
Proof.
  unfold gas_entries.
  induction 1 as [| x l l' _ IH | x y l | l l' l'' _ IH1 _ IH2]; cbn [fold_right].
  - reflexivity.
  - rewrite IH. reflexivity.
  - generalize (fold_right (fun kv acc => len (fst kv) + 8 + cost (snd kv) + acc) 0 l). intros n. lia.
  - congruence.
Qed.

Lemma fold_max_ge {A} (f : A -> N) l n :
  n <= fold_right (fun x acc => N.max (f x) acc) n l /\
  forall x, In x l -> f x <= fold_right (fun x acc => N.max (f x) acc) n l.
Proof.
  induction l as [|y l [IH1 IH2]]; cbn [fold_right].
  - split; [lia | intros x []].
  - split; [lia|]. intros x [->|I]; [lia|]. specialize (IH2 x I). lia.
Qed.

Lemma max_size_list_in l x : In x l -> max_size x <= max_size (IList l).
Proof. intros I. exact (proj2 (fold_max_ge max_size l (len l)) x I). Qed.

Lemma max_size_list_len l : len l <= max_size (IList l).
Proof. exact (proj1 (fold_max_ge max_size l (len l))). Qed.

Lemma max_size_map_in m kv : In kv m ->
  len (fst kv) <= max_size (IMap m) /\ max_size (snd kv) <= max_size (IMap m).
Proof.
  intros I.
  pose proof (proj2 (fold_max_ge (fun kv => N.max (len (fst kv)) (max_size (snd kv))) m (len m)) kv I) as H.
  cbv beta in H. change (fold_right _ (len m) m) with (max_size (IMap m)) in H. lia.
Qed.

Lemma max_size_map_len m : len m <= max_size (IMap m).
Proof. exact (proj1 (fold_max_ge (fun kv => N.max (len (fst kv)) (max_size (snd kv))) m (len m))). Qed.

Lemma len_le_gas_list cost l : len l <= gas_list cost l.
Proof. unfold gas_list, len. induction l as [|x l IH]; cbn [fold_right length]; lia. Qed.

Lemma len_le_gas_entries cost m : len m <= gas_entries cost m.
Proof. unfold gas_entries, len. induction m as [|x m IH]; cbn [fold_right length]; lia. Qed.

(* ------------------------------------------------------------------ *)
(* the loops read back a sequence of encoded items / entries           *)

Definition item_ok (item : N -> bstr -> dres (ipld * bstr * N)) (x : ipld) : Prop :=
  forall g r, gas_cost x <= g -> item g (cbor_encode x ++ r) = DOk (canon x, r, g - gas_cost x).

Lemma dec_items_enc item l : Forall (item_ok item) l ->
  forall g r, gas_list gas_cost l <= g ->
  dec_items item (length l) g (concat (map cbor_encode l) ++ r)
  = DOk (map canon l, r, g - gas_list gas_cost l).
Proof.
  induction 1 as [|x l Hx _ IH]; intros g r G; cbn [length dec_items map concat gas_list fold_right] in *.
  - rewrite N.sub_0_r. reflexivity.
  - unfold charge. replace (g <? 4) with false by lia.
    rewrite <- app_assoc. rewrite Hx by lia.
    rewrite IH by (unfold gas_list; lia).
    f_equal. f_equal. unfold gas_list. lia.
Qed.

Definition key_ok (lim : limits) (k : bstr) : Prop :=
  len k < 2 ^ 64 /\ len k <= max_len lim /\ len k <= max_str lim.

Lemma dec_entries_enc lim item es :
  Forall (fun kv => key_ok lim (fst kv) /\ item_ok item (snd kv)) es ->
  NoDup (map fst es) ->
  forall seen g r, (forall k, In k (map fst es) -> ~ In k seen) ->
  gas_entries gas_cost es <= g ->
  dec_entries lim item (length es) seen g
              (concat (map enc_entry (map (on_snd cbor_encode) es)) ++ r)
  = DOk (map (on_snd canon) es, r, g - gas_entries gas_cost es).
Proof.
  induction 1 as [|[k x] es [(K1 & K2 & K3) Hx] _ IH]; intros ND seen g r Hseen G;
    cbn [length dec_entries map concat gas_entries fold_right fst snd] in *.
  - rewrite N.sub_0_r. reflexivity.
  - inversion ND as [|? ? NI ND']; subst.
    change (on_snd cbor_encode (k, x)) with (k, cbor_encode x).
    change (on_snd canon (k, x)) with (k, canon x).
    unfold dec_entry, enc_entry at 1. cbn [fst snd].
    rewrite <- !app_assoc. rewrite dec_key_enc by assumption.
    unfold charge. replace (g <? len k + 8) with false by lia.
    replace (existsb (beq k) seen) with false.
    2:{ symmetry. destruct (existsb (beq k) seen) eqn:E; [|reflexivity].
        apply existsb_beq_In in E. exfalso. apply (Hseen k); [left; reflexivity | exact E]. }
    rewrite Hx by lia.
    rewrite IH.
    + f_equal. f_equal. unfold gas_entries. lia.
    + exact ND'.
    + intros k' I [E|I'].
      * subst. contradiction.
      * apply (Hseen k'); [right; exact I | exact I'].
    + unfold gas_entries. lia.
Qed.

(* ------------------------------------------------------------------ *)
(* lengths                                                             *)

Lemma cbor_encode_length_pos v : (1 <= length (cbor_encode v))%nat.
Proof.
  destruct v as [| [] | z | s | b | l | m | c]; cbn [cbor_encode app length]; try lia.
  - destruct (0 <=? z)%Z; apply head_length_pos.
  - rewrite app_length; pose proof (head_length_pos 3 (len s)); lia.
  - rewrite app_length; pose proof (head_length_pos 2 (len b)); lia.
  - rewrite app_length; pose proof (head_length_pos 4 (len l)); lia.
  - rewrite app_length; pose proof (head_length_pos 5 (len m)); lia.
Qed.

Lemma in_concat_length {A} (f : A -> bstr) l x :
  In x l -> (length (f x) <= length (concat (map f l)))%nat.
Proof.
  induction l as [|y l IH]; intros I; [contradiction|]. cbn [map concat]. rewrite app_length.
  destruct I as [->|I]; [lia|]. specialize (IH I). lia.
Qed.

Lemma concat_length_ge {A} (f : A -> bstr) l :
  (forall x, In x l -> (1 <= length (f x))%nat) -> (length l <= length (concat (map f l)))%nat.
Proof.
  induction l as [|y l IH]; intros H; [cbn; lia|]. cbn [map concat length]. rewrite app_length.
  pose proof (H y (or_introl eq_refl)). assert (length l <= length (concat (map f l)))%nat.
  { apply IH. intros x I. apply H. right. exact I. }
  lia.
Qed.

Lemma bytes_ok_len s : bytes_ok s = true -> len s < 2 ^ 64.
Proof. unfold bytes_ok. rewrite andb_true_iff. intros [_ H]. unfold len. lia. Qed.

Ltac major_tests :=
  repeat match goal with
         | |- context [N.eqb ?a ?b] =>
           let c := eval compute in (N.eqb a b) in
           match c with
           | true => change (N.eqb a b) with true
           | false => change (N.eqb a b) with false
           end
         end; cbv iota.

(* ------------------------------------------------------------------ *)
(* the round trip, for any limits and any sufficient budget and fuel    *)

Definition lim_ok (lim : limits) : Prop := 42 <= max_len lim.

Lemma dec_enc lim : lim_ok lim -> forall v, wf_ipld v = true -> fits lim v ->
  forall fuel g r, (length (cbor_encode v) <= fuel)%nat -> gas_cost v <= g ->
  dec_item lim fuel None g (cbor_encode v ++ r) = DOk (canon v, r, g - gas_cost v).
Proof.
  intros LO v.
  induction v as [| b | z | s | s | l IH | m IH | c] using ipld_ind'; intros WF [F1 F2] fuel g r FU G.
  - (* null *)
    destruct fuel as [|f]; [cbn in FU; lia|]. cbn [cbor_encode app dec_item gas_cost canon].
    unfold dec_byte. major_tests. cbn [orb]. unfold ret. rewrite N.sub_0_r. reflexivity.
  - (* bool *)
    destruct fuel as [|f]; [destruct b; cbn in FU; lia|]. cbn [gas_cost] in *.
    destruct b; cbn [cbor_encode app dec_item canon]; unfold dec_byte; major_tests; cbn [orb];
      unfold charge, ret; replace (g <? 1) with false by lia; reflexivity.
  - (* int *)
    cbn [wf_ipld] in WF. cbn [gas_cost canon] in *. cbn [cbor_encode] in *.
    destruct (0 <=? z)%Z eqn:S.
    + destruct (head_spec 0 (Z.to_N z)) as (ai & p & E & Hai & D); [lia|].
      rewrite E in *. destruct fuel as [|f]; [cbn in FU; lia|].
      cbn [app dec_item]. rewrite dec_byte_major by lia. major_tests. rewrite D.
      unfold charge, ret. replace (g <? 1) with false by lia. f_equal. f_equal. f_equal. f_equal. lia.
    + destruct (head_spec 1 (Z.to_N (-1 - z))) as (ai & p & E & Hai & D); [lia|].
      rewrite E in *. destruct fuel as [|f]; [cbn in FU; lia|].
      cbn [app dec_item]. rewrite dec_byte_major by lia. major_tests. rewrite D. cbv zeta.
      rewrite N.mod_small by lia.
      replace (2 ^ 63 <? Z.to_N (-1 - z) + 1) with false by lia.
      unfold charge, ret. replace (g <? 1) with false by lia. f_equal. f_equal. f_equal. f_equal. lia.
  - (* string *)
    cbn [wf_ipld max_size gas_cost canon cbor_encode] in *. apply bytes_ok_len in WF.
    destruct (dec_payload_head lim 3 s WF F1 F2) as (ai & p & E & Hai & D).
    rewrite E in *. destruct fuel as [|f]; [cbn in FU; lia|].
    cbn [app dec_item]. rewrite <- app_assoc. rewrite dec_byte_major by lia. major_tests. rewrite D.
    unfold charge, ret. replace (g <? len s) with false by lia. reflexivity.
  - (* bytes *)
    cbn [wf_ipld max_size gas_cost canon cbor_encode] in *. apply bytes_ok_len in WF.
    destruct (dec_payload_head lim 2 s WF F1 F2) as (ai & p & E & Hai & D).
    rewrite E in *. destruct fuel as [|f]; [cbn in FU; lia|].
    cbn [app dec_item]. rewrite <- app_assoc. rewrite dec_byte_major by lia. major_tests. rewrite D.
    unfold charge, ret. replace (g <? len s) with false by lia. reflexivity.
  - (* list *)
    cbn [wf_ipld] in WF. apply andb_true_iff in WF. destruct WF as [WL WF].
    assert (HL : len l < 2 ^ 64) by (unfold len; lia).
    pose proof (max_size_list_len l) as ML.
    destruct (dec_len_head lim 4 (len l) HL) as (ai & p & E & Hai & D); [lia|].
    cbn [cbor_encode] in *. rewrite E in *. destruct fuel as [|f]; [cbn in FU; lia|].
    cbn [app dec_item]. rewrite <- app_assoc. rewrite dec_byte_major by lia. major_tests. rewrite D.
    rewrite gas_cost_list in *. pose proof (len_le_gas_list gas_cost l) as LG.
    replace (g <? len l) with false by lia.
    assert (CL : (length l <= length (concat (map cbor_encode l)))%nat).
    { apply concat_length_ge. intros x _. apply cbor_encode_length_pos. }
    replace (len (concat (map cbor_encode l) ++ r) <? len l) with false
      by (unfold len; rewrite app_length; lia).
    cbn [orb]. unfold len at 1. rewrite Nat2N.id.
    rewrite dec_items_enc; [reflexivity | | exact G].
    rewrite Forall_forall in *. intros x Hx g' r' G'.
    rewrite forallb_forall in WF.
    apply IH; auto.
    + pose proof (max_size_list_in l x Hx). split; lia.
    + pose proof (in_concat_length cbor_encode l x Hx). rewrite app_length in FU. cbn [length] in FU. lia.
  - (* map *)
    pose proof (wf_map_nodup m WF) as ND.
    cbn [wf_ipld] in WF. rewrite !andb_true_iff in WF. destruct WF as [[WL WF] _].
    assert (HL : len m < 2 ^ 64) by (unfold len; lia).
    pose proof (max_size_map_len m) as ML.
    destruct (dec_len_head lim 5 (len m) HL) as (ai & p & E & Hai & D); [lia|].
    rewrite cbor_encode_map_eq in *. rewrite E in *. destruct fuel as [|f]; [cbn in FU; lia|].
    cbn [app dec_item]. rewrite <- app_assoc. rewrite dec_byte_major by lia. major_tests. rewrite D.
    rewrite gas_cost_map in *. pose proof (len_le_gas_entries gas_cost m) as LG.
    replace (g <? len m) with false by lia.
    pose proof (sort_map_perm m) as PM.
    assert (CL : (length m <= length (concat (map enc_entry (map (on_snd cbor_encode) (sort_map m)))))%nat).
    { rewrite <- (sort_map_length m), <- (map_length (on_snd cbor_encode) (sort_map m)).
      apply concat_length_ge. intros x _. unfold enc_entry. rewrite app_length.
      pose proof (head_length_pos 3 (len (fst x))). lia. }
    replace (len (concat (map enc_entry (map (on_snd cbor_encode) (sort_map m))) ++ r) <? len m) with false
      by (unfold len; rewrite app_length; lia).
    cbn [orb]. unfold len at 1. rewrite Nat2N.id. rewrite <- (sort_map_length m).
    rewrite (gas_entries_perm gas_cost m (sort_map m)) in * by (symmetry; exact PM).
    rewrite dec_entries_enc.
    + unfold ret. rewrite canon_map_eq, sort_map_map. reflexivity.
    + rewrite Forall_forall in *. intros kv Hkv.
      assert (Hm : In kv m) by (eapply Permutation_in; [exact PM | exact Hkv]).
      rewrite forallb_forall in WF. specialize (WF kv Hm). apply andb_true_iff in WF. destruct WF as [WK WV].
      pose proof (max_size_map_in m kv Hm) as [MK MV].
      split.
      * unfold key_ok. apply bytes_ok_len in WK.
        repeat split; [exact WK | eapply N.le_trans; eassumption | eapply N.le_trans; eassumption].
      * intros g' r' G'. apply IH; auto.
        -- split; (eapply N.le_trans; [exact MV | assumption]).
        -- pose proof (in_concat_length (fun kv => enc_entry (on_snd cbor_encode kv)) (sort_map m) kv Hkv) as IL.
           rewrite <- map_map in IL. unfold enc_entry at 1 in IL. unfold on_snd at 1 2 3 in IL. cbn [fst snd] in IL.
           rewrite !app_length in IL. rewrite app_length in FU. cbn [length] in FU. lia.
    + eapply Permutation_NoDup; [apply Permutation_map; symmetry; exact PM | exact ND].
    + intros k _ [].
    + exact G.
  - (* link *)
    cbn [wf_ipld max_size gas_cost canon cbor_encode] in *. apply andb_true_iff in WF. destruct WF as [WB WC].
    apply bytes_ok_len in WB. rename WB into HB.
    replace (len c + 1) with (len (0 :: c)) in * by (unfold len; cbn [length]; lia).
    destruct (dec_payload_head lim 2 (0 :: c) HB F1 F2) as (ai & p & E & Hai & D).
    change [216; 42] with (head 6 42) in *.
    destruct (dec_len_head lim 6 42) as (ai6 & p6 & E6 & Hai6 & D6); [lia | exact LO |].
    rewrite E6, E in *.
    destruct fuel as [|[|f]]; [cbn in FU; lia | cbn [app length] in FU; rewrite app_length in FU; cbn [length] in FU; lia |].
    cbn [app dec_item]. rewrite <- !app_assoc. rewrite dec_byte_major by lia. major_tests. rewrite D6.
    cbn [app dec_item]. rewrite dec_byte_major by lia. major_tests.
    rewrite <- app_assoc. rewrite D. unfold charge, ret. replace (g <? len (0 :: c)) with false by lia.
    unfold dec_link. rewrite WC. reflexivity.
Qed.

(* ------------------------------------------------------------------ *)
(* bounds relating the measures                                        *)

Lemma fold_max_le {A} (f : A -> N) l n B :
  n <= B -> (forall x, In x l -> f x <= B) -> fold_right (fun x acc => N.max (f x) acc) n l <= B.
Proof.
  intros Hn H. induction l as [|y l IH]; cbn [fold_right]; [exact Hn|].
  pose proof (H y (or_introl eq_refl)).
  assert (fold_right (fun x acc => N.max (f x) acc) n l <= B) by (apply IH; intros x I; apply H; right; exact I).
  lia.
Qed.

Lemma gas_list_in l x : In x l -> gas_cost x <= gas_list gas_cost l.
Proof.
  unfold gas_list. induction l as [|y l IH]; intros I; [contradiction|]. cbn [fold_right].
  destruct I as [->|I]; [lia|]. specialize (IH I). lia.
Qed.

Lemma gas_entries_in m kv : In kv m ->
  len (fst kv) <= gas_entries gas_cost m /\ gas_cost (snd kv) <= gas_entries gas_cost m.
Proof.
  unfold gas_entries. induction m as [|y m IH]; intros I; [contradiction|]. cbn [fold_right].
  destruct I as [->|I]; [lia|]. specialize (IH I). lia.
Qed.

Lemma max_size_le_gas v : max_size v <= gas_cost v.
Proof.
  induction v as [| | | | | l IH | m IH |] using ipld_ind'; cbn [max_size gas_cost]; try lia.
  - change (fold_right (fun x acc => 4 + gas_cost x + acc) 0 l) with (gas_list gas_cost l).
    apply fold_max_le; [apply len_le_gas_list|].
    rewrite Forall_forall in IH. intros x I. pose proof (IH x I). pose proof (gas_list_in l x I). lia.
  - change (fold_right (fun kv acc => len (fst kv) + 8 + gas_cost (snd kv) + acc) 0 m) with (gas_entries gas_cost m).
    apply (fold_max_le (fun kv => N.max (len (fst kv)) (max_size (snd kv)))); [apply len_le_gas_entries|].
    rewrite Forall_forall in IH. intros x I. pose proof (IH x I) as H. destruct (gas_entries_in m x I) as [A B].
    apply N.max_lub; [exact A | eapply N.le_trans; [exact H | exact B]].
Qed.

Lemma wf_max_size v : wf_ipld v = true -> max_size v <= 2 ^ 64.
Proof.
  induction v as [| | | s | s | l IH | m IH | c] using ipld_ind'; cbn [max_size wf_ipld]; intros WF; try lia.
  - apply bytes_ok_len in WF. lia.
  - apply bytes_ok_len in WF. lia.
  - apply andb_true_iff in WF. destruct WF as [WL WF]. rewrite forallb_forall in WF. rewrite Forall_forall in IH.
    apply fold_max_le; [unfold len; lia | auto].
  - rewrite !andb_true_iff in WF. destruct WF as [[WL WF] _]. rewrite forallb_forall in WF. rewrite Forall_forall in IH.
    apply (fold_max_le (fun kv => N.max (len (fst kv)) (max_size (snd kv)))); [unfold len; lia|].
    intros x I. specialize (WF x I). apply andb_true_iff in WF. destruct WF as [WK WV].
    apply bytes_ok_len in WK. specialize (IH x I WV).
    apply N.max_lub; [apply N.lt_le_incl; exact WK | exact IH].
  - apply andb_true_iff in WF. destruct WF as [WB _]. apply bytes_ok_len in WB.
    unfold len in *. cbn [length] in WB. lia.
Qed.

(* ------------------------------------------------------------------ *)
(* theorems about the codec as configured in go-ipld-prime             *)

(* the decoder's allocation budget suffices for (the encoding of) v *)
Definition in_budget (v : ipld) : bool := gas_cost v <=? go_gas.

Theorem cbor_roundtrip_rest v rest :
  wf_ipld v = true -> in_budget v = true ->
  cbor_decode (cbor_encode v ++ rest) = Some (canon v, rest).
Proof.
  intros WF B. unfold in_budget in B. apply N.leb_le in B.
  pose proof (max_size_le_gas v) as MS.
  assert (G : go_gas = 10485760) by reflexivity.
  assert (LO : lim_ok go_limits) by (unfold lim_ok, go_limits; cbn [max_len]; lia).
  assert (F : fits go_limits v) by (unfold fits, go_limits; cbn [max_len max_str]; rewrite G in B; split; lia).
  assert (FU : (length (cbor_encode v) <= length (cbor_encode v ++ rest))%nat) by (rewrite app_length; lia).
  unfold cbor_decode, cbor_decode_r.
  rewrite (dec_enc go_limits LO v WF F _ go_gas rest FU B). reflexivity.
Qed.

Theorem cbor_roundtrip v :
  wf_ipld v = true -> in_budget v = true ->
  cbor_decode_all (cbor_encode v) = Some (canon v).
Proof.
  intros WF B. unfold cbor_decode_all.
  rewrite <- (app_nil_r (cbor_encode v)). rewrite cbor_roundtrip_rest by assumption. reflexivity.
Qed.

(* beyond the budget the implementation's decoder is NOT total on encoder output; the model says so too
   for the simplest shape (one string longer than the budget) *)
Theorem cbor_budget_exceeded s :
  bytes_ok s = true -> go_gas < len s -> len s <= 33554432 ->
  cbor_decode_all (cbor_encode (IString s)) = None.
Proof.
  intros WF B L. apply bytes_ok_len in WF.
  destruct (dec_payload_head go_limits 3 s WF) as (ai & p & E & Hai & D);
    [unfold go_limits; cbn [max_len]; lia | unfold go_limits; cbn [max_str]; lia |].
  unfold cbor_decode_all, cbor_decode, cbor_decode_r. cbn [cbor_encode]. rewrite E. cbn [app length dec_item].
  rewrite <- (app_nil_r s) at 2. rewrite dec_byte_major by lia. major_tests. rewrite D.
  unfold charge. replace (go_gas <? len s) with true by lia. reflexivity.
Qed.

Definition big_limits : limits := {| max_len := 2 ^ 64; max_str := 2 ^ 64 |}.

(* canonical form does not change the bytes *)
Theorem cbor_encode_canon v : cbor_encode (canon v) = cbor_encode v.
Proof.
  induction v as [| | | | | l IH | m IH |] using ipld_ind'; try reflexivity.
  - cbn [canon cbor_encode]. unfold len. rewrite map_length, map_map. f_equal. f_equal.
    apply map_ext_Forall. exact IH.
  - rewrite canon_map_eq, !cbor_encode_map_eq. unfold len.
    rewrite sort_map_length, map_length. f_equal. f_equal. f_equal.
    rewrite sort_map_idem, sort_map_map, map_map.
    apply map_ext_Forall.
    assert (F : Forall (fun kv => cbor_encode (canon (snd kv)) = cbor_encode (snd kv)) (sort_map m)).
    { rewrite Forall_forall in *. intros x I. apply IH. eapply Permutation_in; [apply sort_map_perm | exact I]. }
    eapply Forall_impl; [|exact F]. intros kv H. unfold on_snd. cbn [fst snd]. rewrite H. reflexivity.
Qed.

(* insertion order of a map does not influence the bytes *)
Theorem cbor_encode_perm m m' :
  NoDup (map fst m) -> Permutation m m' -> cbor_encode (IMap m) = cbor_encode (IMap m').
Proof.
  intros ND P. rewrite !cbor_encode_map_eq. unfold len. rewrite (Permutation_length P).
  rewrite (sort_map_permutation m m' ND P). reflexivity.
Qed.

(* equal bytes, equal canonical values (tamper detection reduces to this) *)
Theorem cbor_encode_inj a b :
  wf_ipld a = true -> wf_ipld b = true -> cbor_encode a = cbor_encode b -> canon a = canon b.
Proof.
  intros WA WB E.
  assert (LO : lim_ok big_limits) by (unfold lim_ok, big_limits; cbn [max_len]; lia).
  assert (FA : fits big_limits a) by (pose proof (wf_max_size a WA); unfold fits, big_limits; cbn [max_len max_str]; lia).
  assert (FB : fits big_limits b) by (pose proof (wf_max_size b WB); unfold fits, big_limits; cbn [max_len max_str]; lia).
  pose proof (dec_enc big_limits LO a WA FA (length (cbor_encode a)) (gas_cost a + gas_cost b) []
                      (Nat.le_refl _) ltac:(lia)) as DA.
  pose proof (dec_enc big_limits LO b WB FB (length (cbor_encode a)) (gas_cost a + gas_cost b) []
                      ltac:(rewrite E; apply Nat.le_refl) ltac:(lia)) as DB.
  rewrite E in DA, DB. rewrite DA in DB. inversion DB. reflexivity.
Qed.

(* prefix-freeness: a value is followed by arbitrary bytes unambiguously *)
Theorem cbor_encode_prefix_free a b ra rb :
  wf_ipld a = true -> wf_ipld b = true ->
  cbor_encode a ++ ra = cbor_encode b ++ rb -> canon a = canon b /\ ra = rb.
Proof.
  intros WA WB E.
  assert (LO : lim_ok big_limits) by (unfold lim_ok, big_limits; cbn [max_len]; lia).
  assert (FA : fits big_limits a) by (pose proof (wf_max_size a WA); unfold fits, big_limits; cbn [max_len max_str]; lia).
  assert (FB : fits big_limits b) by (pose proof (wf_max_size b WB); unfold fits, big_limits; cbn [max_len max_str]; lia).
  pose proof (dec_enc big_limits LO a WA FA (length (cbor_encode a) + length (cbor_encode b)) (gas_cost a + gas_cost b) ra
                      ltac:(lia) ltac:(lia)) as DA.
  pose proof (dec_enc big_limits LO b WB FB (length (cbor_encode a) + length (cbor_encode b)) (gas_cost a + gas_cost b) rb
                      ltac:(lia) ltac:(lia)) as DB.
  rewrite E in DA. rewrite DA in DB. inversion DB. auto.
Qed.

(* what makes signatures re-verifiable after transport: the decoded value re-encodes to the same bytes *)
Theorem cbor_reencode v :
  wf_ipld v = true -> in_budget v = true ->
  exists v', cbor_decode_all (cbor_encode v) = Some v' /\ cbor_encode v' = cbor_encode v.
Proof.
  intros WF B. exists (canon v). split; [apply cbor_roundtrip; assumption | apply cbor_encode_canon].
Qed.

(* the model is a total function: every input is accepted with a value, rejected, or (floats) outside the
   modelled domain; there is no diverging or panicking case *)
Theorem cbor_decode_total b :
  (exists v r, cbor_decode_r b = DOk (v, r)) \/ cbor_decode_r b = DErr \/ cbor_decode_r b = DUnsup.
Proof. destruct (cbor_decode_r b) as [[v r]| |]; eauto. Qed.

Theorem cbor_decode_all_total b : {v | cbor_decode_all b = Some v} + {cbor_decode_all b = None}.
Proof. destruct (cbor_decode_all b) as [v|]; [left; exists v; reflexivity | right; reflexivity]. Qed.

(* corollaries used by the layers above *)
Corollary cbor_roundtrip_canonical v :
  wf_ipld v = true -> in_budget v = true -> canon v = v ->
  cbor_decode_all (cbor_encode v) = Some v.
Proof. intros WF B C. rewrite cbor_roundtrip by assumption. rewrite C. reflexivity. Qed.

Lemma gas_cost_canon v : gas_cost (canon v) = gas_cost v.
Proof.
  induction v as [| | | | | l IH | m IH |] using ipld_ind'; try reflexivity.
  - cbn [canon]. rewrite !gas_cost_list. unfold gas_list.
    induction IH as [|x l Hx _ IHl]; cbn [map fold_right]; [reflexivity|]. rewrite Hx, IHl. reflexivity.
  - rewrite canon_map_eq, !gas_cost_map.
    rewrite (gas_entries_perm gas_cost _ _ (sort_map_perm _)). unfold gas_entries.
    induction IH as [|x m Hx _ IHm]; cbn [map fold_right on_snd fst snd]; [reflexivity|]. rewrite Hx, IHm. reflexivity.
Qed.

Corollary in_budget_canon v : in_budget (canon v) = in_budget v.
Proof. unfold in_budget. rewrite gas_cost_canon. reflexivity. Qed.

(* a block that decodes and whose value is re-encoded: the bytes are those of the canonical value *)
Corollary cbor_decode_encode_stable v :
  wf_ipld v = true -> in_budget v = true ->
  cbor_decode_all (cbor_encode (canon v)) = Some (canon v).
Proof.
  intros WF B. rewrite cbor_encode_canon. apply cbor_roundtrip; assumption.
Qed.

(* ------------------------------------------------------------------ *)
(* non-vacuity and documented corner cases                             *)

Definition ex_cid : bstr := mk_cidv1 113 18 (repeat 7 32).

Definition ex_value : ipld :=
  IMap [ (bs "with", IString (bs "did:key:z6Mk"));
         (bs "a", IInt (-1));
         (bs "nb", IMap [ (bs "size", IInt 18446744073709551615);
                          (bs "link", ILink ex_cid);
                          (bs "", INull) ]);
         (bs "bb", IList [IInt (-9223372036854775808); IBytes [0; 255; 16]; IBool true; IList []; IInt 65536]);
         (bs "ab", IBool false) ].

Example ex_wf : wf_ipld ex_value = true /\ in_budget ex_value = true.
Proof. vm_compute. split; reflexivity. Qed.

Example ex_bytes :
  cbor_encode ex_value =
  hx "a5" ++ hx "6161" ++ hx "20"
  ++ hx "626162" ++ hx "f4"
  ++ hx "626262" ++ hx "85" ++ hx "3b7fffffffffffffff" ++ hx "4300ff10" ++ hx "f5" ++ hx "80" ++ hx "1a00010000"
  ++ hx "626e62" ++ hx "a3" ++ hx "60f6"
       ++ hx "646c696e6b" ++ hx "d82a" ++ hx "582500" ++ ex_cid
       ++ hx "6473697a65" ++ hx "1bffffffffffffffff"
  ++ hx "6477697468" ++ hx "6c" ++ bs "did:key:z6Mk".
Proof. vm_compute. reflexivity. Qed.

Example ex_roundtrip : cbor_decode_all (cbor_encode ex_value) = Some (canon ex_value).
Proof. vm_compute. reflexivity. Qed.

Example ex_canon_differs : canon ex_value <> ex_value.
Proof. intros E. apply ipld_eqb_eq in E. vm_compute in E. discriminate. Qed.

Example ex_perm :
  cbor_encode (IMap (rev [(bs "bb", IInt 1); (bs "a", IInt 2); (bs "ab", IInt 3)]))
  = cbor_encode (IMap [(bs "bb", IInt 1); (bs "a", IInt 2); (bs "ab", IInt 3)]).
Proof. vm_compute. reflexivity. Qed.

(* the decoder is more liberal than the encoder: it is not injective on bytes *)
Example dec_nonminimal_head : cbor_decode_all (hx "1805") = Some (IInt 5) /\ cbor_decode_all (hx "05") = Some (IInt 5).
Proof. vm_compute. split; reflexivity. Qed.
Example dec_unsorted_map_accepted :
  cbor_decode_all (hx "a2" ++ hx "626262" ++ hx "01" ++ hx "6161" ++ hx "02") = Some (IMap [(bs "bb", IInt 1); (bs "a", IInt 2)]).
Proof. vm_compute. reflexivity. Qed.
Example dec_duplicate_key_rejected :
  cbor_decode_all (hx "a2" ++ hx "6161" ++ hx "01" ++ hx "6161" ++ hx "02") = None.
Proof. vm_compute. reflexivity. Qed.
Example dec_indefinite_accepted :
  cbor_decode_all (hx "9f01ff") = Some (IList [IInt 1])
  /\ cbor_decode_all (hx "7f61616162ff") = Some (IString (bs "ab")).
Proof. vm_compute. repeat split; reflexivity. Qed.
Example dec_tag_ignored_on_non_bytes : cbor_decode_all (hx "d82a05") = Some (IInt 5) /\ cbor_decode_all (hx "c1c105") = None.
Proof. vm_compute. split; reflexivity. Qed.
Example dec_other_tag_on_bytes_rejected : cbor_decode_all (hx "c14100") = None.
Proof. vm_compute. reflexivity. Qed.
Example dec_undefined_is_null : cbor_decode_all (hx "f7") = Some INull.
Proof. vm_compute. reflexivity. Qed.
Example dec_negint_wraps : cbor_decode_all (hx "3bffffffffffffffff") = Some (IInt 0)
  /\ cbor_decode_all (hx "3b8000000000000000") = None /\ cbor_decode_all (hx "3b7fffffffffffffff") = Some (IInt (-9223372036854775808)).
Proof. vm_compute. repeat split; reflexivity. Qed.
Example dec_trailing_rejected : cbor_decode_all (hx "0101") = None /\ cbor_decode (hx "0101") = Some (IInt 1, [1]).
Proof. vm_compute. split; reflexivity. Qed.
Example dec_float_outside_model : cbor_decode_r (hx "f93c00") = DUnsup.
Proof. vm_compute. reflexivity. Qed.
