(* Check_Validator.v — evaluation of the validator model on the worlds the
   harness ran through validator.Access (correspondence for C01–C06, C19, C03). *)
From Ucanto Require Import Base Pattern Time Validator.
Open Scope N_scope.

(* ---- the harness's capability: mirrors withReader / cavReader / stdDerives in world.go *)

Definition std_with (w : bstr) : bool :=
  match w with [] => false | c :: _ => negb (c =? 33) end.       (* non-empty, not starting with '!' *)

Definition k_link := bs "link". Definition k_max := bs "max".
Definition k_tag := bs "tag".   Definition k_tags := bs "tags".
Definition k_hdr := bs "hdr".   Definition k_orig := bs "orig".

Definition field_ok (e : bstr * cval) : bool :=
  let '(k, v) := e in
  if beq k k_link then match v with VLink _ => true | _ => false end
  else if beq k k_max then match v with VInt _ => true | _ => false end
  else if beq k k_tag then match v with VStr _ => true | _ => false end
  else if beq k k_tags then match v with VList _ => true | _ => false end
  else if beq k k_hdr then match v with VMap _ => true | _ => false end
  else if beq k k_orig then match v with VLink _ | VNull => true | _ => false end   (* a nullable field *)
  else false.

Fixpoint nodup_keys (m : cmap) : bool :=
  match m with [] => true | (k, _) :: r => negb (has_key k r) && nodup_keys r end.

Definition cget (k : bstr) (m : cmap) : option cval := slookup k m.

(* the typed caveats keep the four fields in a fixed order (Cav.ToIPLD) *)
Definition normalize (m : cmap) : cmap :=
  filter_map (fun k => match cget k m with Some v => Some (k, v) | None => None end)
             [k_link; k_max; k_tag; k_tags; k_hdr; k_orig].

Definition std_nb (n : nbv) : option cmap :=
  match n with
  | NbMap m => if forallb field_ok m && nodup_keys m then Some (normalize m) else None
  | _ => None
  end.

Definition subsetb (a b : list bstr) : bool := forallb (fun x => existsb (beq x) b) a.

Definition std_derives (c d : cap) : bool :=
  default_derives (wth c) (wth d) &&
  match cget k_link (nb d) with
  | Some dv => match cget k_link (nb c) with Some cv => cval_eqb cv dv | None => false end
  | None => true end &&
  match cget k_tag (nb d) with
  | Some dv => match cget k_tag (nb c) with Some cv => cval_eqb cv dv | None => false end
  | None => true end &&
  match cget k_max (nb d) with
  | Some (VInt dz) => match cget k_max (nb c) with Some (VInt cz) => (cz <=? dz)%Z | _ => false end
  | Some _ => false
  | None => true end &&
  match cget k_tags (nb d) with
  | Some (VList dl) => match cget k_tags (nb c) with Some (VList cl) => subsetb cl dl | _ => false end
  | Some _ => false
  | None => true end &&
  (* orig: whatever the delegation wrote — a link or an explicit null — the claim must state the same *)
  match cget k_orig (nb d) with
  | Some dv => match cget k_orig (nb c) with Some cv => cval_eqb cv dv | None => false end
  | None => true end &&
  match cget k_hdr (nb d) with
  | Some (VMap dm) => match cget k_hdr (nb c) with
                      | Some (VMap cm) => forallb (fun e => existsb (fun e' => beq (fst e) (fst e') && beq (snd e) (snd e')) dm) cm
                      | _ => false end
  | Some _ => false
  | None => true end.

Definition std_desc (can : bstr) : desc := mkDesc can std_with std_nb std_derives.

(* ---- a world + what the implementation was observed to do *)

Record wcase := {
  wc_id : N;
  wc_tokens : list (link * token);
  wc_inv : dlg;
  wc_can : bstr;
  wc_authority : verifier;
  wc_self : bool;
  wc_owners : list (bstr * did);
  wc_revoked : list link;
  wc_resolver : list (link * dlg);
  wc_principals : list (bstr * verifier);
  wc_keyres : list (did * did);
  wc_now : Z;
  ob_auth : bool;
  ob_path : list (link * cap);
  ob_verifies : list N;
  ob_checks : list (list (link * cap) * bool);
  ob_derives : list (cap * cap * bool);
  ob_err_revoked : bool }.

Definition cap_eqb (a b : cap) : bool :=
  beq (can a) (can b) && beq (wth a) (wth b) &&
  list_eqb (fun x y => beq (fst x) (fst y) && cval_eqb (snd x) (snd y)) (nb a) (nb b).

Definition path_eqb (a b : list (link * cap)) : bool :=
  list_eqb (fun x y => (fst x =? fst y) && cap_eqb (snd x) (snd y)) a b.

Fixpoint dlookup (d : did) (m : list (did * did)) : option did :=
  match m with [] => None | (k, v) :: r => if did_eqb d k then Some v else dlookup d r end.

Definition wc_ctx (w : wcase) : ctx :=
  mkCtx (wc_authority w)
    (fun c d => (wc_self w && beq (wth c) (did_str d)) ||
                existsb (fun e => beq (fst e) (wth c) && did_eqb (snd e) d) (wc_owners w))
    (fun a => existsb (fun n => existsb (N.eqb (fst n)) (wc_revoked w)) (path_of a))
    (fun l => alookup l (wc_resolver w))
    (fun s => slookup s (wc_principals w))
    (fun d => dlookup d (wc_keyres w))
    (wc_now w).

Definition wc_U (w : wcase) (l : link) : option token := alookup l (wc_tokens w).

Definition fuel : nat := 40.

Definition run_world_with (d : bstr -> desc) (w : wcase) : ares * list event :=
  access (wc_U w) (wc_ctx w) fuel (d (wc_can w)) (wc_inv w).
Definition run_world (w : wcase) : ares * list event := run_world_with std_desc w.

(* NewCapability(can, with, nb, nil): the capability declared WITHOUT a derivation rule gets DefaultDerives
   (resource containment only); its calls are not observable from outside, so the Derives log is not compared *)
Definition dd_desc (can : bstr) : desc := mkDesc can std_with std_nb (fun c d => default_derives (wth c) (wth d)).

Definition ev_verifies (ev : list event) : list N :=
  filter_map (fun e => match e with EvVerify _ k => Some k | _ => None end) ev.
Definition ev_checks (ev : list event) : list (list (link * cap) * bool) :=
  filter_map (fun e => match e with EvCheck a r => Some (path_of a, r) | _ => None end) ev.
(* Derives calls of the harness capability (the session capability's calls are internal) *)
Definition ev_derives (can : bstr) (ev : list event) : list (cap * cap * bool) :=
  filter_map (fun e => match e with
                       | EvDerive c d ok => if beq (can) attest_can then None else
                                            if beq (Validator.can c) attest_can then None else Some (c, d, ok)
                       | _ => None end) ev.

(* 0 = agreement; otherwise the first observable that differs *)
Definition check_world_with (dd : bool) (w : wcase) : N :=
  let '(r, ev) := run_world_with (if dd then dd_desc else std_desc) w in
  let derives_agree :=
    dd || list_eqb (fun x y => cap_eqb (fst (fst x)) (fst (fst y)) && cap_eqb (snd (fst x)) (snd (fst y))
                                       && Bool.eqb (snd x) (snd y))
                   (ev_derives (wc_can w) ev) (ob_derives w) in
  match r with
  | AFuel => 9
  | AOk a =>
    if negb (ob_auth w) then 1
    else if negb (path_eqb (path_of a) (ob_path w)) then 2
    else if negb (list_eqb N.eqb (ev_verifies ev) (ob_verifies w)) then 3
    else if negb (list_eqb (fun x y => path_eqb (fst x) (fst y) && Bool.eqb (snd x) (snd y))
                           (ev_checks ev) (ob_checks w)) then 4
    else if negb derives_agree then 5
    else 0
  | AErr e =>
    if ob_auth w then 1
    else if negb (list_eqb N.eqb (ev_verifies ev) (ob_verifies w)) then 3
    else if negb (list_eqb (fun x y => path_eqb (fst x) (fst y) && Bool.eqb (snd x) (snd y))
                           (ev_checks ev) (ob_checks w)) then 4
    else if negb derives_agree then 5
    else if negb (Bool.eqb (has_revoked e) (ob_err_revoked w)) then 6
    else 0
  end.
Definition check_world (w : wcase) : N := check_world_with false w.

(* (world id, code) for every disagreeing world *)
Definition check_worlds (l : list wcase) : list (N * N) :=
  filter_map (fun w => let c := check_world w in if c =? 0 then None else Some (wc_id w, c)) l.
Definition check_worlds_dd (l : list wcase) : list (N * N) :=
  filter_map (fun w => let c := check_world_with true w in if c =? 0 then None else Some (wc_id w, c)) l.

(* only the verdict (used where the returned path may legitimately differ) *)
Definition check_world_verdict (w : wcase) : N :=
  let '(r, ev) := run_world w in
  match r with
  | AFuel => 9
  | AOk _ => if ob_auth w then 0 else 1
  | AErr _ => if ob_auth w then 1 else 0
  end.
Definition check_worlds_verdict (l : list wcase) : list (N * N) :=
  filter_map (fun w => let c := check_world_verdict w in if c =? 0 then None else Some (wc_id w, c)) l.
