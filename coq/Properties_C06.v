(* C06 — A valid chain is always found, whatever surrounds it. *)
From Ucanto Require Import Base Pattern Time Validator ValidatorSpec ValidatorComplete.
From Coq Require Import Permutation.

(* `derivable n ds m`: among the VALIDATED sources below match m (a membership-based,
   order-free notion) there is a capability from which m's capability derives and which
   either can be issued by its issuer or is itself derivable with n-1 further levels.
   `claimable`: the same at the top level, starting from a capability of the invocation. *)

(* completeness: when a chain exists and nothing is revoked, Access never answers with an
   error (the only other outcome of the model is fuel exhaustion) *)
Theorem C06_complete : forall U C n ds inv,
  (forall x, revoked C x = false) ->
  claimable U C (claim U C n) n ds [inv] ->
  forall e, fst (access U C (S n) ds inv) <> AErr e.
Proof. exact access_complete. Qed.
Print Assumptions C06_complete.

Theorem C06_authorize_complete : forall U C claim_prev n ds m,
  derivable U C claim_prev n ds m -> forall e, fst (authorize U C claim_prev n ds m) <> AErr e.
Proof. exact authorize_complete. Qed.
Print Assumptions C06_authorize_complete.

(* conversely an authorization implies derivability: together, "authorized" is a property of
   the set of validated sources and not of their order, multiplicity or of additional ones *)
Theorem C06_authorized_iff_derivable : forall U C claim_prev n ds m a,
  fst (authorize U C claim_prev n ds m) = AOk a -> derivable U C claim_prev n ds m.
Proof. exact authorize_derivable. Qed.
Print Assumptions C06_authorized_iff_derivable.

(* the candidates a match selects are exactly: sources (any position in the list, any
   capability of any token) whose capability resolves and derives *)
Theorem C06_select_all : forall ds claimed srcs s c',
  In (s, c') (fst (select_derived ds claimed srcs)) <->
  In s srcs /\ derives_from ds claimed s c'.
Proof. exact select_derived_iff. Qed.
Print Assumptions C06_select_all.

(* permuting the candidate matches does not change whether the search fails *)
Theorem C06_order_irrelevant : forall U C rec ms ms',
  Permutation ms ms' -> (forall m, fst (rec m) <> AFuel) ->
  forall f f', (exists e, fst (auth_loop U C rec ms f) = AErr e) <->
               (exists e, fst (auth_loop U C rec ms' f') = AErr e).
Proof. exact auth_loop_perm. Qed.
Print Assumptions C06_order_irrelevant.

(* the chain described by a returned authorization is itself valid (= C01_sound) *)
Theorem C06_returned_chain_valid :
  forall (U : link -> option token) (C : ctx),
    (forall l p, resolve_proof C l = Some p -> d_link p = l) ->
  forall n ds inv a,
    fst (access U C n ds inv) = AOk a -> P U C n ds [inv] a.
Proof. exact access_sound. Qed.
Print Assumptions C06_returned_chain_valid.
