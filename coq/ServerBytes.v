(* ServerBytes.v — the server from the request BODY:

     request.Decode(body)                 MessageBytes.decode_message   (CAR, block table, root message)
     every block of the table as a token  TokenView.view_block          (typed decoding, the accessors)
     server.Execute                       Server.execute                (Run per invocation, validator.Access)

   composed into serve_bytes : body -> served.  Links are numbered by MessageBytes.bstr_code, an
   injective function of the CID bytes, so nothing about the numbering is assumed.  The symbolic
   signature (keys, valid, alg_of), the server (its context, its handlers) and the blocks its proof
   resolver can supply beyond those of the request (extb) are parameters. *)
From Ucanto Require Import Base Varint Ipld Cbor Formats Blockstore MessageFormat Cid Car BaseEnc DagJson Signing.
From Ucanto Require Import MessageBytes TokenBytes.
From Ucanto Require Import Pattern Time Validator ValidatorSpec ValidatorTerm Server ServerTotal EndToEnd TokenView.
From Ucanto Require Export LinkId.
From Ucanto Require Import LinkIntegrity.
From Coq Require Import ZifyBool ZifyN ZifyNat.
Open Scope N_scope.

(* the block table as a function of link numbers: the first block whose CID has that number *)
Definition B_of (blocks : list (bstr * bstr)) (l : link) : option bstr :=
  match find (fun cb => lid (fst cb) =? l) blocks with Some cb => Some (snd cb) | None => None end.

Definition vis_of (blocks : list (bstr * bstr)) : list link := map (fun cb => lid (fst cb)) blocks.
Definition exec_of (m : amsg) : list link := map lid (invocations_bytes m).

Lemma B_of_some blocks l data : B_of blocks l = Some data -> exists c, In (c, data) blocks /\ lid c = l.
Proof.
  unfold B_of. destruct (find (fun cb => lid (fst cb) =? l) blocks) as [[c d]|] eqn:F; [|discriminate].
  intros E. inversion E; subst. apply find_some in F. destruct F as [I H]. apply N.eqb_eq in H.
  exists c. auto.
Qed.

Lemma B_of_in blocks c data : NoDup (map fst blocks) -> In (c, data) blocks -> B_of blocks (lid c) = Some data.
Proof.
  unfold B_of. induction blocks as [|[k v] blocks IH]; cbn [map fst find]; intros ND I; [contradiction|].
  inversion ND as [|? ? NI ND']; subst. cbn [fst snd]. destruct I as [E|I].
  - inversion E; subst. rewrite N.eqb_refl. reflexivity.
  - destruct (lid k =? lid c) eqn:B.
    + apply N.eqb_eq in B. apply lid_inj in B. subst. exfalso. apply NI. apply in_map_iff. exists (c, data). auto.
    + apply IH; assumption.
Qed.

Lemma B_of_none blocks l : ~ In l (vis_of blocks) -> B_of blocks l = None.
Proof.
  unfold B_of, vis_of. intros NI.
  destruct (find (fun cb => lid (fst cb) =? l) blocks) as [cb|] eqn:F; [|reflexivity].
  apply find_some in F. destruct F as [I H]. apply N.eqb_eq in H. exfalso. apply NI.
  apply in_map_iff. exists cb. auto.
Qed.

(* blocks of the request shadow further blocks with the same CID *)
Lemma B_of_app_vis blocks ext l : In l (vis_of blocks) -> B_of (blocks ++ ext) l = B_of blocks l /\ B_of blocks l <> None.
Proof.
  unfold B_of, vis_of. induction blocks as [|[k v] blocks IH]; cbn [map In app find fst snd]; [intros []|].
  intros [E|I].
  - subst l. rewrite N.eqb_refl. split; [reflexivity|discriminate].
  - destruct (lid k =? l); [split; [reflexivity|discriminate]|]. apply IH. exact I.
Qed.

Lemma B_of_app_in blocks ext c data :
  NoDup (map fst blocks) -> In (c, data) blocks -> B_of (blocks ++ ext) (lid c) = Some data.
Proof.
  intros ND I.
  assert (V : In (lid c) (vis_of blocks)) by (unfold vis_of; apply in_map_iff; exists (c, data); auto).
  destruct (B_of_app_vis blocks ext (lid c) V) as [E _]. rewrite E. apply B_of_in; assumption.
Qed.

Section Serve.
  Variable mh_digest : N -> N -> bstr -> option bstr.
  Variable hdr_oracle : bstr -> option (list bstr * N).
  Variable keys : list N.
  Variable valid : N -> bstr -> bstr -> bool.
  Variable alg_of : N -> bstr.
  Variable fuel : nat.
  Variable srv : server.
  Variable extb : list (bstr * bstr).       (* blocks the server's proof resolver can supply *)
  (* how a block is read as a token: TokenView.view_block, or any function equal to it on every
     block (the correspondence uses one that looks DID strings up in a table computed once) *)
  Variable view : bstr -> token.
  Hypothesis Hview : forall b, view b = view_block lid keys valid alg_of b.
  Notation decode := (decode_message mh_digest hdr_oracle).

  (* the token store of a request: every block of the request (and of the resolver), read as the
     accessors read it *)
  Definition view_tbl (bl : list (bstr * bstr)) : list (link * token) :=
    map (fun cb => (lid (fst cb), view (snd cb))) bl.

  (* the table of views is computed ONCE (let-bound outside the function: what makes the
     evaluation of serve_bytes on real request bodies cheap) *)
  Definition U_of (blocks : list (bstr * bstr)) : link -> option token :=
    let tbl := view_tbl (blocks ++ extb) in
    fun l => match find (fun e => fst e =? l) tbl with Some e => Some (snd e) | None => None end.

  (* pointwise it is TokenView.store_of of the block table *)
  Lemma U_of_spec blocks l :
    U_of blocks l = option_map (view_block lid keys valid alg_of) (B_of (blocks ++ extb) l).
  Proof.
    unfold U_of, B_of, view_tbl. cbv zeta. induction (blocks ++ extb) as [|[k v] bl IH]; [reflexivity|].
    cbn [map find fst snd]. destruct (lid k =? l); [cbn [option_map]; rewrite Hview; reflexivity | exact IH].
  Qed.

  Definition blocks_of (d : decoded) : list (bstr * bstr) := tbl_blocks (d_store d).

  (* server.Execute on a decoded request *)
  Definition serve_decoded (d : decoded) : exec_result :=
    execute (U_of (blocks_of d)) fuel srv (vis_of (blocks_of d)) (exec_of (d_msg d)).

  Inductive served :=
  | SBad                         (* request.Decode fails: the 400 answer, nothing runs *)
  | SDone (r : exec_result).     (* Execute's answer: a report with the handler calls, or an error value *)

  Definition serve_bytes (body : bstr) : served :=
    match decode body with None => SBad | Some d => SDone (serve_decoded d) end.

  Definition calls_of (s : served) : list call :=
    match s with SDone (ExecOk _ calls) => calls | _ => [] end.

  (* ---------------------------------------------------------------- *)
  (* the decision, for every body                                      *)

  Theorem serve_bytes_bad body : decode body = None <-> serve_bytes body = SBad.
  Proof. unfold serve_bytes. destruct (decode body); split; congruence. Qed.

  Theorem serve_bytes_done body r :
    serve_bytes body = SDone r <-> exists d, decode body = Some d /\ r = serve_decoded d.
  Proof.
    unfold serve_bytes. destruct (decode body) as [d|]; split.
    - intros E. inversion E. eauto.
    - intros [d' [E ->]]. inversion E. reflexivity.
    - discriminate.
    - intros [d' [E _]]. discriminate.
  Qed.

  (* nothing runs for a body that does not decode (C20_bytes_400 without the headers) *)
  Corollary serve_bytes_bad_no_calls body : decode body = None -> calls_of (serve_bytes body) = [].
  Proof. intros H. apply serve_bytes_bad in H. rewrite H. reflexivity. Qed.

  (* ---------------------------------------------------------------- *)
  (* (a) totality                                                      *)

  (* a bound on the number of proofs any block of the request cites *)
  Definition prf_bound (blocks : list (bstr * bstr)) : nat :=
    S (fold_right (fun cb acc => Nat.max (length (t_prf (view (snd cb)))) acc) 0%nat (blocks ++ extb)).

  Lemma prf_bound_pos blocks : (0 < prf_bound blocks)%nat.
  Proof. unfold prf_bound. lia. Qed.

  Lemma prf_bound_spec blocks l t : U_of blocks l = Some t -> (length (t_prf t) <= prf_bound blocks)%nat.
  Proof.
    rewrite U_of_spec. destruct (B_of (blocks ++ extb) l) as [data|] eqn:E; [|discriminate].
    cbn [option_map]. intros H. inversion H; subst. clear H.
    apply B_of_some in E. destruct E as [c [I _]]. unfold prf_bound.
    induction (blocks ++ extb) as [|[k v] bl IH]; [destruct I|]. cbn [fold_right snd]. destruct I as [E|I].
    - inversion E; subst. rewrite Hview. lia.
    - specialize (IH I). lia.
  Qed.

  (* Every body gets an answer: 400, a report, or an error value — never a crash outcome (the type
     has none) and never divergence: with the resolver hypothesis, a content-addressed (acyclic)
     block table and enough fuel the model does not run out of fuel. *)
  Theorem serve_bytes_total body :
    (forall l p, resolve_proof (s_ctx srv) l = Some p -> d_link p = l) ->
    forall rank : link -> nat,
    (forall d, decode body = Some d ->
       forall l t p, U_of (blocks_of d) l = Some t -> In p (t_prf t) -> (rank p < rank l)%nat) ->
    (forall d, decode body = Some d ->
       forall l, In l (exec_of (d_msg d)) -> (need (prf_bound (blocks_of d)) (rank l) + 1 <= fuel)%nat) ->
    serve_bytes body = SBad \/ serve_bytes body = SDone ExecErr \/
    exists rep calls, serve_bytes body = SDone (ExecOk rep calls).
  Proof.
    intros Hres rank Hac Hf. unfold serve_bytes. destruct (decode body) as [d|] eqn:D; [|left; reflexivity].
    right. unfold serve_decoded.
    pose proof (execute_total (U_of (blocks_of d)) srv Hres rank (Hac d eq_refl)
                  (prf_bound (blocks_of d)) (prf_bound_spec (blocks_of d)) (prf_bound_pos _)
                  fuel (vis_of (blocks_of d)) (exec_of (d_msg d)) (fun x => x) (Hf d eq_refl)) as T.
    unfold execute. destruct (execute_sched _ _ _ _ _ _) as [rep calls| |]; [right; eauto | left; reflexivity | contradiction].
  Qed.

  (* ---------------------------------------------------------------- *)
  (* (c) from the body to "a handler ran only for a complete valid chain" *)

  Lemma tbl_blocks_get s c data : In (c, data) (tbl_blocks s) -> tbl_get s c = Some data.
  Proof.
    unfold tbl_blocks. intros I. apply filter_map_in in I. destruct I as [k [_ F]].
    destruct (tbl_get s k) as [d'|] eqn:G; [|discriminate]. inversion F; subst. exact G.
  Qed.

  (* Every handler call made for a request body belongs to an entry of the message's execute list
     whose block travelled in the body, decodes (typed decoding) to a UCAN with exactly one
     capability that names the handler, and carries a complete valid chain: the specification P of
     C01, with every signature clause stated on the signed bytes of a block of this body. *)
  Theorem serve_bytes_calls_have_valid_chains body rep calls :
    (forall l p, resolve_proof (s_ctx srv) l = Some p -> d_link p = l) ->
    serve_bytes body = SDone (ExecOk rep calls) ->
    exists d, decode body = Some d /\
    forall k, In k calls ->
    exists cid data ut h a c,
      In cid (invocations_bytes (d_msg d)) /\ tbl_get (d_store d) cid = Some data /\
      token_decode_typed data = Some ut /\
      map (view_cap lid) (u_att ut) = [c] /\ find_handler (r_can c) (s_service srv) = Some h /\
      k = (h_can h, node_cap a) /\
      let U := U_of (blocks_of d) in
      let inv := mkDlg (lid cid) (vis_of (blocks_of d)) in
      P U (s_ctx srv) fuel (h_desc h) [inv] a /\
      P_sg U (s_ctx srv) (sig_ok_bytes (B_of (blocks_of d ++ extb)) lid keys valid alg_of) fuel (h_desc h) [inv] a.
  Proof.
    intros Hres H. apply serve_bytes_done in H. destruct H as [d [D E]]. exists d. split; [exact D|].
    intros k Hk. unfold serve_decoded in E. symmetry in E.
    destruct (request_calls_have_valid_chains (U_of (blocks_of d)) fuel srv Hres _ _ _ _ E k Hk)
      as (l & h & a & t & c & Hl & Hv & Ek & Ht & Hc & Hf & HP).
    unfold exec_of in Hl. apply in_map_iff in Hl. destruct Hl as [cid [El Hcid]]. subst l.
    (* the invocation's token is the view of a block of the table *)
    unfold tok in Ht. rewrite U_of_spec in Ht. cbn [d_link] in Ht.
    destruct (B_of_app_vis (blocks_of d) extb (lid cid) Hv) as [EB _]. rewrite EB in Ht.
    destruct (B_of (blocks_of d) (lid cid)) as [data|] eqn:B; [|discriminate].
    cbn [option_map] in Ht. inversion Ht as [Ht']. clear Ht.
    apply B_of_some in B. destruct B as [c' [I Ec]]. apply lid_inj in Ec. subst c'.
    apply tbl_blocks_get in I.
    destruct (token_decode_typed data) as [ut|] eqn:TD.
    - rewrite (view_block_decoded lid keys valid alg_of data ut TD) in Ht'. subst t.
      cbn [view_token view_token_with t_caps] in Hc.
      exists cid, data, ut, h, a, c. cbv zeta.
      split; [exact Hcid|]. split; [exact I|]. split; [exact TD|]. split; [exact Hc|].
      split; [exact Hf|]. split; [exact Ek|]. split; [exact HP|].
      apply P_to_sg; [apply sig_ok_to_bytes_U; apply U_of_spec | exact HP].
    - rewrite (view_block_undecodable lid keys valid alg_of data TD) in Ht'. subst t. discriminate Hc.
  Qed.

  (* ---------------------------------------------------------------- *)
  (* (b) refinement: a body written by the library's encoders          *)

  Lemma firsts_nodup (l seen : list bstr) :
    NoDup l -> (forall x, In x l -> ~ In x seen) -> firsts bstr beq seen l = l.
  Proof.
    revert seen. induction l as [|x l IH]; intros seen ND H; [reflexivity|].
    inversion ND as [|? ? NI ND']; subst. cbn [firsts].
    destruct (memk bstr beq x seen) eqn:M.
    - apply (memk_In bstr beq beq_eq) in M. exfalso. apply (H x); [left; reflexivity | exact M].
    - f_equal. apply IH; [exact ND'|]. intros y Hy [E|I]; [subst; contradiction|].
      apply (H y); [right; exact Hy | exact I].
  Qed.

  Lemma tbl_blocks_run_puts blocks : NoDup (map fst blocks) -> tbl_blocks (run_puts bstr bstr beq blocks) = blocks.
  Proof.
    intros ND. unfold tbl_blocks.
    destruct (seq_spec bstr bstr beq beq_eq blocks) as [_ [_ [G [K _]]]].
    rewrite K, (firsts_nodup _ [] ND) by (intros x _ []).
    assert (E : forall k, tbl_get (run_puts bstr bstr beq blocks) k = first_val bstr bstr beq k blocks) by exact G.
    clear K G.
    assert (F : forall l, (forall cb, In cb l -> In cb blocks) ->
              filter_map (fun k => match tbl_get (run_puts bstr bstr beq blocks) k with Some d => Some (k, d) | None => None end) (map fst l) = l).
    { induction l as [|[k v] l IH]; intros Sub; [reflexivity|]. cbn [map fst filter_map].
      rewrite E. rewrite (first_val_of_in k v blocks ND (Sub _ (or_introl eq_refl))).
      f_equal. apply IH. intros cb Hcb. apply Sub. right. exact Hcb. }
    apply F. auto.
  Qed.

  (* a request built from a message m and tokens: the blocks of the tokens, then the root block *)
  Definition request_blocks (toks : list (bstr * utoken)) (root : bstr) (m : amsg) : list (bstr * bstr) :=
    map (fun ct => (fst ct, token_bytes (snd ct))) toks ++ [(root, message_bytes m)].

  (* On such a body serve_bytes IS Server.execute on the world of exactly those blocks: the execute
     list of the message, every block visible ... *)
  Theorem serve_bytes_refines m root toks :
    wf_ipld (message_ipld m) = true -> in_budget (message_ipld m) = true ->
    let blocks := request_blocks toks root m in
    roots_ok 1 [root] -> Forall (block_ok mh_digest) blocks -> NoDup (map fst blocks) ->
    msg_root_ok mh_digest root (message_bytes m) ->
    serve_bytes (car_encode [root] blocks) =
    SDone (execute (U_of blocks) fuel srv (vis_of blocks) (exec_of (canon_msg m))).
  Proof.
    intros W B blocks R F ND I. unfold serve_bytes.
    assert (In (root, message_bytes m) blocks) as Hin by (apply in_or_app; right; left; reflexivity).
    rewrite (decode_message_roundtrip_in mh_digest hdr_oracle m root blocks W B R F ND Hin I).
    unfold serve_decoded, blocks_of. cbn [d_store d_msg]. rewrite (tbl_blocks_run_puts blocks ND). reflexivity.
  Qed.

  (* ... whose token store is, pointwise, the abstract world: the view of each token (in the
     canonical form the decoder returns), the empty token for the message's own root block, nothing
     for any other link *)
  Lemma message_not_a_token m :
    wf_ipld (message_ipld m) = true -> in_budget (message_ipld m) = true ->
    token_decode_typed (message_bytes m) = None.
  Proof.
    intros W B. unfold token_decode_typed, message_bytes. rewrite (cbor_roundtrip_t _ W B). cbn [obind].
    unfold message_ipld, struct_map. cbn [concat field app]. rewrite canon_map_eq. cbn [map].
    unfold on_snd at 1. cbn [fst snd].
    assert (S1 : forall (k : bstr) (x : ipld), sort_map [(k, x)] = [(k, x)]) by reflexivity.
    rewrite S1. unfold ucan_of_typed. cbn [as_map obind ofold ucan_step].
    change (field_id k_msg7) with (@None fid). reflexivity.
  Qed.

  Theorem serve_bytes_world m root toks :
    wf_ipld (message_ipld m) = true -> in_budget (message_ipld m) = true ->
    let blocks := request_blocks toks root m in
    NoDup (map fst blocks) ->
    (forall c t, In (c, t) toks ->
       wf_ipld (token_ipld t) = true /\ in_budget (token_ipld t) = true /\ token_typed_ok t = true /\ u_fct t <> Some []) ->
    (forall c t, In (c, t) toks ->
       U_of blocks (lid c) = Some (view_token lid keys valid alg_of (canon_token t))) /\
    U_of blocks (lid root) = Some empty_token /\
    (forall l, ~ In l (vis_of (blocks ++ extb)) -> U_of blocks l = None).
  Proof.
    intros W B blocks ND HT. split; [|split].
    - intros c t I. destruct (HT c t I) as [Wt [Bt [Tt NF]]].
      rewrite U_of_spec.
      rewrite (B_of_app_in blocks extb c (token_bytes t) ND).
      + cbn [option_map]. f_equal. apply view_block_bytes; assumption.
      + apply in_or_app. left. apply in_map_iff. exists (c, t). auto.
    - rewrite U_of_spec. rewrite (B_of_app_in blocks extb root (message_bytes m) ND).
      + cbn [option_map]. f_equal. apply view_block_undecodable. apply message_not_a_token; assumption.
      + apply in_or_app. right. left. reflexivity.
    - intros l NI. rewrite U_of_spec. rewrite (B_of_none (blocks ++ extb) l NI). reflexivity.
  Qed.
End Serve.
