(* ServerBytes.v — the server from the request BODY:

     request.Decode(body)                 MessageBytes.decode_message   (CAR, block table, root message)
     every block of the table as a token  LinkIntegrity.token_at        (delegation.Data(): the fields of
                                          TokenView.view_block when the block's CID is the dag-cbor /
                                          sha2-256 CIDv1 of its bytes, NO field otherwise)
     server.Execute                       Server.execute                (Run per invocation, validator.Access)

   composed into serve_bytes : body -> served.  Links are numbered by MessageBytes.bstr_code, an
   injective function of the CID bytes, so nothing about the numbering is assumed.  The symbolic
   signature (keys, valid, alg_of), the server (its context, its handlers) and the blocks its proof
   resolver can supply beyond those of the request (extb) are parameters. *)
From Ucanto Require Import Base Varint Ipld Cbor Formats Blockstore MessageFormat Cid Car BaseEnc DagJson Signing.
From Ucanto Require Import MessageBytes TokenBytes.
From Ucanto Require Import Pattern Time Validator ValidatorSpec ValidatorTerm Server ServerTotal EndToEnd TokenView.
From Ucanto Require Export LinkId.
From Ucanto Require Import LinkIntegrity.
From Coq Require Import ZifyBool ZifyN ZifyNat Permutation.
Open Scope N_scope.

(* the block table as a function of link numbers: the first block whose CID has that number *)
Definition B_of (blocks : list (bstr * bstr)) (l : link) : option bstr :=
  match find (fun cb => lid (fst cb) =? l) blocks with Some cb => Some (snd cb) | None => None end.

Definition vis_of (blocks : list (bstr * bstr)) : list link := map (fun cb => lid (fst cb)) blocks.
Definition exec_of (m : amsg) : list link := map lid (invocations_bytes m).

Lemma B_of_some blocks l data : B_of blocks l = Some data -> exists c, In (c, data) blocks /\ lid c = l.
Proof.
  unfold B_of. destruct (find (fun cb => lid (fst cb) =? l) blocks) as [[c d]|] eqn:F; [|discriminate].
  intros E. inversion E; subst. apply find_some in F. destruct F as [I H]. apply N.eqb_eq in H.
  exists c. auto.
Qed.

Lemma B_of_in blocks c data : NoDup (map fst blocks) -> In (c, data) blocks -> B_of blocks (lid c) = Some data.
Proof.
  unfold B_of. induction blocks as [|[k v] blocks IH]; cbn [map fst find]; intros ND I; [contradiction|].
  inversion ND as [|? ? NI ND']; subst. cbn [fst snd]. destruct I as [E|I].
  - inversion E; subst. rewrite N.eqb_refl. reflexivity.
  - destruct (lid k =? lid c) eqn:B.
    + apply N.eqb_eq in B. apply lid_inj in B. subst. exfalso. apply NI. apply in_map_iff. exists (c, data). auto.
    + apply IH; assumption.
Qed.

Lemma B_of_none blocks l : ~ In l (vis_of blocks) -> B_of blocks l = None.
Proof.
  unfold B_of, vis_of. intros NI.
  destruct (find (fun cb => lid (fst cb) =? l) blocks) as [cb|] eqn:F; [|reflexivity].
  apply find_some in F. destruct F as [I H]. apply N.eqb_eq in H. exfalso. apply NI.
  apply in_map_iff. exists cb. auto.
Qed.

(* blocks of the request shadow further blocks with the same CID *)
Lemma B_of_app_vis blocks ext l : In l (vis_of blocks) -> B_of (blocks ++ ext) l = B_of blocks l /\ B_of blocks l <> None.
Proof.
  unfold B_of, vis_of. induction blocks as [|[k v] blocks IH]; cbn [map In app find fst snd]; [intros []|].
  intros [E|I].
  - subst l. rewrite N.eqb_refl. split; [reflexivity|discriminate].
  - destruct (lid k =? l); [split; [reflexivity|discriminate]|]. apply IH. exact I.
Qed.

Lemma B_of_app_in blocks ext c data :
  NoDup (map fst blocks) -> In (c, data) blocks -> B_of (blocks ++ ext) (lid c) = Some data.
Proof.
  intros ND I.
  assert (V : In (lid c) (vis_of blocks)) by (unfold vis_of; apply in_map_iff; exists (c, data); auto).
  destruct (B_of_app_vis blocks ext (lid c) V) as [E _]. rewrite E. apply B_of_in; assumption.
Qed.

Section Serve.
  Variable mh_digest : N -> N -> bstr -> option bstr.
  Variable hdr_oracle : bstr -> option (list bstr * N).
  Variable keys : list N.
  Variable valid : N -> bstr -> bstr -> bool.
  Variable alg_of : N -> bstr.
  Variable fuel : nat.
  Variable srv : server.
  Variable extb : list (bstr * bstr).       (* blocks the server's proof resolver can supply *)
  (* how a block is read as a token: TokenView.view_block, or any function equal to it on every
     block (the correspondence uses one that looks DID strings up in a table computed once) *)
  Variable view : bstr -> token.
  Hypothesis Hview : forall b, view b = view_block lid keys valid alg_of b.
  Notation decode := (decode_message mh_digest hdr_oracle).

  (* the token store of a request: every block of the request (and of the resolver), read as the
     accessors read it — delegation.Data() -> block.Decode: the typed view of the bytes when the
     block's CID is the dag-cbor / sha2-256 CIDv1 of its bytes (LinkIntegrity.bound), the token
     without fields otherwise.  The CAR reader accepts every self-consistent CID (raw, CIDv0,
     dag-json, other hash functions): such blocks ARE in the table, as delegations without fields. *)
  Definition view_tbl (bl : list (bstr * bstr)) : list (link * token) :=
    map (fun cb => (lid (fst cb), token_at mh_digest view (fst cb) (snd cb))) bl.

  (* the table of views is computed ONCE (let-bound outside the function: what makes the
     evaluation of serve_bytes on real request bodies cheap) *)
  Definition U_of (blocks : list (bstr * bstr)) : link -> option token :=
    let tbl := view_tbl (blocks ++ extb) in
    fun l => match find (fun e => fst e =? l) tbl with Some e => Some (snd e) | None => None end.

  Notation vb := (view_block lid keys valid alg_of).

  Lemma token_at_view c b : token_at mh_digest view c b = token_at mh_digest vb c b.
  Proof. unfold token_at, fields. rewrite Hview. reflexivity. Qed.

  (* pointwise it is LinkIntegrity.ustore_of of the block table: the validator's world in which
     `U l` is the token whose bytes hash to l *)
  Lemma U_of_spec blocks l : U_of blocks l = ustore_of mh_digest vb (blocks ++ extb) l.
  Proof.
    unfold U_of, ustore_of, view_tbl. cbv zeta. induction (blocks ++ extb) as [|[k v] bl IH]; [reflexivity|].
    cbn [map find fst snd]. destruct (lid k =? l); [rewrite token_at_view; reflexivity | exact IH].
  Qed.

  (* a token of the store is the first block under that link number: the typed view of its bytes
     when they hash to the link, the token without fields otherwise *)
  Lemma U_of_cases blocks l t :
    U_of blocks l = Some t ->
    exists c b, lid c = l /\ In (c, b) (blocks ++ extb) /\ B_of (blocks ++ extb) l = Some b /\
      t = token_at mh_digest vb c b /\
      ((cid_of mh_digest b = Some c /\ t = vb b) \/ (cid_of mh_digest b <> Some c /\ t = empty_token)).
  Proof.
    rewrite U_of_spec. unfold ustore_of, B_of.
    destruct (find (fun cb => lid (fst cb) =? l) (blocks ++ extb)) as [[c b]|] eqn:F; [|discriminate].
    cbn [fst snd]. intros E. apply some_inj in E. subst t.
    apply find_some in F. destruct F as [I H]. cbn [fst] in H. apply N.eqb_eq in H.
    exists c, b. split; [exact H|]. split; [exact I|]. split; [reflexivity|]. split; [reflexivity|].
    unfold token_at. destruct (fields mh_digest vb c b) as [t|] eqn:Fd.
    - apply fields_some in Fd. destruct Fd as [Ec Ev]. left. auto.
    - right. split; [|reflexivity]. intros Ec.
      assert (X : fields mh_digest vb c b = Some (vb b)) by (apply fields_some; auto). congruence.
  Qed.

  (* the first block under a link number that is bound is read with its fields *)
  Lemma U_of_bound blocks c b :
    B_of (blocks ++ extb) (lid c) = Some b -> cid_of mh_digest b = Some c -> U_of blocks (lid c) = Some (vb b).
  Proof.
    intros HB Ec. rewrite U_of_spec. unfold ustore_of. unfold B_of in HB.
    destruct (find (fun cb => lid (fst cb) =? lid c) (blocks ++ extb)) as [[c' b']|] eqn:F; [|discriminate].
    cbn [fst snd] in *. apply some_inj in HB. subst b'.
    apply find_some in F. destruct F as [_ H]. cbn [fst] in H. apply N.eqb_eq in H. apply lid_inj in H. subst c'.
    f_equal. unfold token_at.
    assert (X : fields mh_digest vb c b = Some (vb b)) by (apply fields_some; auto). rewrite X. reflexivity.
  Qed.

  (* ... and one that is NOT bound (the same bytes under a raw / CIDv0 / dag-json / ... CID) is
     present as the token without fields *)
  Lemma U_of_unbound blocks c b :
    B_of (blocks ++ extb) (lid c) = Some b -> cid_of mh_digest b <> Some c -> U_of blocks (lid c) = Some empty_token.
  Proof.
    intros HB Ec. rewrite U_of_spec. unfold ustore_of. unfold B_of in HB.
    destruct (find (fun cb => lid (fst cb) =? lid c) (blocks ++ extb)) as [[c' b']|] eqn:F; [|discriminate].
    cbn [fst snd] in *. apply some_inj in HB. subst b'.
    apply find_some in F. destruct F as [_ H]. cbn [fst] in H. apply N.eqb_eq in H. apply lid_inj in H. subst c'.
    f_equal. unfold token_at. rewrite (fields_unbound mh_digest vb c b Ec). reflexivity.
  Qed.

  Definition blocks_of (d : decoded) : list (bstr * bstr) := tbl_blocks (d_store d).

  (* server.Execute on a decoded request *)
  Definition serve_decoded (d : decoded) : exec_result :=
    execute (U_of (blocks_of d)) fuel srv (vis_of (blocks_of d)) (exec_of (d_msg d)).

  Inductive served :=
  | SBad                         (* request.Decode fails: the 400 answer, nothing runs *)
  | SDone (r : exec_result).     (* Execute's answer: a report with the handler calls, or an error value *)

  Definition serve_bytes (body : bstr) : served :=
    match decode body with None => SBad | Some d => SDone (serve_decoded d) end.

  Definition calls_of (s : served) : list call :=
    match s with SDone (ExecOk _ calls) => calls | _ => [] end.

  (* ---------------------------------------------------------------- *)
  (* the decision, for every body                                      *)

  Theorem serve_bytes_bad body : decode body = None <-> serve_bytes body = SBad.
  Proof. unfold serve_bytes. destruct (decode body); split; congruence. Qed.

  Theorem serve_bytes_done body r :
    serve_bytes body = SDone r <-> exists d, decode body = Some d /\ r = serve_decoded d.
  Proof.
    unfold serve_bytes. destruct (decode body) as [d|]; split.
    - intros E. inversion E. eauto.
    - intros [d' [E ->]]. inversion E. reflexivity.
    - discriminate.
    - intros [d' [E _]]. discriminate.
  Qed.

  (* nothing runs for a body that does not decode (C20_bytes_400 without the headers) *)
  Corollary serve_bytes_bad_no_calls body : decode body = None -> calls_of (serve_bytes body) = [].
  Proof. intros H. apply serve_bytes_bad in H. rewrite H. reflexivity. Qed.

  (* ---------------------------------------------------------------- *)
  (* (a) totality                                                      *)

  (* a bound on the number of proofs any block of the request cites *)
  Definition prf_bound (blocks : list (bstr * bstr)) : nat :=
    S (fold_right (fun cb acc => Nat.max (length (t_prf (token_at mh_digest view (fst cb) (snd cb)))) acc) 0%nat (blocks ++ extb)).

  Lemma prf_bound_pos blocks : (0 < prf_bound blocks)%nat.
  Proof. unfold prf_bound. lia. Qed.

  Lemma prf_bound_spec blocks l t : U_of blocks l = Some t -> (length (t_prf t) <= prf_bound blocks)%nat.
  Proof.
    intros H. destruct (U_of_cases blocks l t H) as (c & b & _ & I & _ & Et & _). subst t.
    unfold prf_bound.
    induction (blocks ++ extb) as [|[k v] bl IH]; [destruct I|]. cbn [fold_right fst snd]. destruct I as [E|I].
    - inversion E; subst. rewrite token_at_view. lia.
    - specialize (IH I). lia.
  Qed.

  (* Every body gets an answer: 400, a report, or an error value — never a crash outcome (the type
     has none) and never divergence: with the resolver hypothesis, a content-addressed (acyclic)
     block table and enough fuel the model does not run out of fuel. *)
  Theorem serve_bytes_total body :
    (forall l p, resolve_proof (s_ctx srv) l = Some p -> d_link p = l) ->
    forall rank : link -> nat,
    (forall d, decode body = Some d ->
       forall l t p, U_of (blocks_of d) l = Some t -> In p (t_prf t) -> (rank p < rank l)%nat) ->
    (forall d, decode body = Some d ->
       forall l, In l (exec_of (d_msg d)) -> (need (prf_bound (blocks_of d)) (rank l) + 1 <= fuel)%nat) ->
    serve_bytes body = SBad \/ serve_bytes body = SDone ExecErr \/
    exists rep calls, serve_bytes body = SDone (ExecOk rep calls).
  Proof.
    intros Hres rank Hac Hf. unfold serve_bytes. destruct (decode body) as [d|] eqn:D; [|left; reflexivity].
    right. unfold serve_decoded.
    pose proof (execute_total (U_of (blocks_of d)) srv Hres rank (Hac d eq_refl)
                  (prf_bound (blocks_of d)) (prf_bound_spec (blocks_of d)) (prf_bound_pos _)
                  fuel (vis_of (blocks_of d)) (exec_of (d_msg d)) (fun x => x) (Hf d eq_refl)) as T.
    unfold execute. destruct (execute_sched _ _ _ _ _ _) as [rep calls| |]; [right; eauto | left; reflexivity | contradiction].
  Qed.

  (* ---------------------------------------------------------------- *)
  (* (c) from the body to "a handler ran only for a complete valid chain" *)

  Lemma tbl_blocks_get s c data : In (c, data) (tbl_blocks s) -> tbl_get s c = Some data.
  Proof.
    unfold tbl_blocks. intros I. apply filter_map_in in I. destruct I as [k [_ F]].
    destruct (tbl_get s k) as [d'|] eqn:G; [|discriminate]. inversion F; subst. exact G.
  Qed.

  (* the signature clause at byte level (TokenView.sig_ok_bytes) together with the binding of the
     block to the delegation's link: the block whose signed bytes are examined is the first block
     carried under a CID c with that link number, and c IS the dag-cbor / sha2-256 CID of its bytes *)
  Definition sig_ok_bound (bl : list (bstr * bstr)) (d : dlg) (t : token) (v : verifier) : Prop :=
    sig_ok_bytes (B_of bl) lid keys valid alg_of d t v /\
    exists c b, d_link d = lid c /\ B_of bl (d_link d) = Some b /\ cid_of mh_digest b = Some c /\ t = vb b.

  Lemma sig_ok_to_bound blocks d t v :
    tok (U_of blocks) d = Some t -> sig_ok t v -> sig_ok_bound (blocks ++ extb) d t v.
  Proof.
    unfold tok. intros T S.
    destruct (U_of_cases blocks (d_link d) t T) as (c & b & L & I & HB & _ & [[Ec Et]|[_ Et]]).
    - split.
      + (* the store that holds the plain view of that block agrees with U_of at this link *)
        apply (sig_ok_to_bytes_U (B_of (blocks ++ extb)) lid keys valid alg_of
                 (fun l => option_map vb (B_of (blocks ++ extb) l)) (fun l => eq_refl)); [|exact S].
        unfold tok. rewrite HB. cbn [option_map]. rewrite Et. reflexivity.
      + exists c, b. auto.
    - (* a delegation without fields has no signature any verifier accepts *)
      subst t. destruct S as [_ [_ Es]]. discriminate Es.
  Qed.

  (* Every handler call made for a request body belongs to an entry of the message's execute list
     whose block travelled in the body UNDER THE dag-cbor / sha2-256 CID OF ITS BYTES, decodes
     (typed decoding) to a UCAN with exactly one capability that names the handler, and carries a
     complete valid chain: the specification P of C01, with every signature clause stated on the
     signed bytes of a block of this body (or of the resolver) that is bound to its link. *)
  Theorem serve_bytes_calls_have_valid_chains body rep calls :
    (forall l p, resolve_proof (s_ctx srv) l = Some p -> d_link p = l) ->
    serve_bytes body = SDone (ExecOk rep calls) ->
    exists d, decode body = Some d /\
    forall k, In k calls ->
    exists cid data ut h a c,
      In cid (invocations_bytes (d_msg d)) /\ tbl_get (d_store d) cid = Some data /\
      cid_of mh_digest data = Some cid /\
      token_decode_typed data = Some ut /\
      map (view_cap lid) (u_att ut) = [c] /\ find_handler (r_can c) (s_service srv) = Some h /\
      k = (h_can h, node_cap a) /\
      let U := U_of (blocks_of d) in
      let inv := mkDlg (lid cid) (vis_of (blocks_of d)) in
      P U (s_ctx srv) fuel (h_desc h) [inv] a /\
      P_sg U (s_ctx srv) (sig_ok_bytes (B_of (blocks_of d ++ extb)) lid keys valid alg_of) fuel (h_desc h) [inv] a /\
      P_sg U (s_ctx srv) (sig_ok_bound (blocks_of d ++ extb)) fuel (h_desc h) [inv] a.
  Proof.
    intros Hres H. apply serve_bytes_done in H. destruct H as [d [D E]]. exists d. split; [exact D|].
    intros k Hk. unfold serve_decoded in E. symmetry in E.
    destruct (request_calls_have_valid_chains (U_of (blocks_of d)) fuel srv Hres _ _ _ _ E k Hk)
      as (l & h & a & t & c & Hl & Hv & Ek & Ht & Hc & Hf & HP).
    unfold exec_of in Hl. apply in_map_iff in Hl. destruct Hl as [cid [El Hcid]]. subst l.
    (* the invocation's token is that of the first block of the table under its link *)
    unfold tok in Ht. cbn [d_link] in Ht.
    destruct (U_of_cases (blocks_of d) (lid cid) t Ht) as (c' & data & Ec & _ & HB & _ & Cs).
    apply lid_inj in Ec. subst c'.
    destruct (B_of_app_vis (blocks_of d) extb (lid cid) Hv) as [EB _]. rewrite EB in HB.
    apply B_of_some in HB. destruct HB as [c' [I Ec]]. apply lid_inj in Ec. subst c'.
    apply tbl_blocks_get in I.
    destruct Cs as [[Hb Et]|[_ Et]]; [|subst t; discriminate Hc].
    destruct (token_decode_typed data) as [ut|] eqn:TD.
    - rewrite (view_block_decoded lid keys valid alg_of data ut TD) in Et. subst t.
      cbn [view_token view_token_with t_caps] in Hc.
      exists cid, data, ut, h, a, c. cbv zeta.
      split; [exact Hcid|]. split; [exact I|]. split; [exact Hb|]. split; [exact TD|]. split; [exact Hc|].
      split; [exact Hf|]. split; [exact Ek|]. split; [exact HP|]. split.
      + apply P_to_sg; [|exact HP]. intros d0 t0 v0 T0 S0. exact (proj1 (sig_ok_to_bound _ d0 t0 v0 T0 S0)).
      + apply P_to_sg; [apply sig_ok_to_bound | exact HP].
    - rewrite (view_block_undecodable lid keys valid alg_of data TD) in Et. subst t. discriminate Hc.
  Qed.

  (* ---------------------------------------------------------------- *)
  (* a token that travels under a CID other than the dag-cbor / sha2-256 CID of its bytes *)

  Lemma view_tbl_app a b : view_tbl (a ++ b) = view_tbl a ++ view_tbl b.
  Proof. unfold view_tbl. apply map_app. Qed.

  (* its entry of the token table is the token without fields: the same entry any bytes that are
     no UCAN at all (the message's root block, say) would have under that CID *)
  Lemma view_tbl_relabelled pre c b post :
    cid_of mh_digest b <> Some c ->
    view_tbl (pre ++ (c, b) :: post) = view_tbl pre ++ (lid c, empty_token) :: view_tbl post.
  Proof.
    intros NE. rewrite view_tbl_app. f_equal. unfold view_tbl. cbn [map fst snd]. f_equal. f_equal.
    unfold token_at. rewrite (fields_unbound mh_digest view c b NE). reflexivity.
  Qed.

  Lemma view_tbl_no_token pre c b' post :
    token_decode_typed b' = None ->
    view_tbl (pre ++ (c, b') :: post) = view_tbl pre ++ (lid c, empty_token) :: view_tbl post.
  Proof.
    intros TD. rewrite view_tbl_app. f_equal. unfold view_tbl. cbn [map fst snd]. f_equal. f_equal.
    unfold token_at, fields. destruct (bound mh_digest c b'); [|reflexivity].
    rewrite Hview. apply view_block_undecodable. exact TD.
  Qed.

  (* A request in which a token travels under a CID c other than cid_of of its bytes b is served
     exactly as if that block carried bytes b' that are no UCAN — a token without fields —: the
     entry of the relabelled block in the server's token table is (lid c, empty_token), the same
     execute list, the same visible blocks, hence the same receipts and the same handler calls. *)
  Theorem serve_bytes_relabelled_no_fields body d pre c b post :
    decode body = Some d -> blocks_of d = pre ++ (c, b) :: post -> cid_of mh_digest b <> Some c ->
    token_at mh_digest view c b = empty_token /\
    (~ In c (map fst pre) -> U_of (blocks_of d) (lid c) = Some empty_token) /\
    forall b', token_decode_typed b' = None ->
      serve_bytes body =
      SDone (execute (U_of (pre ++ (c, b') :: post)) fuel srv (vis_of (blocks_of d)) (exec_of (d_msg d))).
  Proof.
    intros D EB NE. split; [|split].
    - unfold token_at. rewrite (fields_unbound mh_digest view c b NE). reflexivity.
    - intros NI. apply (U_of_unbound (blocks_of d) c b); [|exact NE].
      rewrite EB. unfold B_of. rewrite <- app_assoc. cbn [app].
      clear EB. induction pre as [|[k v] pre IH]; cbn [app find fst snd map] in *.
      + rewrite N.eqb_refl. reflexivity.
      + destruct (lid k =? lid c) eqn:L.
        * apply N.eqb_eq in L. apply lid_inj in L. subst k. exfalso. apply NI. left. reflexivity.
        * apply IH. intros X. apply NI. right. exact X.
    - intros b' TD. unfold serve_bytes. rewrite D. unfold serve_decoded. f_equal.
      assert (EU : U_of (blocks_of d) = U_of (pre ++ (c, b') :: post)).
      { unfold U_of. rewrite EB. rewrite <- !app_assoc. cbn [app].
        rewrite (view_tbl_relabelled pre c b (post ++ extb) NE), (view_tbl_no_token pre c b' (post ++ extb) TD).
        reflexivity. }
      rewrite EU. reflexivity.
  Qed.

  (* every block of the decoded request is filed under its CID in the block table *)
  Lemma blocks_of_B d cid data : In (cid, data) (blocks_of d) -> B_of (blocks_of d ++ extb) (lid cid) = Some data.
  Proof.
    intros I.
    assert (V : In (lid cid) (vis_of (blocks_of d))) by (unfold vis_of; apply in_map_iff; exists (cid, data); auto).
    destruct (B_of_app_vis (blocks_of d) extb (lid cid) V) as [E NN]. rewrite E.
    destruct (B_of (blocks_of d) (lid cid)) as [data'|] eqn:HB; [|contradiction].
    apply B_of_some in HB. destruct HB as [c' [I' Ec]]. apply lid_inj in Ec. subst c'.
    unfold blocks_of in *. apply tbl_blocks_get in I. apply tbl_blocks_get in I'. congruence.
  Qed.

  Lemma run_all_no_calls U invs :
    (forall i, In i invs -> forall rc cs, run U fuel srv i = Some (rc, cs) -> cs = []) ->
    forall rcs calls, run_all U fuel srv invs = Some (rcs, calls) -> calls = [].
  Proof.
    induction invs as [|i invs IH]; intros H rcs calls R; cbn [run_all] in R.
    - inversion R. reflexivity.
    - destruct (run U fuel srv i) as [[rc cs]|] eqn:R1; [|discriminate].
      destruct (run_all U fuel srv invs) as [[rcs' css]|] eqn:R2; [|discriminate].
      inversion R; subst. rewrite (H i (or_introl eq_refl) rc cs R1).
      cbn [app]. apply (IH (fun j Hj => H j (or_intror Hj)) rcs' css eq_refl).
  Qed.

  (* An invocation that travels under a CID other than cid_of of its bytes never makes a handler
     run: server.Run answers it with the InvocationCapabilityError receipt (no capability is read)
     and calls nothing, whatever the bytes say, whatever the other blocks are; in the report of
     the request that receipt is filed under the relabelled link; and a request all of whose
     execute-list entries are relabelled makes no handler call at all.  (The converse half is the
     clause cid_of data = Some cid of serve_bytes_calls_have_valid_chains.) *)
  Theorem serve_bytes_relabelled_runs_nothing body d cid data :
    decode body = Some d -> In (cid, data) (blocks_of d) -> cid_of mh_digest data <> Some cid ->
    let rc := mkRcpt (lid cid) (s_id srv) (RErr e_capability) no_fx in
    (forall vis, run (U_of (blocks_of d)) fuel srv (mkDlg (lid cid) vis) = Some (rc, [])) /\
    (forall rep calls, serve_bytes body = SDone (ExecOk rep calls) ->
       In cid (invocations_bytes (d_msg d)) -> rget (lid cid) rep = Some rc).
  Proof.
    intros D I NE rc.
    assert (R : forall vis, run (U_of (blocks_of d)) fuel srv (mkDlg (lid cid) vis) = Some (rc, [])).
    { intros vis. apply (run_cap_count (U_of (blocks_of d)) fuel srv (mkDlg (lid cid) vis) empty_token).
      - unfold tok. cbn [d_link]. apply (U_of_unbound (blocks_of d) cid data); [apply blocks_of_B; exact I | exact NE].
      - cbn. discriminate. }
    split; [exact R|].
    intros rep calls H Hin. unfold serve_bytes in H. rewrite D in H. inversion H as [H']. clear H.
    unfold serve_decoded, execute in H'.
    destruct (execute_one_receipt_each (U_of (blocks_of d)) fuel srv _ _ (fun x => x) rep calls
                (fun rs => Permutation_refl rs) H') as [A _].
    assert (Hl : In (lid cid) (exec_of (d_msg d))) by (unfold exec_of; apply in_map; exact Hin).
    destruct (A _ Hl) as (r & cs & G & _ & _ & R'). rewrite R in R'. inversion R'; subst. exact G.
  Qed.

  Theorem serve_bytes_all_relabelled_no_calls body d rep calls :
    decode body = Some d ->
    (forall cid, In cid (invocations_bytes (d_msg d)) ->
       exists data, In (cid, data) (blocks_of d) /\ cid_of mh_digest data <> Some cid) ->
    serve_bytes body = SDone (ExecOk rep calls) -> calls = [].
  Proof.
    intros D HA H. unfold serve_bytes in H. rewrite D in H. inversion H as [H']. clear H.
    unfold serve_decoded, execute, execute_sched in H'.
    destruct (forallb _ _); [|discriminate].
    destruct (run_all _ _ _ _) as [[rcs cs]|] eqn:RA; [|discriminate]. inversion H'; subst. clear H'.
    refine (run_all_no_calls _ _ _ _ _ RA). intros i Hi rc0 cs0 R0.
    apply in_map_iff in Hi. destruct Hi as [l [<- Hl]].
    destruct (dedupe_spec [] (exec_of (d_msg d))) as [_ Hd]. apply Hd in Hl. destruct Hl as [Hl _].
    unfold exec_of in Hl. apply in_map_iff in Hl. destruct Hl as [cid [<- Hcid]].
    destruct (HA cid Hcid) as [data [I NE]].
    destruct (serve_bytes_relabelled_runs_nothing body d cid data D I NE) as [R _].
    rewrite R in R0. inversion R0. reflexivity.
  Qed.

  (* ---------------------------------------------------------------- *)
  (* (b) refinement: a body written by the library's encoders          *)

  Lemma firsts_nodup (l seen : list bstr) :
    NoDup l -> (forall x, In x l -> ~ In x seen) -> firsts bstr beq seen l = l.
  Proof.
    revert seen. induction l as [|x l IH]; intros seen ND H; [reflexivity|].
    inversion ND as [|? ? NI ND']; subst. cbn [firsts].
    destruct (memk bstr beq x seen) eqn:M.
    - apply (memk_In bstr beq beq_eq) in M. exfalso. apply (H x); [left; reflexivity | exact M].
    - f_equal. apply IH; [exact ND'|]. intros y Hy [E|I]; [subst; contradiction|].
      apply (H y); [right; exact Hy | exact I].
  Qed.

  Lemma tbl_blocks_run_puts blocks : NoDup (map fst blocks) -> tbl_blocks (run_puts bstr bstr beq blocks) = blocks.
  Proof.
    intros ND. unfold tbl_blocks.
    destruct (seq_spec bstr bstr beq beq_eq blocks) as [_ [_ [G [K _]]]].
    rewrite K, (firsts_nodup _ [] ND) by (intros x _ []).
    assert (E : forall k, tbl_get (run_puts bstr bstr beq blocks) k = first_val bstr bstr beq k blocks) by exact G.
    clear K G.
    assert (F : forall l, (forall cb, In cb l -> In cb blocks) ->
              filter_map (fun k => match tbl_get (run_puts bstr bstr beq blocks) k with Some d => Some (k, d) | None => None end) (map fst l) = l).
    { induction l as [|[k v] l IH]; intros Sub; [reflexivity|]. cbn [map fst filter_map].
      rewrite E. rewrite (first_val_of_in k v blocks ND (Sub _ (or_introl eq_refl))).
      f_equal. apply IH. intros cb Hcb. apply Sub. right. exact Hcb. }
    apply F. auto.
  Qed.

  (* a request built from a message m and tokens: the blocks of the tokens, then the root block *)
  Definition request_blocks (toks : list (bstr * utoken)) (root : bstr) (m : amsg) : list (bstr * bstr) :=
    map (fun ct => (fst ct, token_bytes (snd ct))) toks ++ [(root, message_bytes m)].

  (* On such a body serve_bytes IS Server.execute on the world of exactly those blocks: the execute
     list of the message, every block visible ... *)
  Theorem serve_bytes_refines m root toks :
    wf_ipld (message_ipld m) = true -> in_budget (message_ipld m) = true ->
    let blocks := request_blocks toks root m in
    roots_ok 1 [root] -> Forall (block_ok mh_digest) blocks -> NoDup (map fst blocks) ->
    msg_root_ok mh_digest root (message_bytes m) ->
    serve_bytes (car_encode [root] blocks) =
    SDone (execute (U_of blocks) fuel srv (vis_of blocks) (exec_of (canon_msg m))).
  Proof.
    intros W B blocks R F ND I. unfold serve_bytes.
    assert (In (root, message_bytes m) blocks) as Hin by (apply in_or_app; right; left; reflexivity).
    rewrite (decode_message_roundtrip_in mh_digest hdr_oracle m root blocks W B R F ND Hin I).
    unfold serve_decoded, blocks_of. cbn [d_store d_msg]. rewrite (tbl_blocks_run_puts blocks ND). reflexivity.
  Qed.

  (* ... whose token store is, pointwise, the abstract world: the view of each token (in the
     canonical form the decoder returns), the empty token for the message's own root block, nothing
     for any other link *)
  Lemma message_not_a_token m :
    wf_ipld (message_ipld m) = true -> in_budget (message_ipld m) = true ->
    token_decode_typed (message_bytes m) = None.
  Proof.
    intros W B. unfold token_decode_typed, message_bytes. rewrite (cbor_roundtrip_t _ W B). cbn [obind].
    unfold message_ipld, struct_map. cbn [concat field app]. rewrite canon_map_eq. cbn [map].
    unfold on_snd at 1. cbn [fst snd].
    assert (S1 : forall (k : bstr) (x : ipld), sort_map [(k, x)] = [(k, x)]) by reflexivity.
    rewrite S1. unfold ucan_of_typed. cbn [as_map obind ofold ucan_step].
    change (field_id k_msg7) with (@None fid). reflexivity.
  Qed.

  (* (the tokens' blocks are bound: the library's encoder — block.Encode, dag-cbor / sha2-256 —
     files every token under cid_of of its bytes, see enc_toks below; a token under any other CID
     is the token without fields, serve_bytes_relabelled_no_fields) *)
  Theorem serve_bytes_world m root toks :
    wf_ipld (message_ipld m) = true -> in_budget (message_ipld m) = true ->
    let blocks := request_blocks toks root m in
    NoDup (map fst blocks) ->
    (forall c t, In (c, t) toks ->
       wf_ipld (token_ipld t) = true /\ in_budget (token_ipld t) = true /\ token_typed_ok t = true /\ u_fct t <> Some []) ->
    (forall c t, In (c, t) toks -> cid_of mh_digest (token_bytes t) = Some c ->
       U_of blocks (lid c) = Some (view_token lid keys valid alg_of (canon_token t))) /\
    (forall c t, In (c, t) toks -> cid_of mh_digest (token_bytes t) <> Some c ->
       U_of blocks (lid c) = Some empty_token) /\
    U_of blocks (lid root) = Some empty_token /\
    (forall l, ~ In l (vis_of (blocks ++ extb)) -> U_of blocks l = None).
  Proof.
    intros W B blocks ND HT.
    assert (HB : forall c t, In (c, t) toks -> B_of (blocks ++ extb) (lid c) = Some (token_bytes t)).
    { intros c t I. apply (B_of_app_in blocks extb c (token_bytes t) ND).
      apply in_or_app. left. apply in_map_iff. exists (c, t). auto. }
    split; [|split; [|split]].
    - intros c t I Ec. destruct (HT c t I) as [Wt [Bt [Tt NF]]].
      rewrite (U_of_bound blocks c (token_bytes t) (HB c t I) Ec).
      f_equal. apply view_block_bytes; assumption.
    - intros c t I Ec. exact (U_of_unbound blocks c (token_bytes t) (HB c t I) Ec).
    - assert (HR : B_of (blocks ++ extb) (lid root) = Some (message_bytes m)).
      { apply (B_of_app_in blocks extb root (message_bytes m) ND). apply in_or_app. right. left. reflexivity. }
      destruct (U_of blocks (lid root)) as [t|] eqn:E.
      + destruct (U_of_cases blocks (lid root) t E) as (c & b & _ & _ & HB' & _ & [[_ Et]|[_ Et]]); [|congruence].
        rewrite HR in HB'. apply some_inj in HB'. subst b. rewrite Et. f_equal.
        apply view_block_undecodable. apply message_not_a_token; assumption.
      + exfalso. rewrite U_of_spec in E. unfold ustore_of in E. unfold B_of in HR.
        destruct (find (fun cb => lid (fst cb) =? lid root) (blocks ++ extb)); discriminate.
    - intros l NI. rewrite U_of_spec. unfold ustore_of. pose proof (B_of_none (blocks ++ extb) l NI) as X.
      unfold B_of in X. destruct (find (fun cb => lid (fst cb) =? l) (blocks ++ extb)); [discriminate | reflexivity].
  Qed.

  (* the library's encoder (delegation.Delegate / invocation.Invoke -> block.Encode with the
     dag-cbor codec and the sha2-256 hasher): every token is filed under cid_of of its bytes *)
  Fixpoint enc_toks (ts : list utoken) : option (list (bstr * utoken)) :=
    match ts with
    | [] => Some []
    | t :: r =>
      match cid_of mh_digest (token_bytes t), enc_toks r with
      | Some c, Some cr => Some ((c, t) :: cr)
      | _, _ => None
      end
    end.

  Lemma enc_toks_bound ts toks :
    enc_toks ts = Some toks -> forall c t, In (c, t) toks -> cid_of mh_digest (token_bytes t) = Some c.
  Proof.
    revert toks. induction ts as [|t0 ts IH]; intros toks E c t I; cbn [enc_toks] in E.
    - inversion E; subst. destruct I.
    - destruct (cid_of mh_digest (token_bytes t0)) as [c0|] eqn:C0; [|discriminate].
      destruct (enc_toks ts) as [cr|]; [|discriminate]. inversion E; subst.
      destruct I as [X|I]; [inversion X; subst; exact C0 | exact (IH cr eq_refl c t I)].
  Qed.

  Lemma enc_toks_map ts toks : enc_toks ts = Some toks -> map snd toks = ts.
  Proof.
    revert toks. induction ts as [|t0 ts IH]; intros toks E; cbn [enc_toks] in E.
    - inversion E. reflexivity.
    - destruct (cid_of mh_digest (token_bytes t0)) as [c0|]; [|discriminate].
      destruct (enc_toks ts) as [cr|]; [|discriminate]. inversion E; subst. cbn [map snd]. f_equal. apply IH. reflexivity.
  Qed.

  (* ... so on a request written by the encoder the "blocks are bound" premise is a theorem, not
     an assumption: the token store is the abstract world *)
  Corollary serve_bytes_world_encoded m root ts toks :
    enc_toks ts = Some toks ->
    wf_ipld (message_ipld m) = true -> in_budget (message_ipld m) = true ->
    let blocks := request_blocks toks root m in
    NoDup (map fst blocks) ->
    (forall t, In t ts ->
       wf_ipld (token_ipld t) = true /\ in_budget (token_ipld t) = true /\ token_typed_ok t = true /\ u_fct t <> Some []) ->
    (forall c t, In (c, t) toks ->
       U_of blocks (lid c) = Some (view_token lid keys valid alg_of (canon_token t))) /\
    U_of blocks (lid root) = Some empty_token /\
    (forall l, ~ In l (vis_of (blocks ++ extb)) -> U_of blocks l = None).
  Proof.
    intros E W B blocks ND HT.
    assert (HT' : forall c t, In (c, t) toks ->
       wf_ipld (token_ipld t) = true /\ in_budget (token_ipld t) = true /\ token_typed_ok t = true /\ u_fct t <> Some []).
    { intros c t I. apply HT. rewrite <- (enc_toks_map ts toks E). apply in_map_iff. exists (c, t). auto. }
    destruct (serve_bytes_world m root toks W B ND HT') as [H1 [_ [H3 H4]]].
    split; [|split; [exact H3 | exact H4]].
    intros c t I. apply H1; [exact I | exact (enc_toks_bound ts toks E c t I)].
  Qed.
End Serve.
