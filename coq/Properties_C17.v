(* C17 — A block store can be shared between goroutines.
   Only the property theorems; proofs are in Conc.v, Blockstore.v, Check_C17.v,
   ../coqgen/Tie_Locks.v.  Scope ("partial"): the theorems are about the lock
   protocol in a sequentially consistent interleaving semantics with an
   abstract correct RW lock; the Go memory model is not formalised. *)
From Ucanto Require Import Base Conc Blockstore Check_C17.
From UcantoGen Require Import Gen_Locks Tie_Locks.

(* Lockset theorem: if every write of every section of the table happens under the
   write lock and every read under the read or write lock (nothing outside a lock,
   closures that run after the unlock included), then for any number of threads
   running any sequences of the table's operations, under any schedule, no
   reachable state has two threads performing conflicting accesses. *)
Theorem C17_lockset_sound : forall tbl : op_table,
  discipline_ok tbl = true ->
  forall (progs : nat -> list N) (sched : list label) (s : threads),
    run (init_of tbl progs) sched s -> ~ race s.
Proof. exact lockset_sound. Qed.
Print Assumptions C17_lockset_sound.

(* ... instantiated with the table extracted from blockstore.go (Put / Get /
   Iterator x {keys, blks}, including the returned iterator closure) *)
Theorem C17_race_free :
  forall (progs : nat -> list N) (sched : list label) (s : threads),
    run (init_of blockstore_table progs) sched s -> ~ race s.
Proof. exact blockstore_race_free. Qed.
Print Assumptions C17_race_free.

(* Sequential specification, every sequence of Puts: no key twice, exactly the keys
   that were put, Get returns the FIRST block put under a key, iteration order =
   order of first puts, every put key is iterated with its block. *)
Theorem C17_sequential : forall (K V : Type) (keqb : K -> K -> bool),
  (forall a b : K, keqb a b = true <-> a = b) ->
  forall l : list (K * V),
    let s := run_puts K V keqb l in
    NoDup (keys s) /\
    (forall k : K, In k (keys s) <-> In k (map fst l)) /\
    (forall k : K, bs_get K V keqb s k = first_val K V keqb k l) /\
    keys s = firsts K keqb [] (map fst l) /\
    (forall k : K, In k (map fst l) ->
       exists v : V, In (k, Some v) (bs_iter K V keqb s) /\ first_val K V keqb k l = Some v).
Proof. exact seq_spec. Qed.
Print Assumptions C17_sequential.

(* Linearizability of the concurrent store (access-by-access model of the fixed
   code under the RW lock): any number of goroutines, programs, schedules; at the
   end the (goroutine, op, result) log is a merge of the programs, a legal
   sequential history, and the shared store is the sequential result of it. *)
Theorem C17_linearizable : forall (K V : Type) (keqb : K -> K -> bool)
  (progs : nat -> list (bop K V)) (sched : list nat) (c : conf K V),
  creach K V keqb (cinit K V progs) sched c -> finished K V c ->
  linearization K V keqb progs (log K V c) /\
  st K V c = run_ops K V keqb (map (ev_op K V) (log K V c)).
Proof. exact linearizable. Qed.
Print Assumptions C17_linearizable.

(* the access-by-access model performs no two conflicting accesses at the same time *)
Theorem C17_model_race_free : forall (K V : Type) (keqb : K -> K -> bool)
  (progs : nat -> list (bop K V)) (sched : list nat) (c : conf K V),
  creach K V keqb (cinit K V progs) sched c -> ~ crace K V c.
Proof. exact model_race_free. Qed.
Print Assumptions C17_model_race_free.

(* ... hence the final shared store satisfies the sequential specification for
   SOME merge of the goroutines' operation lists *)
Theorem C17_final_store : forall (K V : Type) (keqb : K -> K -> bool),
  (forall a b : K, keqb a b = true <-> a = b) ->
  forall (progs : nat -> list (bop K V)) (sched : list nat) (c : conf K V),
  creach K V keqb (cinit K V progs) sched c -> finished K V c ->
  exists merge : list (nat * bop K V),
    (forall i : nat, map snd (filter (fun e => Nat.eqb (fst e) i) merge) = progs i) /\
    (let l := puts_of K V (map snd merge) in
     NoDup (keys (st K V c)) /\
     (forall k : K, In k (keys (st K V c)) <-> In k (map fst l)) /\
     (forall k : K, bs_get K V keqb (st K V c) k = first_val K V keqb k l) /\
     keys (st K V c) = firsts K keqb [] (map fst l) /\
     (forall (k : K) (o : option V), In (k, o) (bs_iter K V keqb (st K V c)) -> o <> None)).
Proof. exact concurrent_final_store. Qed.
Print Assumptions C17_final_store.

(* an iteration taken earlier is a prefix of any later one *)
Theorem C17_iteration_prefix : forall (K V : Type) (keqb : K -> K -> bool),
  (forall a b : K, keqb a b = true <-> a = b) ->
  forall l1 l2 : list (K * V),
  exists r : list K, keys (run_puts K V keqb (l1 ++ l2)) = keys (run_puts K V keqb l1) ++ r.
Proof. exact keys_prefix. Qed.
Print Assumptions C17_iteration_prefix.

(* the history checker used on the -race harness output is sound for the specification,
   and the specification is what every run of the model satisfies *)
Theorem C17_checker_sound : forall h : hcase,
  check_history h = true -> linearizable_history h.
Proof. exact check_history_sound. Qed.
Print Assumptions C17_checker_sound.

Theorem C17_model_histories : forall (n : nat) (progs : nat -> list (bop N N)) sched c,
  (forall i, (n <= i)%nat -> progs i = []) ->
  creach N N N.eqb (cinit N N progs) sched c -> finished N N c ->
  linearizable_history
    (mkH 0 (map (fun i => map ev_obs (projN i (log N N c))) (seq 0 n))
         (iterN (st N N c))
         (map (fun k => (k, getN (st N N c) k)) (keys (st N N c)))).
Proof. exact model_runs_linearizable. Qed.
Print Assumptions C17_model_histories.

(* the pinned source (Put under RLock; iterator closure reading after the unlock):
   race freedom is refuted by explicit schedules *)
Theorem C17_pinned_refuted :
  discipline_ok blockstore_table_pinned = false /\
  ~ race_free blockstore_table_pinned /\ ~ race_free blockstore_table_closure_only.
Proof. exact (conj pinned_discipline_fails (conj pinned_put_put_race pinned_iterator_closure_race)). Qed.
Print Assumptions C17_pinned_refuted.

(* NewBlockReader's own de-duplicating loops and NewBlockStore compute run_puts (used by C13) *)
Theorem C17_reader_is_put : forall (K V : Type) (keqb : K -> K -> bool) (l1 l2 : list (K * V)),
  new_block_reader K V keqb l1 l2 = run_puts K V keqb (l1 ++ l2) /\
  new_block_store K V keqb l1 l2 = run_puts K V keqb (l1 ++ l2).
Proof. exact (fun K V keqb l1 l2 => conj (new_block_reader_is_put K V keqb l1 l2) (new_block_store_is_put K V keqb l1 l2)). Qed.
Print Assumptions C17_reader_is_put.
