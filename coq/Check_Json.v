(* Check_Json.v — comparison of DagJson.v / Signing.v with what the implementation wrote:
   dagjson.Encode of nodes, Cid.String, DID.String, utf8.ValidString, base64, and the exact
   string formatter.FormatSignPayload returned for a token (C07, C18). *)
From Ucanto Require Import Base Ipld Cbor Formats BaseEnc JsonText Did DagJson Signing.
Open Scope N_scope.

Definition obeq (a b : option bstr) : bool := option_eqb beq a b.

(* (id, node, bytes dagjson.Encode wrote or None when it failed, the harness's own verdict
   "strings valid UTF-8 and no reserved slash shape") : 1 bytes differ, 2 json_safe differs *)
Definition check_nodes (l : list (N * ipld * option bstr * bool)) : list (N * N) :=
  filter_map (fun c => match c with (id, v, exp, safe) =>
    if negb (obeq (json_encode_opt v) exp) then Some (id, 1)
    else if negb (Bool.eqb (json_safe v) safe) then Some (id, 2) else None end) l.

(* (id, cid bytes, Cid.String()) *)
Definition check_cids (l : list (N * bstr * bstr)) : list (N * N) :=
  filter_map (fun c => match c with (id, b, s) => if beq (cid_string b) s then None else Some (id, 1) end) l.

(* (id, did bytes, Decode(bytes).String() or "" when Decode fails, Decode succeeded) *)
Definition check_dids (l : list (N * bstr * bstr * bool)) : list (N * N) :=
  filter_map (fun c => match c with (id, b, s, ok) =>
    if negb (beq (did_string b) s) then Some (id, 1)
    else if negb (Bool.eqb (did_okb b) ok) then Some (id, 2) else None end) l.

(* (id, string, utf8.ValidString, base64 RawStdEncoding, RawURLEncoding, base32 lower, base58) *)
Definition check_strs (l : list (N * bstr * bool * bstr * bstr * bstr * bstr)) : list (N * N) :=
  filter_map (fun c => match c with (id, s, v, e64, e64u, e32, e58) =>
    if negb (Bool.eqb (utf8_valid s) v) then Some (id, 1)
    else if negb (beq (b64std s) e64) then Some (id, 2)
    else if negb (beq (b64url s) e64u) then Some (id, 3)
    else if negb (beq (b32lower s) e32) then Some (id, 4)
    else if negb (beq (b58enc s) e58) then Some (id, 5) else None end) l.

(* (id, algorithm name, token, FormatSignPayload's string or None when it failed) *)
Definition check_sign (l : list (N * bstr * utoken * option bstr)) : list (N * N) :=
  filter_map (fun c => match c with (id, alg, t, exp) =>
    if obeq (sign_payload_opt alg t) exp then None else Some (id, 1) end) l.
