(* Check_Json.v — comparison of DagJson.v / Signing.v with what the implementation wrote:
   dagjson.Encode of nodes, Cid.String, DID.String, utf8.ValidString, base64, and the exact
   string formatter.FormatSignPayload returned for a token (C07, C18). *)
From Ucanto Require Import Base Ipld Cbor Formats BaseEnc JsonText Did DagJson Signing.
Open Scope N_scope.

Definition obeq (a b : option bstr) : bool := option_eqb beq a b.

(* (id, node, bytes dagjson.Encode wrote or None when it failed, the harness's own verdict
   "strings valid UTF-8 and no reserved slash shape") : 1 bytes differ, 2 json_safe differs *)
Definition check_nodes (l : list (N * ipld * option bstr * bool)) : list (N * N) :=
  filter_map (fun c => match c with (id, v, exp, safe) =>
    if negb (obeq (json_encode_opt v) exp) then Some (id, 1)
    else if negb (Bool.eqb (json_safe v) safe) then Some (id, 2) else None end) l.

(* (id, cid bytes, Cid.String()) *)
Definition check_cids (l : list (N * bstr * bstr)) : list (N * N) :=
  filter_map (fun c => match c with (id, b, s) => if beq (cid_string b) s then None else Some (id, 1) end) l.

(* (id, did bytes, Decode(bytes).String() or "" when Decode fails, Decode succeeded) *)
Definition check_dids (l : list (N * bstr * bstr * bool)) : list (N * N) :=
  filter_map (fun c => match c with (id, b, s, ok) =>
    if negb (beq (did_string b) s) then Some (id, 1)
    else if negb (Bool.eqb (did_okb b) ok) then Some (id, 2) else None end) l.

(* (id, string, utf8.ValidString, base64 RawStdEncoding, RawURLEncoding, base32 lower, base58) *)
Definition check_strs (l : list (N * bstr * bool * bstr * bstr * bstr * bstr)) : list (N * N) :=
  filter_map (fun c => match c with (id, s, v, e64, e64u, e32, e58) =>
    if negb (Bool.eqb (utf8_valid s) v) then Some (id, 1)
    else if negb (beq (b64std s) e64) then Some (id, 2)
    else if negb (beq (b64url s) e64u) then Some (id, 3)
    else if negb (beq (b32lower s) e32) then Some (id, 4)
    else if negb (beq (b58enc s) e58) then Some (id, 5) else None end) l.

(* (id, algorithm name, token, FormatSignPayload's string or None when it failed) *)
Definition check_sign (l : list (N * bstr * utoken * option bstr)) : list (N * N) :=
  filter_map (fun c => match c with (id, alg, t, exp) =>
    if obeq (sign_payload_opt alg t) exp then None else Some (id, 1) end) l.

(* ------------------------------------------------------------------ *)
(* the same check with the DID strings of the (few) distinct principals computed once per
   case file: base58 of an RSA key is the expensive part.  Proved equal to check_sign. *)

Definition did_table (dids : list bstr) : list (bstr * bstr) := map (fun b => (b, did_string b)) dids.
Definition memo_did (tbl : list (bstr * bstr)) (b : bstr) : bstr :=
  match slookup b tbl with Some s => s | None => did_string b end.

Lemma memo_did_eq dids b : memo_did (did_table dids) b = did_string b.
Proof.
  unfold memo_did. induction dids as [|d dids IH]; [reflexivity|].
  cbn [did_table map slookup]. destruct (beq b d) eqn:E; [apply beq_eq in E; subst; reflexivity | exact IH].
Qed.

Definition payload_ipld_with (ds : bstr -> bstr) (t : utoken) (with_nnc_nbf : bool) : ipld :=
  struct_map [
    field k_iss (IString (ds (u_iss t)));
    field k_aud (IString (ds (u_aud t)));
    field k_att (IList (map cap_ipld (u_att t)));
    field k_prf (IList (map (fun c => IString (cid_string c)) (prf_list t)));
    field k_exp (nullable (option_map IInt (u_exp t)));
    opt_field k_fct (option_map (fun l => IList (map IMap l)) (u_fct t));
    opt_field k_nnc (if with_nnc_nbf then option_map IString (u_nnc t) else None);
    opt_field k_nbf (if with_nnc_nbf then option_map IInt (u_nbf t) else None) ].

Lemma payload_ipld_with_eq ds t full : (forall b, ds b = did_string b) -> payload_ipld_with ds t full = payload_ipld t full.
Proof. intros H. unfold payload_ipld_with, payload_ipld. rewrite !H. reflexivity. Qed.

Definition sign_payload_opt_with (ds : bstr -> bstr) (alg : bstr) (t : utoken) : option bstr :=
  let p := payload_ipld_with ds t true in
  if json_encodable p then Some (sign_bytes alg (u_v t) p) else None.

Definition check_sign_memo (dids : list bstr) (l : list (N * bstr * utoken * option bstr)) : list (N * N) :=
  let tbl := did_table dids in
  filter_map (fun c => match c with (id, alg, t, exp) =>
    if obeq (sign_payload_opt_with (memo_did tbl) alg t) exp then None else Some (id, 1) end) l.

Theorem check_sign_memo_eq dids l : check_sign_memo dids l = check_sign l.
Proof.
  unfold check_sign_memo, check_sign. cbv zeta.
  induction l as [|[[[id alg] t] exp] l IH]; [reflexivity|].
  cbn [filter_map]. rewrite IH. unfold sign_payload_opt_with, sign_payload_opt.
  rewrite (payload_ipld_with_eq (memo_did (did_table dids)) t true (memo_did_eq dids)). reflexivity.
Qed.

(* ------------------------------------------------------------------ *)
(* with the guard of ucan/lib.go (checkSignable): (id, algorithm name, token, the string that was
   signed / verified, or None when Issue / VerifySignature returned the encodeSignaturePayload error) *)

Definition check_input (l : list (N * bstr * utoken * option bstr)) : list (N * N) :=
  filter_map (fun c => match c with (id, alg, t, exp) =>
    if obeq (signing_input alg t) exp then None else Some (id, 1) end) l.

Definition signing_input_with (ds : bstr -> bstr) (alg : bstr) (t : utoken) : option bstr :=
  if signable_with ds alg t then sign_payload_opt_with ds alg t else None.

Lemma signable_with_eq ds alg t : (forall b, ds b = did_string b) -> signable_with ds alg t = signable alg t.
Proof. intros H. unfold signable, signable_with. rewrite !H. reflexivity. Qed.

Definition check_input_memo (dids : list bstr) (l : list (N * bstr * utoken * option bstr)) : list (N * N) :=
  let tbl := did_table dids in
  filter_map (fun c => match c with (id, alg, t, exp) =>
    if obeq (signing_input_with (memo_did tbl) alg t) exp then None else Some (id, 1) end) l.

Theorem check_input_memo_eq dids l : check_input_memo dids l = check_input l.
Proof.
  unfold check_input_memo, check_input. cbv zeta.
  induction l as [|[[[id alg] t] exp] l IH]; [reflexivity|].
  cbn [filter_map]. rewrite IH. unfold signing_input_with, signing_input, sign_payload_opt_with, sign_payload_opt.
  rewrite (signable_with_eq _ alg t (memo_did_eq dids)).
  rewrite (payload_ipld_with_eq (memo_did (did_table dids)) t true (memo_did_eq dids)). reflexivity.
Qed.
