(* C03 — Only tokens inside their validity window contribute to an authorization. *)
From Ucanto Require Import Base Pattern Time Validator ValidatorSpec ValidatorProps.
Open Scope Z_scope.

Theorem C03_no_expiration_never_expires : forall now, is_expired None now = false.
Proof. exact no_expiration_never_expires. Qed.
Print Assumptions C03_no_expiration_never_expires.

(* expired exactly when expiration <= now (the boundary second is expired) *)
Theorem C03_expired_iff : forall e now, is_expired (Some e) now = true <-> e <= now.
Proof. exact expired_iff. Qed.
Print Assumptions C03_expired_iff.

(* not yet active exactly when not-before is set and now <= not-before *)
Theorem C03_too_early_iff : forall nbf now, is_too_early nbf now = true <-> nbf <> 0 /\ now <= nbf.
Proof. exact too_early_iff. Qed.
Print Assumptions C03_too_early_iff.

(* strictly inside the window: never rejected for time reasons *)
Theorem C03_inside : forall exp nbf now,
  (match exp with None => True | Some e => now < e end) -> (nbf = 0 \/ nbf < now) ->
  in_window exp nbf now = true.
Proof. exact inside_window. Qed.
Print Assumptions C03_inside.

(* no token passes Validate outside its window, wherever Validate is applied
   (top-level proofs, every resolved proof, session attestations through Claim) *)
Theorem C03_validate_window : forall U C claim_prev d sibs,
  fst (validate U C claim_prev d sibs) = VOk ->
  exists t, tok U d = Some t /\ is_expired (t_exp t) (now C) = false /\ is_too_early (t_nbf t) (now C) = false.
Proof. exact validate_window. Qed.
Print Assumptions C03_validate_window.

(* every token of a returned authorization — the invocation and the proof at every step —
   is inside its window (step_holds contains window_ok of the proof token) *)
Theorem C03_path_window :
  forall (U : link -> option token) (C : ctx),
    (forall l p, resolve_proof C l = Some p -> d_link p = l) ->
  forall n ds inv a,
    fst (access U C n ds inv) = AOk a ->
    exists n', n = S n' /\ Forall (step_holds U C ds) (steps a) /\ is_path a /\
      exists d c ps t, a = Authz d c ps /\ d = inv /\ tok U d = Some t /\ window_ok C t.
Proof. exact access_steps. Qed.
Print Assumptions C03_path_window.

(* ... and so is the attestation token at the root of every session authorization
   (P is what any Claim — including the one made by VerifySession — guarantees) *)
Theorem C03_session_window : forall U C n ds prfs a,
  P U C (S n) ds prfs a -> exists d c ps t, a = Authz d c ps /\ tok U d = Some t /\ window_ok C t.
Proof. exact top_window. Qed.
Print Assumptions C03_session_window.
