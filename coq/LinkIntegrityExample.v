(* LinkIntegrityExample.v — non-vacuity of the link-integrity theorems (LinkIntegrity.v,
   C04_attestation_names_bytes, C05_revocation_names_bytes): concrete block lists (toy digest,
   toy signatures of TokenViewExample.v) on which the hypotheses hold, with disguised blocks
   (the same bytes under a raw-codec CID, foreign bytes under an attested link) present. *)
From Ucanto Require Import Base Varint Ipld Cbor Formats Cid BaseEnc DagJson Signing MessageBytes TokenBytes.
From Ucanto Require Import Pattern Time Validator ValidatorSpec ValidatorProps Check_Validator TokenView TokenViewExample.
From Ucanto Require Import ServerBytes ServerBytesExample LinkIntegrity.
Open Scope N_scope.

Definition z_view : bstr -> token := view_block lid x_keys x_valid x_alg.
Definition z_cid (b : bstr) : bstr := match cid_of y_digest b with Some c => c | None => [] end.
Definition z_relabel (codec : N) (b : bstr) : bstr :=
  cidv1 codec (mh_encode 18 (match y_digest 18 32 b with Some d => d | None => [] end)).
Definition z_far : option Z := Some 2000000000%Z.

(* principals: key 7 the agent, key 9 the service (authority), a did:mailto account *)
Definition z_agent : bstr := x_did 7.
Definition z_service : bstr := x_did 9.
Definition z_account : bstr := [157; 26] ++ bs "mailto:web.mail:alice".
Definition z_account_str : bstr := did_string z_account.

(* the account's delegation to the agent (signature bytes are not examined for an attested token) *)
Definition z_login : utoken :=
  mkU (bs "0.9.1") z_account z_agent (x_sig 0 []) [mkCapm z_account_str (bs "debug/echo") (IMap [])]
      None z_far None None None.
Definition z_login_b : bstr := token_bytes z_login.
Definition z_login_c : bstr := z_cid z_login_b.

(* the service's attestation {proof: link of the login} *)
Definition z_att : utoken :=
  issued x_sig x_alg x_did 9 (bs "0.9.1") z_agent
         [mkCapm (did_string z_service) (bs "ucan/attest") (IMap [(bs "proof", ILink z_login_c)])]
         None z_far None None None.
Definition z_att_b : bstr := token_bytes z_att.
Definition z_att_c : bstr := z_cid z_att_b.

(* another account's token, which nobody attested *)
Definition z_forged : utoken :=
  mkU (bs "0.9.1") ([157; 26] ++ bs "mailto:web.mail:mallory") z_agent (x_sig 0 [])
      [mkCapm z_account_str (bs "debug/echo") (IMap [])] None z_far None None None.
Definition z_forged_b : bstr := token_bytes z_forged.

Definition z_ctx (rev : authz -> bool) : ctx :=
  mkCtx (mkVf 9 53485 (Did true (did_string z_service)))
        (fun c d => beq (wth c) (did_str d))
        rev (fun _ => None)
        (fun s => if beq s (did_string z_agent) then Some (mkVf 7 53485 (Did true s))
                  else if beq s (did_string z_service) then Some (mkVf 9 53485 (Did true s)) else None)
        (fun _ => None) 1700000000%Z.

Lemma z_res rev : forall l p, resolve_proof (z_ctx rev) l = Some p -> d_link p = l.
Proof. intros l p E. discriminate E. Qed.

(* --- C04 ------------------------------------------------------------------------------- *)

(* the genuine blocks, then the login's bytes once more under a raw-codec CID *)
Definition z_blocks : list (bstr * bstr) :=
  [(z_login_c, z_login_b); (z_att_c, z_att_b); (z_relabel 85 z_login_b, z_login_b)].
Definition z_vis : list link := map (fun cb => lid (fst cb)) z_blocks.
Definition z_dlogin : dlg := mkDlg (lid z_login_c) z_vis.
Definition z_datt : dlg := mkDlg (lid z_att_c) z_vis.
Definition z_U := ustore_of y_digest z_view z_blocks.
Definition z_C := z_ctx (fun _ => false).

(* the hypotheses of C04_attestation_names_bytes hold of the login among its siblings *)
Example z_c04_hyps :
  fst (validate z_U z_C (claim z_U z_C 3) z_dlogin [z_dlogin; z_datt]) = VOk /\
  tok z_U z_dlogin = Some (z_view z_login_b) /\
  is_key_str (t_iss (z_view z_login_b)) = false /\
  t_iss (z_view z_login_b) <> v_did (authority z_C) /\
  In (mkRaw (bs "debug/echo") z_account_str (NbMap [])) (t_caps (z_view z_login_b)).
Proof.
  split; [vm_compute; reflexivity|]. split; [vm_compute; reflexivity|]. split; [vm_compute; reflexivity|].
  split; [intros E; vm_compute in E; discriminate E|]. vm_compute. left. reflexivity.
Qed.

(* ... so its conclusion is inhabited: the login's fields are those of bytes that hash to its link *)
Example z_c04_applies : names_bytes y_digest z_view z_blocks z_dlogin (z_view z_login_b).
Proof.
  destruct z_c04_hyps as [V [T [K [NA Hc]]]].
  exact (proj1 (attestation_names_bytes y_digest z_view z_blocks z_C (z_res _) 3 z_dlogin [z_dlogin; z_datt] _ _ V T K NA Hc)).
Qed.

(* the lookups: the true links have their tokens, the raw-codec copy has no fields *)
Example z_store :
  store_of y_digest z_view z_blocks z_login_c = Some (z_view z_login_b) /\
  store_of y_digest z_view z_blocks z_att_c = Some (z_view z_att_b) /\
  store_of y_digest z_view z_blocks (z_relabel 85 z_login_b) = None /\
  z_U (lid (z_relabel 85 z_login_b)) = Some empty_token.
Proof. vm_compute. repeat split; reflexivity. Qed.

(* foreign bytes carried under the attested link: no fields, and Validate does not accept them on
   the strength of the attestation as a token that contributes anything (they are the empty token) *)
Definition z_blocks_forged : list (bstr * bstr) := [(z_login_c, z_forged_b); (z_att_c, z_att_b)].
Example z_forged_nothing :
  cid_of y_digest z_forged_b <> Some z_login_c /\
  store_of y_digest z_view z_blocks_forged z_login_c = None /\
  ustore_of y_digest z_view z_blocks_forged (lid z_login_c) = Some empty_token.
Proof. split; [intros E; vm_compute in E; discriminate E|]. vm_compute. split; reflexivity. Qed.

(* --- C05 ------------------------------------------------------------------------------- *)

(* key 7 delegates its resource to key 9 ... which invokes with that proof *)
Definition z_grant : utoken :=
  issued x_sig x_alg x_did 7 (bs "0.9.1") z_service [mkCapm x_owner (bs "store/add") (IMap [])]
         None z_far None None None.
Definition z_grant_b : bstr := token_bytes z_grant.
Definition z_grant_c : bstr := z_cid z_grant_b.
Definition z_inv : utoken :=
  issued x_sig x_alg x_did 9 (bs "0.9.1") z_service [mkCapm x_owner (bs "store/add") (IMap [])]
         (Some [z_grant_c]) z_far None None None.
Definition z_inv_b : bstr := token_bytes z_inv.
Definition z_inv_c : bstr := z_cid z_inv_b.

(* the invocation that cites the grant by its raw-codec CID instead *)
Definition z_inv_raw : utoken :=
  issued x_sig x_alg x_did 9 (bs "0.9.1") z_service [mkCapm x_owner (bs "store/add") (IMap [])]
         (Some [z_relabel 85 z_grant_b]) z_far None None None.
Definition z_inv_raw_b : bstr := token_bytes z_inv_raw.
Definition z_inv_raw_c : bstr := z_cid z_inv_raw_b.

Definition z_blocks5 : list (bstr * bstr) :=
  [(z_inv_c, z_inv_b); (z_grant_c, z_grant_b); (z_relabel 85 z_grant_b, z_grant_b); (z_inv_raw_c, z_inv_raw_b)].
Definition z_vis5 : list link := map (fun cb => lid (fst cb)) z_blocks5.
Definition z_U5 := ustore_of y_digest z_view z_blocks5.
(* a checker that rejects every authorization containing link c *)
Definition z_rev (c : bstr) (a : authz) : bool := existsb (N.eqb (lid c)) (map fst (path_of a)).

Lemma z_rev_spec c : forall x, In (lid c) (map fst (path_of x)) -> revoked (z_ctx (z_rev c)) x = true.
Proof.
  intros x H. cbn [revoked z_ctx]. unfold z_rev. apply existsb_exists. exists (lid c). split; [exact H | apply N.eqb_refl].
Qed.

(* the hypotheses of C05_revocation_names_bytes hold with an authorization returned (the checker
   rejects the raw-codec link; the chain runs over the true links) *)
Example z_c05_hyps :
  exists a, fst (access z_U5 (z_ctx (z_rev (z_relabel 85 z_grant_b))) 4 (std_desc (bs "store/add")) (mkDlg (lid z_inv_c) z_vis5)) = AOk a /\
            map fst (path_of a) = [lid z_inv_c; lid z_grant_c].
Proof. eexists. split; vm_compute; reflexivity. Qed.

Example z_c05_applies :
  exists c' b, c' <> z_relabel 85 z_grant_b /\ In (c', b) z_blocks5 /\ cid_of y_digest b = Some c' /\ lid c' = lid z_grant_c.
Proof.
  destruct z_c05_hyps as [a [H P]].
  destruct (revocation_names_bytes y_digest z_view z_blocks5 _ _ (z_res _) (z_rev_spec _) _ _ _ _ H (lid z_grant_c))
    as [_ [c' [b [t [L [NC [I [_ [E _]]]]]]]]].
  - rewrite P. right. left. reflexivity.
  - exists c', b. auto.
Qed.

(* with the grant revoked, neither the invocation citing its true link nor the one citing the
   raw-codec re-labelling of the same bytes is authorized *)
Example z_c05_revoked :
  (exists e, fst (access z_U5 (z_ctx (z_rev z_grant_c)) 4 (std_desc (bs "store/add")) (mkDlg (lid z_inv_c) z_vis5)) = AErr e /\ has_revoked e = true) /\
  (exists e, fst (access z_U5 (z_ctx (z_rev z_grant_c)) 4 (std_desc (bs "store/add")) (mkDlg (lid z_inv_raw_c) z_vis5)) = AErr e).
Proof. split; eexists; [split|]; vm_compute; reflexivity. Qed.
