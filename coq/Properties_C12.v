(* C12 — CAR decoding delivers only blocks whose bytes match their CID.
   This file contains only the property theorems; definitions and proofs are in
   Varint.v, Cid.v and Car.v.

   In every theorem
     mh_digest  : N -> N -> bstr -> option bstr   is the (symbolic, arbitrary) digest function of
                  go-multihash for the non-identity codes (code, requested length, data),
     hdr_oracle : bstr -> option (list bstr * N)   is the (arbitrary) verdict of go-ipld-cbor on
                  header bytes that are not in the canonical form go-car writes,
   and `car_decode mh_digest true hdr_oracle` is the decoder of the repaired tree
   (fixes/C12_eof.diff); `false` selects the pinned behaviour.  A decode result is
   (HdrErr | HdrOk roots, sequence of IOk cid data | IErr) as a never-stopping consumer of
   car.Decode's iterator sees it. *)
From Ucanto Require Import Base Varint Cid Car.
Open Scope N_scope.

(* Decoding what was encoded yields the roots and exactly the blocks, in order, all Ok —
   any number of roots and blocks, duplicates and empty data included.  block_ok: the CID is
   well-formed (CIDv0, or CIDv1 with any codec / multihash code / digest length), it is the
   sum of the block's data, and the section fits util.MaxAllowedSectionSize. *)
Theorem C12_roundtrip :
  forall mh_digest hdr_oracle (roots : list bstr) (blocks : list block),
  roots_ok 1 roots -> Forall (block_ok mh_digest) blocks ->
  car_decode mh_digest true hdr_oracle (car_encode roots blocks)
  = (HdrOk roots, map item_of_block blocks).
Proof. exact car_roundtrip. Qed.
Print Assumptions C12_roundtrip.

(* For EVERY byte string (not only encoder output), on the repaired and on the pinned tree:
   a delivered block's CID is the sum, under the CID's own prefix, of the delivered bytes. *)
Theorem C12_integrity :
  forall mh_digest fixed hdr_oracle (s c d : bstr),
  In (IOk c d) (snd (car_decode mh_digest fixed hdr_oracle s)) ->
  cid_sum mh_digest (cid_prefix c) d = Some c.
Proof. exact car_decode_integrity. Qed.
Print Assumptions C12_integrity.

(* Every cut strictly inside a section (after at least one and before the last of its bytes)
   decodes to the blocks before the cut followed by an error — never silently fewer blocks. *)
Theorem C12_truncate :
  forall mh_digest hdr_oracle (roots : list bstr) (bs1 : list block) (b : block) (p q : bstr),
  roots_ok 1 roots -> Forall (block_ok mh_digest) bs1 -> block_ok mh_digest b ->
  section b = p ++ q -> p <> [] -> q <> [] ->
  car_decode mh_digest true hdr_oracle (car_encode roots bs1 ++ p)
  = (HdrOk roots, map item_of_block bs1 ++ [IErr]).
Proof. exact car_truncate. Qed.
Print Assumptions C12_truncate.

(* A cut inside the header (including the empty input) is a header error. *)
Theorem C12_truncate_header :
  forall mh_digest hdr_oracle (roots : list bstr) (p q : bstr),
  roots_ok 1 roots -> ld (header_bytes roots 1) = p ++ q -> q <> [] ->
  car_decode mh_digest true hdr_oracle p = (HdrErr, []).
Proof. exact car_truncate_header. Qed.
Print Assumptions C12_truncate_header.

(* The pinned tree does not satisfy C12_truncate: cut right after a section's length varint,
   the iterator ends without an error (general form of Car.ex_pinned_silent). *)
Theorem C12_truncate_pinned_refuted :
  forall mh_digest (b : block), block_ok mh_digest b ->
  car_iter mh_digest false (uvarint (N.of_nat (length (fst b ++ snd b)))) = [].
Proof. exact iter_cut_after_length_pinned. Qed.
Print Assumptions C12_truncate_pinned_refuted.

(* Corruption.  (a) whatever is done to an archive, delivered blocks satisfy integrity: that is
   C12_integrity.  (b) replacing the data of one block by bytes that do not sum to its CID gives
   an error at exactly that section and leaves every other block delivered. *)
Theorem C12_corrupt :
  forall mh_digest hdr_oracle (roots : list bstr) (bs1 : list block) (c d' : bstr) (bs2 : list block),
  roots_ok 1 roots -> Forall (block_ok mh_digest) bs1 -> Forall (block_ok mh_digest) bs2 ->
  cid_wf c -> N.of_nat (length (c ++ d')) <= max_section ->
  cid_sum mh_digest (cid_prefix c) d' <> Some c ->
  car_decode mh_digest true hdr_oracle (car_encode roots bs1 ++ section (c, d') ++ flat_map section bs2)
  = (HdrOk roots, map item_of_block bs1 ++ IErr :: map item_of_block bs2).
Proof. exact car_corrupt_data. Qed.
Print Assumptions C12_corrupt.

(* (c) identity-multihash blocks: ANY other data is detected, no assumption on hashing. *)
Theorem C12_corrupt_identity :
  forall mh_digest hdr_oracle (roots : list bstr) (bs1 : list block) (codec : N) (d d' : bstr) (bs2 : list block),
  roots_ok 1 roots -> Forall (block_ok mh_digest) bs1 -> Forall (block_ok mh_digest) bs2 ->
  codec < 2 ^ 63 -> N.of_nat (length d) <= max_digest_alloc ->
  N.of_nat (length (cidv1 codec (mh_encode 0 d) ++ d')) <= max_section -> d' <> d ->
  car_decode mh_digest true hdr_oracle
    (car_encode roots bs1 ++ section (cidv1 codec (mh_encode 0 d), d') ++ flat_map section bs2)
  = (HdrOk roots, map item_of_block bs1 ++ IErr :: map item_of_block bs2).
Proof. exact car_corrupt_identity. Qed.
Print Assumptions C12_corrupt_identity.

(* (d) hashed CIDv1 blocks (sha2-256, ...): detected unless the new data is a second preimage of
   the digest the CID carries, under the CID's code and digest length.  That is the only
   assumption and it is about this one pair; note that go-cid accepts truncated digests, for
   which second preimages are easy — the statement is exact about what is and is not caught. *)
Theorem C12_corrupt_hashed :
  forall mh_digest hdr_oracle (roots : list bstr) (bs1 : list block) (codec code : N) (dg d' : bstr) (bs2 : list block),
  roots_ok 1 roots -> Forall (block_ok mh_digest) bs1 -> Forall (block_ok mh_digest) bs2 ->
  codec < 2 ^ 63 -> code < 2 ^ 63 -> code <> 0 -> N.of_nat (length dg) <= max_digest_alloc ->
  N.of_nat (length (cidv1 codec (mh_encode code dg) ++ d')) <= max_section ->
  mh_digest code (N.of_nat (length dg)) d' <> Some dg ->
  car_decode mh_digest true hdr_oracle
    (car_encode roots bs1 ++ section (cidv1 codec (mh_encode code dg), d') ++ flat_map section bs2)
  = (HdrOk roots, map item_of_block bs1 ++ IErr :: map item_of_block bs2).
Proof. exact car_corrupt_hashed. Qed.
Print Assumptions C12_corrupt_hashed.

(* A header announcing a version other than 1 is refused and nothing is delivered ... *)
Theorem C12_header :
  forall mh_digest hdr_oracle (v : N) (roots : list bstr) (blocks : list block),
  v < 2 ^ 64 -> v <> 1 -> roots_ok v roots ->
  car_decode mh_digest true hdr_oracle (car_encode_v v roots blocks) = (HdrErr, []).
Proof. exact car_header_version. Qed.
Print Assumptions C12_header.

(* ... also for header bytes in any other CBOR form that the CBOR decoder accepted. *)
Theorem C12_header_any :
  forall mh_digest hdr_oracle (s hb rest : bstr) (roots : list bstr) (v : N),
  ld_read s = LdOk hb rest -> hdr_decode hdr_oracle hb = Some (roots, v) -> v <> 1 ->
  car_decode mh_digest true hdr_oracle s = (HdrErr, []).
Proof. exact car_decode_version_any. Qed.
Print Assumptions C12_header_any.

(* The hypotheses above are satisfiable: Car.ex_roots_ok, Car.ex_blocks_ok (identity, hashed v1,
   CIDv0 with empty data, a duplicate) and Car.ex_roundtrip. *)
