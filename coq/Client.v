(* Client.v — model of client.Execute's reply handling and of the lookups of an execution
   response (client/connection.go, core/message/message.go: NewMessage, Get, Receipts),
   at the level of decoded blocks. *)
From Ucanto Require Import Base.
Open Scope N_scope.

Definition link := N.
(* report of the decoded message: absent, or (key, receipt link) entries in order.
   A key is the STRING of a link; distinct strings are distinct ids *)
Definition report := option (list (link * link)).

Inductive client_result :=
| CError                      (* client.Execute returned an error value *)
| CResponse (rep : report).   (* an ExecutionResponse *)

(* client.Execute after the request was sent: the channel turns every non-200 status into an
   error; the body must be a CAR whose first root is a present, decodable agent message *)
Definition client_execute (status : Z) (root_is_message : bool) (rep : report) : client_result :=
  if (status =? 200)%Z then (if root_is_message then CResponse rep else CError) else CError.

(* message.Get (with the nil-report guard): first entry whose key is the link's string *)
Definition get (rep : report) (l : link) : outcome (option link) :=
  match rep with
  | None => Ret None
  | Some r => Ret (alookup l r)
  end.

(* message.Receipts *)
Definition receipts (rep : report) : outcome (list link) :=
  match rep with
  | None => Ret []
  | Some r => Ret (map snd r)
  end.

(* the pinned code dereferenced the optional report unconditionally *)
Definition get_pinned (rep : report) (l : link) : outcome (option link) :=
  match rep with
  | None => Panic site_nil
  | Some r => Ret (alookup l r)
  end.

(* ---------------------------------------------------------------- *)

Theorem get_total rep l : exists r, get rep l = Ret r.
Proof. destruct rep; eexists; reflexivity. Qed.

Theorem receipts_total rep : exists r, receipts rep = Ret r.
Proof. destruct rep; eexists; reflexivity. Qed.

(* a response without a report answers every lookup with "not found" *)
Theorem get_no_report l : get None l = Ret None.
Proof. reflexivity. Qed.

(* a lookup finds a receipt only under the key of that link *)
Lemma alookup_in {V} (l : N) (es : list (N * V)) r : alookup l es = Some r -> In (l, r) es.
Proof.
  induction es as [|[k v] es IH]; cbn; [discriminate|].
  destruct (l =? k) eqn:E.
  - apply N.eqb_eq in E. intros A. inversion A; subst. left. reflexivity.
  - intros A. right. apply IH. exact A.
Qed.

Theorem get_some rep l r : get rep l = Ret (Some r) -> exists es, rep = Some es /\ In (l, r) es.
Proof.
  destruct rep as [es|]; cbn; [|discriminate]. intros H. inversion H as [A]. exists es.
  split; [reflexivity | apply alookup_in; exact A].
Qed.

Theorem client_execute_total status rim rep :
  client_execute status rim rep = CError \/ exists r, client_execute status rim rep = CResponse r.
Proof. unfold client_execute. destruct (status =? 200)%Z; [destruct rim|]; eauto. Qed.

Theorem client_non_200 status rim rep : status <> 200%Z -> client_execute status rim rep = CError.
Proof. intros H. unfold client_execute. destruct (status =? 200)%Z eqn:E; [apply Z.eqb_eq in E; contradiction | reflexivity]. Qed.

Theorem get_pinned_refuted : exists l, get_pinned None l = Panic site_nil.
Proof. exists 1. reflexivity. Qed.

(* ---------------------------------------------------------------- *)
(* correspondence                                                     *)

Record ccase := {
  cc_id : N; cc_status : Z; cc_root_is_message : bool; cc_report : report; cc_lookups : list link;
  ob_error : bool; ob_gets : list link }.     (* 0 = not found *)

Definition check_ccase (c : ccase) : N :=
  match client_execute (cc_status c) (cc_root_is_message c) (cc_report c) with
  | CError => if ob_error c then 0 else 1
  | CResponse rep =>
    if ob_error c then 1
    else if list_eqb N.eqb
              (map (fun l => match get rep l with Ret (Some r) => r | _ => 0 end) (cc_lookups c))
              (ob_gets c) then 0 else 2
  end.

Definition check_ccases (l : list ccase) : list (N * N) :=
  filter_map (fun c => let r := check_ccase c in if r =? 0 then None else Some (cc_id c, r)) l.
