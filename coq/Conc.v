(* Conc.v — a small shared-memory interleaving semantics with one reader/writer
   lock, and the lockset theorem: if every access of every critical section
   obeys the discipline (writes under the write lock, reads under the read or
   the write lock, nothing outside a lock), no reachable state of any number
   of threads under any schedule contains a data race.

   Generic: used by C17 (block store: variables blks, keys; lock = the embedded
   RWMutex) and by C09 (server.Execute's goroutine body: variables rcpts, rerr;
   lock = `lock`).  The tables are EXTRACTED from the Go source on every run
   (coqgen/Gen_Locks.v).

   What is modelled: threads, critical sections, an abstract correct RW lock,
   interleaving (sequentially consistent) execution.  A thread inside a section
   may perform any of the section's accesses, in any order, any number of
   times, and may leave at any time — this covers loops, branches and early
   returns of the Go code without modelling its control flow.
   What is NOT modelled: the Go memory model (weak memory); see NOTES_C17.md. *)
From Ucanto Require Import Base.
From Coq Require Import ZifyBool ZifyN ZifyNat.
Open Scope N_scope.

(* ------------------------------------------------------------------ *)
(* access tables                                                       *)

Inductive mode := MNone | MR | MW.           (* no lock / RLock / Lock *)
Record access := mkAcc { avar : N; awrite : bool }.
Definition section : Type := (mode * list access)%type.
(* op id ↦ the sections the operation executes, in program order.  Accesses a
   returned closure performs after the unlock form a separate MNone section. *)
Definition op_table : Type := list (N * list section).

Definition acc_ok (m : mode) (a : access) : bool :=
  if awrite a then match m with MW => true | _ => false end
  else match m with MNone => false | _ => true end.
Definition sec_ok (s : section) : bool := forallb (acc_ok (fst s)) (snd s).
Definition prog_ok (p : list section) : bool := forallb sec_ok p.
Definition discipline_ok (tbl : op_table) : bool := forallb (fun e => prog_ok (snd e)) tbl.

Definition sections_of (tbl : op_table) (o : N) : list section :=
  match alookup o tbl with Some s => s | None => [] end.
(* a thread's program: a list of operation ids of the table *)
Definition prog_of (tbl : op_table) (ops : list N) : list section :=
  flat_map (sections_of tbl) ops.

(* ------------------------------------------------------------------ *)
(* interleaving semantics                                              *)

Inductive tstate :=
| Out (todo : list section)
| Ins (m : mode) (accs : list access) (cur : option access) (todo : list section).
(* Ins m accs (Some a) todo: the thread is inside a section entered in mode m and
   is performing access a *)

Definition threads := nat -> tstate.
Definition upd (ts : threads) (i : nat) (v : tstate) : threads :=
  fun j => if Nat.eqb j i then v else ts j.

Definition holds (t : tstate) (m : mode) : Prop :=
  match t with Ins m' _ _ _ => m' = m | Out _ => False end.
Definition locked (t : tstate) : Prop := holds t MR \/ holds t MW.

(* an abstract, correct RW lock: entering is enabled only when compatible with
   the other holders (sync.RWMutex's contract) *)
Definition can_enter (ts : threads) (i : nat) (m : mode) : Prop :=
  match m with
  | MNone => True
  | MR => forall j, j <> i -> ~ holds (ts j) MW
  | MW => forall j, j <> i -> ~ locked (ts j)
  end.

Inductive act := AEnter | AAt (k : nat) | ALeave.
Definition label : Type := (nat * act)%type.      (* thread id, what it does *)

Inductive step (ts : threads) : label -> threads -> Prop :=
| st_enter i s todo :
    ts i = Out (s :: todo) -> can_enter ts i (fst s) ->
    step ts (i, AEnter) (upd ts i (Ins (fst s) (snd s) None todo))
| st_at i m accs cur todo k a :
    ts i = Ins m accs cur todo -> nth_error accs k = Some a ->
    step ts (i, AAt k) (upd ts i (Ins m accs (Some a) todo))
| st_leave i m accs cur todo :
    ts i = Ins m accs cur todo ->
    step ts (i, ALeave) (upd ts i (Out todo)).

(* run init sched s: executing the schedule (a list of labels) from init ends in s *)
Inductive run (init : threads) : list label -> threads -> Prop :=
| run_nil : run init [] init
| run_snoc sched l ts ts' : run init sched ts -> step ts l ts' -> run init (sched ++ [l]) ts'.

Definition reachable (init s : threads) : Prop := exists sched, run init sched s.

Definition conflict (a b : access) : Prop :=
  avar a = avar b /\ (awrite a = true \/ awrite b = true).

(* two different threads are performing conflicting accesses at the same time *)
Definition race (ts : threads) : Prop :=
  exists i j m1 l1 a1 t1 m2 l2 a2 t2, i <> j /\
    ts i = Ins m1 l1 (Some a1) t1 /\ ts j = Ins m2 l2 (Some a2) t2 /\ conflict a1 a2.

Definition init_of (tbl : op_table) (progs : nat -> list N) : threads :=
  fun i => Out (prog_of tbl (progs i)).
(* finitely many threads given as a list; all others have nothing to do *)
Definition init_list (tbl : op_table) (progs : list (list N)) : threads :=
  init_of tbl (fun i => nth i progs []).

(* ------------------------------------------------------------------ *)
(* the lockset theorem                                                 *)

Lemma upd_same ts i v : upd ts i v i = v.
Proof. unfold upd. rewrite Nat.eqb_refl. reflexivity. Qed.
Lemma upd_other ts i v j : j <> i -> upd ts i v j = ts j.
Proof. unfold upd. intros H. apply Nat.eqb_neq in H. rewrite H. reflexivity. Qed.

Definition tinv (t : tstate) : Prop :=
  match t with
  | Out todo => prog_ok todo = true
  | Ins m accs cur todo =>
      forallb (acc_ok m) accs = true /\
      (forall a, cur = Some a -> acc_ok m a = true) /\ prog_ok todo = true
  end.

Definition inv (ts : threads) : Prop :=
  (forall i, tinv (ts i)) /\
  (forall i j, i <> j -> holds (ts i) MW -> ~ locked (ts j)).

Lemma holds_upd_weaken ts i t' :
  (forall mm, holds t' mm -> holds (ts i) mm) ->
  forall k mm, holds (upd ts i t' k) mm -> holds (ts k) mm.
Proof.
  intros H k mm. destruct (Nat.eq_dec k i) as [->|N].
  - rewrite upd_same. apply H.
  - rewrite upd_other by assumption. auto.
Qed.

Lemma inv_step ts l ts' : inv ts -> step ts l ts' -> inv ts'.
Proof.
  intros [HT HX] S.
  destruct S as [i s todo E CE | i m accs cur todo k a E Hk | i m accs cur todo E].
  - split.
    + intros k. destruct (Nat.eq_dec k i) as [->|N].
      * rewrite upd_same. specialize (HT i). rewrite E in HT. cbn in HT.
        apply andb_true_iff in HT. destruct HT as [A B]. cbn. repeat split; try assumption.
        intros a Ha. discriminate.
      * rewrite upd_other by assumption. apply HT.
    + intros a b Nab HW HL.
      destruct (Nat.eq_dec a i) as [->|Na]; destruct (Nat.eq_dec b i) as [->|Nb]; try congruence.
      * rewrite upd_same in HW. cbn in HW. rewrite upd_other in HL by assumption.
        rewrite HW in CE. cbn in CE. exact (CE b Nb HL).
      * rewrite upd_other in HW by assumption. rewrite upd_same in HL.
        destruct HL as [HL|HL]; cbn in HL; rewrite HL in CE; cbn in CE.
        -- exact (CE a Na HW).
        -- apply (CE a Na). right. assumption.
      * rewrite !upd_other in * by assumption. exact (HX a b Nab HW HL).
  - split.
    + intros j. destruct (Nat.eq_dec j i) as [->|N].
      * rewrite upd_same. specialize (HT i). rewrite E in HT. cbn in HT.
        destruct HT as [A [_ B]]. cbn. repeat split; try assumption.
        intros a' Ha. inversion Ha; subst a'.
        rewrite forallb_forall in A. apply A. eapply nth_error_In; eauto.
      * rewrite upd_other by assumption. apply HT.
    + intros x y Nab HW HL.
      assert (Hh : forall j mm, holds (upd ts i (Ins m accs (Some a) todo) j) mm -> holds (ts j) mm).
      { apply holds_upd_weaken. intros mm. rewrite E. cbn. auto. }
      apply (HX x y Nab); [apply Hh; assumption|].
      destruct HL as [HL|HL]; [left|right]; apply Hh; assumption.
  - split.
    + intros j. destruct (Nat.eq_dec j i) as [->|N].
      * rewrite upd_same. specialize (HT i). rewrite E in HT. cbn in HT.
        destruct HT as [_ [_ B]]. exact B.
      * rewrite upd_other by assumption. apply HT.
    + intros x y Nab HW HL.
      assert (Hh : forall j mm, holds (upd ts i (Out todo) j) mm -> holds (ts j) mm).
      { apply holds_upd_weaken. intros mm. cbn. tauto. }
      apply (HX x y Nab); [apply Hh; assumption|].
      destruct HL as [HL|HL]; [left|right]; apply Hh; assumption.
Qed.

Lemma inv_no_race ts : inv ts -> ~ race ts.
Proof.
  intros [HT HX] (i & j & m1 & l1 & a1 & t1 & m2 & l2 & a2 & t2 & Nij & E1 & E2 & (Hv & Hw)).
  pose proof (HT i) as T1. pose proof (HT j) as T2. rewrite E1 in T1. rewrite E2 in T2.
  cbn in T1, T2. destruct T1 as [_ [T1 _]]. destruct T2 as [_ [T2 _]].
  specialize (T1 a1 eq_refl). specialize (T2 a2 eq_refl).
  unfold acc_ok in T1, T2.
  destruct Hw as [Hw|Hw].
  - rewrite Hw in T1. destruct m1; try discriminate.
    apply (HX i j Nij); [rewrite E1; reflexivity|].
    rewrite E2. destruct (awrite a2); destruct m2; try discriminate; [right|left|right]; reflexivity.
  - rewrite Hw in T2. destruct m2; try discriminate.
    apply (HX j i (not_eq_sym Nij)); [rewrite E2; reflexivity|].
    rewrite E1. destruct (awrite a1); destruct m1; try discriminate; [right|left|right]; reflexivity.
Qed.

Lemma inv_run init sched s : inv init -> run init sched s -> inv s.
Proof. intros HI R. induction R as [|sched l ts ts' R IH S]; [assumption|]. eapply inv_step; eauto. Qed.

Lemma inv_init (init : threads) :
  (forall i, exists p, init i = Out p /\ prog_ok p = true) -> inv init.
Proof.
  intros Hinit. split.
  - intros i. destruct (Hinit i) as [p [-> Hp]]. exact Hp.
  - intros i j _ HW. destruct (Hinit i) as [p [E _]]. rewrite E in HW. destruct HW.
Qed.

Lemma alookup_In {V} k (m : list (N * V)) v : alookup k m = Some v -> In (k, v) m.
Proof.
  induction m as [|[k' v'] m IH]; cbn; [discriminate|].
  destruct (k =? k') eqn:E.
  - intros H. inversion H; subst. apply N.eqb_eq in E. subst. left. reflexivity.
  - intros H. right. auto.
Qed.

Lemma prog_ok_app p q : prog_ok (p ++ q) = prog_ok p && prog_ok q.
Proof. apply forallb_app. Qed.

Lemma prog_of_ok tbl ops : discipline_ok tbl = true -> prog_ok (prog_of tbl ops) = true.
Proof.
  intros D. induction ops as [|o ops IH]; [reflexivity|].
  cbn [prog_of flat_map]. rewrite prog_ok_app. fold (prog_of tbl ops). rewrite IH, andb_true_r.
  unfold sections_of. destruct (alookup o tbl) as [s|] eqn:E; [|reflexivity].
  apply alookup_In in E. unfold discipline_ok in D. rewrite forallb_forall in D.
  exact (D _ E).
Qed.

(* Programs that obey the discipline never race: any number of threads (a total
   map; threads with an empty program never move), any programs, any schedule. *)
Theorem lockset_sound_progs (init : threads) :
  (forall i, exists p, init i = Out p /\ prog_ok p = true) ->
  forall sched s, run init sched s -> ~ race s.
Proof. intros H sched s R. apply inv_no_race. eapply inv_run; eauto. apply inv_init. exact H. Qed.

Theorem lockset_sound (tbl : op_table) :
  discipline_ok tbl = true ->
  forall (progs : nat -> list N) (sched : list label) (s : threads),
    run (init_of tbl progs) sched s -> ~ race s.
Proof.
  intros D progs. apply lockset_sound_progs.
  intros i. eexists. split; [reflexivity|]. apply prog_of_ok. exact D.
Qed.

Corollary lockset_sound_list (tbl : op_table) :
  discipline_ok tbl = true ->
  forall (nthreads : nat) (progs : list (list N)), length progs = nthreads ->
  forall sched s, run (init_list tbl progs) sched s -> ~ race s.
Proof. intros D n progs _. apply lockset_sound. exact D. Qed.

(* mutual exclusion, exported for the data-level proofs (Blockstore.v) *)
Theorem write_lock_exclusive (tbl : op_table) :
  discipline_ok tbl = true ->
  forall progs sched s, run (init_of tbl progs) sched s ->
  forall i j, i <> j -> holds (s i) MW -> ~ locked (s j).
Proof.
  intros D progs sched s R.
  assert (I : inv s).
  { eapply inv_run; eauto. apply inv_init. intros i. eexists. split; [reflexivity|].
    apply prog_of_ok. exact D. }
  exact (proj2 I).
Qed.

(* ------------------------------------------------------------------ *)
(* executable semantics for finitely many threads: witnesses of races  *)

Definition holdsb (t : tstate) (m : mode) : bool :=
  match t, m with
  | Ins MR _ _ _, MR => true
  | Ins MW _ _ _, MW => true
  | Ins MNone _ _ _, MNone => true
  | _, _ => false
  end.
Lemma holdsb_spec t m : holdsb t m = true <-> holds t m.
Proof.
  destruct t as [todo|m' accs cur todo]; cbn.
  - destruct m; split; (discriminate || tauto).
  - destruct m', m; cbn; split; (reflexivity || discriminate || congruence).
Qed.

(* n bounds the thread ids in use *)
Definition bounded (n : nat) (ts : threads) : Prop := forall j, (n <= j)%nat -> ts j = Out [].

Definition can_enterb (n : nat) (ts : threads) (i : nat) (m : mode) : bool :=
  match m with
  | MNone => true
  | MR => forallb (fun j => Nat.eqb j i || negb (holdsb (ts j) MW)) (seq 0 n)
  | MW => forallb (fun j => Nat.eqb j i || negb (holdsb (ts j) MR || holdsb (ts j) MW)) (seq 0 n)
  end.

Lemma can_enterb_sound n ts i m : bounded n ts -> can_enterb n ts i m = true -> can_enter ts i m.
Proof.
  intros B H. destruct m; cbn in *; [exact I| |].
  - intros j Nj Hh. rewrite forallb_forall in H.
    destruct (Nat.lt_ge_cases j n) as [L|G].
    + specialize (H j). rewrite in_seq in H. specialize (H ltac:(lia)).
      apply orb_true_iff in H. destruct H as [H|H]; [apply Nat.eqb_eq in H; contradiction|].
      apply holdsb_spec in Hh. rewrite Hh in H. discriminate.
    + rewrite (B j G) in Hh. exact Hh.
  - intros j Nj Hh. rewrite forallb_forall in H.
    destruct (Nat.lt_ge_cases j n) as [L|G].
    + specialize (H j). rewrite in_seq in H. specialize (H ltac:(lia)).
      apply orb_true_iff in H. destruct H as [H|H]; [apply Nat.eqb_eq in H; contradiction|].
      destruct Hh as [Hh|Hh]; apply holdsb_spec in Hh; rewrite Hh in H; cbn in H;
        try discriminate; rewrite orb_true_r in H; discriminate.
    + rewrite (B j G) in Hh. destruct Hh as [Hh|Hh]; exact Hh.
Qed.

Definition stepf (n : nat) (ts : threads) (l : label) : option threads :=
  let (i, a) := l in
  if negb (Nat.ltb i n) then None else
  match a, ts i with
  | AEnter, Out (s :: todo) =>
      if can_enterb n ts i (fst s) then Some (upd ts i (Ins (fst s) (snd s) None todo)) else None
  | AAt k, Ins m accs cur todo =>
      match nth_error accs k with
      | Some a => Some (upd ts i (Ins m accs (Some a) todo))
      | None => None
      end
  | ALeave, Ins m accs cur todo => Some (upd ts i (Out todo))
  | _, _ => None
  end.

Lemma stepf_sound n ts l ts' :
  bounded n ts -> stepf n ts l = Some ts' -> step ts l ts' /\ bounded n ts'.
Proof.
  intros B H. destruct l as [i a]. unfold stepf in H.
  destruct (Nat.ltb i n) eqn:L; cbn in H; [|discriminate]. apply Nat.ltb_lt in L.
  assert (BU : forall v, bounded n (upd ts i v)).
  { intros v j G. rewrite upd_other by lia. apply B. exact G. }
  destruct a as [|k|]; destruct (ts i) as [todo|m accs cur todo] eqn:E; try discriminate.
  - destruct todo as [|s todo]; [discriminate|].
    destruct (can_enterb n ts i (fst s)) eqn:C; [|discriminate]. inversion H; subst.
    split; [|apply BU]. apply st_enter; [assumption|]. eapply can_enterb_sound; eauto.
  - destruct (nth_error accs k) as [a|] eqn:K; [|discriminate]. inversion H; subst.
    split; [|apply BU]. eapply st_at; eauto.
  - inversion H; subst. split; [|apply BU]. eapply st_leave; eauto.
Qed.

Fixpoint runf (n : nat) (ts : threads) (sched : list label) : option threads :=
  match sched with
  | [] => Some ts
  | l :: r => match stepf n ts l with Some ts' => runf n ts' r | None => None end
  end.

Lemma run_cons init l ts sched s : step init l ts -> run ts sched s -> run init (l :: sched) s.
Proof.
  intros S R. induction R as [|sched l' a b R IH S'].
  - change [l] with ([] ++ [l]). eapply run_snoc; [apply run_nil | exact S].
  - change (l :: sched ++ [l']) with ((l :: sched) ++ [l']). eapply run_snoc; eauto.
Qed.

Lemma runf_sound n ts sched s : bounded n ts -> runf n ts sched = Some s -> run ts sched s.
Proof.
  revert ts. induction sched as [|l r IH]; intros ts B H; cbn in H.
  - inversion H; subst. apply run_nil.
  - destruct (stepf n ts l) as [ts'|] eqn:S; [|discriminate].
    destruct (stepf_sound _ _ _ _ B S) as [S1 B1]. eapply run_cons; eauto.
Qed.

Definition cur_of (t : tstate) : option access :=
  match t with Ins _ _ c _ => c | Out _ => None end.
Definition conflictb (a b : access) : bool := (avar a =? avar b) && (awrite a || awrite b).
Definition raceb (n : nat) (ts : threads) : bool :=
  existsb (fun i => existsb (fun j => negb (Nat.eqb i j) &&
    match cur_of (ts i), cur_of (ts j) with
    | Some a, Some b => conflictb a b
    | _, _ => false
    end) (seq 0 n)) (seq 0 n).

Lemma raceb_sound n ts : raceb n ts = true -> race ts.
Proof.
  unfold raceb. intros H. apply existsb_exists in H. destruct H as [i [_ H]].
  apply existsb_exists in H. destruct H as [j [_ H]].
  apply andb_true_iff in H. destruct H as [Nij H].
  apply negb_true_iff, Nat.eqb_neq in Nij.
  destruct (ts i) as [|m1 l1 [a1|] t1] eqn:E1; cbn in H; try discriminate.
  destruct (ts j) as [|m2 l2 [a2|] t2] eqn:E2; cbn in H; try discriminate.
  exists i, j, m1, l1, a1, t1, m2, l2, a2, t2. repeat split; try assumption.
  - unfold conflictb in H. apply andb_true_iff in H. destruct H as [H _]. apply N.eqb_eq. exact H.
  - unfold conflictb in H. apply andb_true_iff in H. destruct H as [_ H].
    apply orb_true_iff in H. exact H.
Qed.

Lemma init_list_bounded tbl progs : bounded (length progs) (init_list tbl progs).
Proof.
  intros j G. unfold init_list, init_of. rewrite nth_overflow by assumption. reflexivity.
Qed.

(* does the schedule drive the given threads of the table into a race? *)
Definition races_under (tbl : op_table) (progs : list (list N)) (sched : list label) : bool :=
  match runf (length progs) (init_list tbl progs) sched with
  | Some s => raceb (length progs) s
  | None => false
  end.

(* witness lemma: an evaluated schedule that ends in a race is a reachable race *)
Theorem race_witness tbl progs sched :
  races_under tbl progs sched = true ->
  exists s, run (init_list tbl progs) sched s /\ race s.
Proof.
  unfold races_under. intros H.
  destruct (runf (length progs) (init_list tbl progs) sched) as [s|] eqn:R; [|discriminate].
  exists s. split.
  - eapply runf_sound; eauto. apply init_list_bounded.
  - eapply raceb_sound; eauto.
Qed.

(* a table that breaks the discipline cannot be certified; and the refutation
   of race freedom for it is a two-line vm_compute through race_witness *)
Definition race_free (tbl : op_table) : Prop :=
  forall progs sched s, run (init_of tbl progs) sched s -> ~ race s.

Lemma race_free_refuted tbl progs sched :
  races_under tbl progs sched = true -> ~ race_free tbl.
Proof.
  intros H RF. destruct (race_witness _ _ _ H) as [s [R X]].
  exact (RF _ _ _ R X).
Qed.

(* ------------------------------------------------------------------ *)
(* examples (non-vacuity)                                              *)

Definition ex_tbl_good : op_table :=
  [(0, [(MW, [mkAcc 0 false; mkAcc 0 true])]); (1, [(MR, [mkAcc 0 false]); (MNone, [])])].
Definition ex_tbl_bad : op_table := [(0, [(MR, [mkAcc 0 false; mkAcc 0 true])])].

Example ex_good_ok : discipline_ok ex_tbl_good = true. Proof. reflexivity. Qed.
Example ex_bad_not_ok : discipline_ok ex_tbl_bad = false. Proof. reflexivity. Qed.
(* the hypothesis of lockset_sound is satisfiable and its conclusion is not vacuous:
   a real run exists ... *)
Example ex_good_runs : exists s, run (init_list ex_tbl_good [[0]; [1]])
                                   [(0%nat, AEnter); (0%nat, AAt 1); (0%nat, ALeave); (1%nat, AEnter); (1%nat, AAt 0)] s.
Proof.
  eexists. eapply (runf_sound 2); [apply (init_list_bounded ex_tbl_good [[0]; [1]])|].
  vm_compute. reflexivity.
Qed.
(* ... and the reader cannot enter while the writer is inside *)
Example ex_good_blocks :
  runf 2 (init_list ex_tbl_good [[0]; [1]]) [(0%nat, AEnter); (1%nat, AEnter)] = None.
Proof. vm_compute. reflexivity. Qed.
(* two threads running the bad operation reach a race in four steps *)
Example ex_bad_races : ~ race_free ex_tbl_bad.
Proof.
  apply (race_free_refuted ex_tbl_bad [[0]; [0]]
           [(0%nat, AEnter); (1%nat, AEnter); (0%nat, AAt 1); (1%nat, AAt 1)]).
  vm_compute. reflexivity.
Qed.
