(* BaseEnc.v — the text encodings of byte strings used by the UCAN signing payload:
   base64 (std and url alphabets, no padding: encoding/base64 RawStdEncoding / RawURLEncoding),
   base32 lower case without padding (go-multibase Base32), base58btc (mr-tron/base58),
   all as radix conversions of the big-endian number a byte string denotes, with proofs of
   injectivity, and the leading character of a base58 string.  Executable (vm_compute):
   digits are produced with shifts for the power-of-two bases.  Stdlib only. *)
From Ucanto Require Import Base.
From Coq Require Import ZifyBool ZifyN ZifyNat.
Open Scope N_scope.

(* ------------------------------------------------------------------ *)
(* radix conversion, little endian                                     *)

Definition of_le (B : N) (l : list N) : N := fold_right (fun d acc => d + B * acc) 0 l.

(* exactly k digits *)
Fixpoint fixed_le (B : N) (k : nat) (n : N) : list N :=
  match k with O => [] | S k' => (n mod B) :: fixed_le B k' (n / B) end.

(* no leading (= last, here) zero digit; [] for 0 *)
Fixpoint le_digits (B : N) (fuel : nat) (n : N) : list N :=
  match fuel with
  | O => []
  | S f => if n =? 0 then [] else (n mod B) :: le_digits B f (n / B)
  end.

Definition digits_lt (B : N) (l : list N) : Prop := Forall (fun d => d < B) l.

Section Radix.
  Variable B : N.
  Hypothesis B2 : 2 <= B.

  Lemma divmod_step d x : d < B -> (d + B * x) mod B = d /\ (d + B * x) / B = x.
  Proof.
    intros H. split.
    - symmetry. apply (N.mod_unique _ _ x); [exact H | lia].
    - symmetry. apply (N.div_unique _ _ _ d); [exact H | lia].
  Qed.

  Lemma fixed_le_length k n : length (fixed_le B k n) = k.
  Proof. revert n. induction k as [|k IH]; intros n; cbn [fixed_le length]; [reflexivity|]. rewrite IH. reflexivity. Qed.

  Lemma fixed_le_lt k n : digits_lt B (fixed_le B k n).
  Proof.
    revert n. induction k as [|k IH]; intros n; cbn [fixed_le]; constructor; [|apply IH].
    apply N.mod_lt. lia.
  Qed.

  Lemma of_le_fixed k n : n < B ^ N.of_nat k -> of_le B (fixed_le B k n) = n.
  Proof.
    revert n. induction k as [|k IH]; intros n H.
    - cbn in *. lia.
    - cbn [fixed_le of_le fold_right]. fold (of_le B (fixed_le B k (n / B))).
      rewrite IH.
      + pose proof (N.div_mod' n B). lia.
      + rewrite Nat2N.inj_succ, N.pow_succ_r' in H. apply N.div_lt_upper_bound; [lia | exact H].
  Qed.

  Lemma fixed_le_of_le l : digits_lt B l -> fixed_le B (length l) (of_le B l) = l.
  Proof.
    induction 1 as [|d l Hd _ IH]; [reflexivity|].
    cbn [length fixed_le of_le fold_right]. fold (of_le B l).
    destruct (divmod_step d (of_le B l) Hd) as [-> ->]. rewrite IH. reflexivity.
  Qed.

  Lemma of_le_bound l : digits_lt B l -> of_le B l < B ^ N.of_nat (length l).
  Proof.
    induction 1 as [|d l Hd _ IH]; [cbn; lia|].
    cbn [length of_le fold_right]. fold (of_le B l).
    rewrite Nat2N.inj_succ, N.pow_succ_r'.
    set (P := B ^ N.of_nat (length l)) in *. set (x := of_le B l) in *.
    assert (M : B * (x + 1) <= B * P) by (apply N.mul_le_mono_l; lia).
    rewrite N.mul_add_distr_l in M. lia.
  Qed.

  Lemma of_le_app a b : of_le B (a ++ b) = of_le B a + B ^ N.of_nat (length a) * of_le B b.
  Proof.
    induction a as [|d a IH].
    { cbn [app length]. change (N.of_nat 0) with 0. rewrite N.pow_0_r. change (of_le B []) with 0. lia. }
    cbn [app length of_le fold_right]. fold (of_le B (a ++ b)). fold (of_le B a).
    rewrite IH, Nat2N.inj_succ, N.pow_succ_r'. lia.
  Qed.

  Lemma of_le_zeros z : of_le B (repeat 0 z) = 0.
  Proof. induction z as [|z IH]; [reflexivity|]. cbn [repeat of_le fold_right]. fold (of_le B (repeat 0 z)). rewrite IH. lia. Qed.

  (* ---------------- canonical digit strings ---------------- *)

  Lemma le_digits_zero fuel : le_digits B fuel 0 = [].
  Proof. destruct fuel; reflexivity. Qed.

  Lemma half_bound n f : n < 2 ^ N.of_nat (S f) -> n / B < 2 ^ N.of_nat f.
  Proof.
    intros H. rewrite Nat2N.inj_succ, N.pow_succ_r' in H.
    apply N.le_lt_trans with (n / 2).
    - apply N.div_le_compat_l. lia.
    - apply N.div_lt_upper_bound; [lia | exact H].
  Qed.

  Lemma le_digits_sound fuel n : n < 2 ^ N.of_nat fuel -> of_le B (le_digits B fuel n) = n.
  Proof.
    revert n. induction fuel as [|f IH]; intros n H.
    - cbn in *. lia.
    - cbn [le_digits]. destruct (n =? 0) eqn:E; [cbn; lia|].
      cbn [of_le fold_right]. fold (of_le B (le_digits B f (n / B))).
      rewrite IH by (apply half_bound; exact H).
      pose proof (N.div_mod' n B). lia.
  Qed.

  Lemma le_digits_lt fuel n : digits_lt B (le_digits B fuel n).
  Proof.
    revert n. induction fuel as [|f IH]; intros n; cbn [le_digits]; [constructor|].
    destruct (n =? 0); constructor; [apply N.mod_lt; lia | apply IH].
  Qed.

  (* the most significant digit is not zero *)
  Lemma le_digits_last fuel n : n < 2 ^ N.of_nat fuel -> last (le_digits B fuel n) 1 <> 0.
  Proof.
    revert n. induction fuel as [|f IH]; intros n H; [cbn; lia|].
    cbn [le_digits]. destruct (n =? 0) eqn:E; [cbn; lia|].
    pose proof (half_bound n f H) as Hb.
    destruct (le_digits B f (n / B)) as [|y l] eqn:D.
    - pose proof (le_digits_sound f (n / B) Hb) as S. rewrite D in S. cbn in S.
      cbn [last]. rewrite N.mod_small; [lia|].
      destruct (N.lt_ge_cases n B) as [L|G]; [exact L|].
      assert (1 <= n / B) by (apply N.div_le_lower_bound; lia). lia.
    - change (last (n mod B :: y :: l) 1) with (last (y :: l) 1). rewrite <- D. apply IH. exact Hb.
  Qed.

  Lemma le_digits_complete l : digits_lt B l -> last l 1 <> 0 ->
    forall fuel, (length l <= fuel)%nat -> le_digits B fuel (of_le B l) = l.
  Proof.
    induction 1 as [|d l Hd Hl IH]; intros C fuel Hf; [apply le_digits_zero|].
    destruct fuel as [|f]; [cbn in Hf; lia|].
    assert (C' : last l 1 <> 0) by (destruct l; [cbn; lia | exact C]).
    assert (Hf' : (length l <= f)%nat) by (cbn in Hf; lia).
    specialize (IH C' f Hf').
    cbn [le_digits of_le fold_right]. fold (of_le B l).
    destruct (d + B * of_le B l =? 0) eqn:E.
    - exfalso. assert (E0 : of_le B l = 0) by nia. rewrite E0, le_digits_zero in IH. subst l. cbn in C. lia.
    - destruct (divmod_step d (of_le B l) Hd) as [-> ->]. rewrite IH. reflexivity.
  Qed.

  (* the most significant digit of a number in [B^k d, B^k (d+1)) is d *)
  Lemma le_digits_lead k : forall d n fuel, 0 < d -> d < B ->
    B ^ N.of_nat k * d <= n -> n < B ^ N.of_nat k * (d + 1) -> n < 2 ^ N.of_nat fuel ->
    exists l, length l = k /\ le_digits B fuel n = l ++ [d].
  Proof.
    induction k as [|k IH]; intros d n fuel D0 DB L U F.
    - change (N.of_nat 0) with 0 in *. rewrite N.pow_0_r in *.
      assert (n = d) by lia. subst n.
      destruct fuel as [|f]; [cbn in F; lia|].
      exists []. split; [reflexivity|]. cbn [le_digits app].
      replace (d =? 0) with false by lia.
      rewrite N.mod_small by exact DB. rewrite N.div_small by exact DB. rewrite le_digits_zero. reflexivity.
    - rewrite Nat2N.inj_succ, N.pow_succ_r' in L, U.
      set (P := B ^ N.of_nat k) in *.
      assert (Ppos : 0 < P) by (apply N.neq_0_lt_0, N.pow_nonzero; lia).
      assert (PD : 0 < P * d) by nia.
      destruct fuel as [|f]; [cbn in F; nia|].
      cbn [le_digits]. replace (n =? 0) with false by nia.
      destruct (IH d (n / B) f D0 DB) as [l [Ll El]].
      + apply N.div_le_lower_bound; [lia | nia].
      + apply N.div_lt_upper_bound; [lia | nia].
      + apply half_bound. exact F.
      + exists (n mod B :: l). split; [cbn; lia|]. rewrite El. reflexivity.
  Qed.
End Radix.

(* ------------------------------------------------------------------ *)
(* executable big-endian versions                                      *)

Definition of_be (B : N) (l : list N) : N := fold_left (fun acc d => d + B * acc) l 0.

Lemma of_be_le B l : of_be B l = of_le B (rev l).
Proof. unfold of_be, of_le. symmetry. apply fold_left_rev_right. Qed.

Fixpoint fixed_be (B : N) (k : nat) (n : N) (acc : list N) : list N :=
  match k with O => acc | S k' => fixed_be B k' (n / B) (n mod B :: acc) end.

Lemma fixed_be_le B k n acc : fixed_be B k n acc = rev (fixed_le B k n) ++ acc.
Proof.
  revert n acc. induction k as [|k IH]; intros n acc; [reflexivity|].
  cbn [fixed_be fixed_le rev]. rewrite IH, <- app_assoc. reflexivity.
Qed.

(* base 2^w with shifts *)
Fixpoint fixed_be2 (w : N) (k : nat) (n : N) (acc : list N) : list N :=
  match k with O => acc | S k' => fixed_be2 w k' (N.shiftr n w) (N.land n (N.ones w) :: acc) end.

Lemma fixed_be2_eq w k n acc : fixed_be2 w k n acc = fixed_be (2 ^ w) k n acc.
Proof.
  revert n acc. induction k as [|k IH]; intros n acc; [reflexivity|].
  cbn [fixed_be2 fixed_be]. rewrite IH, N.shiftr_div_pow2, N.land_ones. reflexivity.
Qed.

Fixpoint be_digits_go (B : N) (fuel : nat) (n : N) (acc : list N) : list N :=
  match fuel with
  | O => acc
  | S f => if n =? 0 then acc else let (q, r) := N.div_eucl n B in be_digits_go B f q (r :: acc)
  end.

Lemma be_digits_go_le B fuel n acc : be_digits_go B fuel n acc = rev (le_digits B fuel n) ++ acc.
Proof.
  revert n acc. induction fuel as [|f IH]; intros n acc; [reflexivity|].
  cbn [be_digits_go le_digits]. destruct (n =? 0); [reflexivity|].
  unfold N.modulo, N.div. destruct (N.div_eucl n B) as [q r]. cbn [fst snd rev].
  rewrite IH, <- app_assoc. reflexivity.
Qed.

(* canonical big-endian digits of n ([] for 0) *)
Definition be_digits (B : N) (n : N) : list N := be_digits_go B (N.to_nat (N.size n)) n [].

Lemma size_fuel n : n < 2 ^ N.of_nat (N.to_nat (N.size n)).
Proof. rewrite N2Nat.id. apply N.size_gt. Qed.

Lemma be_digits_le B n : be_digits B n = rev (le_digits B (N.to_nat (N.size n)) n).
Proof. unfold be_digits. rewrite be_digits_go_le, app_nil_r. reflexivity. Qed.

Lemma be_digits_sound B n : 2 <= B -> of_be B (be_digits B n) = n.
Proof.
  intros HB. rewrite of_be_le, be_digits_le, rev_involutive.
  apply le_digits_sound; [exact HB | apply size_fuel].
Qed.

Lemma be_digits_lt B n : 2 <= B -> digits_lt B (be_digits B n).
Proof. intros HB. rewrite be_digits_le. apply Forall_rev. apply le_digits_lt. exact HB. Qed.

Lemma be_digits_head B n : 2 <= B -> hd 1 (be_digits B n) <> 0.
Proof.
  intros HB. rewrite be_digits_le.
  pose proof (le_digits_last B HB _ n (size_fuel n)) as L.
  destruct (le_digits B (N.to_nat (N.size n)) n) as [|x l] using rev_ind; [cbn; lia|].
  rewrite rev_app_distr. cbn [rev app hd]. rewrite last_last in L. exact L.
Qed.

Lemma be_digits_inj B a b : 2 <= B -> be_digits B a = be_digits B b -> a = b.
Proof. intros HB E. rewrite <- (be_digits_sound B a HB), <- (be_digits_sound B b HB), E. reflexivity. Qed.

(* a big-endian digit string without leading zero is the canonical one of its value *)
Lemma be_digits_complete B l : 2 <= B -> digits_lt B l -> hd 1 l <> 0 -> be_digits B (of_be B l) = l.
Proof.
  intros HB Hl Hh. rewrite be_digits_le, of_be_le.
  set (n := of_le B (rev l)).
  assert (C : last (rev l) 1 <> 0).
  { destruct l as [|x l]; [cbn; lia|]. cbn [rev]. rewrite last_last. exact Hh. }
  assert (D : digits_lt B (rev l)) by (apply Forall_rev; exact Hl).
  (* both are canonical little-endian digit strings of n *)
  pose proof (le_digits_complete B HB (rev l) D C) as K.
  assert (E : le_digits B (N.to_nat (N.size n)) n = rev l).
  { pose proof (le_digits_sound B HB _ n (size_fuel n)) as S1.
    pose proof (le_digits_lt B HB (N.to_nat (N.size n)) n) as D1.
    pose proof (le_digits_last B HB _ n (size_fuel n)) as C1.
    set (l1 := le_digits B (N.to_nat (N.size n)) n) in *.
    pose proof (le_digits_complete B HB l1 D1 C1 (Nat.max (length l1) (length (rev l)))) as K1.
    rewrite S1 in K1. rewrite <- K1 by lia. apply K. lia. }
  rewrite E. apply rev_involutive.
Qed.

Lemma of_be_cons B d l : 2 <= B -> of_be B (d :: l) = d * B ^ N.of_nat (length l) + of_be B l.
Proof. intros HB. rewrite !of_be_le. cbn [rev]. rewrite of_le_app, rev_length by exact HB. cbn. rewrite N.mul_0_r. lia. Qed.

Lemma of_be_bound B l : 2 <= B -> digits_lt B l -> of_be B l < B ^ N.of_nat (length l).
Proof.
  intros HB H. rewrite of_be_le, <- rev_length. apply of_le_bound; [exact HB|]. apply Forall_rev. exact H.
Qed.

Lemma of_be_zeros B z l : 2 <= B -> of_be B (repeat 0 z ++ l) = of_be B l.
Proof.
  intros HB. rewrite !of_be_le, rev_app_distr, of_le_app by exact HB.
  replace (rev (repeat 0 z)) with (repeat 0 z).
  - rewrite of_le_zeros by exact HB. lia.
  - induction z as [|z IH]; [reflexivity|]. cbn [repeat rev]. rewrite <- IH. clear IH.
    induction z as [|z IH]; [reflexivity|]. cbn [repeat app]. rewrite <- IH. reflexivity.
Qed.

(* fixed-width big-endian digit strings of equal length with equal value are equal *)
Lemma of_be_inj_len B a b : 2 <= B -> digits_lt B a -> digits_lt B b -> length a = length b ->
  of_be B a = of_be B b -> a = b.
Proof.
  intros HB Ha Hb L E. rewrite !of_be_le in E.
  apply Forall_rev in Ha, Hb.
  pose proof (fixed_le_of_le B HB _ Ha) as Fa. pose proof (fixed_le_of_le B HB _ Hb) as Fb.
  rewrite !rev_length in *. rewrite E, L, Fb in Fa.
  rewrite <- (rev_involutive a), <- (rev_involutive b), Fa. reflexivity.
Qed.

(* ------------------------------------------------------------------ *)
(* alphabets                                                           *)

Definition alpha_of (tbl : bstr) (d : N) : N := nth (N.to_nat d) tbl 0.

Fixpoint nodupN (l : list N) : bool :=
  match l with [] => true | x :: r => negb (existsb (N.eqb x) r) && nodupN r end.

Lemma nodupN_NoDup l : nodupN l = true -> NoDup l.
Proof.
  induction l as [|x l IH]; cbn [nodupN]; [constructor|].
  rewrite andb_true_iff, negb_true_iff. intros [E R]. constructor; [|auto].
  intros I. assert (X : existsb (N.eqb x) l = true) by (apply existsb_exists; exists x; split; [exact I | apply N.eqb_refl]).
  congruence.
Qed.

Lemma alpha_inj tbl a b : nodupN tbl = true -> a < N.of_nat (length tbl) -> b < N.of_nat (length tbl) ->
  alpha_of tbl a = alpha_of tbl b -> a = b.
Proof.
  intros ND Ha Hb E. apply nodupN_NoDup in ND. unfold alpha_of in E.
  rewrite NoDup_nth in ND. apply N2Nat.inj. apply (ND (N.to_nat a) (N.to_nat b)); [lia | lia | exact E].
Qed.

Lemma map_alpha_inj tbl l1 l2 : nodupN tbl = true ->
  digits_lt (N.of_nat (length tbl)) l1 -> digits_lt (N.of_nat (length tbl)) l2 ->
  map (alpha_of tbl) l1 = map (alpha_of tbl) l2 -> l1 = l2.
Proof.
  intros ND H1. revert l2. induction H1 as [|x l1 Hx _ IH]; intros l2 H2 E; destruct l2 as [|y l2]; try discriminate; [reflexivity|].
  inversion H2; subst. cbn [map] in E. inversion E. f_equal; [eapply alpha_inj; eauto | auto].
Qed.

Lemma alpha_in tbl d : d < N.of_nat (length tbl) -> In (alpha_of tbl d) tbl.
Proof. intros H. apply nth_In. lia. Qed.

Definition tbl_b64std : bstr := bs "ABCDEFGHIJKLMNOPQRSTUVWXYZabcdefghijklmnopqrstuvwxyz0123456789+/".
Definition tbl_b64url : bstr := bs "ABCDEFGHIJKLMNOPQRSTUVWXYZabcdefghijklmnopqrstuvwxyz0123456789-_".
Definition tbl_b32 : bstr := bs "abcdefghijklmnopqrstuvwxyz234567".
Definition tbl_b58 : bstr := bs "123456789ABCDEFGHJKLMNPQRSTUVWXYZabcdefghijkmnopqrstuvwxyz".

(* ------------------------------------------------------------------ *)
(* bit-group encodings (base64 / base32 without padding)               *)

(* w bits per character: ceil(8 n / w) characters, the last one padded with zero bits *)
Definition nchars (w n : nat) : nat := Nat.div (8 * n + (w - 1)) w.
Definition npad (w n : nat) : nat := nchars w n * w - 8 * n.

Definition enc_bits (w : nat) (tbl : bstr) (s : bstr) : bstr :=
  let n := length s in
  map (alpha_of tbl) (fixed_be2 (N.of_nat w) (nchars w n) (N.shiftl (of_be 256 s) (N.of_nat (npad w n))) []).

Definition bytes_lt (s : bstr) : Prop := Forall (fun b => b < 256) s.

Section Bits.
  Variable w : nat.
  Hypothesis w1 : (1 <= w)%nat.
  Hypothesis w8 : (w <= 8)%nat.
  Variable tbl : bstr.
  Hypothesis tbl_len : N.of_nat (length tbl) = 2 ^ N.of_nat w.
  Hypothesis tbl_nodup : nodupN tbl = true.

  Lemma nchars_spec n : (8 * n <= nchars w n * w < 8 * n + w)%nat.
  Proof.
    unfold nchars. pose proof (Nat.div_mod (8 * n + (w - 1)) w ltac:(lia)) as D.
    pose proof (Nat.mod_upper_bound (8 * n + (w - 1)) w ltac:(lia)) as U.
    set (q := Nat.div (8 * n + (w - 1)) w) in *. set (r := Nat.modulo (8 * n + (w - 1)) w) in *. nia.
  Qed.

  Lemma nchars_inj n1 n2 : nchars w n1 = nchars w n2 -> n1 = n2.
  Proof. intros E. pose proof (nchars_spec n1). pose proof (nchars_spec n2). rewrite E in *. lia. Qed.

  Lemma B2w : 2 <= 2 ^ N.of_nat w.
  Proof. change 2 with (2 ^ 1) at 1. apply N.pow_le_mono_r; lia. Qed.

  Lemma enc_bits_spec s :
    enc_bits w tbl s =
    map (alpha_of tbl) (rev (fixed_le (2 ^ N.of_nat w) (nchars w (length s)) (of_be 256 s * 2 ^ N.of_nat (npad w (length s))))).
  Proof. unfold enc_bits. rewrite fixed_be2_eq, fixed_be_le, app_nil_r, N.shiftl_mul_pow2. reflexivity. Qed.

  Lemma enc_bits_length s : length (enc_bits w tbl s) = nchars w (length s).
  Proof. rewrite enc_bits_spec, map_length, rev_length, fixed_le_length. reflexivity. Qed.

  Theorem enc_bits_inj a b : bytes_lt a -> bytes_lt b -> enc_bits w tbl a = enc_bits w tbl b -> a = b.
  Proof.
    intros Ha Hb E.
    assert (L : length a = length b).
    { apply nchars_inj. rewrite <- !enc_bits_length, E. reflexivity. }
    rewrite !enc_bits_spec in E. rewrite <- L in E.
    set (n := length a) in *. set (m := nchars w n) in *. set (p := npad w n) in *.
    apply map_alpha_inj in E; [|exact tbl_nodup| |];
      try (rewrite tbl_len; apply Forall_rev; apply fixed_le_lt; apply B2w).
    apply (f_equal (@rev N)) in E. rewrite !rev_involutive in E.
    assert (P2 : (2 ^ N.of_nat w) ^ N.of_nat m = 256 ^ N.of_nat n * 2 ^ N.of_nat p).
    { change 256 with (2 ^ 8). rewrite <- !N.pow_mul_r, <- N.pow_add_r. f_equal.
      pose proof (nchars_spec n). unfold p, npad. fold m. lia. }
    assert (Bd : forall s, bytes_lt s -> length s = n -> of_be 256 s * 2 ^ N.of_nat p < (2 ^ N.of_nat w) ^ N.of_nat m).
    { intros s Hs Ls. rewrite P2. apply N.mul_lt_mono_pos_r; [apply N.neq_0_lt_0, N.pow_nonzero; lia|].
      rewrite <- Ls. apply of_be_bound; [lia | exact Hs]. }
    apply (f_equal (of_le (2 ^ N.of_nat w))) in E.
    rewrite !of_le_fixed in E by (try apply B2w; apply Bd; auto).
    apply N.mul_cancel_r in E; [|apply N.pow_nonzero; lia].
    apply (of_be_inj_len 256); auto. lia.
  Qed.

  (* every character comes from the table *)
  Lemma enc_bits_chars s : Forall (fun c => In c tbl) (enc_bits w tbl s).
  Proof.
    rewrite enc_bits_spec. apply Forall_forall. intros c Hc. apply in_map_iff in Hc. destruct Hc as [d [<- Hd]].
    apply alpha_in. rewrite tbl_len. apply in_rev in Hd.
    pose proof (fixed_le_lt (2 ^ N.of_nat w) B2w (nchars w (length s)) (of_be 256 s * 2 ^ N.of_nat (npad w (length s)))) as F.
    unfold digits_lt in F. rewrite Forall_forall in F. apply F. exact Hd.
  Qed.
End Bits.

Definition b64std (s : bstr) : bstr := enc_bits 6 tbl_b64std s.
Definition b64url (s : bstr) : bstr := enc_bits 6 tbl_b64url s.
Definition b32lower (s : bstr) : bstr := enc_bits 5 tbl_b32 s.

Theorem b64std_inj a b : bytes_lt a -> bytes_lt b -> b64std a = b64std b -> a = b.
Proof. apply enc_bits_inj; try lia; reflexivity. Qed.
Theorem b64url_inj a b : bytes_lt a -> bytes_lt b -> b64url a = b64url b -> a = b.
Proof. apply enc_bits_inj; try lia; reflexivity. Qed.
Theorem b32lower_inj a b : bytes_lt a -> bytes_lt b -> b32lower a = b32lower b -> a = b.
Proof. apply enc_bits_inj; try lia; reflexivity. Qed.

Lemma b64std_chars s : Forall (fun c => In c tbl_b64std) (b64std s).
Proof. apply enc_bits_chars; try lia; reflexivity. Qed.
Lemma b64url_chars s : Forall (fun c => In c tbl_b64url) (b64url s).
Proof. apply enc_bits_chars; try lia; reflexivity. Qed.
Lemma b32lower_chars s : Forall (fun c => In c tbl_b32) (b32lower s).
Proof. apply enc_bits_chars; try lia; reflexivity. Qed.

(* ------------------------------------------------------------------ *)
(* base58btc                                                           *)

Fixpoint lead0 (s : bstr) : nat :=
  match s with b :: r => if b =? 0 then S (lead0 r) else O | [] => O end.

Definition b58enc (s : bstr) : bstr :=
  repeat 49 (lead0 s) ++ map (alpha_of tbl_b58) (be_digits 58 (of_be 256 s)).

Lemma lead0_split s : exists r, s = repeat 0 (lead0 s) ++ r /\ hd 1 r <> 0.
Proof.
  induction s as [|b s [r [E H]]]; [exists []; split; [reflexivity | cbn; lia]|].
  cbn [lead0]. destruct (b =? 0) eqn:B0.
  - apply N.eqb_eq in B0. subst b. exists r. split; [cbn [repeat app]; rewrite <- E; reflexivity | exact H].
  - exists (b :: s). split; [reflexivity | cbn; lia].
Qed.

Lemma repeat_prefix_inj {A} (c : A) z1 z2 l1 l2 :
  (forall x r, l1 = x :: r -> x <> c) -> (forall x r, l2 = x :: r -> x <> c) ->
  repeat c z1 ++ l1 = repeat c z2 ++ l2 -> z1 = z2 /\ l1 = l2.
Proof.
  revert z2. induction z1 as [|z1 IH]; intros [|z2] H1 H2 E; cbn [repeat app] in E.
  - auto.
  - subst l1. exfalso. eapply H1; reflexivity.
  - subst l2. exfalso. eapply H2; reflexivity.
  - inversion E as [E']. destruct (IH z2 H1 H2 E') as [-> ->]. auto.
Qed.

Lemma b58_digit_not_one d : d < 58 -> d <> 0 -> alpha_of tbl_b58 d <> 49.
Proof.
  intros H NZ E. apply NZ. apply (alpha_inj tbl_b58); [reflexivity | exact H | reflexivity | exact E].
Qed.

Lemma b58_digits_head n x r : map (alpha_of tbl_b58) (be_digits 58 n) = x :: r -> x <> 49.
Proof.
  intros E. pose proof (be_digits_head 58 n ltac:(lia)) as H. pose proof (be_digits_lt 58 n ltac:(lia)) as L.
  destruct (be_digits 58 n) as [|d l]; [discriminate|]. cbn [map hd] in *. inversion E; subst.
  inversion L; subst. apply b58_digit_not_one; assumption.
Qed.

Theorem b58enc_inj a b : bytes_lt a -> bytes_lt b -> b58enc a = b58enc b -> a = b.
Proof.
  intros Ha Hb E. unfold b58enc in E.
  apply repeat_prefix_inj in E; try (intros x r; apply b58_digits_head).
  destruct E as [Z E].
  apply map_alpha_inj in E; [|reflexivity| |]; try (apply be_digits_lt; lia).
  apply be_digits_inj in E; [|lia].
  destruct (lead0_split a) as [ra [Ea Ra]]. destruct (lead0_split b) as [rb [Eb Rb]].
  rewrite Ea, Eb, !of_be_zeros in E by lia.
  assert (Ta : bytes_lt ra) by (rewrite Ea in Ha; apply Forall_app in Ha; tauto).
  assert (Tb : bytes_lt rb) by (rewrite Eb in Hb; apply Forall_app in Hb; tauto).
  pose proof (be_digits_complete 256 ra ltac:(lia) Ta Ra) as Ca.
  pose proof (be_digits_complete 256 rb ltac:(lia) Tb Rb) as Cb.
  rewrite E, Cb in Ca. rewrite Ea, Eb, Z, Ca. reflexivity.
Qed.

Lemma b58enc_chars s : Forall (fun c => In c tbl_b58) (b58enc s).
Proof.
  unfold b58enc. apply Forall_app. split.
  - apply Forall_forall. intros c Hc. apply repeat_spec in Hc. subst c. vm_compute. auto.
  - apply Forall_forall. intros c Hc. apply in_map_iff in Hc. destruct Hc as [d [<- Hd]].
    apply alpha_in. pose proof (be_digits_lt 58 (of_be 256 s) ltac:(lia)) as F. unfold digits_lt in F. rewrite Forall_forall in F. apply F. exact Hd.
Qed.

(* a 34-byte sha2-256 multihash (CIDv0: 0x12 0x20 digest) prints with a leading 'Q' *)
Lemma b58enc_cidv0_head r : bytes_lt r -> length r = 32%nat -> exists t, b58enc (18 :: 32 :: r) = 81 :: t.
Proof.
  intros Hr Lr. unfold b58enc. cbn [lead0 N.eqb repeat app].
  set (X := of_be 256 (18 :: 32 :: r)).
  assert (HX : 58 ^ 45 * 23 <= X /\ X < 58 ^ 45 * (23 + 1)).
  { unfold X. rewrite !of_be_cons by lia. cbn [length]. rewrite Lr.
    pose proof (of_be_bound 256 r ltac:(lia) Hr) as U. rewrite Lr in U.
    change (N.of_nat 32) with 32 in *. change (N.of_nat 33) with 33.
    set (y := of_be 256 r) in *.
    assert (C1 : 58 ^ 45 * 23 <= 18 * 256 ^ 33 + 32 * 256 ^ 32) by (apply N.leb_le; vm_compute; reflexivity).
    assert (C2 : 18 * 256 ^ 33 + 32 * 256 ^ 32 + 256 ^ 32 <= 58 ^ 45 * (23 + 1)) by (apply N.leb_le; vm_compute; reflexivity).
    lia. }
  destruct HX as [L U].
  destruct (le_digits_lead 58 ltac:(lia) 45 23 X (N.to_nat (N.size X)) ltac:(lia) ltac:(lia) L U (size_fuel X)) as [l [Ll El]].
  rewrite be_digits_le, El, rev_app_distr. cbn [rev app map]. eexists. reflexivity.
Qed.

Example b58_examples :
  b58enc (bs "Hello World!") = bs "2NEpo7TZRRrLZSi2U" /\ b58enc [0; 0; 40; 127] = bs "1145k" /\ b58enc [] = [] /\ b58enc [0] = [49].
Proof. vm_compute. repeat split. Qed.

Example b64_examples :
  b64std (bs "f") = bs "Zg" /\ b64std (bs "fo") = bs "Zm8" /\ b64std (bs "foo") = bs "Zm9v" /\ b64std (bs "foob") = bs "Zm9vYg" /\
  b64url [251; 255] = bs "-_8" /\ b64std [251; 255] = bs "+/8" /\ b64std [] = [] /\
  b32lower (bs "f") = bs "my" /\ b32lower (bs "fo") = bs "mzxq" /\ b32lower (bs "foo") = bs "mzxw6" /\
  b32lower (bs "foob") = bs "mzxw6yq" /\ b32lower (bs "fooba") = bs "mzxw6ytb" /\ b32lower (bs "foobar") = bs "mzxw6ytboi".
Proof. vm_compute. repeat split. Qed.
