(* ServerExamples.v — a concrete server: non-vacuity of the effects theorems of Server.v
   (C08_receipt_effects, C08_no_effects_without_success, C09_effects_schedule_independent). *)
From Ucanto Require Import Base Pattern Time Validator ValidatorSpec Check_Validator ValidatorExamples Server Check_Server.
From Coq Require Import Permutation.
Open Scope N_scope.

(* the world of ValidatorExamples (alice -> bob, bob invokes store/add on alice's space: link 2, proof 1)
   plus carol's invocation 3 on alice's space without a proof; the store/add handler returns a value with
   two forks and a join, the store/list handler fails *)
Definition carol := Did true (bs "did:key:zCarol").
Definition ex_fx : effects := ([777; 779], Some 778).
Definition ex_srv_world : wcase :=
  {| wc_id := 0;
     wc_tokens := ex_tokens ++
       [(3, mkTok carol svc [mkRaw store_add (did_str alice) (NbMap [])] [] (Some 100%Z) 0%Z 53485 (Some 3));
        (4, mkTok alice svc [mkRaw (bs "store/list") (did_str alice) (NbMap [])] [] (Some 100%Z) 0%Z 53485 (Some 1))];
     wc_inv := mkDlg 2 [1; 2]; wc_can := store_add;
     wc_authority := mkVf 9 53485 svc; wc_self := true; wc_owners := []; wc_revoked := [];
     wc_resolver := [];
     wc_principals := [(did_str alice, mkVf 1 53485 alice); (did_str bob, mkVf 2 53485 bob); (did_str carol, mkVf 3 53485 carol)];
     wc_keyres := []; wc_now := 50%Z;
     ob_auth := true; ob_path := []; ob_verifies := []; ob_checks := []; ob_derives := []; ob_err_revoked := false |}.

Definition ex_srv : server :=
  mkServer svc (wc_ctx ex_srv_world)
    [mkHandler store_add (std_desc store_add) (fun _ => HOk ex_fx);
     mkHandler (bs "store/list") (std_desc (bs "store/list")) (fun _ => HFail)].

Definition ex_vis : list link := [1; 2; 3; 4].
Definition ex_exec : list link := [3; 2; 4; 2].

(* the authorized invocation's receipt carries the handler's effects — forks in order, join —;
   the unauthorized one and the one whose handler failed carry none; the handler ran twice (2 and 4) *)
Example ex_execute_effects :
  exists rep calls, execute (wc_U ex_srv_world) fuel ex_srv ex_vis ex_exec = ExecOk rep calls /\
    option_map (fun r => (rc_out r, rc_fx r)) (rget 2 rep) = Some (ROk, ex_fx) /\
    option_map (fun r => (rc_out r, rc_fx r)) (rget 3 rep) = Some (RErr e_unauthorized, no_fx) /\
    option_map (fun r => (rc_out r, rc_fx r)) (rget 4 rep) = Some (RErr e_execution, no_fx) /\
    length calls = 2%nat /\ length rep = 3%nat.
Proof. eexists. eexists. split; [vm_compute; reflexivity|]. vm_compute. repeat split; reflexivity. Qed.

(* the hypotheses of C08_receipt_effects hold together for invocation 2 ... *)
Example ex_receipt_effects_hyps :
  exists t c h a,
    tok (wc_U ex_srv_world) (mkDlg 2 ex_vis) = Some t /\ t_caps t = [c] /\
    find_handler (r_can c) (s_service ex_srv) = Some h /\
    fst (access (wc_U ex_srv_world) (s_ctx ex_srv) fuel (h_desc h) (mkDlg 2 ex_vis)) = AOk a /\
    h_result h (node_cap a) = HOk ex_fx /\ In 2 ex_exec.
Proof.
  do 4 eexists. split; [vm_compute; reflexivity|]. split; [reflexivity|].
  split; [vm_compute; reflexivity|]. split; [vm_compute; reflexivity|]. split; [reflexivity|].
  right. left. reflexivity.
Qed.

(* ... and so does its conclusion under a schedule that is not the identity (receipts appended in
   reverse order) *)
Example ex_effects_reversed_schedule :
  exists rep calls, execute_sched (wc_U ex_srv_world) fuel ex_srv ex_vis ex_exec (@rev receipt) = ExecOk rep calls /\
    map fst rep = [4; 2; 3] /\
    option_map rc_fx (rget 2 rep) = Some ex_fx /\ option_map rc_fx (rget 3 rep) = Some no_fx.
Proof. eexists. eexists. split; [vm_compute; reflexivity|]. vm_compute. repeat split; reflexivity. Qed.
