(* Check_LinkIntegrity.v — correspondence for LinkIntegrity.v.

   A case is a list of blocks (link bytes, block bytes) exactly as they were handed to the
   library (blockstore.NewBlockReader(WithBlocks(...)), or the sections of a CAR given to
   delegation.Extract), with what the library reported:
     lc_direct  for the i-th block, the accessors of delegation.NewDelegation(block_i, reader);
     lc_view    for some links, whether delegation.NewDelegationView(link, reader) found a block
                and the accessors of the delegation it returned.
   The accessors (Issuer / Audience / Capabilities / Proofs / Expiration) all go through
   delegation.Data().  The model has to predict them: LinkIntegrity.token_at (the fields of
   view_block when the link is the CIDv1 / dag-cbor / sha2-256 CID of the bytes, the empty token
   otherwise) and LinkIntegrity.block_at (first block under the link).  The digest is instantiated
   by the table of (bytes, sha2-256 digest) pairs the harness computed with crypto/sha256. *)
From Ucanto Require Import Base Varint Cid MessageBytes TokenBytes.
From Ucanto Require Import Pattern Time Validator TokenView ServerBytes LinkIntegrity.
Open Scope N_scope.

(* what the accessors reported *)
Record lobs := {
  lo_present : bool;                  (* NewDelegationView found a block (always true for lc_direct) *)
  lo_iss : bstr; lo_aud : bstr;       (* Issuer().DID().String(), Audience().DID().String(); "" when undefined *)
  lo_caps : list (bstr * bstr);       (* (Can(), With()) of Capabilities() *)
  lo_nprf : N;                        (* len(Proofs()) *)
  lo_exp : option Z }.                (* Expiration() *)

Record lcase := {
  lc_id : N;
  lc_blocks : list (bstr * bstr);
  lc_sha : list (bstr * bstr);        (* block bytes -> sha2-256 digest, for every block of the case *)
  lc_direct : list lobs;              (* aligned with lc_blocks *)
  lc_view : list (bstr * lobs) }.

(* the digest as observed *)
Definition sha_tbl (tbl : list (bstr * bstr)) : N -> N -> bstr -> option bstr :=
  fun code len b => if (code =? mh_sha2_256) && (len =? 32) then slookup b tbl else None.

(* the accessors do not look at signatures: no key is needed to read the compared fields *)
Definition l_view : bstr -> token := view_block lid [] (fun _ _ _ => false) (fun _ => []).

Definition proj_tok (present : bool) (t : token) : lobs :=
  {| lo_present := present; lo_iss := did_str (t_iss t); lo_aud := did_str (t_aud t);
     lo_caps := map (fun c => (r_can c, r_with c)) (t_caps t);
     lo_nprf := N.of_nat (length (t_prf t)); lo_exp := t_exp t |}.

Definition caps_eqb (a b : list (bstr * bstr)) : bool :=
  list_eqb (fun x y => beq (fst x) (fst y) && beq (snd x) (snd y)) a b.

Definition lobs_empty (o : lobs) : bool :=
  beq (lo_iss o) [] && beq (lo_aud o) [] && caps_eqb (lo_caps o) [] && (lo_nprf o =? 0) &&
  match lo_exp o with None => true | Some _ => false end.

(* 0 agree
   1 the implementation reports fields, the model none (the link is not the CID of the bytes)
   2 the model reports fields, the implementation none
   3 issuer  4 audience  5 capabilities  6 number of proofs  7 expiration
   8 NewDelegationView found a block / found none, unlike block_at *)
Definition lobs_diff (m o : lobs) : N :=
  if negb (Bool.eqb (lo_present m) (lo_present o)) then 8
  else if lobs_empty m && negb (lobs_empty o) then 1
  else if negb (lobs_empty m) && lobs_empty o then 2
  else if negb (beq (lo_iss m) (lo_iss o)) then 3
  else if negb (beq (lo_aud m) (lo_aud o)) then 4
  else if negb (caps_eqb (lo_caps m) (lo_caps o)) then 5
  else if negb (lo_nprf m =? lo_nprf o) then 6
  else if negb (option_eqb Z.eqb (lo_exp m) (lo_exp o)) then 7
  else 0.

Section Case.
  Variable c : lcase.
  Definition c_digest := sha_tbl (lc_sha c).

  Definition model_direct (cb : bstr * bstr) : lobs :=
    proj_tok true (token_at c_digest l_view (fst cb) (snd cb)).

  Definition model_view (l : bstr) : lobs :=
    match block_at (lc_blocks c) l with
    | Some b => proj_tok true (token_at c_digest l_view l b)
    | None => proj_tok false empty_token
    end.

  Fixpoint diff_direct (i : N) (bl : list (bstr * bstr)) (os : list lobs) : list (N * N * N) :=
    match bl, os with
    | [], [] => []
    | cb :: bl', o :: os' =>
      match lobs_diff (model_direct cb) o with
      | 0 => diff_direct (i + 1) bl' os'
      | k => (lc_id c, i, k) :: diff_direct (i + 1) bl' os'
      end
    | _, _ => [(lc_id c, i, 9)]          (* the observation list does not match the block list *)
    end.

  Fixpoint diff_view (i : N) (vs : list (bstr * lobs)) : list (N * N * N) :=
    match vs with
    | [] => []
    | (l, o) :: vs' =>
      match lobs_diff (model_view l) o with
      | 0 => diff_view (i + 1) vs'
      | k => (lc_id c, 1000 + i, k) :: diff_view (i + 1) vs'
      end
    end.

  (* (case id, index of the block — 1000 + index of the lookup —, code) *)
  Definition check_link_case : list (N * N * N) :=
    diff_direct 0 (lc_blocks c) (lc_direct c) ++ diff_view 0 (lc_view c).

  (* how many of the compared delegations have fields / have none, according to the model *)
  Definition count_fields : N * N :=
    let ms := map model_direct (lc_blocks c) ++ map (fun lo => model_view (fst lo)) (lc_view c) in
    (N.of_nat (length (filter (fun m => negb (lobs_empty m)) ms)), N.of_nat (length (filter lobs_empty ms))).
End Case.

Definition check_link_cases (cs : list lcase) : list (N * N * N) := flat_map check_link_case cs.
Definition count_link_cases (cs : list lcase) : list N :=
  let p := fold_right (fun c acc => let '(a, b) := count_fields c in (a + fst acc, b + snd acc)) (0, 0) cs in
  [fst p; snd p].

(* ---- what a passing check states ---- *)

(* the model's direct observation is the projection of LinkIntegrity.token_at, its lookup that of
   store_of (with the empty token for a block that is present but unbound) *)
Lemma model_view_store c l :
  model_view c l =
  match block_at (lc_blocks c) l with
  | Some _ => proj_tok true (match store_of (c_digest c) l_view (lc_blocks c) l with Some t => t | None => empty_token end)
  | None => proj_tok false empty_token
  end.
Proof.
  unfold model_view, store_of, token_at. destruct (block_at (lc_blocks c) l); reflexivity.
Qed.

(* the comparison is not vacuous: an observation agrees with itself *)
Lemma lobs_diff_refl o : lobs_diff o o = 0.
Proof.
  unfold lobs_diff. rewrite Bool.eqb_reflx. cbn [negb].
  destruct (lobs_empty o); cbn [andb negb]; rewrite !beq_refl; cbn [negb].
  all: assert (C : caps_eqb (lo_caps o) (lo_caps o) = true)
         by (unfold caps_eqb; induction (lo_caps o) as [|x r IH]; cbn [list_eqb]; [reflexivity | rewrite !beq_refl, IH; reflexivity]).
  all: rewrite C, N.eqb_refl; cbn [negb].
  all: destruct (lo_exp o) as [z|]; cbn [option_eqb]; [rewrite Z.eqb_refl|]; reflexivity.
Qed.
