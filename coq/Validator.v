(* Validator.v — executable model of validator/lib.go + capability.go +
   authorization.go (Access / Claim / Validate / VerifyAuthorization /
   VerifySession / Authorize / ResolveSources / Select / ResolveCapability),
   over decoded tokens, with symbolic signatures and an event trace
   (signature verifications, revocation-checker calls, Derives calls). *)
From Ucanto Require Import Base Pattern Time.
Open Scope N_scope.

(* ------------------------------------------------------------------ *)
(* data                                                                *)

Definition link := N.      (* identity of a CID; the harness numbers distinct CIDs *)

(* did.DID = {key bool; str string}: equal iff same kind and same bytes, i.e.
   same kind and same String().  DUndef is the zero value. *)
Inductive did := Did (key : bool) (name : bstr) | DUndef.
Definition did_eqb (a b : did) : bool :=
  match a, b with
  | Did k1 n1, Did k2 n2 => Bool.eqb k1 k2 && beq n1 n2
  | DUndef, DUndef => true
  | _, _ => false
  end.
Lemma did_eqb_eq a b : did_eqb a b = true <-> a = b.
Proof.
  destruct a as [k1 n1|], b as [k2 n2|]; simpl; try (split; congruence).
  rewrite andb_true_iff, eqb_true_iff, beq_eq.
  split; [intros [-> ->]; reflexivity | intros H; inversion H; auto].
Qed.
(* DID.String(); "" for the undefined DID *)
Definition did_str (d : did) : bstr := match d with Did _ n => n | DUndef => [] end.
Definition did_key_prefix : bstr := [100; 105; 100; 58; 107; 101; 121; 58].   (* "did:key:" *)

(* caveat values (the harness's mirrored caveat type uses these kinds) *)
Inductive cval := VLink (l : link) | VInt (z : Z) | VStr (s : bstr) | VList (l : list bstr)
  | VMap (m : list (bstr * bstr)) | VNull | VOtherKind.
Definition cval_eqb (a b : cval) : bool :=
  match a, b with
  | VLink x, VLink y => x =? y
  | VInt x, VInt y => (x =? y)%Z
  | VStr x, VStr y => beq x y
  | VList x, VList y => list_eqb beq x y
  | VMap x, VMap y => list_eqb (fun a b => beq (fst a) (fst b) && beq (snd a) (snd b)) x y
  | VNull, VNull => true
  | VOtherKind, VOtherKind => true
  | _, _ => false
  end.
Definition cmap := list (bstr * cval).
(* the `nb` of a capability as found in a token: a map, null, or another kind *)
Inductive nbv := NbMap (m : cmap) | NbNull | NbOther.

Record rawcap := mkRaw { r_can : bstr; r_with : bstr; r_nb : nbv }.
(* a capability read through a descriptor *)
Record cap := mkCap { can : bstr; wth : bstr; nb : cmap }.

Record token := mkTok {
  t_iss : did; t_aud : did; t_caps : list rawcap; t_prf : list link;
  t_exp : option Z; t_nbf : Z;
  t_sigcode : N;            (* varint code at the head of the signature bytes *)
  t_signer : option N }.    (* key whose signature over the token's CURRENT fields the raw bytes are *)

(* delegation view: root link + links of the blocks visible to it *)
Record dlg := mkDlg { d_link : link; d_vis : list link }.

Record verifier := mkVf { v_key : N; v_sigcode : N; v_did : did }.

Record desc := mkDesc {
  ds_can : bstr;
  ds_with : bstr -> bool;               (* the `with` reader accepts (and returns its input) *)
  ds_nb : nbv -> option cmap;           (* the `nb` reader *)
  ds_derives : cap -> cap -> bool }.    (* Derives(claimed, delegated) = nil *)

Inductive authz := Authz (d : dlg) (c : cap) (prfs : list authz).

Inductive event :=
| EvVerify (l : link) (k : N)                 (* Verifier.Verify called for token l with key k *)
| EvCheck (a : authz) (rev : bool)            (* revocation checker consulted, its verdict *)
| EvDerive (claimed delegated : cap) (ok : bool).

Record aerr := mkErr { has_failed : bool; has_revoked : bool }.
Inductive ares := AOk (a : authz) | AErr (e : aerr) | AFuel.
Inductive vres := VOk | VInvalid | VEscalation | VFuel.

Definition known_sigcodes : list N :=
  [53479; 53482; 53483; 53485; 13636096; 13636097; 13636098; 13636101; 53649].
(* ES256K BLS12381G1 BLS12381G2 EdDSA ES256 ES384 ES512 RS256 EIP191 *)

Definition attest_can : bstr := bs "ucan/attest".
Definition proof_key : bstr := bs "proof".

Record ctx := mkCtx {
  authority : verifier;
  can_issue : cap -> did -> bool;
  revoked : authz -> bool;                       (* caller's checker: true = revoked *)
  resolve_proof : link -> option dlg;            (* caller's proof resolver *)
  parse_principal : bstr -> option verifier;     (* did:key string -> verifier *)
  resolve_did_key : did -> option did;
  now : Z }.

(* ------------------------------------------------------------------ *)
(* capability resolution                                               *)

Definition has_key (k : bstr) (m : cmap) : bool := existsb (fun e => beq (fst e) k) m.

(* inheritCaveats(claimed, delegated) *)
Definition inherit (claimed : cmap) (delegated : nbv) : nbv :=
  match delegated with
  | NbNull => NbMap claimed
  | NbOther => NbOther
  | NbMap [] => NbMap claimed
  | NbMap d => NbMap (d ++ filter (fun e => negb (has_key (fst e) d)) claimed)
  end.

(* ParseCapability *)
Definition parse_cap (ds : desc) (c : rawcap) : option cap :=
  if beq (ds_can ds) (r_can c) then
    if ds_with ds (r_with c) then
      match ds_nb ds (r_nb c) with Some n => Some (mkCap (r_can c) (r_with c) n) | None => None end
    else None
  else None.

(* ResolveCapability *)
Definition resolve_cap (ds : desc) (claimed : cap) (c : rawcap) : option cap :=
  let cn := resolve_ability (r_can c) (can claimed) in
  match cn with
  | [] => None
  | _ =>
    let r := resolve_resource (r_with c) (wth claimed) in
    let r' := match r with [] => r_with c | _ => r end in
    if ds_with ds r' then
      match ds_nb ds (inherit (nb claimed) (r_nb c)) with
      | Some n => Some (mkCap cn r' n)
      | None => None
      end
    else None
  end.

Definition source := (rawcap * dlg)%type.
Definition matchv := (source * cap)%type.
Definition m_dlg (m : matchv) : dlg := snd (fst m).
Definition m_cap (m : matchv) : cap := snd m.

Definition select_top (ds : desc) (srcs : list source) : list matchv :=
  filter_map (fun s => match parse_cap ds (fst s) with Some c => Some (s, c) | None => None end) srcs.

(* match.Select, with the Derives calls it makes *)
Fixpoint select_derived (ds : desc) (claimed : cap) (srcs : list source) : list matchv * list event :=
  match srcs with
  | [] => ([], [])
  | s :: r =>
    let '(ms, ev) := select_derived ds claimed r in
    match resolve_cap ds claimed (fst s) with
    | None => (ms, ev)
    | Some c =>
      let ok := ds_derives ds claimed c in
      ((if ok then (s, c) :: ms else ms), EvDerive claimed c ok :: ev)
    end
  end.

(* the session capability built by VerifySession for delegation l *)
Definition cmap_proof (m : cmap) : option link :=
  match m with [(k, VLink l)] => if beq k proof_key then Some l else None | _ => None end.

Definition attest_desc (auth : did) (l : link) : desc :=
  mkDesc attest_can
    (fun w => beq w (did_str auth))
    (fun n => match n with
              | NbMap m => match cmap_proof m with
                           | Some l' => if l' =? l then Some m else None
                           | None => None end
              | _ => None end)
    (fun cl dl => default_derives (wth cl) (wth dl) &&
                  option_eqb N.eqb (cmap_proof (nb cl)) (cmap_proof (nb dl))).

(* ------------------------------------------------------------------ *)
Section Model.
  Variable U : link -> option token.     (* content-addressed store of decoded tokens *)
  Variable C : ctx.

  Definition tok (d : dlg) : option token := U (d_link d).
  Definition iss_of (d : dlg) : did := match tok d with Some t => t_iss t | None => DUndef end.

  (* ucan.VerifySignature through validator.VerifySignature *)
  Definition verify_sig (l : link) (t : token) (v : verifier) : vres * list event :=
    if existsb (N.eqb (t_sigcode t)) known_sigcodes then
      if did_eqb (t_iss t) (v_did v) then
        ((if (t_sigcode t =? v_sigcode v) &&
             match t_signer t with Some k => k =? v_key v | None => false end
          then VOk else VInvalid), [EvVerify l (v_key v)])
      else (VInvalid, [])
    else (VInvalid, []).

  Section Level.
    (* the previous fuel level of claim, used by session verification *)
    Variable claim_prev : desc -> list dlg -> ares * list event.

    Definition first_is_attest (d : dlg) : bool :=
      match tok d with
      | Some t => match t_caps t with c :: _ => beq (r_can c) attest_can | [] => false end
      | None => false
      end.

    Definition session_candidates (d : dlg) (sibs : list dlg) : list dlg :=
      filter (fun p => negb (d_link p =? d_link d) && first_is_attest p) sibs.

    Definition verify_session (d : dlg) (sibs : list dlg) : ares * list event :=
      claim_prev (attest_desc (v_did (authority C)) (d_link d)) (session_candidates d sibs).

    Definition verify_authorization (d : dlg) (t : token) (sibs : list dlg) : vres * list event :=
      let s := did_str (t_iss t) in
      if prefixb did_key_prefix s then
        match parse_principal C s with
        | Some v => verify_sig (d_link d) t v
        | None => (VInvalid, [])
        end
      else if did_eqb (t_iss t) (v_did (authority C)) then verify_sig (d_link d) t (authority C)
      else
        let '(r, ev) := verify_session d sibs in
        match r with
        | AOk _ => (VOk, ev)
        | AFuel => (VFuel, ev)
        | AErr e =>
          if has_failed e then (VEscalation, ev)
          else match resolve_did_key C (t_iss t) with
               | None => (VInvalid, ev)
               | Some kd =>
                 match parse_principal C (did_str kd) with
                 | None => (VInvalid, ev)
                 | Some v =>
                   (* verifier.Wrap: the key must be a did:key; it then reports the issuer's DID *)
                   if prefixb did_key_prefix (did_str (v_did v)) then
                     let '(r2, ev2) := verify_sig (d_link d) t (mkVf (v_key v) (v_sigcode v) (t_iss t)) in
                     (r2, ev ++ ev2)
                   else (VInvalid, ev)
                 end
               end
        end.

    Definition validate (d : dlg) (sibs : list dlg) : vres * list event :=
      match tok d with
      | None => (VInvalid, [])
      | Some t =>
        if is_expired (t_exp t) (now C) then (VInvalid, [])
        else if is_too_early (t_nbf t) (now C) then (VInvalid, [])
        else verify_authorization d t sibs
      end.

    Definition caps_of (d : dlg) : list source :=
      match tok d with Some t => map (fun c => (c, d)) (t_caps t) | None => [] end.

    (* validate each delegation of ds against sibs; sources of the valid ones; None = out of fuel *)
    Fixpoint sources_of (ds : list dlg) (sibs : list dlg) : option (list source) * list event :=
      match ds with
      | [] => (Some [], [])
      | d :: ds' =>
        let '(v, ev) := validate d sibs in
        match v with
        | VFuel => (None, ev)
        | VOk => let '(r, ev') := sources_of ds' sibs in
                 (match r with Some l => Some (caps_of d ++ l) | None => None end, ev ++ ev')
        | _ => let '(r, ev') := sources_of ds' sibs in (r, ev ++ ev')
        end
      end.

    Definition visible (d : dlg) (l : link) : bool := existsb (N.eqb l) (d_vis d).

    (* delegation.NewProofsView + ResolveProofs *)
    Definition proofs_view (d : dlg) (t : token) : list dlg :=
      filter_map (fun l => if visible d l then
                             match U l with
                             | Some _ => Some (mkDlg l (d_vis d))
                             | None => resolve_proof C l
                             end
                           else resolve_proof C l) (t_prf t).

    Definition aligned (t : token) (ps : list dlg) : list dlg :=
      filter (fun p => match tok p with
                       | Some tp => did_eqb (t_iss t) (t_aud tp)
                       | None => did_eqb (t_iss t) DUndef
                       end) ps.

    Definition resolve_sources (d : dlg) : option (list source) * list event :=
      match tok d with
      | None => (Some [], [])
      | Some t => let ps := aligned t (proofs_view d t) in sources_of ps ps
      end.

    Fixpoint auth_loop (rec : matchv -> ares * list event) (ms : list matchv) (failed : bool)
      : ares * list event :=
      match ms with
      | [] => (AErr (mkErr failed false), [])
      | m :: ms' =>
        if can_issue C (m_cap m) (iss_of (m_dlg m)) then (AOk (Authz (m_dlg m) (m_cap m) []), [])
        else
          let '(r, ev) := rec m in
          match r with
          | AOk a => (AOk (Authz (m_dlg m) (m_cap m) [a]), ev)
          | AErr _ => let '(r', ev') := auth_loop rec ms' true in (r', ev ++ ev')
          | AFuel => (AFuel, ev)
          end
      end.

    Fixpoint authorize (n : nat) (ds : desc) (m : matchv) {struct n} : ares * list event :=
      match n with
      | O => (AFuel, [])
      | S n' =>
        let '(srcs, ev) := resolve_sources (m_dlg m) in
        match srcs with
        | None => (AFuel, ev)
        | Some ss =>
          let '(ms, evd) := select_derived ds (m_cap m) ss in
          let '(r, ev') := auth_loop (authorize n' ds) ms false in
          (r, ev ++ evd ++ ev')
        end
      end.

    Fixpoint claim_loop (rec : matchv -> ares * list event) (ms : list matchv) (failed rev : bool)
      : ares * list event :=
      match ms with
      | [] => (AErr (mkErr failed rev), [])
      | m :: ms' =>
        if can_issue C (m_cap m) (iss_of (m_dlg m)) then
          let a := Authz (m_dlg m) (m_cap m) [] in
          if revoked C a then
            let '(r', ev') := claim_loop rec ms' failed true in (r', EvCheck a true :: ev')
          else (AOk a, [EvCheck a false])
        else
          let '(r, ev) := rec m in
          match r with
          | AOk a' =>
            let a := Authz (m_dlg m) (m_cap m) [a'] in
            if revoked C a then
              let '(r', ev') := claim_loop rec ms' failed true in (r', ev ++ EvCheck a true :: ev')
            else (AOk a, ev ++ [EvCheck a false])
          | AErr _ => let '(r', ev') := claim_loop rec ms' true rev in (r', ev ++ ev')
          | AFuel => (AFuel, ev)
          end
      end.

    Definition claim_body (n : nat) (ds : desc) (prfs : list dlg) : ares * list event :=
      let '(srcs, ev) := sources_of prfs prfs in
      match srcs with
      | None => (AFuel, ev)
      | Some ss =>
        let '(r, ev') := claim_loop (authorize n ds) (select_top ds ss) false false in
        (r, ev ++ ev')
      end.
  End Level.

  Fixpoint claim (n : nat) : desc -> list dlg -> ares * list event :=
    match n with
    | O => fun _ _ => (AFuel, [])
    | S n' => claim_body (claim n') n'
    end.

  (* validator.Access *)
  Definition access (n : nat) (ds : desc) (inv : dlg) : ares * list event := claim n ds [inv].
End Model.

(* ------------------------------------------------------------------ *)
(* projections compared with the implementation                        *)

Fixpoint path_of (a : authz) : list (link * cap) :=
  match a with
  | Authz d c ps => (d_link d, c) :: match ps with p :: _ => path_of p | [] => [] end
  end.

Definition count_verifies (ev : list event) : N :=
  N.of_nat (length (filter (fun e => match e with EvVerify _ _ => true | _ => false end) ev)).
