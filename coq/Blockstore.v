(* Blockstore.v — core/dag/blockstore: the insertion-ordered block store.

   Part 1 (sequential): state = (keys : list K, blks : association list),
   bs_put / bs_get / bs_iter exactly as Put / Get / Iterator compute them;
   invariants of every operation sequence (induction over fold_left).
   Also NewBlockReader / NewBlockStore as folds of bs_put (used by C13).

   Part 2 (concurrent): the store shared by any number of goroutines, at the
   granularity of the individual map / slice accesses of the FIXED code
   (fixes/C17_locks.diff: Put under Lock; Get under RLock; Iterator copies a
   snapshot under RLock, the returned closure reads only the snapshot), with an
   abstract RW lock (same entry conditions as Conc.v).  Theorem
   C17_linearizable: for every schedule, the results returned to the
   goroutines and the final store are those of ONE sequential execution of a
   merge (interleaving that preserves each goroutine's program order) of the
   goroutines' operation lists.

   Keys are links (K with a decidable equality: N in the C17 harness, byte
   strings for C13), values are blocks (any type). *)
From Ucanto Require Import Base Conc.
From Coq Require Import ZifyBool ZifyN ZifyNat.
Open Scope N_scope.

Lemma NoDup_app_one {A} (l : list A) (x : A) : NoDup l -> ~ In x l -> NoDup (l ++ [x]).
Proof.
  induction l as [|y l IH]; intros ND NI; cbn.
  - constructor; [intros []|constructor].
  - inversion ND; subst. constructor.
    + rewrite in_app_iff. cbn. intros [H|[H|[]]]; [contradiction|]. subst. apply NI. left. reflexivity.
    + apply IH; [assumption|]. intros H. apply NI. right. assumption.
Qed.

Section Store.
Variable K V : Type.
Variable keqb : K -> K -> bool.
Hypothesis keqb_spec : forall a b, keqb a b = true <-> a = b.

Lemma keqb_refl a : keqb a a = true.
Proof. apply keqb_spec. reflexivity. Qed.
Lemma keqb_false a b : keqb a b = false <-> a <> b.
Proof.
  split.
  - intros H E. apply keqb_spec in E. congruence.
  - intros H. destruct (keqb a b) eqn:E; [apply keqb_spec in E; contradiction|reflexivity].
Qed.

(* ------------------------------------------------------------------ *)
(* Part 1: the sequential store                                        *)

Record store := mkStore { keys : list K; blks : list (K * V) }.
Definition empty : store := mkStore [] [].

Fixpoint lookup (k : K) (m : list (K * V)) : option V :=
  match m with
  | [] => None
  | (k', v) :: m' => if keqb k k' then Some v else lookup k m'
  end.

(* Get: b, ok := blks[link.String()] *)
Definition bs_get (s : store) (k : K) : option V := lookup k (blks s).

(* Put: an existing key is left alone (first put wins); otherwise map insert + append *)
Definition bs_put (s : store) (k : K) (v : V) : store :=
  match lookup k (blks s) with
  | Some _ => s
  | None => mkStore (keys s ++ [k]) ((k, v) :: blks s)
  end.

(* Iterator: for k in keys: (blks[k], "missing block" error when absent) *)
Definition bs_iter (s : store) : list (K * option V) :=
  map (fun k => (k, lookup k (blks s))) (keys s).

Definition put_all (s : store) (l : list (K * V)) : store :=
  fold_left (fun s kv => bs_put s (fst kv) (snd kv)) l s.

Fixpoint memk (k : K) (l : list K) : bool :=
  match l with [] => false | x :: r => keqb k x || memk k r end.
Lemma memk_In k l : memk k l = true <-> In k l.
Proof.
  induction l as [|x l IH]; cbn; [split; [discriminate|tauto]|].
  rewrite orb_true_iff, keqb_spec, IH. split; intros [H|H]; auto.
Qed.

(* keys in the order of their first occurrence, skipping those already seen *)
Fixpoint firsts (seen : list K) (l : list K) : list K :=
  match l with
  | [] => []
  | x :: r => if memk x seen then firsts seen r else x :: firsts (x :: seen) r
  end.

(* the value of the first pair with key k *)
Fixpoint first_val (k : K) (l : list (K * V)) : option V :=
  match l with
  | [] => None
  | (k', v) :: r => if keqb k k' then Some v else first_val k r
  end.

(* well-formedness: what every reachable store satisfies *)
Definition wf (s : store) : Prop :=
  NoDup (keys s) /\ forall k, In k (keys s) <-> lookup k (blks s) <> None.

Lemma wf_empty : wf empty.
Proof. split; [constructor|]. intros k. cbn. split; [tauto|congruence]. Qed.

Lemma lookup_cons k k' v m :
  lookup k ((k', v) :: m) = if keqb k k' then Some v else lookup k m.
Proof. reflexivity. Qed.

Lemma wf_put s k v : wf s -> wf (bs_put s k v).
Proof.
  intros [ND HI]. unfold bs_put. destruct (lookup k (blks s)) eqn:E; [split; assumption|].
  split; cbn [keys blks].
  - apply NoDup_app_one; [assumption|]. intros H. apply HI in H. congruence.
  - intros k0. rewrite in_app_iff, lookup_cons. destruct (keqb k0 k) eqn:Q.
    + apply keqb_spec in Q. subst. split; [congruence|]. intros _. right. left. reflexivity.
    + apply keqb_false in Q. rewrite HI. split; [intros [H|[H|[]]]; [assumption|congruence] | auto].
Qed.

Lemma wf_put_all l : forall s, wf s -> wf (put_all s l).
Proof. induction l as [|[k v] l IH]; intros s W; cbn; [assumption|]. apply IH, wf_put, W. Qed.

Lemma keys_put s k v : wf s ->
  keys (bs_put s k v) = if memk k (keys s) then keys s else keys s ++ [k].
Proof.
  intros [_ HI]. unfold bs_put. destruct (lookup k (blks s)) eqn:E.
  - assert (M : memk k (keys s) = true) by (apply memk_In, HI; congruence). rewrite M. reflexivity.
  - destruct (memk k (keys s)) eqn:M; [|reflexivity]. apply memk_In, HI in M. congruence.
Qed.

Lemma memk_app k a b : memk k (a ++ b) = memk k a || memk k b.
Proof. induction a as [|x a IH]; cbn; [reflexivity|]. rewrite IH, orb_assoc. reflexivity. Qed.

Lemma memk_ext k a b : (forall x, In x a <-> In x b) -> memk k a = memk k b.
Proof.
  intros H. destruct (memk k a) eqn:A; destruct (memk k b) eqn:B; try reflexivity.
  - apply memk_In, H, memk_In in A. congruence.
  - apply memk_In, H, memk_In in B. congruence.
Qed.

Lemma firsts_ext a b l : (forall x, In x a <-> In x b) -> firsts a l = firsts b l.
Proof.
  revert a b. induction l as [|x l IH]; intros a b H; cbn; [reflexivity|].
  rewrite (memk_ext x a b H). destruct (memk x b); [apply IH, H|].
  f_equal. apply IH. intros y. cbn. rewrite H. tauto.
Qed.

(* iteration order = order of first puts *)
Lemma keys_put_all l : forall s, wf s ->
  keys (put_all s l) = keys s ++ firsts (keys s) (map fst l).
Proof.
  induction l as [|[k v] l IH]; intros s W; cbn [put_all fold_left map firsts fst snd].
  - rewrite app_nil_r. reflexivity.
  - fold (put_all (bs_put s k v) l). rewrite IH by (apply wf_put, W).
    rewrite keys_put by assumption. destruct (memk k (keys s)) eqn:M; [reflexivity|].
    rewrite <- app_assoc. cbn [app]. f_equal. f_equal.
    apply firsts_ext. intros x. rewrite in_app_iff. cbn. tauto.
Qed.

Lemma get_put s k v k0 :
  bs_get (bs_put s k v) k0 =
  match bs_get s k0 with Some b => Some b | None => if keqb k0 k then Some v else None end.
Proof.
  unfold bs_get, bs_put. destruct (lookup k (blks s)) eqn:E.
  - destruct (lookup k0 (blks s)) eqn:E0; [reflexivity|].
    destruct (keqb k0 k) eqn:Q; [|reflexivity]. apply keqb_spec in Q. subst. congruence.
  - cbn [blks]. rewrite lookup_cons. destruct (keqb k0 k) eqn:Q.
    + apply keqb_spec in Q. subst. rewrite E. reflexivity.
    + destruct (lookup k0 (blks s)); reflexivity.
Qed.

(* every block that was put is retrievable; the first put of a key wins *)
Lemma get_put_all l : forall s k,
  bs_get (put_all s l) k = match bs_get s k with Some b => Some b | None => first_val k l end.
Proof.
  induction l as [|[k v] l IH]; intros s k0; cbn [put_all fold_left first_val fst snd].
  - destruct (bs_get s k0); reflexivity.
  - fold (put_all (bs_put s k v) l). rewrite IH, get_put.
    destruct (bs_get s k0); [reflexivity|]. destruct (keqb k0 k); reflexivity.
Qed.

Lemma first_val_some k l : first_val k l <> None <-> In k (map fst l).
Proof.
  induction l as [|[k' v] l IH]; cbn; [tauto|].
  destruct (keqb k k') eqn:Q.
  - apply keqb_spec in Q. subst. split; [auto|congruence].
  - apply keqb_false in Q. rewrite IH. split; [auto|intros [H|H]; [congruence|assumption]].
Qed.

Lemma In_firsts x seen l : In x (firsts seen l) <-> In x l /\ ~ In x seen.
Proof.
  revert seen. induction l as [|y l IH]; intros seen; cbn; [tauto|].
  destruct (memk y seen) eqn:M.
  - apply memk_In in M. rewrite IH. split; [tauto|]. intros [[H|H] N]; [subst; contradiction|tauto].
  - assert (~ In y seen) by (intros H; apply memk_In in H; congruence).
    cbn. rewrite IH. cbn. split.
    + intros [H1|[H1 H2]]; [subst; tauto|tauto].
    + intros [[H1|H1] H2]; [auto|]. destruct (keqb_spec y x) as [_ E].
      destruct (keqb y x) eqn:Q; [apply keqb_spec in Q; auto|].
      right. split; [assumption|]. apply keqb_false in Q. intros [H3|H3]; congruence.
Qed.

Lemma NoDup_firsts seen l : NoDup (firsts seen l).
Proof.
  revert seen. induction l as [|y l IH]; intros seen; cbn; [constructor|].
  destruct (memk y seen); [apply IH|]. constructor; [|apply IH].
  rewrite In_firsts. cbn. tauto.
Qed.

Definition run_puts (l : list (K * V)) : store := put_all empty l.

(* The sequential specification, for every sequence of Puts. *)
Theorem seq_spec (l : list (K * V)) :
  let s := run_puts l in
  NoDup (keys s) /\
  (forall k, In k (keys s) <-> In k (map fst l)) /\
  (forall k, bs_get s k = first_val k l) /\
  keys s = firsts [] (map fst l) /\
  (forall k, In k (map fst l) -> exists v, In (k, Some v) (bs_iter s) /\ first_val k l = Some v).
Proof.
  cbn zeta. unfold run_puts.
  pose proof (wf_put_all l empty wf_empty) as [ND HI].
  pose proof (keys_put_all l empty wf_empty) as HK. cbn [keys empty app] in HK.
  assert (HG : forall k, bs_get (put_all empty l) k = first_val k l).
  { intros k. rewrite get_put_all. reflexivity. }
  repeat split; try assumption.
  - rewrite HK, In_firsts. tauto.
  - intros H. rewrite HK, In_firsts. cbn. tauto.
  - intros k Hk. apply first_val_some in Hk.
    destruct (first_val k l) as [v|] eqn:E; [|congruence]. exists v. split; [|reflexivity].
    unfold bs_iter. apply in_map_iff. exists k. rewrite <- HG in E. unfold bs_get in E. rewrite E.
    split; [reflexivity|]. apply HI. unfold bs_get in HG. congruence.
Qed.

(* iteration never reports a missing block on a reachable store *)
Lemma iter_no_missing s : wf s -> forall k o, In (k, o) (bs_iter s) -> o <> None.
Proof.
  intros [_ HI] k o H. unfold bs_iter in H. apply in_map_iff in H. destruct H as [k' [E H]].
  inversion E; subst. apply HI. exact H.
Qed.

(* keys only grow at the end: an earlier iteration is a prefix of any later one *)
Lemma keys_prefix l1 l2 : exists r, keys (run_puts (l1 ++ l2)) = keys (run_puts l1) ++ r.
Proof.
  unfold run_puts, put_all. rewrite fold_left_app. fold (put_all empty l1).
  fold (put_all (put_all empty l1) l2). eexists.
  apply keys_put_all. apply wf_put_all, wf_empty.
Qed.

(* NewBlockReader(WithBlocks(l1), WithBlocksIterator(l2)): two de-duplicating loops over
   local keys / blks — the same computation as Put on an empty store.
   NewBlockStore does literally call Put for l1 then l2. *)
Definition reader_step (acc : list K * list (K * V)) (kv : K * V) : list K * list (K * V) :=
  match lookup (fst kv) (snd acc) with
  | Some _ => acc                                         (* continue *)
  | None => (fst acc ++ [fst kv], (fst kv, snd kv) :: snd acc)
  end.
Definition new_block_reader (l1 l2 : list (K * V)) : store :=
  let a := fold_left reader_step l2 (fold_left reader_step l1 ([], [])) in mkStore (fst a) (snd a).
Definition new_block_store (l1 l2 : list (K * V)) : store := put_all (put_all empty l1) l2.

Lemma reader_step_put acc kv :
  let s := bs_put (mkStore (fst acc) (snd acc)) (fst kv) (snd kv) in
  reader_step acc kv = (keys s, blks s).
Proof.
  cbn zeta. unfold reader_step, bs_put. cbn [blks keys].
  destruct (lookup (fst kv) (snd acc)); [destruct acc|]; reflexivity.
Qed.

Lemma reader_fold l : forall acc,
  let s := put_all (mkStore (fst acc) (snd acc)) l in
  fold_left reader_step l acc = (keys s, blks s).
Proof.
  induction l as [|kv l IH]; intros acc; cbn zeta; cbn [fold_left put_all].
  - destruct acc; reflexivity.
  - rewrite reader_step_put. rewrite IH. cbn [fst snd].
    fold (put_all (bs_put {| keys := fst acc; blks := snd acc |} (fst kv) (snd kv)) l).
    destruct (bs_put {| keys := fst acc; blks := snd acc |} (fst kv) (snd kv)); reflexivity.
Qed.

Theorem new_block_reader_is_put l1 l2 : new_block_reader l1 l2 = run_puts (l1 ++ l2).
Proof.
  unfold new_block_reader, run_puts, put_all. rewrite fold_left_app.
  rewrite (reader_fold l1 ([], [])). cbn [fst snd]. fold empty. fold (put_all empty l1).
  rewrite (reader_fold l2). cbn [fst snd].
  destruct (put_all empty l1) as [ks bs] eqn:E. cbn [keys blks].
  fold (put_all {| keys := ks; blks := bs |} l2).
  destruct (put_all {| keys := ks; blks := bs |} l2); reflexivity.
Qed.

Theorem new_block_store_is_put l1 l2 : new_block_store l1 l2 = run_puts (l1 ++ l2).
Proof. unfold new_block_store, run_puts, put_all. rewrite fold_left_app. reflexivity. Qed.

(* ------------------------------------------------------------------ *)
(* operations with results                                             *)

Inductive bop := OPut (k : K) (v : V) | OGet (k : K) | OIter.
Inductive bres := RPut | RGet (r : option V) | RIter (l : list (K * option V)).

Definition apply_op (s : store) (o : bop) : store * bres :=
  match o with
  | OPut k v => (bs_put s k v, RPut)
  | OGet k => (s, RGet (bs_get s k))
  | OIter => (s, RIter (bs_iter s))
  end.

Definition run_ops (l : list bop) : store := fold_left (fun s o => fst (apply_op s o)) l empty.

Fixpoint puts_of (l : list bop) : list (K * V) :=
  match l with
  | [] => []
  | OPut k v :: r => (k, v) :: puts_of r
  | _ :: r => puts_of r
  end.

Lemma run_ops_puts_gen l : forall s,
  fold_left (fun s o => fst (apply_op s o)) l s = put_all s (puts_of l).
Proof.
  induction l as [|o l IH]; intros s; [reflexivity|].
  cbn [fold_left]. rewrite IH. destruct o; reflexivity.
Qed.
Lemma run_ops_puts l : run_ops l = run_puts (puts_of l).
Proof. apply run_ops_puts_gen. Qed.

(* an event: goroutine, operation, result *)
Definition event : Type := (nat * bop * bres)%type.
Definition ev_tid (e : event) : nat := fst (fst e).
Definition ev_op (e : event) : bop := snd (fst e).
Definition ev_res (e : event) : bres := snd e.

(* the events of goroutine i, in order *)
Definition proj (i : nat) (log : list event) : list event :=
  filter (fun e => Nat.eqb (ev_tid e) i) log.

(* legal sequential history from store s: every result is what the sequential store returns *)
Fixpoint legal_from (s : store) (log : list event) : Prop :=
  match log with
  | [] => True
  | e :: r => snd (apply_op s (ev_op e)) = ev_res e /\ legal_from (fst (apply_op s (ev_op e))) r
  end.

Definition abs (log : list event) : store := run_ops (map ev_op log).

Lemma abs_snoc log e : abs (log ++ [e]) = fst (apply_op (abs log) (ev_op e)).
Proof. unfold abs, run_ops. rewrite map_app, fold_left_app. reflexivity. Qed.

Lemma legal_from_snoc log e : forall s,
  legal_from s (log ++ [e]) <->
  legal_from s log /\
  snd (apply_op (fold_left (fun s o => fst (apply_op s o)) (map ev_op log) s) (ev_op e)) = ev_res e.
Proof.
  induction log as [|x log IH]; intros s; cbn [app legal_from map fold_left].
  - tauto.
  - rewrite IH. tauto.
Qed.

Lemma proj_snoc i log e :
  proj i (log ++ [e]) = proj i log ++ (if Nat.eqb (ev_tid e) i then [e] else []).
Proof. unfold proj. rewrite filter_app. reflexivity. Qed.

(* log is a linearization of the programs: a merge of the goroutines' operation
   lists (each goroutine's events, in order, are exactly its program) that is a
   legal sequential history *)
Definition linearization (progs : nat -> list bop) (log : list event) : Prop :=
  (forall i, map ev_op (proj i log) = progs i) /\ legal_from empty log.

(* ------------------------------------------------------------------ *)
(* Part 2: the concurrent store (fixed code), access by access          *)

Inductive pc :=
| Idle                                        (* between operations; no lock held *)
| PutL (k : K) (v : V)                        (* Put: Lock() acquired *)
| PutC (k : K) (v : V)                        (* blks[k] looked up: absent *)
| PutM (k : K) (v : V)                        (* blks[k] = v done; keys not yet appended *)
| PutD (k : K) (v : V)                        (* about to run the deferred Unlock() *)
| GetL (k : K)                                (* Get: RLock() acquired *)
| GetD (k : K) (r : option V)                 (* blks[k] read; about to RUnlock() *)
| IterL                                       (* Iterator: RLock() acquired *)
| IterK (ks : list K)                         (* keys copied *)
| IterD (snap : list (K * option V)).         (* blocks copied; about to RUnlock() and return the closure over snap *)

Definition mode_of (p : pc) : mode :=
  match p with
  | Idle => MNone
  | PutL _ _ | PutC _ _ | PutM _ _ | PutD _ _ => MW
  | _ => MR
  end.

Record conf := mkConf { st : store; thr : nat -> pc * list bop; log : list event }.

Definition pcs (c : conf) (i : nat) : pc := fst (thr c i).
Definition set_thr (c : conf) (i : nat) (t : pc * list bop) : nat -> pc * list bop :=
  fun j => if Nat.eqb j i then t else thr c j.

(* sync.RWMutex's contract, as in Conc.can_enter *)
Definition can_lock (c : conf) (i : nat) (m : mode) : Prop :=
  match m with
  | MNone => True
  | MR => forall j, j <> i -> mode_of (pcs c j) <> MW
  | MW => forall j, j <> i -> mode_of (pcs c j) = MNone
  end.

Inductive cstep (c : conf) : nat -> conf -> Prop :=
(* Put *)
| s_put_lock i k v todo : thr c i = (Idle, OPut k v :: todo) -> can_lock c i MW ->
    cstep c i (mkConf (st c) (set_thr c i (PutL k v, todo)) (log c))
| s_put_found i k v todo b : thr c i = (PutL k v, todo) -> lookup k (blks (st c)) = Some b ->
    cstep c i (mkConf (st c) (set_thr c i (PutD k v, todo)) (log c))
| s_put_absent i k v todo : thr c i = (PutL k v, todo) -> lookup k (blks (st c)) = None ->
    cstep c i (mkConf (st c) (set_thr c i (PutC k v, todo)) (log c))
| s_put_map i k v todo : thr c i = (PutC k v, todo) ->
    cstep c i (mkConf (mkStore (keys (st c)) ((k, v) :: blks (st c))) (set_thr c i (PutM k v, todo)) (log c))
| s_put_keys i k v todo : thr c i = (PutM k v, todo) ->
    cstep c i (mkConf (mkStore (keys (st c) ++ [k]) (blks (st c))) (set_thr c i (PutD k v, todo)) (log c))
| s_put_unlock i k v todo : thr c i = (PutD k v, todo) ->
    cstep c i (mkConf (st c) (set_thr c i (Idle, todo)) (log c ++ [(i, OPut k v, RPut)]))
(* Get *)
| s_get_lock i k todo : thr c i = (Idle, OGet k :: todo) -> can_lock c i MR ->
    cstep c i (mkConf (st c) (set_thr c i (GetL k, todo)) (log c))
| s_get_read i k todo : thr c i = (GetL k, todo) ->
    cstep c i (mkConf (st c) (set_thr c i (GetD k (lookup k (blks (st c))), todo)) (log c))
| s_get_unlock i k r todo : thr c i = (GetD k r, todo) ->
    cstep c i (mkConf (st c) (set_thr c i (Idle, todo)) (log c ++ [(i, OGet k, RGet r)]))
(* Iterator *)
| s_iter_lock i todo : thr c i = (Idle, OIter :: todo) -> can_lock c i MR ->
    cstep c i (mkConf (st c) (set_thr c i (IterL, todo)) (log c))
| s_iter_keys i todo : thr c i = (IterL, todo) ->
    cstep c i (mkConf (st c) (set_thr c i (IterK (keys (st c)), todo)) (log c))
| s_iter_blks i ks todo : thr c i = (IterK ks, todo) ->
    cstep c i (mkConf (st c) (set_thr c i (IterD (map (fun k => (k, lookup k (blks (st c)))) ks), todo)) (log c))
| s_iter_unlock i snap todo : thr c i = (IterD snap, todo) ->
    cstep c i (mkConf (st c) (set_thr c i (Idle, todo)) (log c ++ [(i, OIter, RIter snap)])).

Inductive creach (init : conf) : list nat -> conf -> Prop :=
| cr_nil : creach init [] init
| cr_snoc sched i c c' : creach init sched c -> cstep c i c' -> creach init (sched ++ [i]) c'.

Lemma creach_cons init i c1 sched c : cstep init i c1 -> creach c1 sched c -> creach init (i :: sched) c.
Proof.
  intros S R. induction R as [|sched j a b R IH S'].
  - change [i] with ([] ++ [i]). eapply cr_snoc; [apply cr_nil|exact S].
  - change (i :: sched ++ [j]) with ((i :: sched) ++ [j]). eapply cr_snoc; eauto.
Qed.

Definition cinit (progs : nat -> list bop) : conf := mkConf empty (fun i => (Idle, progs i)) [].
Definition finished (c : conf) : Prop := forall i, thr c i = (Idle, []).

(* the operation a goroutine is in the middle of *)
Definition pending (p : pc) : list bop :=
  match p with
  | Idle => []
  | PutL k v | PutC k v | PutM k v | PutD k v => [OPut k v]
  | GetL k | GetD k _ => [OGet k]
  | _ => [OIter]
  end.

(* what the writer has done to the concrete store, relative to the abstract one *)
Definition relW (p : pc) (s a : store) : Prop :=
  match p with
  | PutL k v => s = a
  | PutC k v => s = a /\ lookup k (blks a) = None
  | PutM k v => s = mkStore (keys a) ((k, v) :: blks a) /\ lookup k (blks a) = None
  | PutD k v => s = bs_put a k v
  | _ => True
  end.
(* what a reader has read *)
Definition relR (p : pc) (a : store) : Prop :=
  match p with
  | GetD k r => r = bs_get a k
  | IterK ks => ks = keys a
  | IterD snap => snap = bs_iter a
  | _ => True
  end.

Record cinv (progs : nat -> list bop) (c : conf) : Prop := {
  i_mutex : forall i j, i <> j -> mode_of (pcs c i) = MW -> mode_of (pcs c j) = MNone;
  i_writer : forall i, relW (pcs c i) (st c) (abs (log c));
  i_quiet : (forall i, mode_of (pcs c i) <> MW) -> st c = abs (log c);
  i_reader : forall i, relR (pcs c i) (abs (log c));
  i_legal : legal_from empty (log c);
  i_prog : forall i, map ev_op (proj i (log c)) ++ pending (pcs c i) ++ snd (thr c i) = progs i
}.

Lemma set_same c i t : set_thr c i t i = t.
Proof. unfold set_thr. rewrite Nat.eqb_refl. reflexivity. Qed.
Lemma set_other c i t j : j <> i -> set_thr c i t j = thr c j.
Proof. unfold set_thr. intros H. apply Nat.eqb_neq in H. rewrite H. reflexivity. Qed.

Lemma cinv_init progs : cinv progs (cinit progs).
Proof.
  split; cbn; try (intros; exact I); try reflexivity.
  all: try (intros i j _ H; discriminate).
Qed.

(* a goroutine that holds the read lock sees the abstract store *)
Lemma reader_sees progs c i : cinv progs c -> mode_of (pcs c i) = MR -> st c = abs (log c).
Proof.
  intros I HR. apply (i_quiet _ _ I). intros j HW.
  destruct (Nat.eq_dec j i) as [->|N]; [congruence|].
  pose proof (i_mutex _ _ I j i N HW). congruence.
Qed.

Ltac thr_cases c i j :=
  destruct (Nat.eq_dec j i) as [->|?];
  [unfold pcs; cbn [thr]; rewrite ?set_same; cbn [fst snd]
  |unfold pcs; cbn [thr]; rewrite ?set_other by assumption; fold (pcs c j)].

(* steps that neither touch the store nor the log and keep the lock mode of i *)
Lemma cinv_local progs c i p' todo' :
  cinv progs c ->
  mode_of p' = mode_of (pcs c i) ->
  pending p' ++ todo' = pending (pcs c i) ++ snd (thr c i) ->
  relW p' (st c) (abs (log c)) -> relR p' (abs (log c)) ->
  cinv progs (mkConf (st c) (set_thr c i (p', todo')) (log c)).
Proof.
  intros I HM HP HW HR. split; cbn [st log].
  - intros a b Nab. unfold pcs. cbn [thr].
    destruct (Nat.eq_dec a i) as [->|Na]; destruct (Nat.eq_dec b i) as [->|Nb]; try congruence;
      rewrite ?set_same, ?set_other by assumption; cbn [fst]; rewrite ?HM;
      apply (i_mutex _ _ I); assumption.
  - intros j. thr_cases c i j; [assumption|apply (i_writer _ _ I)].
  - intros Q. apply (i_quiet _ _ I). intros j. specialize (Q j). revert Q.
    thr_cases c i j; [rewrite HM; auto|auto].
  - intros j. thr_cases c i j; [assumption|apply (i_reader _ _ I)].
  - apply (i_legal _ _ I).
  - intros j. thr_cases c i j.
    + rewrite HP. apply (i_prog _ _ I).
    + unfold pcs. apply (i_prog _ _ I).
Qed.

(* acquiring the lock *)
Lemma cinv_lock progs c i o todo p' :
  cinv progs c -> thr c i = (Idle, o :: todo) ->
  can_lock c i (mode_of p') -> mode_of p' <> MNone -> pending p' = [o] ->
  relW p' (abs (log c)) (abs (log c)) -> relR p' (abs (log c)) ->
  cinv progs (mkConf (st c) (set_thr c i (p', todo)) (log c)).
Proof.
  intros I E CL NN HP HW HR.
  assert (Pi : pcs c i = Idle) by (unfold pcs; rewrite E; reflexivity).
  assert (Q : st c = abs (log c)).
  { apply (i_quiet _ _ I). intros j HWj. destruct (Nat.eq_dec j i) as [->|N].
    - rewrite Pi in HWj. discriminate.
    - destruct (mode_of p') eqn:M; cbn in CL; [congruence| |].
      + exact (CL j N HWj).
      + rewrite (CL j N) in HWj. discriminate. }
  split; cbn [st log].
  - intros a b Nab. unfold pcs. cbn [thr].
    destruct (Nat.eq_dec a i) as [->|Na]; destruct (Nat.eq_dec b i) as [->|Nb]; try congruence;
      rewrite ?set_same, ?set_other by assumption; cbn [fst].
    + intros HWp. rewrite HWp in CL. cbn in CL. apply CL. assumption.
    + intros HWa. destruct (mode_of p') eqn:M; cbn in CL; [congruence| |].
      * exfalso. exact (CL a Na HWa).
      * pose proof (CL a Na) as X. unfold pcs in X. congruence.
    + apply (i_mutex _ _ I). assumption.
  - intros j. thr_cases c i j; [rewrite Q; assumption|apply (i_writer _ _ I)].
  - intros _. exact Q.
  - intros j. thr_cases c i j; [assumption|apply (i_reader _ _ I)].
  - apply (i_legal _ _ I).
  - intros j. thr_cases c i j.
    + rewrite HP. pose proof (i_prog _ _ I i) as P. rewrite Pi, E in P. exact P.
    + unfold pcs. apply (i_prog _ _ I).
Qed.

(* releasing the lock: the operation takes effect in the log *)
Lemma cinv_unlock progs c i o r todo :
  cinv progs c -> snd (thr c i) = todo -> pending (pcs c i) = [o] ->
  st c = fst (apply_op (abs (log c)) o) ->
  snd (apply_op (abs (log c)) o) = r ->
  (mode_of (pcs c i) = MR -> fst (apply_op (abs (log c)) o) = abs (log c)) ->
  mode_of (pcs c i) <> MNone ->
  cinv progs (mkConf (st c) (set_thr c i (Idle, todo)) (log c ++ [(i, o, r)])).
Proof.
  intros I ET HP HS HRes HRd NN.
  assert (A' : abs (log c ++ [(i, o, r)]) = fst (apply_op (abs (log c)) o)) by apply abs_snoc.
  (* nobody else holds a write lock; if i is a writer nobody else holds any lock *)
  assert (OW : forall j, j <> i -> mode_of (pcs c j) <> MW).
  { intros j N HW. pose proof (i_mutex _ _ I j i N HW). congruence. }
  split; cbn [st log].
  - intros a b Nab. unfold pcs. cbn [thr].
    destruct (Nat.eq_dec a i) as [->|Na]; destruct (Nat.eq_dec b i) as [->|Nb]; try congruence;
      rewrite ?set_same, ?set_other by assumption; cbn [fst]; try discriminate; try reflexivity.
    apply (i_mutex _ _ I). assumption.
  - intros j. thr_cases c i j; [exact Logic.I|].
    pose proof (i_writer _ _ I j) as W. pose proof (OW j n) as NW.
    destruct (pcs c j); cbn in NW; try congruence; exact Logic.I.
  - intros _. rewrite A'. exact HS.
  - intros j. thr_cases c i j; [exact Logic.I|].
    pose proof (i_reader _ _ I j) as R. rewrite A'.
    destruct (mode_of (pcs c i)) eqn:M; [congruence| |].
    + rewrite (HRd eq_refl). exact R.
    + pose proof (i_mutex _ _ I i j (not_eq_sym n) M) as Mj.
      destruct (pcs c j); cbn in Mj; try discriminate; exact Logic.I.
  - apply legal_from_snoc. split; [apply (i_legal _ _ I)|]. exact HRes.
  - intros j. rewrite proj_snoc. cbn [ev_tid fst].
    destruct (Nat.eq_dec j i) as [->|N].
    + rewrite Nat.eqb_refl, map_app. unfold pcs. cbn [thr]. rewrite set_same. cbn [fst snd pending map ev_op app].
      pose proof (i_prog _ _ I i) as P. rewrite HP, ET in P. rewrite <- app_assoc. exact P.
    + assert (Nat.eqb i j = false) as -> by (apply Nat.eqb_neq; congruence).
      rewrite app_nil_r. unfold pcs. cbn [thr]. rewrite set_other by assumption. apply (i_prog _ _ I).
Qed.

(* a store write by the goroutine that holds the write lock *)
Lemma cinv_write progs c i p' todo s' :
  cinv progs c -> mode_of (pcs c i) = MW -> mode_of p' = MW ->
  pending p' ++ todo = pending (pcs c i) ++ snd (thr c i) ->
  relW p' s' (abs (log c)) ->
  cinv progs (mkConf s' (set_thr c i (p', todo)) (log c)).
Proof.
  intros I HWi HM HP HW. split; cbn [st log].
  - intros a b Nab. unfold pcs. cbn [thr].
    destruct (Nat.eq_dec a i) as [->|Na]; destruct (Nat.eq_dec b i) as [->|Nb]; try congruence;
      rewrite ?set_same, ?set_other by assumption; cbn [fst].
    + intros _. apply (i_mutex _ _ I i b); assumption.
    + intros HWa. pose proof (i_mutex _ _ I a i Na HWa) as X. congruence.
    + apply (i_mutex _ _ I). assumption.
  - intros j. thr_cases c i j; [assumption|].
    pose proof (i_mutex _ _ I i j (not_eq_sym n) HWi) as Mj.
    destruct (pcs c j); cbn in Mj; try discriminate; exact Logic.I.
  - intros Q. specialize (Q i). unfold pcs in Q. cbn [thr] in Q. rewrite set_same in Q. cbn in Q. congruence.
  - intros j. thr_cases c i j.
    + destruct p'; cbn in HM; try discriminate; exact Logic.I.
    + apply (i_reader _ _ I).
  - apply (i_legal _ _ I).
  - intros j. thr_cases c i j.
    + rewrite HP. apply (i_prog _ _ I).
    + unfold pcs. apply (i_prog _ _ I).
Qed.

Lemma cinv_step progs c i c' : cinv progs c -> cstep c i c' -> cinv progs c'.
Proof.
  intros I S. destruct S.
  - (* put lock *) eapply cinv_lock; eauto; cbn; try reflexivity; try discriminate; try exact Logic.I.
  - (* put found *)
    assert (P : pcs c i = PutL k v) by (unfold pcs; rewrite H; reflexivity).
    pose proof (i_writer _ _ I i) as W. rewrite P in W. cbn in W.
    apply cinv_local; try assumption; rewrite ?P, ?H; cbn; try reflexivity; try exact Logic.I.
    unfold bs_put. rewrite <- W, H0. reflexivity.
  - (* put absent *)
    assert (P : pcs c i = PutL k v) by (unfold pcs; rewrite H; reflexivity).
    pose proof (i_writer _ _ I i) as W. rewrite P in W. cbn in W.
    apply cinv_local; try assumption; rewrite ?P, ?H; cbn; try reflexivity; try exact Logic.I.
    split; [assumption|]. rewrite <- W. assumption.
  - (* map write *)
    assert (P : pcs c i = PutC k v) by (unfold pcs; rewrite H; reflexivity).
    pose proof (i_writer _ _ I i) as W. rewrite P in W. cbn in W. destruct W as [W1 W2].
    eapply cinv_write; try eassumption; rewrite ?P, ?H; cbn; try reflexivity.
    rewrite W1. split; [reflexivity|assumption].
  - (* keys append *)
    assert (P : pcs c i = PutM k v) by (unfold pcs; rewrite H; reflexivity).
    pose proof (i_writer _ _ I i) as W. rewrite P in W. cbn in W. destruct W as [W1 W2].
    eapply cinv_write; try eassumption; rewrite ?P, ?H; cbn; try reflexivity.
    rewrite W1. cbn [keys blks]. unfold bs_put. rewrite W2. reflexivity.
  - (* put unlock *)
    assert (P : pcs c i = PutD k v) by (unfold pcs; rewrite H; reflexivity).
    pose proof (i_writer _ _ I i) as W. rewrite P in W. cbn in W.
    eapply cinv_unlock; try eassumption; rewrite ?P, ?H; cbn; try reflexivity; try discriminate.
  - (* get lock *) eapply cinv_lock; eauto; cbn; try reflexivity; try discriminate; try exact Logic.I.
  - (* get read *)
    assert (P : pcs c i = GetL k) by (unfold pcs; rewrite H; reflexivity).
    assert (Q : st c = abs (log c)) by (eapply reader_sees; eauto; rewrite P; reflexivity).
    apply cinv_local; try assumption; rewrite ?P, ?H; cbn; try reflexivity; try exact Logic.I.
    rewrite Q. reflexivity.
  - (* get unlock *)
    assert (P : pcs c i = GetD k r) by (unfold pcs; rewrite H; reflexivity).
    assert (Q : st c = abs (log c)) by (eapply reader_sees; eauto; rewrite P; reflexivity).
    pose proof (i_reader _ _ I i) as R. rewrite P in R. cbn in R.
    eapply cinv_unlock; try eassumption; rewrite ?P, ?H; cbn; try reflexivity; try discriminate.
    all: try (rewrite R; reflexivity).
  - (* iter lock *) eapply cinv_lock; eauto; cbn; try reflexivity; try discriminate; try exact Logic.I.
  - (* iter keys *)
    assert (P : pcs c i = IterL) by (unfold pcs; rewrite H; reflexivity).
    assert (Q : st c = abs (log c)) by (eapply reader_sees; eauto; rewrite P; reflexivity).
    apply cinv_local; try assumption; rewrite ?P, ?H; cbn; try reflexivity; try exact Logic.I.
    rewrite Q. reflexivity.
  - (* iter blocks *)
    assert (P : pcs c i = IterK ks) by (unfold pcs; rewrite H; reflexivity).
    assert (Q : st c = abs (log c)) by (eapply reader_sees; eauto; rewrite P; reflexivity).
    pose proof (i_reader _ _ I i) as R. rewrite P in R. cbn in R.
    apply cinv_local; try assumption; rewrite ?P, ?H; cbn; try reflexivity; try exact Logic.I.
    rewrite Q, R. reflexivity.
  - (* iter unlock *)
    assert (P : pcs c i = IterD snap) by (unfold pcs; rewrite H; reflexivity).
    assert (Q : st c = abs (log c)) by (eapply reader_sees; eauto; rewrite P; reflexivity).
    pose proof (i_reader _ _ I i) as R. rewrite P in R. cbn in R.
    eapply cinv_unlock; try eassumption; rewrite ?P, ?H; cbn; try reflexivity; try discriminate.
    all: try (rewrite R; reflexivity).
Qed.

Lemma cinv_reach progs sched c : creach (cinit progs) sched c -> cinv progs c.
Proof.
  intros R. induction R as [|sched i c c' R IH S]; [apply cinv_init|]. eapply cinv_step; eauto.
Qed.

(* The access-by-access model itself has no data race: the shared accesses a
   goroutine is about to perform (variables as numbered in Gen_Locks: 0 = keys,
   1 = blks) never conflict with those of another goroutine. *)
Definition v_keys : N := 0.
Definition v_blks : N := 1.
Definition next_acc (p : pc) : list access :=
  match p with
  | PutL _ _ => [mkAcc v_blks false]
  | PutC _ _ => [mkAcc v_blks true]
  | PutM _ _ => [mkAcc v_keys false; mkAcc v_keys true]
  | GetL _ => [mkAcc v_blks false]
  | IterL => [mkAcc v_keys false]
  | IterK _ => [mkAcc v_blks false]
  | _ => []
  end.
Definition crace (c : conf) : Prop :=
  exists i j a b, i <> j /\ In a (next_acc (pcs c i)) /\ In b (next_acc (pcs c j)) /\ conflict a b.

Lemma writer_mode p a : In a (next_acc p) -> awrite a = true -> mode_of p = MW.
Proof.
  destruct p; cbn; intros H W; try reflexivity; try tauto;
    repeat (destruct H as [H|H]; [subst a; cbn in W; try discriminate|]); try tauto.
Qed.
Lemma idle_no_acc p a : In a (next_acc p) -> mode_of p <> MNone.
Proof. destruct p; cbn; intros H; try discriminate; tauto. Qed.

Theorem model_race_free progs sched c : creach (cinit progs) sched c -> ~ crace c.
Proof.
  intros R (i & j & a & b & Nij & Ha & Hb & _ & [W|W]).
  - pose proof (i_mutex _ _ (cinv_reach _ _ _ R) i j Nij (writer_mode _ _ Ha W)) as M.
    exact (idle_no_acc _ _ Hb M).
  - pose proof (i_mutex _ _ (cinv_reach _ _ _ R) j i (not_eq_sym Nij) (writer_mode _ _ Hb W)) as M.
    exact (idle_no_acc _ _ Ha M).
Qed.

(* C17 (functional part).  Any number of goroutines, any programs, any schedule:
   when all goroutines are done, the log of (goroutine, operation, returned
   result) triples — in the order of the unlocks — is a merge of the programs, is
   a legal SEQUENTIAL history of the store, and the shared store is the result
   of running that merge sequentially. *)
Theorem linearizable progs sched c :
  creach (cinit progs) sched c -> finished c ->
  linearization progs (log c) /\ st c = run_ops (map ev_op (log c)).
Proof.
  intros R F. pose proof (cinv_reach _ _ _ R) as I. split; [split|].
  - intros i. pose proof (i_prog _ _ I i) as P. unfold pcs in P. rewrite (F i) in P.
    cbn in P. rewrite app_nil_r in P. exact P.
  - apply (i_legal _ _ I).
  - apply (i_quiet _ _ I). intros i. unfold pcs. rewrite (F i). discriminate.
Qed.

(* ... hence the sequential invariants hold for the final shared store *)
Corollary concurrent_final_store progs sched c :
  creach (cinit progs) sched c -> finished c ->
  exists merge : list (nat * bop),
    (forall i, map snd (filter (fun e => Nat.eqb (fst e) i) merge) = progs i) /\
    let l := puts_of (map snd merge) in
    NoDup (keys (st c)) /\
    (forall k, In k (keys (st c)) <-> In k (map fst l)) /\
    (forall k, bs_get (st c) k = first_val k l) /\
    keys (st c) = firsts [] (map fst l) /\
    (forall k o, In (k, o) (bs_iter (st c)) -> o <> None).
Proof.
  intros R F. destruct (linearizable _ _ _ R F) as [[HP _] HS].
  exists (map fst (log c)). split.
  - intros i. rewrite <- HP. unfold proj. clear.
    induction (log c) as [|e l IH]; [reflexivity|]. cbn [map filter].
    unfold ev_tid at 1. destruct (Nat.eqb (fst (fst e)) i); cbn [map]; rewrite IH; reflexivity.
  - cbn zeta. rewrite map_map. change (fun x : event => snd (fst x)) with ev_op.
    rewrite HS, run_ops_puts.
    destruct (seq_spec (puts_of (map ev_op (log c)))) as (A & B & C & D & _).
    repeat split; try assumption; try apply B.
    intros k o. apply iter_no_missing. apply wf_put_all, wf_empty.
Qed.

End Store.

Arguments mkStore {K V}.
Arguments keys {K V}.
Arguments blks {K V}.
Arguments OPut {K V}.
Arguments OGet {K V}.
Arguments OIter {K V}.
Arguments RPut {K V}.
Arguments RGet {K V}.
Arguments RIter {K V}.
