(* C15 — No response can crash the client.  PARTIAL: the model starts at decoded blocks. *)
From Ucanto Require Import Base Client.
From Ucanto Require Sig.

(* whatever status and whatever message the reply carries, executing through a connection
   yields an error value or a response object ... *)
Theorem C15_execute_total : forall status root_is_message rep,
  client_execute status root_is_message rep = CError \/
  exists r, client_execute status root_is_message rep = CResponse r.
Proof. exact client_execute_total. Qed.
Print Assumptions C15_execute_total.

(* ... any non-200 reply is an error ... *)
Theorem C15_non_200 : forall status root_is_message rep,
  status <> 200%Z -> client_execute status root_is_message rep = CError.
Proof. exact client_non_200. Qed.
Print Assumptions C15_non_200.

(* ... and every lookup on a response returns a value (never a panic), for any report —
   absent, empty, foreign-keyed — and any link *)
Theorem C15_get_total : forall rep l, exists r, get rep l = Ret r.
Proof. exact get_total. Qed.
Print Assumptions C15_get_total.

Theorem C15_receipts_total : forall rep, exists r, receipts rep = Ret r.
Proof. exact receipts_total. Qed.
Print Assumptions C15_receipts_total.

(* a well-formed response that carries no receipts answers lookups with 'not found' *)
Theorem C15_empty : forall l, get None l = Ret None.
Proof. exact get_no_report. Qed.
Print Assumptions C15_empty.

(* a lookup only finds what the report holds under that link's key *)
Theorem C15_get_some : forall rep l r,
  get rep l = Ret (Some r) -> exists es, rep = Some es /\ In (l, r) es.
Proof. exact get_some. Qed.
Print Assumptions C15_get_some.

(* the pinned lookup dereferenced the optional report: refuted by the empty-batch reply *)
Theorem C15_pinned_refuted : exists l, get_pinned None l = Panic site_nil.
Proof. exact get_pinned_refuted. Qed.
Print Assumptions C15_pinned_refuted.

(* signature accessors of a read receipt are total on every byte string *)
Theorem C15_signature_total : forall s : bstr,
  exists n r, Sig.sig_size s = Ret n /\ Sig.sig_raw s = Ret r.
Proof. exact Sig.sig_total. Qed.
Print Assumptions C15_signature_total.
