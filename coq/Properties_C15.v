(* C15 — No response can crash the client.
   Two layers.  The first eight theorems are about coq/Client.v, the model of client.Execute's reply
   handling on the DECODED view of a reply (status, "is the first root a present, decodable message",
   report).  The C15_bytes_* theorems below are about coq/MessageBytes.v, which starts at the reply's
   BYTES: car.Decode (Car.v) + blockstore.NewBlockReader (Blockstore.v) + message.NewMessage with the
   typed dag-cbor decoding of the root block (Cbor.v's decoder without basicnode's duplicate-key check,
   then bindnode's acceptance of the AgentMessage schema) + block.Decode's integrity check, for ARBITRARY
   byte strings; C15_bytes_refines ties the two layers for every body.  The sha2-256 digest and
   go-ipld-cbor's verdict on a non-canonical CAR header are parameters (universally quantified). *)
From Ucanto Require Import Base Client.
From Ucanto Require Sig.

(* whatever status and whatever message the reply carries, executing through a connection
   yields an error value or a response object ... *)
Theorem C15_execute_total : forall status root_is_message rep,
  client_execute status root_is_message rep = CError \/
  exists r, client_execute status root_is_message rep = CResponse r.
Proof. exact client_execute_total. Qed.
Print Assumptions C15_execute_total.

(* ... any non-200 reply is an error ... *)
Theorem C15_non_200 : forall status root_is_message rep,
  status <> 200%Z -> client_execute status root_is_message rep = CError.
Proof. exact client_non_200. Qed.
Print Assumptions C15_non_200.

(* ... and every lookup on a response returns a value (never a panic), for any report —
   absent, empty, foreign-keyed — and any link *)
Theorem C15_get_total : forall rep l, exists r, get rep l = Ret r.
Proof. exact get_total. Qed.
Print Assumptions C15_get_total.

Theorem C15_receipts_total : forall rep, exists r, receipts rep = Ret r.
Proof. exact receipts_total. Qed.
Print Assumptions C15_receipts_total.

(* a well-formed response that carries no receipts answers lookups with 'not found' *)
Theorem C15_empty : forall l, get None l = Ret None.
Proof. exact get_no_report. Qed.
Print Assumptions C15_empty.

(* a lookup only finds what the report holds under that link's key *)
Theorem C15_get_some : forall rep l r,
  get rep l = Ret (Some r) -> exists es, rep = Some es /\ In (l, r) es.
Proof. exact get_some. Qed.
Print Assumptions C15_get_some.

(* the pinned lookup dereferenced the optional report: refuted by the empty-batch reply *)
Theorem C15_pinned_refuted : exists l, get_pinned None l = Panic site_nil.
Proof. exact get_pinned_refuted. Qed.
Print Assumptions C15_pinned_refuted.

(* signature accessors of a read receipt are total on every byte string *)
Theorem C15_signature_total : forall s : bstr,
  exists n r, Sig.sig_size s = Ret n /\ Sig.sig_raw s = Ret r.
Proof. exact Sig.sig_total. Qed.
Print Assumptions C15_signature_total.

(* ================================================================================================ *)
(* byte level                                                                                        *)
From Ucanto Require Import Varint Ipld Cbor Formats Blockstore MessageFormat Cid Car BaseEnc DagJson MessageBytes.

(* whatever the status and whatever the bytes of the body: an error value or a response object *)
Theorem C15_bytes_total : forall mh_digest hdr_oracle (status : Z) (body : bstr),
  client_execute_bytes mh_digest hdr_oracle status body = BError \/
  exists d, client_execute_bytes mh_digest hdr_oracle status body = BResponse d.
Proof. exact client_execute_bytes_total. Qed.
Print Assumptions C15_bytes_total.

(* any non-200 reply is an error, whatever its body *)
Theorem C15_bytes_non_200 : forall mh_digest hdr_oracle (status : Z) (body : bstr),
  status <> 200%Z -> client_execute_bytes mh_digest hdr_oracle status body = BError.
Proof. exact client_bytes_non_200. Qed.
Print Assumptions C15_bytes_non_200.

(* a body that response.Decode refuses (garbage, a damaged CAR, a CAR without a message) is an error,
   never a response object *)
Theorem C15_bytes_garbage : forall mh_digest hdr_oracle (status : Z) (body : bstr),
  decode_message mh_digest hdr_oracle body = None ->
  client_execute_bytes mh_digest hdr_oracle status body = BError.
Proof. exact client_bytes_garbage. Qed.
Print Assumptions C15_bytes_garbage.

(* a response object exists only for status 200 and a body that decodes, and it is that message *)
Theorem C15_bytes_response_inv : forall mh_digest hdr_oracle (status : Z) (body : bstr) d,
  client_execute_bytes mh_digest hdr_oracle status body = BResponse d ->
  status = 200%Z /\ decode_message mh_digest hdr_oracle body = Some d.
Proof. exact client_bytes_response_inv. Qed.
Print Assumptions C15_bytes_response_inv.

(* what "decodes" means, for every byte string: the CAR header is readable with version 1, EVERY section
   is intact (nothing is skipped), the FIRST root has a block (first occurrence wins), that block is an
   AgentMessage, and its link is the dag-cbor / sha2-256 CIDv1 of its bytes *)
Theorem C15_bytes_decodes_inv : forall mh_digest hdr_oracle (body : bstr) d,
  decode_message mh_digest hdr_oracle body = Some d ->
  exists roots blocks data,
    car_decode mh_digest true hdr_oracle body = (HdrOk (d_root d :: roots), map item_of_block blocks)
    /\ d_store d = tbl_of blocks
    /\ tbl_get (d_store d) (d_root d) = Some data
    /\ message_decode_typed data = Some (d_msg d)
    /\ root_integrity mh_digest (d_root d) data = true.
Proof. exact decode_message_inv. Qed.
Print Assumptions C15_bytes_decodes_inv.

(* every block the response hands out matches its CID *)
Theorem C15_bytes_integrity : forall mh_digest hdr_oracle (body : bstr) d c data,
  decode_message mh_digest hdr_oracle body = Some d -> tbl_get (d_store d) c = Some data ->
  cid_sum mh_digest (cid_prefix c) data = Some c.
Proof. exact decode_message_integrity. Qed.
Print Assumptions C15_bytes_integrity.

(* round trip: the bytes car.Encode writes for a message (root block = block.Encode of the message,
   anywhere among the blocks, repeated blocks allowed) decode to that message (report in canonical key
   order), with the block table in first-occurrence order *)
Theorem C15_bytes_roundtrip : forall mh_digest hdr_oracle m root blocks,
  wf_ipld (message_ipld m) = true -> in_budget (message_ipld m) = true ->
  roots_ok 1 [root] -> Forall (block_ok mh_digest) blocks ->
  tbl_get (tbl_of blocks) root = Some (message_bytes m) ->
  msg_root_ok mh_digest root (message_bytes m) ->
  decode_message mh_digest hdr_oracle (car_encode [root] blocks)
  = Some (mkDecoded root (canon_msg m) (run_puts bstr bstr beq blocks)).
Proof. exact decode_message_roundtrip. Qed.
Print Assumptions C15_bytes_roundtrip.

Theorem C15_bytes_execute_roundtrip : forall mh_digest hdr_oracle m root blocks,
  wf_ipld (message_ipld m) = true -> in_budget (message_ipld m) = true ->
  roots_ok 1 [root] -> Forall (block_ok mh_digest) blocks ->
  tbl_get (tbl_of blocks) root = Some (message_bytes m) ->
  msg_root_ok mh_digest root (message_bytes m) ->
  client_execute_bytes mh_digest hdr_oracle 200 (car_encode [root] blocks)
  = BResponse (mkDecoded root (canon_msg m) (run_puts bstr bstr beq blocks)).
Proof. exact client_bytes_roundtrip. Qed.
Print Assumptions C15_bytes_execute_roundtrip.

(* the typed decoding of the root block accepts everything the dag-cbor decoder of Cbor.v accepts, with
   the same value (it only lacks basicnode's duplicate-key refusal, which bindnode does not have) *)
Theorem C15_bytes_decoder_extends : forall (b : bstr) v,
  cbor_decode_all b = Some v -> cbor_decode_all_t b = Some v.
Proof. exact cbor_decode_all_t_of_checked. Qed.
Print Assumptions C15_bytes_decoder_extends.

(* refinement: for EVERY status and body the byte-level client is Client.v's client_execute on the decoded
   view of that body, so C15_execute_total / C15_non_200 / ... speak about bytes *)
Theorem C15_bytes_refines : forall mh_digest hdr_oracle (kid lid : bstr -> N) (status : Z) (body : bstr),
  abs_result kid lid (client_execute_bytes mh_digest hdr_oracle status body)
  = Client.client_execute status (view_is_message mh_digest hdr_oracle body)
                          (view_report mh_digest hdr_oracle kid lid body).
Proof. exact client_bytes_refines. Qed.
Print Assumptions C15_bytes_refines.

(* ... and message.Get on the decoded message is Client.v's get under the key of the link's STRING,
   for every injective numbering of key strings (one exists: C15_bytes_numbering) *)
Theorem C15_bytes_get_refines : forall (kid lid : bstr -> N),
  (forall a b, kid a = kid b -> a = b) ->
  forall m l, exists o, get_bytes m l = Ret o /\
                        Client.get (abs_report kid lid m) (kid (cid_string l)) = Ret (option_map lid o).
Proof. exact get_bytes_refines. Qed.
Print Assumptions C15_bytes_get_refines.

Theorem C15_bytes_numbering : forall a b : bstr, bstr_code a = bstr_code b -> a = b.
Proof. exact bstr_code_inj. Qed.
Print Assumptions C15_bytes_numbering.

(* for replies built from a message: exactly Client.v on that message's report *)
Theorem C15_bytes_refines_roundtrip : forall mh_digest hdr_oracle (kid lid : bstr -> N) m root blocks,
  wf_ipld (message_ipld m) = true -> in_budget (message_ipld m) = true ->
  roots_ok 1 [root] -> Forall (block_ok mh_digest) blocks ->
  tbl_get (tbl_of blocks) root = Some (message_bytes m) ->
  msg_root_ok mh_digest root (message_bytes m) ->
  abs_result kid lid (client_execute_bytes mh_digest hdr_oracle 200 (car_encode [root] blocks))
  = Client.client_execute 200 true (abs_report kid lid (canon_msg m)).
Proof. exact client_bytes_refines_roundtrip. Qed.
Print Assumptions C15_bytes_refines_roundtrip.

(* every lookup on every decoded message returns a value — absent report, empty report, foreign keys,
   repeated keys, keys that are not UTF-8 — and so does Receipts *)
Theorem C15_bytes_get_total : forall (m : amsg) (l : bstr), exists r, get_bytes m l = Ret r.
Proof. exact get_bytes_total. Qed.
Print Assumptions C15_bytes_get_total.

Theorem C15_bytes_receipts_total : forall m : amsg, exists r, receipts_bytes m = Ret r.
Proof. exact receipts_bytes_total. Qed.
Print Assumptions C15_bytes_receipts_total.

(* the reply to an empty batch, as bytes: a well-formed reply whose message has no report is a response,
   and it answers EVERY lookup with "not found" and lists no receipts *)
Theorem C15_bytes_empty_batch : forall mh_digest hdr_oracle m root blocks,
  wf_ipld (message_ipld m) = true -> in_budget (message_ipld m) = true ->
  roots_ok 1 [root] -> Forall (block_ok mh_digest) blocks ->
  tbl_get (tbl_of blocks) root = Some (message_bytes m) ->
  msg_root_ok mh_digest root (message_bytes m) ->
  m_report m = None ->
  exists d, client_execute_bytes mh_digest hdr_oracle 200 (car_encode [root] blocks) = BResponse d /\
            (forall l, get_bytes (d_msg d) l = Ret None) /\ receipts_bytes (d_msg d) = Ret [].
Proof. exact client_bytes_no_report. Qed.
Print Assumptions C15_bytes_empty_batch.

(* a lookup finds a receipt only in an entry keyed by that link's own string; distinct links have
   distinct strings (no oracle: DagJson.cid_string_inj) *)
Theorem C15_bytes_get_some : forall (m : amsg) (l v : bstr),
  get_bytes m l = Ret (Some v) -> exists es, m_report m = Some es /\ In (cid_string l, v) es.
Proof. exact get_bytes_some. Qed.
Print Assumptions C15_bytes_get_some.

Theorem C15_bytes_key_of_link : forall l l' : bstr,
  bytes_lt l -> bytes_lt l' -> cid_string l = cid_string l' -> l = l'.
Proof. exact get_bytes_key_of_link. Qed.
Print Assumptions C15_bytes_key_of_link.

(* failures, on archives of well-formed blocks: one damaged section anywhere, a cut inside a section,
   no roots, a first root without a block — each is an error of the stated class, never a response *)
Theorem C15_bytes_bad_block : forall mh_digest hdr_oracle roots bs1 c d' bs2,
  roots_ok 1 roots -> Forall (block_ok mh_digest) bs1 -> Forall (block_ok mh_digest) bs2 ->
  cid_wf c -> N.of_nat (length (c ++ d')) <= max_section ->
  cid_sum mh_digest (cid_prefix c) d' <> Some c ->
  decode_message_r mh_digest hdr_oracle (car_encode roots bs1 ++ section (c, d') ++ flat_map section bs2)
  = inr FBlock.
Proof. exact decode_message_bad_block. Qed.
Print Assumptions C15_bytes_bad_block.

Theorem C15_bytes_truncated : forall mh_digest hdr_oracle roots bs1 b p q,
  roots_ok 1 roots -> Forall (block_ok mh_digest) bs1 -> block_ok mh_digest b ->
  section b = p ++ q -> p <> [] -> q <> [] ->
  decode_message_r mh_digest hdr_oracle (car_encode roots bs1 ++ p) = inr FBlock.
Proof. exact decode_message_truncated. Qed.
Print Assumptions C15_bytes_truncated.

Theorem C15_bytes_no_roots : forall mh_digest hdr_oracle blocks,
  roots_ok 1 [] -> Forall (block_ok mh_digest) blocks ->
  decode_message_r mh_digest hdr_oracle (car_encode [] blocks) = inr FNoRoots.
Proof. exact decode_message_no_roots. Qed.
Print Assumptions C15_bytes_no_roots.

Theorem C15_bytes_root_missing : forall mh_digest hdr_oracle root roots blocks,
  roots_ok 1 (root :: roots) -> Forall (block_ok mh_digest) blocks -> ~ In root (map fst blocks) ->
  decode_message_r mh_digest hdr_oracle (car_encode (root :: roots) blocks) = inr FRootMissing.
Proof. exact decode_message_root_missing. Qed.
Print Assumptions C15_bytes_root_missing.

(* further roots are ignored: only the first one is looked at *)
Theorem C15_bytes_more_roots : forall mh_digest hdr_oracle m root roots blocks,
  wf_ipld (message_ipld m) = true -> in_budget (message_ipld m) = true ->
  roots_ok 1 (root :: roots) -> Forall (block_ok mh_digest) blocks ->
  tbl_get (tbl_of blocks) root = Some (message_bytes m) ->
  msg_root_ok mh_digest root (message_bytes m) ->
  decode_message mh_digest hdr_oracle (car_encode (root :: roots) blocks)
  = Some (mkDecoded root (canon_msg m) (run_puts bstr bstr beq blocks)).
Proof. exact decode_message_more_roots. Qed.
Print Assumptions C15_bytes_more_roots.

(* the hypotheses of the round-trip theorems are satisfiable (toy digest; Example ex_hyps, ex_decisions and
   ex_repeated_key in MessageBytes.v evaluate the decision logic on concrete bodies) *)
Theorem C15_bytes_hyps_satisfiable :
  wf_ipld (message_ipld ex_msg) = true /\ in_budget (message_ipld ex_msg) = true /\
  roots_ok 1 [ex_root] /\ Forall (block_ok toy_digest) ex_mblocks /\
  tbl_get (tbl_of ex_mblocks) ex_root = Some (message_bytes ex_msg) /\
  msg_root_ok toy_digest ex_root (message_bytes ex_msg).
Proof. exact ex_hyps. Qed.
Print Assumptions C15_bytes_hyps_satisfiable.

(* ------------------------------------------------------------------ *)
(* Reading the receipt a report names (coq/ReceiptBytes.v): receipt.NewReceipt — the reader behind
   ReceiptReader.Read — on ARBITRARY block bytes: typed decoding of the Receipt / Outcome / Result /
   Effects schema, block.Decode's integrity check, "neither ok nor error".  Checked on every run against
   the implementation for every receipt the report of a decoded body names (Check_Bytes.v, code 8). *)
From Ucanto Require Import TokenBytes ReceiptFormat ReceiptBytes.

(* for EVERY store and link the reader classifies: a receipt, or one of four error classes (RUnm marks the
   inputs outside the modelled domain: a repeated struct key) — and a receipt comes only from bytes that
   the store binds to the link, that hash to it, and that decode under the schema with a result side *)
Theorem C15_bytes_read_receipt_inv : forall mh_digest s root r,
  read_receipt mh_digest s root = ROk r ->
  exists data v t,
    tbl_get s root = Some data /\ cbor_decode_all_t data = Some v /\
    receipt_typed v = TOk (t, r_sig r) /\ to_outcome t = Some (r_ocm r) /\
    root_integrity mh_digest root data = true.
Proof. exact read_receipt_ok_inv. Qed.
Print Assumptions C15_bytes_read_receipt_inv.

Theorem C15_bytes_read_receipt_missing : forall mh_digest s root,
  tbl_get s root = None -> read_receipt mh_digest s root = RMissing.
Proof. exact read_receipt_missing. Qed.
Print Assumptions C15_bytes_read_receipt_missing.

(* a block filed under a link its bytes do not hash to never reads as a receipt *)
Theorem C15_bytes_read_receipt_relabelled : forall mh_digest s root data,
  tbl_get s root = Some data -> root_integrity mh_digest root data = false ->
  forall r, read_receipt mh_digest s root <> ROk r.
Proof. exact read_receipt_relabelled. Qed.
Print Assumptions C15_bytes_read_receipt_relabelled.

(* the bytes under the link decide: other blocks of the response cannot change what is read *)
Theorem C15_bytes_read_receipt_bytes_decide : forall mh_digest s s' root,
  tbl_get s root = tbl_get s' root -> read_receipt mh_digest s root = read_receipt mh_digest s' root.
Proof. exact read_receipt_bytes_decide. Qed.
Print Assumptions C15_bytes_read_receipt_bytes_decide.

(* a receipt that was read has a result, ok first *)
Theorem C15_bytes_read_receipt_has_result : forall mh_digest s root r,
  read_receipt mh_digest s root = ROk r ->
  exists t, to_outcome t = Some (r_ocm r) /\
    (if o_ok (r_ocm r) then t_okv t = Some (o_val (r_ocm r))
     else t_okv t = None /\ t_errv t = Some (o_val (r_ocm r))).
Proof. exact read_receipt_has_result. Qed.
Print Assumptions C15_bytes_read_receipt_has_result.

(* the client's path — message.Get, then the reader — yields a value for every decoded response and link *)
Theorem C15_bytes_client_receipt_total : forall mh_digest d inv,
  client_receipt mh_digest d inv = None \/ exists x, client_receipt mh_digest d inv = Some x.
Proof. exact client_receipt_total. Qed.
Print Assumptions C15_bytes_client_receipt_total.

Theorem C15_bytes_client_receipt_inv : forall mh_digest d inv r,
  client_receipt mh_digest d inv = Some (ROk r) ->
  exists rl data, get_bytes (d_msg d) inv = Ret (Some rl) /\ tbl_get (d_store d) rl = Some data /\
                  root_integrity mh_digest rl data = true.
Proof. exact client_receipt_inv. Qed.
Print Assumptions C15_bytes_client_receipt_inv.

(* round trip: every receipt the library can issue (a present, well-formed result value; well-formed, distinct
   meta entries), filed under the link of its bytes, reads back as itself *)
Theorem C15_bytes_read_receipt_roundtrip : forall mh_digest s root r,
  wf_ipld (receipt_ipld r) = true -> in_budget (receipt_ipld r) = true -> rcpt_typed_ok r = true ->
  tbl_get s root = Some (receipt_bytes r) -> root_integrity mh_digest root (receipt_bytes r) = true ->
  read_receipt mh_digest s root = ROk (canon_rcpt r).
Proof. exact read_receipt_roundtrip. Qed.
Print Assumptions C15_bytes_read_receipt_roundtrip.

Theorem C15_bytes_client_receipt_roundtrip : forall mh_digest d inv rl r,
  get_bytes (d_msg d) inv = Ret (Some rl) ->
  wf_ipld (receipt_ipld r) = true -> in_budget (receipt_ipld r) = true -> rcpt_typed_ok r = true ->
  tbl_get (d_store d) rl = Some (receipt_bytes r) -> root_integrity mh_digest rl (receipt_bytes r) = true ->
  client_receipt mh_digest d inv = Some (ROk (canon_rcpt r)).
Proof. exact client_receipt_roundtrip. Qed.
Print Assumptions C15_bytes_client_receipt_roundtrip.

(* the hypotheses are satisfiable (toy digest), and the decision logic evaluates as stated on altered blocks *)
Theorem C15_bytes_read_receipt_hyps_satisfiable :
  wf_ipld (receipt_ipld exr) = true /\ in_budget (receipt_ipld exr) = true /\ rcpt_typed_ok exr = true /\
  tbl_get (tbl_of [ex_b1; (exr_root, exr_data)]) exr_root = Some (receipt_bytes exr) /\
  root_integrity toy_digest exr_root (receipt_bytes exr) = true.
Proof. exact exr_hyps. Qed.
Print Assumptions C15_bytes_read_receipt_hyps_satisfiable.
