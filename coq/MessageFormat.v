(* MessageFormat.v — agent messages (ucanto/message@7.0.0), delegation archives (ucan@0.9.1),
   and the block sets that travel with delegations, invocations and messages
   (core/message/message.go Build/NewMessage, core/delegation/delegate.go,
   core/delegation/delegation.go Archive/Extract, core/dag/blockstore). *)
From Ucanto Require Import Base Ipld Cbor Formats Blockstore.
From Coq Require Import Permutation.
Open Scope N_scope.

(* ------------------------------------------------------------------ *)
(* layouts                                                             *)

Record amsg := mkMsg {
  m_execute : option (list bstr);              (* invocation CIDs *)
  m_report : option (list (bstr * bstr)) }.    (* invocation link string -> receipt CID *)

Definition k_msg7 := bs "ucanto/message@7.0.0".
Definition k_execute := bs "execute".
Definition k_report := bs "report".
Definition k_ucan091 := bs "ucan@0.9.1".

Definition message_ipld (m : amsg) : ipld :=
  IMap [(k_msg7, struct_map [
    opt_field k_execute (option_map (fun l => IList (map ILink l)) (m_execute m));
    opt_field k_report (option_map (fun r => IMap (map (fun kv => (fst kv, ILink (snd kv))) r)) (m_report m)) ])].

Definition report_of_ipld (v : ipld) : option (list (bstr * bstr)) :=
  m <- as_map v ;; omap (fun kv => l <- as_link (snd kv) ;; Some (fst kv, l)) m.

Definition message_of_ipld (v : ipld) : option amsg :=
  d <- map_get k_msg7 v ;;
  ex <- opt_get k_execute d (fun x => l <- as_list x ;; omap as_link l) ;;
  rp <- opt_get k_report d report_of_ipld ;;
  Some (mkMsg ex rp).

(* the report is a map: it reads back in canonical key order *)
Definition canon_report (r : list (bstr * bstr)) : list (bstr * bstr) := sort_map r.
Definition canon_msg (m : amsg) : amsg := mkMsg (m_execute m) (option_map canon_report (m_report m)).

Definition message_bytes (m : amsg) : bstr := cbor_encode (message_ipld m).
Definition message_decode (b : bstr) : option amsg := v <- cbor_decode_all b ;; message_of_ipld v.

Lemma sort_map_map_snd {A B} (f : A -> B) (l : list (bstr * A)) :
  sort_map (map (fun kv => (fst kv, f (snd kv))) l) = map (fun kv => (fst kv, f (snd kv))) (sort_map l).
Proof. apply (sort_map_map f). Qed.

Lemma report_roundtrip r :
  report_of_ipld (canon (IMap (map (fun kv => (fst kv, ILink (snd kv))) r))) = Some (canon_report r).
Proof.
  unfold report_of_ipld, canon_report. rewrite canon_map_eq. cbn [as_map obind].
  rewrite map_map. unfold on_snd. cbn [fst snd canon].
  rewrite (sort_map_map_snd ILink r).
  rewrite omap_map. rewrite (omap_some _ (fun x => x)); [rewrite map_id; reflexivity|].
  intros [k v] _. reflexivity.
Qed.

Lemma links_canon l : canon (IList (map ILink l)) = IList (map ILink l).
Proof. cbn [canon]. rewrite map_map. reflexivity. Qed.

Lemma links_read l : (l' <- as_list (IList (map ILink l)) ;; omap as_link l') = Some l.
Proof. cbn [as_list obind]. rewrite omap_map. rewrite (omap_some _ (fun x => x)) by (intros; reflexivity). rewrite map_id. reflexivity. Qed.

Theorem message_roundtrip_ipld m : message_of_ipld (canon (message_ipld m)) = Some (canon_msg m).
Proof.
  unfold message_of_ipld, message_ipld.
  assert (ND1 : NoDup (map fst [(k_msg7, struct_map [
     opt_field k_execute (option_map (fun l => IList (map ILink l)) (m_execute m));
     opt_field k_report (option_map (fun r => IMap (map (fun kv => (fst kv, ILink (snd kv))) r)) (m_report m))])]))
    by (cbn; repeat constructor; cbn; intuition).
  rewrite (map_get_canon_top _ _ ND1).
  assert (L : forall x : ipld, slookup k_msg7 [(k_msg7, x)] = Some x) by (intros; reflexivity).
  rewrite L. cbn [option_map obind]. unfold struct_map, opt_get.
  destruct m as [ex rp]. cbn [m_execute m_report].
  destruct ex as [ex|], rp as [rp|]; cbn [option_map opt_field concat app].
  - assert (ND : NoDup (map fst [(k_execute, IList (map ILink ex)); (k_report, IMap (map (fun kv => (fst kv, ILink (snd kv))) rp))]))
      by (cbn; repeat constructor; cbn; intuition discriminate).
    rewrite !(map_get_canon_top _ _ ND).
    assert (L1 : forall a b : ipld, slookup k_execute [(k_execute, a); (k_report, b)] = Some a) by (intros; reflexivity).
    assert (L2 : forall a b : ipld, slookup k_report [(k_execute, a); (k_report, b)] = Some b) by (intros; reflexivity).
    rewrite L1, L2. cbn [option_map obind]. rewrite links_canon, links_read. cbn [obind].
    rewrite report_roundtrip. reflexivity.
  - assert (ND : NoDup (map fst [(k_execute, IList (map ILink ex))])) by (cbn; repeat constructor; cbn; intuition).
    rewrite !(map_get_canon_top _ _ ND).
    assert (L1 : forall a : ipld, slookup k_execute [(k_execute, a)] = Some a) by (intros; reflexivity).
    assert (L2 : forall a : ipld, slookup k_report [(k_execute, a)] = None) by (intros; reflexivity).
    rewrite L1, L2. cbn [option_map obind]. rewrite links_canon, links_read. reflexivity.
  - assert (ND : NoDup (map fst [(k_report, IMap (map (fun kv => (fst kv, ILink (snd kv))) rp))])) by (cbn; repeat constructor; cbn; intuition).
    rewrite !(map_get_canon_top _ _ ND).
    assert (L1 : forall a : ipld, slookup k_execute [(k_report, a)] = None) by (intros; reflexivity).
    assert (L2 : forall a : ipld, slookup k_report [(k_report, a)] = Some a) by (intros; reflexivity).
    rewrite L1, L2. cbn [option_map obind]. rewrite report_roundtrip. reflexivity.
  - assert (ND : NoDup (map fst (@nil (bstr * ipld)))) by constructor.
    rewrite !(map_get_canon_top _ _ ND). reflexivity.
Qed.

Theorem message_transport m :
  wf_ipld (message_ipld m) = true -> in_budget (message_ipld m) = true ->
  message_decode (message_bytes m) = Some (canon_msg m).
Proof.
  intros W B. unfold message_decode, message_bytes. rewrite (cbor_roundtrip _ W B). cbn [obind].
  apply message_roundtrip_ipld.
Qed.

(* the invocation -> receipt mapping is the same map after transport *)
Theorem report_lookup_preserved (r : list (bstr * bstr)) k :
  NoDup (map fst r) -> slookup k (canon_report r) = slookup k r.
Proof.
  intros ND. unfold canon_report. symmetry. apply slookup_perm; [exact ND | apply Permutation_sym; apply sort_map_perm].
Qed.

(* delegation archive: one root block naming the delegation *)
Definition archive_ipld (l : bstr) : ipld := IMap [(k_ucan091, ILink l)].
Definition archive_of_ipld (v : ipld) : option bstr := x <- map_get k_ucan091 v ;; as_link x.
Theorem archive_roundtrip_ipld l : archive_of_ipld (canon (archive_ipld l)) = Some l.
Proof.
  unfold archive_of_ipld, archive_ipld.
  assert (ND : NoDup (map fst [(k_ucan091, ILink l)])) by (cbn; repeat constructor; cbn; intuition).
  rewrite (map_get_canon_top _ _ ND). reflexivity.
Qed.
Theorem archive_transport l :
  wf_ipld (archive_ipld l) = true -> in_budget (archive_ipld l) = true ->
  (v <- cbor_decode_all (cbor_encode (archive_ipld l)) ;; archive_of_ipld v) = Some l.
Proof. intros W B. rewrite (cbor_roundtrip _ W B). cbn [obind]. apply archive_roundtrip_ipld. Qed.

(* ------------------------------------------------------------------ *)
(* block sets: what travels with a delegation, an invocation, a message *)

Section Blocks.
  (* blocks are (link id, content); links are content addresses *)
  Definition blk := (N * bstr)%type.
  Notation store := (store N bstr).
  Notation run_puts := (run_puts N bstr N.eqb).

  (* a delegation as issued: its root block, the delegations embedded as proofs (inline), and
     the blocks attached afterwards; link-only proofs contribute no block *)
  Inductive dtree := DNode (root : blk) (inline : list dtree) (attached : list blk).

  Definition d_root (d : dtree) : blk := match d with DNode r _ _ => r end.

  (* Delegation.Blocks(): the store filled by Delegate (every inline proof's Blocks() in order,
     then the root), followed by the attachment store *)
  Fixpoint d_blocks (d : dtree) : list blk :=
    match d with
    | DNode r ps at_ =>
      let own := run_puts (flat_map d_blocks ps ++ [r]) in
      let att := run_puts at_ in
      map (fun k => (k, match bs_get N bstr N.eqb own k with Some v => v | None => [] end)) (keys own) ++
      map (fun k => (k, match bs_get N bstr N.eqb att k with Some v => v | None => [] end)) (keys att)
    end.

  Definition d_links (d : dtree) : list N := map fst (d_blocks d).

  Lemma in_keys_run_puts l k : In k (keys (run_puts l)) <-> In k (map fst l).
  Proof. destruct (seq_spec N bstr N.eqb N.eqb_eq l) as [_ [H _]]. apply H. Qed.

  (* the root block and every block of every embedded proof travel with the delegation *)
  Theorem d_blocks_root d : In (fst (d_root d)) (d_links d).
  Proof.
    destruct d as [r ps at_]. unfold d_links. cbn [d_blocks d_root]. rewrite map_app, !map_map. cbn [fst].
    rewrite !map_id. apply in_or_app. left. apply in_keys_run_puts. rewrite map_app. apply in_or_app. right. left. reflexivity.
  Qed.

  Theorem d_blocks_closed r ps at_ p :
    In p ps -> forall k, In k (d_links p) -> In k (d_links (DNode r ps at_)).
  Proof.
    intros Hp k Hk. unfold d_links in *. cbn [d_blocks]. rewrite map_app, !map_map. cbn [fst]. rewrite !map_id.
    apply in_or_app. left. apply in_keys_run_puts. rewrite map_app. apply in_or_app. left.
    rewrite flat_map_concat_map, concat_map, map_map. apply in_concat. exists (map fst (d_blocks p)).
    split; [|exact Hk]. apply in_map_iff. exists p. auto.
  Qed.

  Theorem d_blocks_attached r ps at_ b : In b at_ -> In (fst b) (d_links (DNode r ps at_)).
  Proof.
    intros Hb. unfold d_links. cbn [d_blocks]. rewrite map_app, !map_map. cbn [fst]. rewrite !map_id.
    apply in_or_app. right. apply in_keys_run_puts. apply in_map. exact Hb.
  Qed.

  (* transitive closure: every delegation reachable through embedded proofs has its root on board *)
  Inductive reach : dtree -> dtree -> Prop :=
  | reach_refl d : reach d d
  | reach_step r ps at_ p q : In p ps -> reach p q -> reach (DNode r ps at_) q.

  Theorem d_blocks_transitive d q : reach d q -> forall k, In k (d_links q) -> In k (d_links d).
  Proof.
    induction 1 as [d | r ps at_ p q Hp Hr IH]; intros k Hk; [exact Hk|].
    eapply d_blocks_closed; eauto.
  Qed.

  Corollary every_embedded_proof_root_travels d q : reach d q -> In (fst (d_root q)) (d_links d).
  Proof. intros H. eapply d_blocks_transitive; eauto. apply d_blocks_root. Qed.

  (* message.Build: invocations' blocks in order, then receipts' blocks, then the root; the codec
     (CAR encode/decode, C12) carries the sequence; NewBlockReader de-duplicates first-wins *)
  Definition message_blocks (invs : list dtree) (rcpt_blocks : list (list blk)) (root : blk) : list N :=
    keys (run_puts (flat_map d_blocks invs ++ concat rcpt_blocks ++ [root])).

  Theorem message_carries_invocation invs rb root i :
    In i invs -> forall q, reach i q -> In (fst (d_root q)) (message_blocks invs rb root).
  Proof.
    intros Hi q Hq. unfold message_blocks. apply in_keys_run_puts. rewrite map_app. apply in_or_app. left.
    rewrite flat_map_concat_map, concat_map, map_map. apply in_concat. exists (d_links i).
    split; [apply in_map_iff; exists i; auto|]. apply every_embedded_proof_root_travels. exact Hq.
  Qed.

  Theorem message_blocks_nodup invs rb root : NoDup (message_blocks invs rb root).
  Proof. unfold message_blocks. destruct (seq_spec N bstr N.eqb N.eqb_eq (flat_map d_blocks invs ++ concat rb ++ [root])) as [H _]. exact H. Qed.

  (* reading the transported sequence back with NewBlockReader gives the same store *)
  Theorem reader_of_sequence l : new_block_reader N bstr N.eqb [] l = run_puts l.
  Proof. apply (new_block_reader_is_put N bstr N.eqb). Qed.
End Blocks.
