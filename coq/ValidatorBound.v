(* ValidatorBound.v — C19, unbounded statements about the number of signature verifications.

   1. A general upper bound: for EVERY store, context, descriptor, fuel and invocation the
      number of verifications made by Access is at most the *path weight* of the invocation
      (section Weight).  Corollaries: forests of single-capability did:key delegations are
      linear; the quadratic bound holds whenever the path weight is within it.
   2. The exact cost of layered proof sets of arbitrary widths, generically (section Layered),
      instantiated on a family of worlds `lay_world ok w d` (all widths, all depths): chains cost
      d + 1, layered DAGs with failing roots cost 1 + w + ... + w^d, with succeeding roots w*d + 1.
   3. The quadratic bound is refuted by the whole family: for every width >= 2 and every
      depth >= 10. *)
From Ucanto Require Import Base Pattern Time Validator ValidatorSpec Check_Validator ValidatorCost.
From Coq Require Import ZifyBool ZifyN ZifyNat.
Open Scope N_scope.

(* ------------------------------------------------------------------ *)
(* counting                                                            *)

Definition is_verify (e : event) : bool := match e with EvVerify _ _ => true | _ => false end.

Lemma cv_unfold ev : count_verifies ev = N.of_nat (length (filter is_verify ev)).
Proof. reflexivity. Qed.

Lemma cv_nil : count_verifies [] = 0.
Proof. reflexivity. Qed.

Lemma cv_app a b : count_verifies (a ++ b) = count_verifies a + count_verifies b.
Proof. rewrite !cv_unfold, filter_app, app_length. lia. Qed.

Lemma cv_cons e a : count_verifies (e :: a) = (if is_verify e then 1 else 0) + count_verifies a.
Proof. rewrite !cv_unfold. cbn [filter]. destruct (is_verify e); cbn [length]; lia. Qed.

Lemma cv_one l k : count_verifies [EvVerify l k] = 1.
Proof. reflexivity. Qed.

(* sum of an N-valued function over a list *)
Fixpoint sumN {A} (f : A -> N) (l : list A) : N :=
  match l with [] => 0 | x :: r => f x + sumN f r end.

Lemma sumN_app {A} (f : A -> N) a b : sumN f (a ++ b) = sumN f a + sumN f b.
Proof. induction a as [|x a IH]; cbn [sumN app]; lia. Qed.

Lemma sumN_add {A} (f g : A -> N) l : sumN (fun x => f x + g x) l = sumN f l + sumN g l.
Proof. induction l as [|x l IH]; cbn [sumN]; lia. Qed.

Lemma sumN_le {A} (f g : A -> N) l : (forall x, In x l -> f x <= g x) -> sumN f l <= sumN g l.
Proof.
  induction l as [|x l IH]; intros H; cbn [sumN]; [lia|].
  pose proof (H x (or_introl eq_refl)). pose proof (IH (fun y Hy => H y (or_intror Hy))). lia.
Qed.

Lemma sumN_map {A B} (f : B -> N) (g : A -> B) l : sumN f (map g l) = sumN (fun x => f (g x)) l.
Proof. induction l as [|x l IH]; cbn [sumN map]; lia. Qed.

Lemma sumN_const {A} (c : N) (l : list A) : sumN (fun _ => c) l = N.of_nat (length l) * c.
Proof. induction l as [|x l IH]; cbn [sumN length]; lia. Qed.

Lemma sumN_flat_map_len {A B} (g : A -> list B) l :
  N.of_nat (length (flat_map g l)) = sumN (fun x => N.of_nat (length (g x))) l.
Proof. induction l as [|x l IH]; cbn [flat_map sumN]; [reflexivity|]. rewrite app_length. lia. Qed.

(* ------------------------------------------------------------------ *)
(* 1. the path weight and the general upper bound                      *)

Section Weight.
  Variable U : link -> option token.
  Variable C : ctx.

  Notation tok := (tok U).

  (* a delegation the validator can accept at all: present and inside its time window *)
  Definition live (d : dlg) : bool :=
    match tok d with Some t => in_window (t_exp t) (t_nbf t) (now C) | None => false end.

  (* the issuer's signature is checked directly (did:key issuer, or the authority itself) *)
  Definition direct_iss (t : token) : bool :=
    prefixb did_key_prefix (did_str (t_iss t)) || did_eqb (t_iss t) (v_did (authority C)).

  (* alternatives a delegation can offer to its citer: one per capability it carries *)
  Definition ncaps (d : dlg) : N :=
    if live d then match tok d with Some t => N.of_nat (length (t_caps t)) | None => 0 end else 0.

  Section WLevel.
    (* weight of the previous claim level (session searches) *)
    Variable cw_prev : list dlg -> N.

    (* verifications Validate can make for d among the sibling proofs sibs: its own signature,
       and for an issuer that is neither a did:key nor the authority also the whole search for
       an attestation among the candidate siblings *)
    Definition vw (d : dlg) (sibs : list dlg) : N :=
      match tok d with
      | None => 0
      | Some t =>
        if live d then
          if direct_iss t then 1 else cw_prev (session_candidates U d sibs) + 1
        else 0
      end.

    (* weight of one Authorize call for a match on delegation d: every proof p that d cites
       (and that is addressed to d's issuer) is validated once, and the search is continued
       through p once per capability of p.  Unfolded, this is the number of pairs
       (citation path from d, choice of one capability at every inner node of the path),
       each weighted by what validating its last delegation costs. *)
    Fixpoint aw (n : nat) (d : dlg) : N :=
      match n with
      | O => 0
      | S n' =>
        match tok d with
        | None => 0
        | Some t =>
          let ps := aligned U t (proofs_view U C d t) in
          sumN (fun p => vw p ps + ncaps p * aw n' p) ps
        end
      end.

    Definition cw_body (n : nat) (prfs : list dlg) : N :=
      sumN (fun p => vw p prfs + ncaps p * aw n p) prfs.
  End WLevel.

  (* weight of Claim at fuel n (the levels mirror the model's: level n+1 validates with
     sessions searched at level n) *)
  Fixpoint cw (n : nat) : list dlg -> N :=
    match n with
    | O => fun _ => 0
    | S n' => cw_body (cw n') n'
    end.

  (* the path weight of an invocation *)
  Definition paths_weight (n : nat) (inv : dlg) : N := cw n [inv].

  (* ---------------------------------------------------------------- *)

  Lemma verify_sig_cost l t v : count_verifies (snd (verify_sig l t v)) <= 1.
  Proof.
    unfold verify_sig. destruct (existsb _ _); [|cbn; lia].
    destruct (did_eqb _ _); cbn [snd]; [rewrite cv_one|rewrite cv_nil]; lia.
  Qed.

  Lemma live_window d t : tok d = Some t ->
    live d = negb (is_expired (t_exp t) (now C)) && negb (is_too_early (t_nbf t) (now C)).
  Proof. intros T. unfold live. rewrite T. reflexivity. Qed.

  Section CLevel.
    Variable claim_prev : desc -> list dlg -> ares * list event.
    Variable cw_prev : list dlg -> N.
    Hypothesis Hprev : forall ds ps, count_verifies (snd (claim_prev ds ps)) <= cw_prev ps.

    Lemma validate_cost d sibs :
      count_verifies (snd (validate U C claim_prev d sibs)) <= vw cw_prev d sibs.
    Proof.
      unfold validate, vw. destruct (tok d) as [t|] eqn:T; [|cbn; lia].
      rewrite (live_window d t T).
      destruct (is_expired (t_exp t) (now C)); [cbn; lia|].
      destruct (is_too_early (t_nbf t) (now C)); [cbn; lia|]. cbn [negb andb].
      unfold verify_authorization, direct_iss.
      destruct (prefixb did_key_prefix (did_str (t_iss t))); cbn [orb].
      { destruct (parse_principal C (did_str (t_iss t))); [apply verify_sig_cost | cbn; lia]. }
      destruct (did_eqb (t_iss t) (v_did (authority C))); [apply verify_sig_cost|].
      unfold verify_session.
      pose proof (Hprev (attest_desc (v_did (authority C)) (d_link d)) (session_candidates U d sibs)) as HP.
      destruct (claim_prev (attest_desc (v_did (authority C)) (d_link d)) (session_candidates U d sibs)) as [r ev].
      cbn [snd] in HP.
      destruct r as [a|e|]; cbn [snd]; try lia.
      destruct (has_failed e); cbn [snd]; [lia|].
      destruct (resolve_did_key C (t_iss t)); cbn [snd]; [|lia].
      destruct (parse_principal C (did_str d0)); cbn [snd]; [|lia].
      destruct (prefixb did_key_prefix (did_str (v_did v))); cbn [snd]; [|lia].
      pose proof (verify_sig_cost (d_link d) t (mkVf (v_key v) (v_sigcode v) (t_iss t))) as VS.
      destruct (verify_sig (d_link d) t (mkVf (v_key v) (v_sigcode v) (t_iss t))) as [r2 ev2].
      cbn [snd] in *. rewrite cv_app. lia.
    Qed.

    Lemma validate_ok_live d sibs : fst (validate U C claim_prev d sibs) = VOk -> live d = true.
    Proof.
      unfold validate. destruct (tok d) as [t|] eqn:T; [|discriminate].
      rewrite (live_window d t T).
      destruct (is_expired (t_exp t) (now C)); [discriminate|].
      destruct (is_too_early (t_nbf t) (now C)); [discriminate|]. reflexivity.
    Qed.

    Lemma sources_of_cost ds sibs :
      count_verifies (snd (sources_of U C claim_prev ds sibs)) <= sumN (fun d => vw cw_prev d sibs) ds.
    Proof.
      induction ds as [|d ds IH]; cbn [sources_of sumN]; [cbn; lia|].
      pose proof (validate_cost d sibs) as V.
      destruct (validate U C claim_prev d sibs) as [v ev].
      destruct (sources_of U C claim_prev ds sibs) as [r ev']. cbn [snd] in *.
      destruct v; cbn [snd]; rewrite ?cv_app; lia.
    Qed.

    (* the sources handed to the search: at most one per capability of a live proof *)
    Lemma sources_of_sum (f : dlg -> N) ds sibs : forall srcs,
      fst (sources_of U C claim_prev ds sibs) = Some srcs ->
      sumN (fun s : source => f (snd s)) srcs <= sumN (fun d => ncaps d * f d) ds.
    Proof.
      induction ds as [|d ds IH]; cbn [sources_of]; intros srcs H.
      - cbn in H. inversion H. cbn. lia.
      - pose proof (validate_ok_live d sibs) as VL.
        destruct (validate U C claim_prev d sibs) as [v ev].
        destruct (sources_of U C claim_prev ds sibs) as [r ev']. cbn [fst] in *.
        cbn [sumN].
        destruct v; try discriminate.
        + destruct r as [l|]; [|discriminate]. inversion H; subst srcs.
          rewrite sumN_app. specialize (IH l eq_refl).
          assert (sumN (fun s : source => f (snd s)) (caps_of U d) = ncaps d * f d) as ->; [|lia].
          unfold caps_of, ncaps. rewrite (VL eq_refl).
          destruct (tok d) as [t|]; [|cbn; lia].
          rewrite sumN_map. cbn [snd]. apply sumN_const.
        + specialize (IH srcs H). lia.
        + specialize (IH srcs H). lia.
    Qed.

    Lemma select_derived_cost ds c ss : count_verifies (snd (select_derived ds c ss)) = 0.
    Proof.
      induction ss as [|s ss IH]; cbn [select_derived]; [reflexivity|].
      destruct (select_derived ds c ss) as [ms ev]. cbn [snd] in IH.
      destruct (resolve_cap ds c (fst s)); cbn [snd]; [|exact IH].
      rewrite cv_cons. cbn [is_verify]. lia.
    Qed.

    Lemma select_derived_sum (f : dlg -> N) ds c ss :
      sumN (fun m => f (m_dlg m)) (fst (select_derived ds c ss)) <= sumN (fun s : source => f (snd s)) ss.
    Proof.
      induction ss as [|s ss IH]; cbn [select_derived sumN]; [cbn; lia|].
      destruct (select_derived ds c ss) as [ms ev]. cbn [fst] in IH.
      destruct (resolve_cap ds c (fst s)); cbn [fst]; [|lia].
      destruct (ds_derives ds c c0); cbn [sumN]; try change (m_dlg (s, c0)) with (snd s); lia.
    Qed.

    Lemma select_top_sum (f : dlg -> N) ds ss :
      sumN (fun m => f (m_dlg m)) (select_top ds ss) <= sumN (fun s : source => f (snd s)) ss.
    Proof.
      unfold select_top. induction ss as [|s ss IH]; cbn [filter_map sumN]; [lia|].
      destruct (parse_cap ds (fst s)) as [c0|]; cbn [sumN]; try change (m_dlg (s, c0)) with (snd s); lia.
    Qed.

    Lemma auth_loop_cost rec (g : matchv -> N) ms :
      (forall m, In m ms -> count_verifies (snd (rec m)) <= g m) ->
      forall failed, count_verifies (snd (auth_loop U C rec ms failed)) <= sumN g ms.
    Proof.
      induction ms as [|m ms IH]; intros H failed; cbn [auth_loop sumN]; [cbn; lia|].
      destruct (can_issue C (m_cap m) (iss_of U (m_dlg m))); [cbn; lia|].
      pose proof (H m (or_introl eq_refl)) as Hm.
      destruct (rec m) as [r ev]. cbn [snd] in Hm.
      destruct r as [a|e|]; cbn [snd]; try lia.
      specialize (IH (fun x Hx => H x (or_intror Hx)) true).
      destruct (auth_loop U C rec ms true) as [r' ev']. cbn [snd] in *. rewrite cv_app. lia.
    Qed.

    Lemma claim_loop_cost rec (g : matchv -> N) ms :
      (forall m, In m ms -> count_verifies (snd (rec m)) <= g m) ->
      forall failed rev, count_verifies (snd (claim_loop U C rec ms failed rev)) <= sumN g ms.
    Proof.
      induction ms as [|m ms IH]; intros H failed rev; cbn [claim_loop sumN]; [cbn; lia|].
      pose proof (IH (fun x Hx => H x (or_intror Hx))) as IH'.
      destruct (can_issue C (m_cap m) (iss_of U (m_dlg m))).
      { destruct (revoked C _).
        - specialize (IH' failed true). destruct (claim_loop U C rec ms failed true) as [r' ev'].
          cbn [snd] in *. rewrite cv_cons. cbn [is_verify]. lia.
        - cbn. lia. }
      pose proof (H m (or_introl eq_refl)) as Hm.
      destruct (rec m) as [r ev]. cbn [snd] in Hm.
      destruct r as [a|e|]; cbn [snd]; try lia.
      - destruct (revoked C _).
        + specialize (IH' failed true). destruct (claim_loop U C rec ms failed true) as [r' ev'].
          cbn [snd] in *. rewrite cv_app, cv_cons. cbn [is_verify]. lia.
        + cbn [snd]. rewrite cv_app, cv_cons, cv_nil. cbn [is_verify]. lia.
      - specialize (IH' true rev). destruct (claim_loop U C rec ms true rev) as [r' ev'].
        cbn [snd] in *. rewrite cv_app. lia.
    Qed.

    Lemma authorize_cost : forall n ds m,
      count_verifies (snd (authorize U C claim_prev n ds m)) <= aw cw_prev n (m_dlg m).
    Proof.
      induction n as [|n IH]; intros ds m; cbn [authorize aw]; [cbn; lia|].
      unfold resolve_sources.
      destruct (tok (m_dlg m)) as [t|] eqn:T.
      2:{ cbn. lia. }
      set (ps := aligned U t (proofs_view U C (m_dlg m) t)).
      pose proof (sources_of_cost ps ps) as SC.
      pose proof (sources_of_sum (aw cw_prev n) ps ps) as SS.
      destruct (sources_of U C claim_prev ps ps) as [srcs ev]. cbn [fst snd] in *.
      rewrite sumN_add.
      destruct srcs as [ss|]; [|cbn [snd]; lia].
      specialize (SS ss eq_refl).
      pose proof (select_derived_cost ds (m_cap m) ss) as DC.
      pose proof (select_derived_sum (aw cw_prev n) ds (m_cap m) ss) as DS.
      destruct (select_derived ds (m_cap m) ss) as [ms evd]. cbn [fst snd] in *.
      pose proof (auth_loop_cost (authorize U C claim_prev n ds) (fun m' => aw cw_prev n (m_dlg m')) ms
                    (fun m' _ => IH ds m') false) as AL.
      destruct (auth_loop U C (authorize U C claim_prev n ds) ms false) as [r ev']. cbn [snd] in *.
      rewrite !cv_app. lia.
    Qed.

    Lemma claim_body_cost n ds prfs :
      count_verifies (snd (claim_body U C claim_prev n ds prfs)) <= cw_body cw_prev n prfs.
    Proof.
      unfold claim_body, cw_body.
      pose proof (sources_of_cost prfs prfs) as SC.
      pose proof (sources_of_sum (aw cw_prev n) prfs prfs) as SS.
      destruct (sources_of U C claim_prev prfs prfs) as [srcs ev]. cbn [fst snd] in *.
      rewrite sumN_add.
      destruct srcs as [ss|]; [|cbn [snd]; lia].
      specialize (SS ss eq_refl).
      pose proof (select_top_sum (aw cw_prev n) ds ss) as TS.
      pose proof (claim_loop_cost (authorize U C claim_prev n ds) (fun m' => aw cw_prev n (m_dlg m'))
                    (select_top ds ss) (fun m' _ => authorize_cost n ds m') false false) as CL.
      destruct (claim_loop U C (authorize U C claim_prev n ds) (select_top ds ss) false false) as [r ev'].
      cbn [snd] in *. rewrite cv_app. lia.
    Qed.
  End CLevel.

  Theorem claim_cost : forall n ds prfs, count_verifies (snd (claim U C n ds prfs)) <= cw n prfs.
  Proof.
    induction n as [|n IH]; intros ds prfs; cbn [claim cw]; [cbn; lia|].
    apply claim_body_cost. exact IH.
  Qed.

  (* the general upper bound: whatever the store, the context, the descriptor, the fuel and
     the invocation, Access verifies at most paths_weight signatures *)
  Theorem access_cost n ds inv :
    count_verifies (snd (access U C n ds inv)) <= paths_weight n inv.
  Proof. apply claim_cost. Qed.

  (* the weight grows with the fuel (it counts paths of bounded length), so the weight at any
     larger fuel bounds the work too: fuel never makes the bound true by cutting the weight *)
  Lemma vw_mono (f g : list dlg -> N) d sibs : (forall l, f l <= g l) -> vw f d sibs <= vw g d sibs.
  Proof.
    intros H. unfold vw. destruct (tok d) as [t|]; [|lia]. destruct (live d); [|lia].
    destruct (direct_iss t); [lia|]. specialize (H (session_candidates U d sibs)). lia.
  Qed.

  Lemma aw_mono (f g : list dlg -> N) : (forall l, f l <= g l) ->
    forall n d, aw f n d <= aw g n d /\ aw f n d <= aw g (S n) d.
  Proof.
    intros H. induction n as [|n IH]; intros d; [cbn [aw]; split; lia|].
    split.
    - cbn [aw]. destruct (tok d) as [t|]; [|lia]. apply sumN_le. intros p _.
      pose proof (vw_mono f g p (aligned U t (proofs_view U C d t)) H). destruct (IH p). nia.
    - change (aw f (S n) d) with
        (match tok d with None => 0 | Some t =>
           sumN (fun p => vw f p (aligned U t (proofs_view U C d t)) + ncaps p * aw f n p)
                (aligned U t (proofs_view U C d t)) end).
      change (aw g (S (S n)) d) with
        (match tok d with None => 0 | Some t =>
           sumN (fun p => vw g p (aligned U t (proofs_view U C d t)) + ncaps p * aw g (S n) p)
                (aligned U t (proofs_view U C d t)) end).
      destruct (tok d) as [t|]; [|lia]. apply sumN_le. intros p _.
      pose proof (vw_mono f g p (aligned U t (proofs_view U C d t)) H). destruct (IH p). nia.
  Qed.

  Lemma cw_mono_S : forall n l, cw n l <= cw (S n) l.
  Proof.
    induction n as [|n IH]; intros l; [cbn [cw]; lia|].
    change (cw (S n) l) with (cw_body (cw n) n l). change (cw (S (S n)) l) with (cw_body (cw (S n)) (S n) l).
    unfold cw_body. apply sumN_le. intros p _.
    pose proof (vw_mono (cw n) (cw (S n)) p l IH). destruct (aw_mono (cw n) (cw (S n)) IH n p). nia.
  Qed.

  Lemma paths_weight_mono n m inv : (n <= m)%nat -> paths_weight n inv <= paths_weight m inv.
  Proof.
    unfold paths_weight. induction 1 as [|m _ IH]; [lia|]. pose proof (cw_mono_S m [inv]). lia.
  Qed.

  Corollary access_cost_any_fuel n m ds inv : (n <= m)%nat ->
    count_verifies (snd (access U C n ds inv)) <= paths_weight m inv.
  Proof. intros H. pose proof (access_cost n ds inv). pose proof (paths_weight_mono n m inv H). lia. Qed.

  (* (b) sharing and alternatives are the only source of a blow-up: whenever the path
     weight is within the quadratic bound, so is the work *)
  Corollary access_quadratic_if_weight n ds inv (k : N) :
    paths_weight n inv <= k * k + 2 ->
    count_verifies (snd (access U C n ds inv)) <= k * k + 2.
  Proof. intros H. pose proof (access_cost n ds inv). lia. Qed.

  (* ---------------------------------------------------------------- *)
  (* (a) forests of single-capability, directly verified delegations    *)

  (* the end points of all citation paths of length 1..n that start at d (one entry per path) *)
  Fixpoint reach (n : nat) (d : dlg) : list link :=
    match n with
    | O => []
    | S n' =>
      match tok d with
      | None => []
      | Some t => flat_map (fun p => d_link p :: reach n' p) (aligned U t (proofs_view U C d t))
      end
    end.

  Section Forest.
    (* every issuer is a did:key (or the authority): no session searches *)
    Hypothesis Hdirect : forall l t, U l = Some t -> direct_iss t = true.
    (* every delegation carries at most one capability: no alternatives *)
    Hypothesis Hone : forall l t, U l = Some t -> (length (t_caps t) <= 1)%nat.

    Lemma vw_direct cwp d sibs : vw cwp d sibs <= 1.
    Proof.
      unfold vw. destruct (tok d) as [t|] eqn:T; [|lia].
      destruct (live d); [|lia]. rewrite (Hdirect _ _ T). lia.
    Qed.

    Lemma ncaps_one d : ncaps d <= 1.
    Proof.
      unfold ncaps. destruct (live d); [|lia]. destruct (tok d) as [t|] eqn:T; [|lia].
      pose proof (Hone _ _ T). lia.
    Qed.

    (* without alternatives and sessions the weight is the number of citation paths *)
    Lemma aw_reach cwp : forall n d, aw cwp n d <= N.of_nat (length (reach n d)).
    Proof.
      induction n as [|n IH]; intros d; cbn [aw reach]; [cbn; lia|].
      destruct (tok d) as [t|]; [|cbn; lia].
      set (ps := aligned U t (proofs_view U C d t)).
      rewrite sumN_flat_map_len. apply sumN_le. intros p _. cbn [length].
      pose proof (vw_direct cwp p ps). pose proof (ncaps_one p). specialize (IH p). nia.
    Qed.

    Lemma forest_weight n inv : paths_weight n inv <= N.of_nat (length (reach (pred n) inv)) + 1.
    Proof.
      unfold paths_weight. destruct n as [|n]; cbn [cw pred]; [lia|].
      unfold cw_body. cbn [sumN].
      pose proof (vw_direct (cw n) inv [inv]). pose proof (ncaps_one inv).
      pose proof (aw_reach (cw n) n inv). nia.
    Qed.

    (* when moreover no delegation is reached along two different citation paths (the proof
       set is a forest), the work is linear in the number of delegations: for a duplicate-free
       list `dom` of the delegations carried, at most |dom| + 1 verifications *)
    Theorem forest_linear n ds inv (dom : list link) :
      NoDup (reach (pred n) inv) -> incl (reach (pred n) inv) dom ->
      count_verifies (snd (access U C n ds inv)) <= N.of_nat (length dom) + 1.
    Proof.
      intros ND IN. pose proof (access_cost n ds inv). pose proof (forest_weight n inv).
      pose proof (NoDup_incl_length ND IN). lia.
    Qed.
  End Forest.
End Weight.

(* ------------------------------------------------------------------ *)
(* "forest" in terms of the citations themselves: when no token cites the same proof twice,
   no proof is cited by two different tokens and the store is acyclic (content addressing),
   every delegation is reached by at most one citation path                                  *)

Lemma NoDup_flat_map {A B} (g : A -> list B) l :
  NoDup l -> (forall x, In x l -> NoDup (g x)) ->
  (forall x y z, In x l -> In y l -> In z (g x) -> In z (g y) -> x = y) ->
  NoDup (flat_map g l).
Proof.
  induction l as [|a l IH]; intros ND Hg Hd; cbn [flat_map]; [constructor|].
  inversion ND as [|? ? Ha NDl]; subst.
  assert (NDr : NoDup (flat_map g l)).
  { apply IH; [exact NDl | intros x Hx; apply Hg; right; exact Hx |].
    intros x y z Hx Hy; apply Hd; right; assumption. }
  assert (NDa : NoDup (g a)) by (apply Hg; left; reflexivity).
  revert NDa. generalize (Hd a). generalize (g a). intros ga Hda.
  induction ga as [|z ga IHg]; intros NDa; cbn [app]; [exact NDr|].
  inversion NDa as [|? ? Hz NDg]; subst. constructor.
  - intros Hin. apply in_app_or in Hin. destruct Hin as [Hin|Hin]; [contradiction|].
    apply in_flat_map in Hin. destruct Hin as [y [Hy Hzy]].
    assert (a = y) by (apply (Hda y z); [left; reflexivity | right; exact Hy | left; reflexivity | exact Hzy]).
    subst y. contradiction.
  - apply IHg; [|exact NDg]. intros y z' Ha' Hy Hz1 Hz2. apply (Hda y z'); auto. right. exact Hz1.
Qed.

Lemma NoDup_map_filter_map {A B} (key : B -> A) (F : A -> option B) l :
  (forall a b, F a = Some b -> key b = a) -> NoDup l -> NoDup (map key (filter_map F l)).
Proof.
  intros HF. induction l as [|a l IH]; intros ND; cbn [filter_map map]; [constructor|].
  inversion ND as [|? ? Ha NDl]; subst. destruct (F a) as [b|] eqn:E; [|apply IH; exact NDl].
  cbn [map]. constructor; [|apply IH; exact NDl]. rewrite (HF a b E).
  intros Hin. apply in_map_iff in Hin. destruct Hin as [b' [Hk Hb']].
  apply filter_map_in in Hb'. destruct Hb' as [a' [Ha' E']]. rewrite (HF a' b' E') in Hk. subst a'. contradiction.
Qed.

Lemma NoDup_map_filter {A B} (key : B -> A) (f : B -> bool) l :
  NoDup (map key l) -> NoDup (map key (filter f l)).
Proof.
  induction l as [|b l IH]; intros ND; cbn [filter map] in *; [constructor|].
  inversion ND as [|? ? Hb NDl]; subst. destruct (f b); [|apply IH; exact NDl].
  cbn [map]. constructor; [|apply IH; exact NDl].
  intros Hin. apply Hb. apply in_map_iff in Hin. destruct Hin as [b' [Hk Hb']].
  apply filter_In in Hb'. apply in_map_iff. exists b'. split; [exact Hk | apply Hb'].
Qed.

Lemma NoDup_map_inj_in {A B} (key : B -> A) l :
  NoDup (map key l) -> forall x y, In x l -> In y l -> key x = key y -> x = y.
Proof.
  induction l as [|b l IH]; intros ND x y Hx Hy E; [destruct Hx|]. cbn [map] in ND.
  inversion ND as [|? ? Hb NDl]; subst.
  destruct Hx as [<-|Hx], Hy as [<-|Hy]; auto.
  - exfalso. apply Hb. rewrite E. apply in_map. exact Hy.
  - exfalso. apply Hb. rewrite <- E. apply in_map. exact Hx.
Qed.

Section CitedOnce.
  Variable U : link -> option token.
  Variable C : ctx.
  Hypothesis Hres : forall l p, resolve_proof C l = Some p -> d_link p = l.
  Variable rank : link -> nat.
  Hypothesis Hacyclic : forall l t p, U l = Some t -> In p (t_prf t) -> (rank p < rank l)%nat.
  (* no token lists the same proof twice *)
  Hypothesis Hprf : forall l t, U l = Some t -> NoDup (t_prf t).
  (* no proof is cited by two different tokens *)
  Hypothesis Honce : forall l1 t1 l2 t2 p, U l1 = Some t1 -> U l2 = Some t2 ->
    In p (t_prf t1) -> In p (t_prf t2) -> l1 = l2.

  (* citation chains a -> ... -> x of length >= 0 *)
  Inductive cstar (a : link) : link -> Prop :=
  | cs_refl : cstar a a
  | cs_step b t x : cstar a b -> U b = Some t -> In x (t_prf t) -> cstar a x.

  Lemma cstar_rank a x : cstar a x -> (rank x <= rank a)%nat.
  Proof. induction 1 as [|b t x _ IH T Hx]; [lia|]. pose proof (Hacyclic b t x T Hx). lia. Qed.

  Lemma cstar_left a t p x : U a = Some t -> In p (t_prf t) -> cstar p x -> cstar a x.
  Proof.
    intros T Hp. induction 1 as [|b tb x _ IH Tb Hx].
    - eapply cs_step; [apply cs_refl | exact T | exact Hp].
    - eapply cs_step; [exact IH | exact Tb | exact Hx].
  Qed.

  (* two proofs of the same token have disjoint sets of descendants *)
  Lemma cstar_tree a ta p1 p2 : U a = Some ta -> In p1 (t_prf ta) -> In p2 (t_prf ta) ->
    forall x, cstar p1 x -> cstar p2 x -> p1 = p2.
  Proof.
    intros Ta H1 H2 x S1. induction S1 as [|b1 t1 x S1 IH T1 Hx]; intros S2.
    - inversion S2 as [|b t ? S2' Tb Hb]; subst; [reflexivity|]. exfalso.
      assert (b = a) by (eapply Honce; eauto). subst b.
      pose proof (cstar_rank _ _ S2'). pose proof (Hacyclic a ta p2 Ta H2). lia.
    - inversion S2 as [|b2 t2 ? S2' T2 Hx2]; subst.
      + exfalso. assert (b1 = a) by (eapply Honce; eauto). subst b1.
        pose proof (cstar_rank _ _ S1). pose proof (Hacyclic a ta p1 Ta H1). lia.
      + assert (b2 = b1) by (eapply Honce; eauto). subst b2. apply IH. exact S2'.
  Qed.

  Lemma aligned_links d t p : tok U d = Some t -> In p (aligned U t (proofs_view U C d t)) ->
    In (d_link p) (t_prf t).
  Proof.
    intros T Hp. unfold aligned in Hp. apply filter_In in Hp. eapply proofs_view_in; eauto. apply Hp.
  Qed.

  Lemma aligned_nodup d t : tok U d = Some t ->
    NoDup (map d_link (aligned U t (proofs_view U C d t))).
  Proof.
    intros T. unfold aligned. apply NoDup_map_filter. unfold proofs_view.
    apply NoDup_map_filter_map; [|eapply Hprf; exact T].
    intros l p. destruct (visible d l); [destruct (U l)|]; intros E;
      [inversion E; reflexivity | apply Hres; exact E | apply Hres; exact E].
  Qed.

  Lemma reach_cstar : forall n d x, In x (reach U C n d) ->
    cstar (d_link d) x /\ (rank x < rank (d_link d))%nat.
  Proof.
    induction n as [|n IH]; intros d x Hx; cbn [reach] in Hx; [destruct Hx|].
    destruct (tok U d) as [t|] eqn:T; [|destruct Hx].
    apply in_flat_map in Hx. destruct Hx as [p [Hp Hx]].
    pose proof (aligned_links d t p T Hp) as Hl.
    pose proof (Hacyclic (d_link d) t (d_link p) T Hl) as R.
    destruct Hx as [<-|Hx].
    - split; [eapply cs_step; [apply cs_refl | exact T | exact Hl] | exact R].
    - destruct (IH p x Hx) as [S R']. split; [eapply cstar_left; eauto | lia].
  Qed.

  Theorem cited_once_reach_nodup : forall n d, NoDup (reach U C n d).
  Proof.
    induction n as [|n IH]; intros d; cbn [reach]; [constructor|].
    destruct (tok U d) as [t|] eqn:T; [|constructor].
    pose proof (aligned_nodup d t T) as NDl.
    set (ps := aligned U t (proofs_view U C d t)) in *.
    apply NoDup_flat_map.
    - eapply NoDup_map_inv. exact NDl.
    - intros p Hp. constructor; [|apply IH].
      intros Hin. apply reach_cstar in Hin. lia.
    - intros p1 p2 z H1 H2 Z1 Z2.
      apply (NoDup_map_inj_in d_link ps NDl p1 p2 H1 H2).
      apply (cstar_tree (d_link d) t (d_link p1) (d_link p2) T
               (aligned_links d t p1 T H1) (aligned_links d t p2 T H2) z).
      + destruct Z1 as [<-|Z1]; [apply cs_refl | apply (reach_cstar n p1 z Z1)].
      + destruct Z2 as [<-|Z2]; [apply cs_refl | apply (reach_cstar n p2 z Z2)].
  Qed.

  (* linear work for proof sets in which every delegation is cited at most once, carries
     at most one capability and is issued by a did:key (or the authority) *)
  Theorem cited_once_linear n ds inv (dom : list link) :
    (forall l t, U l = Some t -> direct_iss C t = true) ->
    (forall l t, U l = Some t -> (length (t_caps t) <= 1)%nat) ->
    incl (reach U C (pred n) inv) dom ->
    count_verifies (snd (access U C n ds inv)) <= N.of_nat (length dom) + 1.
  Proof.
    intros Hd H1 Hin. apply forest_linear; auto. apply cited_once_reach_nodup.
  Qed.
End CitedOnce.

(* ------------------------------------------------------------------ *)
(* 2. the exact cost of layered proof sets, generically                *)

(* Layers L 0, L 1, ... of delegations: every delegation of layer k+1 cites exactly the
   delegations of layer k (all addressed to its issuer), the delegations of layer 0 cite
   nothing; every delegation is valid and offers the one capability `rc`, from which the
   claimed capability `c` derives unchanged.  The widths of the layers are arbitrary. *)
Section Layers.
  Variable U : link -> option token.
  Variable C : ctx.
  Variable L : nat -> list dlg.

  Definition cites (d : dlg) (ps : list dlg) : Prop :=
    exists t, tok U d = Some t /\ aligned U t (proofs_view U C d t) = ps.
  Definition below (k : nat) : list dlg := match k with O => [] | S k' => L k' end.

  Hypothesis Hcites : forall k d, In d (L k) -> cites d (below k).

  (* verifications made by a failing Authorize for a match on a delegation that cites layer k-1 *)
  Fixpoint acost (k : nat) : N :=
    match k with O => 0 | S k' => N.of_nat (length (L k')) * (1 + acost k') end.

  (* the path weight of such a proof set is exactly that number: the general bound of
     section Weight is attained (see access_layered_fail) *)
  Section LayeredWeight.
    Hypothesis Hvw : forall cwp k d, In d (L k) -> vw U C cwp d (L k) = 1.
    Hypothesis Hnc : forall k d, In d (L k) -> ncaps U C d = 1.

    Lemma sumN_ext_in {A} (f g : A -> N) l : (forall x, In x l -> f x = g x) -> sumN f l = sumN g l.
    Proof.
      induction l as [|x l IH]; intros H; cbn [sumN]; [reflexivity|].
      rewrite (H x (or_introl eq_refl)), (IH (fun y Hy => H y (or_intror Hy))). reflexivity.
    Qed.

    Lemma aw_layered cwp : forall k n d, (k < n)%nat -> cites d (below k) -> aw U C cwp n d = acost k.
    Proof.
      induction k as [|k IH]; intros n d Hn [t [T A]]; (destruct n as [|n]; [lia|]);
        cbn [aw]; rewrite T, A; cbn [below]; [reflexivity|].
      rewrite (sumN_ext_in _ (fun _ => 1 + acost k)).
      - rewrite sumN_const. reflexivity.
      - intros p Hp. rewrite (Hvw cwp k p Hp), (Hnc k p Hp), (IH n p ltac:(lia) (Hcites k p Hp)). lia.
    Qed.

    Lemma paths_weight_layered D n inv : L D = [inv] -> (D + 2 <= n)%nat ->
      paths_weight U C n inv = 1 + acost D.
    Proof.
      intros LD Hn. unfold paths_weight. destruct n as [|n]; [lia|]. cbn [cw]. unfold cw_body. cbn [sumN].
      assert (Hin : In inv (L D)) by (rewrite LD; left; reflexivity).
      pose proof (Hvw (cw U C n) D inv Hin) as V. rewrite LD in V. rewrite V, (Hnc D inv Hin).
      rewrite (aw_layered (cw U C n) D n inv ltac:(lia) (Hcites D inv Hin)). lia.
    Qed.
  End LayeredWeight.

End Layers.

Section Layered.
  Variable U : link -> option token.
  Variable C : ctx.
  Variable ds : desc.
  Variable c : cap.
  Variable rc : rawcap.
  Variable L : nat -> list dlg.

  Notation cites := (cites U C).
  Notation below := (below L).
  Notation acost := (acost L).

  Hypothesis Hcites : forall k d, In d (L k) -> cites d (below k).
  Hypothesis Hval : forall cp k d, In d (L k) ->
    exists l key, validate U C cp d (L k) = (VOk, [EvVerify l key]).
  Hypothesis Hcaps : forall k d, In d (L k) -> caps_of U d = [(rc, d)].
  Hypothesis Hrc : resolve_cap ds c rc = Some c.
  Hypothesis Hder : ds_derives ds c c = true.
  Hypothesis Hparse : parse_cap ds rc = Some c.

  Definition mk (d : dlg) : matchv := ((rc, d), c).

  (* validating a layer: one verification per member, every member yields its capability *)
  Lemma sources_L cp k : forall l, incl l (L k) ->
    exists ev, sources_of U C cp l (L k) = (Some (map (fun d => (rc, d)) l), ev) /\
               count_verifies ev = N.of_nat (length l).
  Proof.
    induction l as [|d l IH]; intros Hin; cbn [sources_of].
    - exists []. split; reflexivity.
    - destruct (Hval cp k d (Hin d (or_introl eq_refl))) as [lk [key V]]. rewrite V.
      destruct (IH (fun x Hx => Hin x (or_intror Hx))) as [ev [E N]]. rewrite E.
      rewrite (Hcaps k d (Hin d (or_introl eq_refl))).
      eexists. split; [reflexivity|]. cbn [snd]. rewrite cv_app, cv_one, N. cbn [length]. lia.
  Qed.

  Lemma select_L l :
    exists evd, select_derived ds c (map (fun d => (rc, d)) l) = (map mk l, evd) /\ count_verifies evd = 0.
  Proof.
    induction l as [|d l IH]; cbn [select_derived map].
    - exists []. split; reflexivity.
    - destruct IH as [evd [E N]]. rewrite E. cbn [fst]. rewrite Hrc, Hder.
      eexists. split; [reflexivity|]. cbn [snd]. rewrite cv_cons. cbn [is_verify]. lia.
  Qed.

  Lemma resolve_sources_cites cp d ps : cites d ps ->
    resolve_sources U C cp d = sources_of U C cp ps ps.
  Proof. intros [t [T A]]. unfold resolve_sources. rewrite T, A. reflexivity. Qed.

  (* ---- every root fails: the whole DAG is explored ---- *)
  Section Failing.
    Hypothesis Hfail : forall k d, In d (L k) -> can_issue C c (iss_of U d) = false.

    Lemma auth_loop_fail rec (a : N) : forall l,
      (forall d, In d l -> can_issue C c (iss_of U d) = false /\
                 exists e, fst (rec (mk d)) = AErr e /\ count_verifies (snd (rec (mk d))) = a) ->
      forall failed, exists e, fst (auth_loop U C rec (map mk l) failed) = AErr e /\
        count_verifies (snd (auth_loop U C rec (map mk l) failed)) = N.of_nat (length l) * a.
    Proof.
      induction l as [|d l IH]; intros H failed; cbn [auth_loop map].
      - eexists. split; reflexivity.
      - destruct (H d (or_introl eq_refl)) as [CI [e [R N]]].
        change (m_cap (mk d)) with c. change (m_dlg (mk d)) with d. rewrite CI.
        destruct (rec (mk d)) as [r ev]. cbn [fst snd] in R, N. subst r.
        destruct (IH (fun x Hx => H x (or_intror Hx)) true) as [e' [R' N']].
        destruct (auth_loop U C rec (map mk l) true) as [r' ev']. cbn [fst snd] in *.
        exists e'. split; [exact R'|]. rewrite cv_app, N, N'. cbn [length]. lia.
    Qed.

    Lemma authorize_fail cp : forall k n d, (k < n)%nat -> cites d (below k) ->
      exists e, fst (authorize U C cp n ds (mk d)) = AErr e /\
                count_verifies (snd (authorize U C cp n ds (mk d))) = acost k.
    Proof.
      induction k as [|k IH]; intros n d Hn Hc; (destruct n as [|n]; [lia|]);
        cbn [authorize]; change (m_dlg (mk d)) with d; change (m_cap (mk d)) with c;
        rewrite (resolve_sources_cites cp d _ Hc); cbn [below].
      - cbn. eexists. split; reflexivity.
      - destruct (sources_L cp k (L k) (fun x H => H)) as [ev [E N]]. rewrite E.
        destruct (select_L (L k)) as [evd [E2 N2]]. rewrite E2.
        destruct (auth_loop_fail (authorize U C cp n ds) (acost k) (L k)) with (failed := false) as [e [R N3]].
        { intros p Hp. split; [exact (Hfail k p Hp)|]. apply IH; [lia | exact (Hcites k p Hp)]. }
        destruct (auth_loop U C (authorize U C cp n ds) (map mk (L k)) false) as [r ev'].
        cbn [fst snd] in *. exists e. split; [exact R|].
        rewrite !cv_app, N, N2, N3. cbn [acost]. lia.
    Qed.

    (* Access on an invocation that is the single member of layer D *)
    Theorem access_layered_fail D n inv : L D = [inv] -> (D + 2 <= n)%nat ->
      exists e, fst (access U C n ds inv) = AErr e /\
                count_verifies (snd (access U C n ds inv)) = 1 + acost D.
    Proof.
      intros LD Hn. unfold access. destruct n as [|n]; [lia|]. cbn [claim]. unfold claim_body.
      assert (Hin : In inv (L D)) by (rewrite LD; left; reflexivity).
      destruct (sources_L (claim U C n) D (L D) (fun x H => H)) as [ev [E N]].
      rewrite LD in E, N. rewrite E. cbn [map select_top filter_map fst]. rewrite Hparse.
      cbn [claim_loop]. change (m_cap (rc, inv, c)) with c. change (m_dlg (rc, inv, c)) with inv.
      rewrite (Hfail D inv Hin).
      destruct (authorize_fail (claim U C n) D n inv ltac:(lia) (Hcites D inv Hin)) as [e [R N2]].
      change (rc, inv, c) with (mk inv).
      destruct (authorize U C (claim U C n) n ds (mk inv)) as [r ev']. cbn [fst snd] in *. subst r.
      eexists. split; [reflexivity|]. cbn [snd]. rewrite !cv_app, N, N2, cv_nil. cbn [length]. lia.
    Qed.
  End Failing.

  (* ---- the roots (layer 0) own the resource: the first path succeeds ---- *)
  Section Succeeding.
    Hypothesis Hroot : forall d, In d (L 0) -> can_issue C c (iss_of U d) = true.
    Hypothesis Hinner : forall k d, In d (L (S k)) -> can_issue C c (iss_of U d) = false.
    Hypothesis Hnorev : forall a, revoked C a = false.

    Fixpoint ocost (k : nat) : N :=
      match k with O => 0 | S k' => N.of_nat (length (L k')) + ocost k' end.

    Lemma authorize_ok cp : forall k n d, (k < n)%nat -> (forall i, (i <= k)%nat -> L i <> []) ->
      cites d (L k) ->
      exists a, fst (authorize U C cp n ds (mk d)) = AOk a /\
                count_verifies (snd (authorize U C cp n ds (mk d))) = ocost (S k).
    Proof.
      induction k as [|k IH]; intros n d Hn Hne Hc; (destruct n as [|n]; [lia|]);
        cbn [authorize]; change (m_dlg (mk d)) with d; change (m_cap (mk d)) with c;
        rewrite (resolve_sources_cites cp d _ Hc).
      - destruct (sources_L cp 0 (L 0) (fun x H => H)) as [ev [E N]]. rewrite E.
        destruct (select_L (L 0)) as [evd [E2 N2]]. rewrite E2.
        destruct (L 0) as [|p l] eqn:L0; [exfalso; apply (Hne 0%nat); [lia | exact L0]|].
        cbn [map auth_loop]. change (m_cap (mk p)) with c. change (m_dlg (mk p)) with p.
        rewrite (Hroot p (or_introl eq_refl)). cbn [fst snd].
        eexists. split; [reflexivity|]. cbn [snd]. rewrite !cv_app, N, N2, cv_nil. cbn [ocost]. rewrite L0. lia.
      - destruct (sources_L cp (S k) (L (S k)) (fun x H => H)) as [ev [E N]]. rewrite E.
        destruct (select_L (L (S k))) as [evd [E2 N2]]. rewrite E2.
        destruct (L (S k)) as [|p l] eqn:LS; [exfalso; apply (Hne (S k)); [lia | exact LS]|].
        assert (Hp : In p (L (S k))) by (rewrite LS; left; reflexivity).
        cbn [map auth_loop]. change (m_cap (mk p)) with c. change (m_dlg (mk p)) with p.
        rewrite (Hinner k p Hp).
        destruct (IH n p ltac:(lia) (fun i Hi => Hne i ltac:(lia)) (Hcites (S k) p Hp)) as [a [R N3]].
        destruct (authorize U C cp n ds (mk p)) as [r ev']. cbn [fst snd] in *. subst r.
        eexists. split; [reflexivity|]. cbn [snd]. rewrite !cv_app, N, N2, N3. cbn [ocost]. rewrite LS. cbn [length]. lia.
    Qed.

    Theorem access_layered_ok D n inv : L D = [inv] -> (D + 2 <= n)%nat ->
      (forall i, (i < D)%nat -> L i <> []) ->
      exists a, fst (access U C n ds inv) = AOk a /\
                count_verifies (snd (access U C n ds inv)) = 1 + ocost D.
    Proof.
      intros LD Hn Hne. unfold access. destruct n as [|n]; [lia|]. cbn [claim]. unfold claim_body.
      assert (Hin : In inv (L D)) by (rewrite LD; left; reflexivity).
      destruct (sources_L (claim U C n) D (L D) (fun x H => H)) as [ev [E N]].
      rewrite LD in E, N. rewrite E. cbn [map select_top filter_map fst]. rewrite Hparse.
      cbn [claim_loop]. change (m_cap (rc, inv, c)) with c. change (m_dlg (rc, inv, c)) with inv.
      destruct D as [|D].
      - rewrite (Hroot inv Hin), Hnorev. cbn [fst snd].
        eexists. split; [reflexivity|]. cbn [snd]. rewrite cv_app, N, cv_cons, cv_nil. cbn. lia.
      - rewrite (Hinner D inv Hin).
        destruct (authorize_ok (claim U C n) D n inv ltac:(lia) (fun i Hi => Hne i ltac:(lia)) (Hcites (S D) inv Hin))
          as [a [R N2]].
        change (rc, inv, c) with (mk inv).
        destruct (authorize U C (claim U C n) n ds (mk inv)) as [r ev']. cbn [fst snd] in *. subst r.
        rewrite Hnorev. cbn [fst snd].
        eexists. split; [reflexivity|]. cbn [snd]. rewrite !cv_app, N, N2, cv_cons, cv_nil. cbn [length is_verify]. lia.
    Qed.
  End Succeeding.
End Layered.

(* ------------------------------------------------------------------ *)
(* generic facts used to evaluate the validator on concrete stores      *)

Lemma alookup_unique {V} k (v : V) m :
  In (k, v) m -> (forall v', In (k, v') m -> v' = v) -> alookup k m = Some v.
Proof.
  induction m as [|[k' v'] m IH]; intros Hin Hu; [destruct Hin|]. cbn [alookup].
  destruct (k =? k') eqn:E.
  - apply N.eqb_eq in E. subst k'. f_equal. apply Hu. left. reflexivity.
  - apply IH.
    + destruct Hin as [H|H]; [|exact H]. inversion H. subst. rewrite N.eqb_refl in E. discriminate.
    + intros v'' H. apply Hu. right. exact H.
Qed.

Lemma slookup_unique {V} k (v : V) m :
  In (k, v) m -> (forall v', In (k, v') m -> v' = v) -> slookup k m = Some v.
Proof.
  induction m as [|[k' v'] m IH]; intros Hin Hu; [destruct Hin|]. cbn [slookup].
  destruct (beq k k') eqn:E.
  - apply beq_eq in E. subst k'. f_equal. apply Hu. left. reflexivity.
  - apply IH.
    + destruct Hin as [H|H]; [|exact H]. inversion H. subst. rewrite beq_refl in E. discriminate.
    + intros v'' H. apply Hu. right. exact H.
Qed.

Lemma filter_map_all {A B} (F : A -> option B) (G : A -> B) l :
  (forall x, In x l -> F x = Some (G x)) -> filter_map F l = map G l.
Proof.
  induction l as [|x l IH]; intros H; cbn [filter_map map]; [reflexivity|].
  rewrite (H x (or_introl eq_refl)), (IH (fun y Hy => H y (or_intror Hy))). reflexivity.
Qed.

Lemma filter_all {A} (f : A -> bool) l : (forall x, In x l -> f x = true) -> filter f l = l.
Proof.
  induction l as [|x l IH]; intros H; cbn [filter]; [reflexivity|].
  rewrite (H x (or_introl eq_refl)), (IH (fun y Hy => H y (or_intror Hy))). reflexivity.
Qed.

Lemma existsb_eqb_in l (vis : list N) : In l vis -> existsb (N.eqb l) vis = true.
Proof. intros H. apply existsb_exists. exists l. split; [exact H | apply N.eqb_refl]. Qed.

Lemma flat_map_length_const {A B} (f : A -> list B) (w : nat) l :
  (forall x, length (f x) = w) -> length (flat_map f l) = (length l * w)%nat.
Proof.
  intros H. induction l as [|x l IH]; cbn [flat_map length]; [reflexivity|].
  rewrite app_length, H, IH. lia.
Qed.

(* Validate of a did:key-issued token inside its window whose signature verifies:
   accepted with exactly one verification, whatever the siblings and the session level *)
Lemma validate_key U C cp d sibs t v :
  tok U d = Some t ->
  is_expired (t_exp t) (now C) = false -> is_too_early (t_nbf t) (now C) = false ->
  prefixb did_key_prefix (did_str (t_iss t)) = true ->
  parse_principal C (did_str (t_iss t)) = Some v ->
  existsb (N.eqb (t_sigcode t)) known_sigcodes = true ->
  t_iss t = v_did v -> t_sigcode t = v_sigcode v -> t_signer t = Some (v_key v) ->
  validate U C cp d sibs = (VOk, [EvVerify (d_link d) (v_key v)]).
Proof.
  intros T E1 E2 K PP SC I S G. unfold validate. rewrite T, E1, E2.
  unfold verify_authorization. rewrite K, PP. unfold verify_sig. rewrite SC, I, S, G.
  assert (did_eqb (v_did v) (v_did v) = true) as -> by (apply did_eqb_eq; reflexivity).
  rewrite !N.eqb_refl. reflexivity.
Qed.

(* all cited proofs are carried by the delegation and present in the store *)
Lemma proofs_view_all U C d t :
  (forall l, In l (t_prf t) -> visible d l = true /\ U l <> None) ->
  proofs_view U C d t = map (fun l => mkDlg l (d_vis d)) (t_prf t).
Proof.
  intros H. unfold proofs_view. apply filter_map_all. intros l Hl.
  destruct (H l Hl) as [V N]. rewrite V. destruct (U l); [reflexivity | contradiction].
Qed.

(* ------------------------------------------------------------------ *)
(* 3. the family of layered worlds, all widths and depths              *)

(* `d` layers of `w` delegations; every delegation of layer k+1 cites every delegation of
   layer k; the invocation cites every delegation of the top layer.  Layer 0 is issued by the
   owner of the resource (ok = true: every path succeeds at its end) or by a stranger
   (ok = false: every path fails at its end).  Same principals, capability and context as
   ValidatorCost.layered_world; delegations are numbered k*w + j + 1 (no collisions for any
   width), the invocation is number 0, and the fuel is a parameter.  w = 1 gives chains. *)
Definition svc : did := Did true (bs "did:key:svc").
Definition rc_add : rawcap := mkRaw c_add owner_with (NbMap []).
Definition cap_add : cap := mkCap c_add owner_with [].

Definition lnk (w k j : nat) : link := N.of_nat (S (k * w + j)).
Definition layer_lnks (w k : nat) : list link := map (lnk w k) (seq 0 w).
Definition root_iss (ok : bool) : did := if ok then prin 0 else stranger.
Definition root_key (ok : bool) : N := if ok then 0 else 99.

Definition ltok (ok : bool) (w k : nat) (aud : did) : token :=
  mkTok (match k with O => root_iss ok | S _ => prin (N.of_nat k) end) aud [rc_add]
        (match k with O => [] | S k' => layer_lnks w k' end) None 0%Z 53485
        (Some (match k with O => root_key ok | S _ => N.of_nat k end)).

Definition lay_tokens (ok : bool) (w d : nat) : list (link * token) :=
  flat_map (fun k => map (fun j => (lnk w k j, ltok ok w k (prin (N.of_nat (S k))))) (seq 0 w)) (seq 0 d)
  ++ [(0, ltok ok w d svc)].

Definition lay_principals (d : nat) : list (bstr * verifier) :=
  (did_str stranger, mkVf 99 53485 stranger) ::
  map (fun i => (did_str (prin (N.of_nat i)), mkVf (N.of_nat i) 53485 (prin (N.of_nat i)))) (seq 0 (S d)).

Definition lay_world (ok : bool) (w d : nat) : wcase :=
  let toks := lay_tokens ok w d in
  {| wc_id := 0; wc_tokens := toks; wc_inv := mkDlg 0 (map fst toks); wc_can := c_add;
     wc_authority := mkVf 1000 53485 svc; wc_self := true; wc_owners := [];
     wc_revoked := []; wc_resolver := []; wc_principals := lay_principals d;
     wc_keyres := []; wc_now := 50%Z;
     ob_auth := ok; ob_path := []; ob_verifies := []; ob_checks := []; ob_derives := []; ob_err_revoked := false |}.

Definition chain (ok : bool) (d : nat) : wcase := lay_world ok 1 d.

(* Access with an explicit amount of fuel (run_world fixes it to Check_Validator.fuel = 40) *)
Definition run_at (n : nat) (w : wcase) : ares * list event :=
  access (wc_U w) (wc_ctx w) n (std_desc (wc_can w)) (wc_inv w).
Definition verifications_at (n : nat) (w : wcase) : N := count_verifies (snd (run_at n w)).

Lemma verifications_at_fuel w : verifications w = verifications_at fuel w.
Proof. reflexivity. Qed.

(* 1 + w + w^2 + ... + w^d *)
Fixpoint geo (w : N) (d : nat) : N :=
  match d with O => 1 | S d' => 1 + w * geo w d' end.

Lemma geo_closed w d : 1 <= w -> (w - 1) * geo w d + 1 = w ^ N.of_nat (S d).
Proof.
  intros Hw. induction d as [|d IH].
  - cbn [geo]. rewrite N.pow_1_r. lia.
  - cbn [geo]. replace (N.of_nat (S (S d))) with (N.succ (N.of_nat (S d))) by lia.
    rewrite N.pow_succ_r'. rewrite <- IH. nia.
Qed.

(* the closed form: (w^(d+1) - 1) / (w - 1) *)
Lemma geo_div w d : 2 <= w -> geo w d = (w ^ N.of_nat (S d) - 1) / (w - 1).
Proof.
  intros Hw. rewrite <- (geo_closed w d) by lia.
  rewrite N.add_sub, N.mul_comm.
  symmetry. apply N.div_mul. lia.
Qed.

Lemma geo_ge_pow w d : w ^ N.of_nat d <= geo w d.
Proof.
  induction d as [|d IH]; cbn [geo]; [cbn; lia|].
  replace (N.of_nat (S d)) with (N.succ (N.of_nat d)) by lia. rewrite N.pow_succ_r'. nia.
Qed.

Lemma geo_one d : geo 1 d = N.of_nat d + 1.
Proof. induction d as [|d IH]; cbn [geo]; lia. Qed.

Section Family.
  Variable ok : bool.
  Variable w d : nat.

  Let W := lay_world ok w d.
  Let U := wc_U W.
  Let C := wc_ctx W.
  Let vis := map fst (lay_tokens ok w d).
  Let inv := mkDlg 0 vis.

  Definition layer_dlgs (k : nat) : list dlg := map (fun l => mkDlg l vis) (layer_lnks w k).
  Definition LL (k : nat) : list dlg :=
    if (k <? d)%nat then layer_dlgs k else if (k =? d)%nat then [inv] else [].

  Lemma lnk_inj k j k' j' : (j < w)%nat -> (j' < w)%nat -> lnk w k j = lnk w k' j' -> k = k' /\ j = j'.
  Proof.
    unfold lnk. intros A B H. assert (E : (k * w + j = k' * w + j')%nat) by lia. clear H.
    destruct (Nat.lt_trichotomy k k') as [Lt|[Eq|Gt]].
    - pose proof (Nat.mul_le_mono_r (S k) k' w ltac:(lia)). cbn [Nat.mul] in *. lia.
    - subst. lia.
    - pose proof (Nat.mul_le_mono_r (S k') k w ltac:(lia)). cbn [Nat.mul] in *. lia.
  Qed.

  Lemma lay_lookup k j : (k < d)%nat -> (j < w)%nat ->
    U (lnk w k j) = Some (ltok ok w k (prin (N.of_nat (S k)))).
  Proof.
    intros Hk Hj. unfold U, W, wc_U, lay_world, wc_tokens. apply alookup_unique.
    - unfold lay_tokens. apply in_or_app. left. apply in_flat_map. exists k.
      split; [apply in_seq; lia|]. apply in_map_iff. exists j. split; [reflexivity | apply in_seq; lia].
    - intros v' H. unfold lay_tokens in H. apply in_app_or in H. destruct H as [H|[H|[]]].
      + apply in_flat_map in H. destruct H as [k' [_ H]]. apply in_map_iff in H.
        destruct H as [j' [E Hj']]. apply in_seq in Hj'. pose proof (f_equal fst E) as E1; pose proof (f_equal snd E) as E2; cbn [fst snd] in E1, E2.
        destruct (lnk_inj k' j' k j ltac:(lia) Hj E1) as [-> ->]. symmetry. exact E2.
      + pose proof (f_equal fst H) as E1. cbn [fst] in E1. unfold lnk in E1. lia.
  Qed.

  Lemma lay_lookup_inv : U 0 = Some (ltok ok w d svc).
  Proof.
    unfold U, W, wc_U, lay_world, wc_tokens. apply alookup_unique.
    - unfold lay_tokens. apply in_or_app. right. left. reflexivity.
    - intros v' H. unfold lay_tokens in H. apply in_app_or in H. destruct H as [H|[H|[]]].
      + apply in_flat_map in H. destruct H as [k' [_ H]]. apply in_map_iff in H.
        destruct H as [j' [E Hj']]. pose proof (f_equal fst E) as E1. cbn [fst] in E1. unfold lnk in E1. lia.
      + pose proof (f_equal snd H) as E2. cbn [snd] in E2. symmetry. exact E2.
  Qed.

  Lemma lnk_visible k j : (k < d)%nat -> (j < w)%nat -> In (lnk w k j) vis.
  Proof.
    intros Hk Hj. unfold vis, lay_tokens. rewrite map_app. apply in_or_app. left.
    apply in_map_iff. exists (lnk w k j, ltok ok w k (prin (N.of_nat (S k)))). split; [reflexivity|].
    apply in_flat_map. exists k. split; [apply in_seq; lia|]. apply in_map_iff. exists j.
    split; [reflexivity | apply in_seq; lia].
  Qed.

  Lemma prin_inj i i' : did_str (prin i) = did_str (prin i') -> i = i'.
  Proof. unfold prin, did_str. intros H. apply app_inv_head in H.
    apply (f_equal (fun l => hd 0 l)) in H. cbn [hd] in H. lia.
  Qed.

  Lemma prin_lookup i : (i <= d)%nat ->
    parse_principal C (did_str (prin (N.of_nat i))) = Some (mkVf (N.of_nat i) 53485 (prin (N.of_nat i))).
  Proof.
    intros Hi. unfold C, W. cbn [wc_ctx parse_principal lay_world wc_principals]. apply slookup_unique.
    - right. apply in_map_iff. exists i. split; [reflexivity | apply in_seq; lia].
    - intros v' [H|H].
      + exfalso. pose proof (f_equal fst H) as E1. cbn in E1. discriminate E1.
      + apply in_map_iff in H. destruct H as [i' [E _]]. pose proof (f_equal fst E) as E1; pose proof (f_equal snd E) as E2; cbn [fst snd] in E1, E2.
        apply prin_inj in E1. assert (i' = i) by lia. subst i'. symmetry. exact E2.
  Qed.

  Lemma stranger_lookup : parse_principal C (did_str stranger) = Some (mkVf 99 53485 stranger).
  Proof.
    unfold C, W. cbn [wc_ctx parse_principal lay_world wc_principals lay_principals slookup].
    rewrite beq_refl. reflexivity.
  Qed.

  (* the token at layer k (any audience): what Validate, caps_of, the proofs view say *)
  Lemma ltok_validate cp k aud l sibs : (k <= d)%nat -> U l = Some (ltok ok w k aud) ->
    exists key, validate U C cp (mkDlg l vis) sibs = (VOk, [EvVerify l key]).
  Proof.
    intros Hk T. destruct k as [|k].
    - destruct ok eqn:OK.
      + exists 0. eapply (validate_key U C cp (mkDlg l vis) sibs _ (mkVf 0 53485 (prin 0)));
          try exact T; try reflexivity; cbn [ltok t_iss root_iss]; exact (prin_lookup 0 ltac:(lia)).
      + exists 99. eapply (validate_key U C cp (mkDlg l vis) sibs _ (mkVf 99 53485 stranger));
          try exact T; try reflexivity; cbn [ltok t_iss root_iss]; exact stranger_lookup.
    - exists (N.of_nat (S k)).
      eapply (validate_key U C cp (mkDlg l vis) sibs _ (mkVf (N.of_nat (S k)) 53485 (prin (N.of_nat (S k)))));
        try exact T; try reflexivity; cbn [ltok t_iss]; exact (prin_lookup (S k) Hk).
  Qed.

  Lemma layer_dlgs_in k p : In p (layer_dlgs k) <-> exists j, (j < w)%nat /\ p = mkDlg (lnk w k j) vis.
  Proof.
    unfold layer_dlgs, layer_lnks. rewrite map_map, in_map_iff. split.
    - intros [j [E Hj]]. apply in_seq in Hj. exists j. split; [lia | auto].
    - intros [j [Hj E]]. exists j. split; [auto | apply in_seq; lia].
  Qed.

  Lemma ltok_cites k aud l : (k <= d)%nat -> U l = Some (ltok ok w k aud) ->
    cites U C (mkDlg l vis) (match k with O => [] | S k' => layer_dlgs k' end).
  Proof.
    intros Hk T. exists (ltok ok w k aud). split; [exact T|].
    rewrite proofs_view_all.
    2:{ destruct k as [|k]; cbn [ltok t_prf]; [intros ? []|].
        intros l' Hl. unfold layer_lnks in Hl. apply in_map_iff in Hl. destruct Hl as [j [<- Hj]].
        apply in_seq in Hj. split.
        - unfold visible. cbn [d_vis]. apply existsb_eqb_in. apply lnk_visible; lia.
        - rewrite lay_lookup by lia. discriminate. }
    destruct k as [|k]; cbn [ltok t_prf map d_vis]; [reflexivity|].
    unfold aligned. apply filter_all. intros p Hp. apply layer_dlgs_in in Hp.
    destruct Hp as [j [Hj ->]]. unfold tok. cbn [d_link]. rewrite lay_lookup by lia.
    cbn [ltok t_iss t_aud]. apply did_eqb_eq. reflexivity.
  Qed.

  Lemma LL_tok k p : In p (LL k) -> (k <= d)%nat /\ exists l aud, p = mkDlg l vis /\ U l = Some (ltok ok w k aud).
  Proof.
    unfold LL. destruct (k <? d)%nat eqn:E1.
    - apply Nat.ltb_lt in E1. intros H. apply layer_dlgs_in in H. destruct H as [j [Hj ->]].
      split; [lia|]. exists (lnk w k j), (prin (N.of_nat (S k))). split; [reflexivity | apply lay_lookup; lia].
    - destruct (k =? d)%nat eqn:E2; [|intros []]. apply Nat.eqb_eq in E2. subst k.
      intros [<-|[]]. split; [lia|]. exists 0, svc. split; [reflexivity | exact lay_lookup_inv].
  Qed.

  Lemma LL_below k : (k <= d)%nat -> below LL k = match k with O => [] | S k' => layer_dlgs k' end.
  Proof.
    intros Hk. destruct k as [|k]; cbn [below]; [reflexivity|]. unfold LL.
    assert ((k <? d)%nat = true) as -> by (apply Nat.ltb_lt; lia). reflexivity.
  Qed.

  Lemma LL_cites k p : In p (LL k) -> cites U C p (below LL k).
  Proof.
    intros H. destruct (LL_tok k p H) as [Hk [l [aud [-> T]]]]. rewrite LL_below by exact Hk.
    eapply ltok_cites; eauto.
  Qed.

  Lemma LL_val cp k p : In p (LL k) -> exists l key, validate U C cp p (LL k) = (VOk, [EvVerify l key]).
  Proof.
    intros H. destruct (LL_tok k p H) as [Hk [l [aud [-> T]]]].
    destruct (ltok_validate cp k aud l (LL k) Hk T) as [key V]. exists l, key. exact V.
  Qed.

  Lemma LL_caps k p : In p (LL k) -> caps_of U p = [(rc_add, p)].
  Proof.
    intros H. destruct (LL_tok k p H) as [Hk [l [aud [-> T]]]].
    unfold caps_of, tok. cbn [d_link]. rewrite T. reflexivity.
  Qed.

  Lemma LL_iss k p : In p (LL k) ->
    iss_of U p = match k with O => root_iss ok | S _ => prin (N.of_nat k) end.
  Proof.
    intros H. destruct (LL_tok k p H) as [Hk [l [aud [-> T]]]].
    unfold iss_of, tok. cbn [d_link]. rewrite T. reflexivity.
  Qed.

  Lemma can_issue_prin i : can_issue C cap_add (prin i) = (i =? 0).
  Proof.
    unfold C, W. cbn [wc_ctx can_issue lay_world wc_self wc_owners existsb andb wth cap_add].
    rewrite orb_false_r.
    destruct (beq owner_with (did_str (prin i))) eqn:E.
    - apply beq_eq in E. change owner_with with (did_str (prin 0)) in E. apply prin_inj in E. subst. reflexivity.
    - apply beq_neq in E. destruct (N.eqb_spec i 0) as [->|NE]; [|reflexivity]. exfalso. apply E. reflexivity.
  Qed.

  Lemma can_issue_stranger : can_issue C cap_add stranger = false.
  Proof. reflexivity. Qed.

  Lemma no_revocations a : revoked C a = false.
  Proof.
    unfold C, W. cbn [wc_ctx revoked lay_world wc_revoked].
    induction (path_of a) as [|x l IH]; [reflexivity|]. cbn [existsb orb]. exact IH.
  Qed.

  Lemma LL_top : LL d = [inv].
  Proof. unfold LL. rewrite Nat.ltb_irrefl, Nat.eqb_refl. reflexivity. Qed.

  Lemma LL_width k : (k < d)%nat -> length (LL k) = w.
  Proof.
    intros Hk. unfold LL. assert ((k <? d)%nat = true) as -> by (apply Nat.ltb_lt; lia).
    unfold layer_dlgs, layer_lnks. rewrite !map_length, seq_length. reflexivity.
  Qed.

  Lemma lay_delegations : delegations W = N.of_nat (w * d + 1).
  Proof.
    unfold delegations, W, lay_world, wc_tokens, lay_tokens. rewrite app_length.
    rewrite (flat_map_length_const _ w) by (intros; rewrite map_length, seq_length; reflexivity).
    rewrite seq_length. cbn [length]. lia.
  Qed.
End Family.

Lemma LL_vw ok w d cwp k p : In p (LL ok w d k) ->
  vw (wc_U (lay_world ok w d)) (wc_ctx (lay_world ok w d)) cwp p (LL ok w d k) = 1.
Proof.
  intros H. destruct (LL_tok ok w d k p H) as [Hk [l [aud [-> T]]]].
  unfold vw, live, tok. cbn [d_link]. rewrite T.
  destruct k as [|k]; [destruct ok|]; reflexivity.
Qed.

Lemma LL_nc ok w d k p : In p (LL ok w d k) ->
  ncaps (wc_U (lay_world ok w d)) (wc_ctx (lay_world ok w d)) p = 1.
Proof.
  intros H. destruct (LL_tok ok w d k p H) as [Hk [l [aud [-> T]]]].
  unfold ncaps, live, tok. cbn [d_link]. rewrite T. reflexivity.
Qed.

(* the harness capability on the family: the claimed capability derives unchanged *)
Lemma std_rc : resolve_cap (std_desc c_add) cap_add rc_add = Some cap_add.
Proof. vm_compute. reflexivity. Qed.
Lemma std_der : ds_derives (std_desc c_add) cap_add cap_add = true.
Proof. vm_compute. reflexivity. Qed.
Lemma std_parse : parse_cap (std_desc c_add) rc_add = Some cap_add.
Proof. vm_compute. reflexivity. Qed.

Lemma acost_geo ok w d : forall k, (k <= d)%nat -> 1 + acost (LL ok w d) k = geo (N.of_nat w) k.
Proof.
  induction k as [|k IH]; intros Hk; cbn [acost geo]; [reflexivity|].
  rewrite LL_width by lia. rewrite <- IH by lia. lia.
Qed.

Lemma ocost_lin ok w d : forall k, (k <= d)%nat -> ocost (LL ok w d) k = N.of_nat (w * k).
Proof.
  induction k as [|k IH]; intros Hk; cbn [ocost]; [lia|].
  rewrite LL_width by lia. rewrite IH by lia. lia.
Qed.

(* failing roots: the whole DAG is explored, 1 + w + ... + w^d verifications; the fuel
   d + 2 suffices (the result is Unauthorized, not out-of-fuel) *)
Theorem lay_fail_cost w d n : (d + 2 <= n)%nat ->
  (exists e, fst (run_at n (lay_world false w d)) = AErr e) /\
  verifications_at n (lay_world false w d) = geo (N.of_nat w) d.
Proof.
  intros Hn.
  destruct (access_layered_fail (wc_U (lay_world false w d)) (wc_ctx (lay_world false w d))
              (std_desc c_add) cap_add rc_add (LL false w d)
              (LL_cites false w d) (LL_val false w d) (LL_caps false w d) std_rc std_der std_parse)
    with (D := d) (n := n) (inv := mkDlg 0 (map fst (lay_tokens false w d))) as [e [R N]].
  - intros k p Hp. rewrite (LL_iss false w d k p Hp). destruct k as [|k].
    + apply can_issue_stranger.
    + rewrite can_issue_prin. apply N.eqb_neq. lia.
  - apply LL_top.
  - exact Hn.
  - split; [exists e; exact R|]. unfold verifications_at, run_at. cbn [wc_can lay_world wc_inv].
    etransitivity; [exact N|]. apply acost_geo. lia.
Qed.

(* the general upper bound is attained on this family: path weight = work, for every width
   and depth (the weight does not look at who owns the resource, so it is the same for
   succeeding roots, where the search stops early) *)
Theorem lay_weight w d n (ok : bool) : (d + 2 <= n)%nat ->
  paths_weight (wc_U (lay_world ok w d)) (wc_ctx (lay_world ok w d)) n (wc_inv (lay_world ok w d))
  = geo (N.of_nat w) d.
Proof.
  intros Hn. cbn [wc_inv lay_world].
  rewrite (paths_weight_layered _ _ (LL ok w d) (LL_cites ok w d) (LL_vw ok w d) (LL_nc ok w d) d n);
    [apply acost_geo; lia | apply LL_top | exact Hn].
Qed.

Corollary lay_weight_tight w d n : (d + 2 <= n)%nat ->
  verifications_at n (lay_world false w d) =
  paths_weight (wc_U (lay_world false w d)) (wc_ctx (lay_world false w d)) n (wc_inv (lay_world false w d)).
Proof. intros Hn. rewrite lay_weight by exact Hn. apply lay_fail_cost. exact Hn. Qed.

(* succeeding roots: the first path succeeds; w*d + 1 verifications = one per delegation *)
Theorem lay_ok_cost w d n : (1 <= w)%nat -> (d + 2 <= n)%nat ->
  (exists a, fst (run_at n (lay_world true w d)) = AOk a) /\
  verifications_at n (lay_world true w d) = N.of_nat (w * d + 1).
Proof.
  intros Hw Hn.
  destruct (access_layered_ok (wc_U (lay_world true w d)) (wc_ctx (lay_world true w d))
              (std_desc c_add) cap_add rc_add (LL true w d)
              (LL_cites true w d) (LL_val true w d) (LL_caps true w d) std_rc std_der std_parse)
    with (D := d) (n := n) (inv := mkDlg 0 (map fst (lay_tokens true w d))) as [a [R N]].
  - intros p Hp. rewrite (LL_iss true w d 0%nat p Hp). cbn [root_iss]. rewrite can_issue_prin. reflexivity.
  - intros k p Hp. rewrite (LL_iss true w d (S k) p Hp). rewrite can_issue_prin. apply N.eqb_neq. lia.
  - apply no_revocations.
  - apply LL_top.
  - exact Hn.
  - intros i Hi E. pose proof (LL_width true w d i Hi) as LW. rewrite E in LW. cbn in LW. lia.
  - split; [exists a; exact R|]. unfold verifications_at, run_at. cbn [wc_can lay_world wc_inv].
    etransitivity; [exact N|]. rewrite ocost_lin by lia. lia.
Qed.

(* chains of every depth, with succeeding and with failing roots: one verification per token *)
Theorem chain_cost (ok : bool) d n : (d + 2 <= n)%nat ->
  (if ok return Prop then exists a, fst (run_at n (chain ok d)) = AOk a
   else exists e, fst (run_at n (chain ok d)) = AErr e) /\
  verifications_at n (chain ok d) = N.of_nat d + 1.
Proof.
  intros Hn. unfold chain. destruct ok.
  - destruct (lay_ok_cost 1 d n ltac:(lia) Hn) as [R N]. split; [exact R|]. rewrite N. lia.
  - destruct (lay_fail_cost 1 d n Hn) as [R N]. split; [exact R|]. rewrite N. apply geo_one.
Qed.

(* ------------------------------------------------------------------ *)
(* the quadratic bound is exceeded by the whole family                 *)

Lemma geo_beats (w : N) : 2 <= w -> forall d, (10 <= d)%nat ->
  (w * N.of_nat d + 1) * (w * N.of_nat d + 1) + 2 < geo w d.
Proof.
  intros Hw. induction d as [|d IH]; intros Hd; [lia|].
  destruct (Nat.eq_dec d 9) as [->|ND].
  - clear IH. pose proof (geo_ge_pow w 10) as G. change (N.of_nat 10) with 10 in *.
    assert (P : 256 * (w * w) <= w ^ 10).
    { replace (w ^ 10) with (w ^ 8 * (w * w)).
      - apply N.mul_le_mono_r. change 256 with (2 ^ 8). apply N.pow_le_mono_l. exact Hw.
      - change 10 with (8 + 2). rewrite N.pow_add_r, N.pow_2_r. reflexivity. }
    nia.
  - specialize (IH ltac:(lia)). cbn [geo].
    replace (N.of_nat (S d)) with (N.of_nat d + 1) by lia.
    set (x := w * N.of_nat d + 1) in *. set (g := geo w d) in *.
    assert (X : 10 * w + 1 <= x) by (unfold x; nia).
    replace (w * (N.of_nat d + 1) + 1) with (x + w) by (unfold x; lia).
    assert (G2 : 2 * g <= w * g) by (apply N.mul_le_mono_r; exact Hw).
    assert (X2 : 10 * w * x <= x * x) by (apply N.mul_le_mono_r; lia).
    assert (X3 : 10 * w * w <= w * x) by nia.
    nia.
Qed.

Theorem lay_exceeds_quadratic w d n : (2 <= w)%nat -> (10 <= d)%nat -> (d + 2 <= n)%nat ->
  delegations (lay_world false w d) * delegations (lay_world false w d) + 2 <
  verifications_at n (lay_world false w d).
Proof.
  intros Hw Hd Hn. destruct (lay_fail_cost w d n Hn) as [_ ->]. rewrite lay_delegations.
  pose proof (geo_beats (N.of_nat w) ltac:(lia) d Hd).
  replace (N.of_nat (w * d + 1)) with (N.of_nat w * N.of_nat d + 1) by lia. lia.
Qed.

(* with the fixed fuel of run_world (40): depth 10 is enough for every width >= 2 *)
Theorem quadratic_bound_refuted_family w : (2 <= w)%nat -> ~ quadratic_bound (lay_world false w 10).
Proof.
  intros Hw H. unfold quadratic_bound in H. rewrite verifications_at_fuel in H.
  pose proof (lay_exceeds_quadratic w 10 fuel Hw ltac:(lia) ltac:(unfold fuel; lia)). lia.
Qed.

(* ------------------------------------------------------------------ *)
(* sanity: the family agrees with ValidatorCost's (single-digit, fixed-fuel) family          *)

Example families_agree_layered :
  forallb (fun wd : nat * nat => let '(w, d) := wd in
             (verifications (layered_world w d) =? verifications (lay_world false w d)) &&
             (delegations (layered_world w d) =? delegations (lay_world false w d)))
          [(1, 1); (1, 5); (2, 1); (2, 2); (2, 6); (3, 1); (3, 3); (3, 5); (4, 4)]%nat = true.
Proof. vm_compute. reflexivity. Qed.

Example families_agree_chains :
  forallb (fun d => (verifications (chain_world d false) =? verifications (chain false d)) &&
                    (verifications (chain_world d true) =? verifications (chain true d)) &&
                    (verifications (chain true d) =? N.of_nat d + 1))
          (seq 1 12) = true.
Proof. vm_compute. reflexivity. Qed.

(* the event traces, not only their lengths, coincide on a shared-proof instance *)
Example families_agree_trace :
  ev_verifies (snd (run_world (layered_world 2 3))) = ev_verifies (snd (run_world (lay_world false 2 3))) /\
  ev_verifies (snd (run_world (chain_world 4 true))) = ev_verifies (snd (run_world (chain true 4))).
Proof. split; vm_compute; reflexivity. Qed.

(* the theorems instantiated and re-computed: 3^0 + ... + 3^5 = 364 at 16 delegations *)
Example lay_3_5 : verifications (lay_world false 3 5) = 364 /\ geo 3 5 = 364 /\
                  delegations (lay_world false 3 5) = 16.
Proof. repeat split; vm_compute; reflexivity. Qed.

(* ------------------------------------------------------------------ *)
(* a decidable certificate for the forest hypotheses on a finite store, and non-vacuity        *)

Fixpoint nodupb (l : list N) : bool :=
  match l with [] => true | x :: r => negb (existsb (N.eqb x) r) && nodupb r end.

Lemma nodupb_NoDup l : nodupb l = true -> NoDup l.
Proof.
  induction l as [|x l IH]; cbn [nodupb]; intros H; [constructor|].
  apply andb_true_iff in H. destruct H as [H1 H2]. constructor; [|apply IH; exact H2].
  intros Hin. apply (existsb_eqb_in x l) in Hin. rewrite Hin in H1. discriminate.
Qed.

Lemma alookup_In {V} k (v : V) m : alookup k m = Some v -> In (k, v) m.
Proof.
  induction m as [|[k' v'] m IH]; cbn [alookup]; [discriminate|].
  destruct (k =? k') eqn:E; intros H.
  - apply N.eqb_eq in E. inversion H. subst. left. reflexivity.
  - right. apply IH. exact H.
Qed.

(* did:key issuers, one capability, acyclic by `rank`, no proof listed twice, no proof cited
   by two tokens *)
Definition forest_cert (C : ctx) (rank : link -> nat) (m : list (link * token)) : bool :=
  forallb (fun e =>
    direct_iss C (snd e) && (length (t_caps (snd e)) <=? 1)%nat &&
    forallb (fun p => (rank p <? rank (fst e))%nat) (t_prf (snd e)) &&
    nodupb (t_prf (snd e)) &&
    forallb (fun e' => (fst e =? fst e') ||
                       forallb (fun p => negb (existsb (N.eqb p) (t_prf (snd e')))) (t_prf (snd e))) m) m.

Lemma forest_cert_sound C rank m : forest_cert C rank m = true ->
  let U := fun l => alookup l m in
  (forall l t, U l = Some t -> direct_iss C t = true) /\
  (forall l t, U l = Some t -> (length (t_caps t) <= 1)%nat) /\
  (forall l t p, U l = Some t -> In p (t_prf t) -> (rank p < rank l)%nat) /\
  (forall l t, U l = Some t -> NoDup (t_prf t)) /\
  (forall l1 t1 l2 t2 p, U l1 = Some t1 -> U l2 = Some t2 ->
     In p (t_prf t1) -> In p (t_prf t2) -> l1 = l2).
Proof.
  intros H U. unfold forest_cert in H. rewrite forallb_forall in H.
  assert (HE : forall l t, U l = Some t ->
            direct_iss C t = true /\ (length (t_caps t) <= 1)%nat /\
            (forall p, In p (t_prf t) -> (rank p < rank l)%nat) /\ NoDup (t_prf t) /\
            forall l' t', U l' = Some t' -> l = l' \/ forall p, In p (t_prf t) -> ~ In p (t_prf t')).
  { intros l t T. apply alookup_In in T. specialize (H (l, t) T). cbn [fst snd] in H.
    repeat (apply andb_true_iff in H; destruct H as [H ?]).
    repeat split; auto.
    - apply Nat.leb_le. assumption.
    - intros p Hp. rewrite forallb_forall in *. apply Nat.ltb_lt. auto.
    - apply nodupb_NoDup. assumption.
    - intros l' t' T'. apply alookup_In in T'.
      match goal with X : forallb _ m = true |- _ => rewrite forallb_forall in X; specialize (X (l', t') T') end.
      cbn [fst snd] in *. apply orb_true_iff in H0. destruct H0 as [E|D].
      + left. apply N.eqb_eq. exact E.
      + right. intros p Hp Hp'. rewrite forallb_forall in D. specialize (D p Hp).
        rewrite (existsb_eqb_in p _ Hp') in D. discriminate. }
  repeat split.
  - intros l t T. apply (HE l t T).
  - intros l t T. apply (HE l t T).
  - intros l t p T. apply (HE l t T).
  - intros l t T. apply (HE l t T).
  - intros l1 t1 l2 t2 p T1 T2 P1 P2.
    destruct (HE l1 t1 T1) as [_ [_ [_ [_ X]]]]. destruct (X l2 t2 T2) as [E|D]; [exact E|].
    exfalso. exact (D p P1 P2).
Qed.

(* the linear bound, for a world given as a finite list of tokens that passes the certificate:
   at most (number of tokens) + 1 verifications *)
Theorem forest_world_linear (w : wcase) rank n :
  forest_cert (wc_ctx w) rank (wc_tokens w) = true ->
  (forall l p, alookup l (wc_resolver w) = Some p -> d_link p = l) ->
  incl (reach (wc_U w) (wc_ctx w) (pred n) (wc_inv w)) (map fst (wc_tokens w)) ->
  verifications_at n w <= delegations w + 1.
Proof.
  intros Hc Hres Hin. destruct (forest_cert_sound _ _ _ Hc) as [H1 [H2 [H3 [H4 H5]]]].
  unfold verifications_at, run_at, delegations. rewrite <- (map_length fst (wc_tokens w)).
  apply (cited_once_linear (wc_U w) (wc_ctx w) Hres rank H3 H4 H5); assumption.
Qed.

Definition lay_rank (l : link) : nat := if l =? 0 then 1000%nat else N.to_nat l.

(* non-vacuity: a chain and a star (an invocation citing three leaves) satisfy every
   hypothesis of the forest theorems; the bound and the actual work *)
Example forest_chain_nonvacuous :
  forest_cert (wc_ctx (chain true 4)) lay_rank (wc_tokens (chain true 4)) = true /\
  incl (reach (wc_U (chain true 4)) (wc_ctx (chain true 4)) 5 (wc_inv (chain true 4)))
       (map fst (wc_tokens (chain true 4))) /\
  verifications_at 6 (chain true 4) = 5 /\ delegations (chain true 4) + 1 = 6.
Proof.
  split; [vm_compute; reflexivity|]. split; [|split; vm_compute; reflexivity].
  intros x Hx. vm_compute in Hx. vm_compute. tauto.
Qed.

Example forest_star_nonvacuous :
  forest_cert (wc_ctx (lay_world false 3 1)) lay_rank (wc_tokens (lay_world false 3 1)) = true /\
  incl (reach (wc_U (lay_world false 3 1)) (wc_ctx (lay_world false 3 1)) 2 (wc_inv (lay_world false 3 1)))
       (map fst (wc_tokens (lay_world false 3 1))) /\
  verifications_at 3 (lay_world false 3 1) = 4 /\ delegations (lay_world false 3 1) + 1 = 5.
Proof.
  split; [vm_compute; reflexivity|]. split; [|split; vm_compute; reflexivity].
  intros x Hx. vm_compute in Hx. vm_compute. tauto.
Qed.

(* a shared proof is not a forest: the certificate rejects the 2 x 2 layered world *)
Example forest_cert_rejects_sharing :
  forest_cert (wc_ctx (lay_world false 2 2)) lay_rank (wc_tokens (lay_world false 2 2)) = false /\
  ~ NoDup (reach (wc_U (lay_world false 2 2)) (wc_ctx (lay_world false 2 2)) 3 (wc_inv (lay_world false 2 2))).
Proof.
  split; [vm_compute; reflexivity|]. vm_compute. intros H.
  inversion H as [|? ? _ H1]; subst. inversion H1 as [|? ? N2 _]; subst. apply N2. cbn. tauto.
Qed.

(* non-vacuity of the conditional quadratic bound, and of the family refutation *)
Example weight_within_bound_chain :
  paths_weight (wc_U (chain false 5)) (wc_ctx (chain false 5)) 7 (wc_inv (chain false 5)) = 6 /\
  6 <= delegations (chain false 5) * delegations (chain false 5) + 2.
Proof. split; vm_compute; [reflexivity | discriminate]. Qed.

Example lay_2_10 :
  verifications_at 12 (lay_world false 2 10) = 2047 /\ delegations (lay_world false 2 10) = 21 /\
  21 * 21 + 2 < 2047.
Proof. repeat split; vm_compute; reflexivity. Qed.

(* ------------------------------------------------------------------ *)
(* the statements as used by Properties_C19.v                          *)

Lemma geo_recurrence w d : geo w 0 = 1 /\ geo w (S d) = 1 + w * geo w d.
Proof. split; reflexivity. Qed.

Theorem lay_ok_linear w d n : (1 <= w)%nat -> (d + 2 <= n)%nat ->
  (exists a, fst (run_at n (lay_world true w d)) = AOk a) /\
  verifications_at n (lay_world true w d) = delegations (lay_world true w d).
Proof. intros Hw Hn. rewrite lay_delegations. exact (lay_ok_cost w d n Hw Hn). Qed.

Theorem lay_exceeds_quadratic_full w d n : (2 <= w)%nat -> (10 <= d)%nat -> (d + 2 <= n)%nat ->
  delegations (lay_world false w d) = N.of_nat (w * d + 1) /\
  delegations (lay_world false w d) * delegations (lay_world false w d) + 2
    < verifications_at n (lay_world false w d).
Proof. intros Hw Hd Hn. split; [apply lay_delegations | exact (lay_exceeds_quadratic w d n Hw Hd Hn)]. Qed.

Theorem refuted_family (w : nat) : (2 <= w)%nat -> exists d, ~ quadratic_bound (lay_world false w d).
Proof. intros Hw. exists 10%nat. exact (quadratic_bound_refuted_family w Hw). Qed.

(* chains under run_world's fixed fuel (40): every depth it can handle *)
Theorem chain_cost_run_world (ok : bool) d : (d <= 38)%nat -> verifications (chain ok d) = N.of_nat d + 1.
Proof. intros H. rewrite verifications_at_fuel. apply chain_cost. unfold fuel. lia. Qed.
