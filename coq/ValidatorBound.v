(* ValidatorBound.v — C19, unbounded statements about the number of signature verifications.

   1. A general upper bound: for EVERY store, context, descriptor, fuel and invocation the
      number of verifications made by Access is at most the *path weight* of the invocation
      (section Weight).  Corollaries: forests of single-capability did:key delegations are
      linear; the quadratic bound holds whenever the path weight is within it.
   2. The exact cost of layered proof sets of arbitrary widths, generically (section Layered),
      instantiated on a family of worlds `lay_world ok w d` (all widths, all depths): chains cost
      d + 1, layered DAGs with failing roots cost 1 + w + ... + w^d, with succeeding roots w*d + 1.
   3. The quadratic bound is refuted by the whole family: for every width >= 2 and every
      depth >= 10. *)
From Ucanto Require Import Base Pattern Time Validator ValidatorSpec Check_Validator ValidatorCost.
From Coq Require Import ZifyBool ZifyN ZifyNat.
Open Scope N_scope.

(* ------------------------------------------------------------------ *)
(* counting                                                            *)

Definition is_verify (e : event) : bool := match e with EvVerify _ _ => true | _ => false end.

Lemma cv_unfold ev : count_verifies ev = N.of_nat (length (filter is_verify ev)).
Proof. reflexivity. Qed.

Lemma cv_nil : count_verifies [] = 0.
Proof. reflexivity. Qed.

Lemma cv_app a b : count_verifies (a ++ b) = count_verifies a + count_verifies b.
Proof. rewrite !cv_unfold, filter_app, app_length. lia. Qed.

Lemma cv_cons e a : count_verifies (e :: a) = (if is_verify e then 1 else 0) + count_verifies a.
Proof. rewrite !cv_unfold. cbn [filter]. destruct (is_verify e); cbn [length]; lia. Qed.

Lemma cv_one l k : count_verifies [EvVerify l k] = 1.
Proof. reflexivity. Qed.

(* sum of an N-valued function over a list *)
Fixpoint sumN {A} (f : A -> N) (l : list A) : N :=
  match l with [] => 0 | x :: r => f x + sumN f r end.

Lemma sumN_app {A} (f : A -> N) a b : sumN f (a ++ b) = sumN f a + sumN f b.
Proof. induction a as [|x a IH]; cbn [sumN app]; lia. Qed.

Lemma sumN_add {A} (f g : A -> N) l : sumN (fun x => f x + g x) l = sumN f l + sumN g l.
Proof. induction l as [|x l IH]; cbn [sumN]; lia. Qed.

Lemma sumN_le {A} (f g : A -> N) l : (forall x, In x l -> f x <= g x) -> sumN f l <= sumN g l.
Proof.
  induction l as [|x l IH]; intros H; cbn [sumN]; [lia|].
  pose proof (H x (or_introl eq_refl)). pose proof (IH (fun y Hy => H y (or_intror Hy))). lia.
Qed.

Lemma sumN_map {A B} (f : B -> N) (g : A -> B) l : sumN f (map g l) = sumN (fun x => f (g x)) l.
Proof. induction l as [|x l IH]; cbn [sumN map]; lia. Qed.

Lemma sumN_const {A} (c : N) (l : list A) : sumN (fun _ => c) l = N.of_nat (length l) * c.
Proof. induction l as [|x l IH]; cbn [sumN length]; lia. Qed.

Lemma sumN_flat_map_len {A B} (g : A -> list B) l :
  N.of_nat (length (flat_map g l)) = sumN (fun x => N.of_nat (length (g x))) l.
Proof. induction l as [|x l IH]; cbn [flat_map sumN]; [reflexivity|]. rewrite app_length. lia. Qed.

(* ------------------------------------------------------------------ *)
(* 1. the path weight and the general upper bound                      *)

Section Weight.
  Variable U : link -> option token.
  Variable C : ctx.

  Notation tok := (tok U).

  (* a delegation the validator can accept at all: present and inside its time window *)
  Definition live (d : dlg) : bool :=
    match tok d with Some t => in_window (t_exp t) (t_nbf t) (now C) | None => false end.

  (* the issuer's signature is checked directly (did:key issuer, or the authority itself) *)
  Definition direct_iss (t : token) : bool :=
    prefixb did_key_prefix (did_str (t_iss t)) || did_eqb (t_iss t) (v_did (authority C)).

  (* alternatives a delegation can offer to its citer: one per capability it carries *)
  Definition ncaps (d : dlg) : N :=
    if live d then match tok d with Some t => N.of_nat (length (t_caps t)) | None => 0 end else 0.

  Section WLevel.
    (* weight of the previous claim level (session searches) *)
    Variable cw_prev : list dlg -> N.

    (* verifications Validate can make for d among the sibling proofs sibs: its own signature,
       and for an issuer that is neither a did:key nor the authority also the whole search for
       an attestation among the candidate siblings *)
    Definition vw (d : dlg) (sibs : list dlg) : N :=
      match tok d with
      | None => 0
      | Some t =>
        if live d then
          if direct_iss t then 1 else cw_prev (session_candidates U d sibs) + 1
        else 0
      end.

    (* weight of one Authorize call for a match on delegation d: every proof p that d cites
       (and that is addressed to d's issuer) is validated once, and the search is continued
       through p once per capability of p.  Unfolded, this is the number of pairs
       (citation path from d, choice of one capability at every inner node of the path),
       each weighted by what validating its last delegation costs. *)
    Fixpoint aw (n : nat) (d : dlg) : N :=
      match n with
      | O => 0
      | S n' =>
        match tok d with
        | None => 0
        | Some t =>
          let ps := aligned U t (proofs_view U C d t) in
          sumN (fun p => vw p ps + ncaps p * aw n' p) ps
        end
      end.

    Definition cw_body (n : nat) (prfs : list dlg) : N :=
      sumN (fun p => vw p prfs + ncaps p * aw n p) prfs.
  End WLevel.

  (* weight of Claim at fuel n (the levels mirror the model's: level n+1 validates with
     sessions searched at level n) *)
  Fixpoint cw (n : nat) : list dlg -> N :=
    match n with
    | O => fun _ => 0
    | S n' => cw_body (cw n') n'
    end.

  (* the path weight of an invocation *)
  Definition paths_weight (n : nat) (inv : dlg) : N := cw n [inv].

  (* ---------------------------------------------------------------- *)

  Lemma verify_sig_cost l t v : count_verifies (snd (verify_sig l t v)) <= 1.
  Proof.
    unfold verify_sig. destruct (existsb _ _); [|cbn; lia].
    destruct (did_eqb _ _); cbn [snd]; [rewrite cv_one|rewrite cv_nil]; lia.
  Qed.

  Lemma live_window d t : tok d = Some t ->
    live d = negb (is_expired (t_exp t) (now C)) && negb (is_too_early (t_nbf t) (now C)).
  Proof. intros T. unfold live. rewrite T. reflexivity. Qed.

  Section CLevel.
    Variable claim_prev : desc -> list dlg -> ares * list event.
    Variable cw_prev : list dlg -> N.
    Hypothesis Hprev : forall ds ps, count_verifies (snd (claim_prev ds ps)) <= cw_prev ps.

    Lemma validate_cost d sibs :
      count_verifies (snd (validate U C claim_prev d sibs)) <= vw cw_prev d sibs.
    Proof.
      unfold validate, vw. destruct (tok d) as [t|] eqn:T; [|cbn; lia].
      rewrite (live_window d t T).
      destruct (is_expired (t_exp t) (now C)); [cbn; lia|].
      destruct (is_too_early (t_nbf t) (now C)); [cbn; lia|]. cbn [negb andb].
      unfold verify_authorization, direct_iss.
      destruct (prefixb did_key_prefix (did_str (t_iss t))); cbn [orb].
      { destruct (parse_principal C (did_str (t_iss t))); [apply verify_sig_cost | cbn; lia]. }
      destruct (did_eqb (t_iss t) (v_did (authority C))); [apply verify_sig_cost|].
      unfold verify_session.
      pose proof (Hprev (attest_desc (v_did (authority C)) (d_link d)) (session_candidates U d sibs)) as HP.
      destruct (claim_prev (attest_desc (v_did (authority C)) (d_link d)) (session_candidates U d sibs)) as [r ev].
      cbn [snd] in HP.
      destruct r as [a|e|]; cbn [snd]; try lia.
      destruct (has_failed e); cbn [snd]; [lia|].
      destruct (resolve_did_key C (t_iss t)); cbn [snd]; [|lia].
      destruct (parse_principal C (did_str d0)); cbn [snd]; [|lia].
      destruct (prefixb did_key_prefix (did_str (v_did v))); cbn [snd]; [|lia].
      pose proof (verify_sig_cost (d_link d) t (mkVf (v_key v) (v_sigcode v) (t_iss t))) as VS.
      destruct (verify_sig (d_link d) t (mkVf (v_key v) (v_sigcode v) (t_iss t))) as [r2 ev2].
      cbn [snd] in *. rewrite cv_app. lia.
    Qed.

    Lemma validate_ok_live d sibs : fst (validate U C claim_prev d sibs) = VOk -> live d = true.
    Proof.
      unfold validate. destruct (tok d) as [t|] eqn:T; [|discriminate].
      rewrite (live_window d t T).
      destruct (is_expired (t_exp t) (now C)); [discriminate|].
      destruct (is_too_early (t_nbf t) (now C)); [discriminate|]. reflexivity.
    Qed.

    Lemma sources_of_cost ds sibs :
      count_verifies (snd (sources_of U C claim_prev ds sibs)) <= sumN (fun d => vw cw_prev d sibs) ds.
    Proof.
      induction ds as [|d ds IH]; cbn [sources_of sumN]; [cbn; lia|].
      pose proof (validate_cost d sibs) as V.
      destruct (validate U C claim_prev d sibs) as [v ev].
      destruct (sources_of U C claim_prev ds sibs) as [r ev']. cbn [snd] in *.
      destruct v; cbn [snd]; rewrite ?cv_app; lia.
    Qed.

    (* the sources handed to the search: at most one per capability of a live proof *)
    Lemma sources_of_sum (f : dlg -> N) ds sibs : forall srcs,
      fst (sources_of U C claim_prev ds sibs) = Some srcs ->
      sumN (fun s : source => f (snd s)) srcs <= sumN (fun d => ncaps d * f d) ds.
    Proof.
      induction ds as [|d ds IH]; cbn [sources_of]; intros srcs H.
      - cbn in H. inversion H. cbn. lia.
      - pose proof (validate_ok_live d sibs) as VL.
        destruct (validate U C claim_prev d sibs) as [v ev].
        destruct (sources_of U C claim_prev ds sibs) as [r ev']. cbn [fst] in *.
        cbn [sumN].
        destruct v; try discriminate.
        + destruct r as [l|]; [|discriminate]. inversion H; subst srcs.
          rewrite sumN_app. specialize (IH l eq_refl).
          assert (sumN (fun s : source => f (snd s)) (caps_of U d) = ncaps d * f d) as ->; [|lia].
          unfold caps_of, ncaps. rewrite (VL eq_refl).
          destruct (tok d) as [t|]; [|cbn; lia].
          rewrite sumN_map. cbn [snd]. apply sumN_const.
        + specialize (IH srcs H). lia.
        + specialize (IH srcs H). lia.
    Qed.

    Lemma select_derived_cost ds c ss : count_verifies (snd (select_derived ds c ss)) = 0.
    Proof.
      induction ss as [|s ss IH]; cbn [select_derived]; [reflexivity|].
      destruct (select_derived ds c ss) as [ms ev]. cbn [snd] in IH.
      destruct (resolve_cap ds c (fst s)); cbn [snd]; [|exact IH].
      rewrite cv_cons. cbn [is_verify]. lia.
    Qed.

    Lemma select_derived_sum (f : dlg -> N) ds c ss :
      sumN (fun m => f (m_dlg m)) (fst (select_derived ds c ss)) <= sumN (fun s : source => f (snd s)) ss.
    Proof.
      induction ss as [|s ss IH]; cbn [select_derived sumN]; [cbn; lia|].
      destruct (select_derived ds c ss) as [ms ev]. cbn [fst] in IH.
      destruct (resolve_cap ds c (fst s)); cbn [fst]; [|lia].
      destruct (ds_derives ds c c0); cbn [sumN]; try change (m_dlg (s, c0)) with (snd s); lia.
    Qed.

    Lemma select_top_sum (f : dlg -> N) ds ss :
      sumN (fun m => f (m_dlg m)) (select_top ds ss) <= sumN (fun s : source => f (snd s)) ss.
    Proof.
      unfold select_top. induction ss as [|s ss IH]; cbn [filter_map sumN]; [lia|].
      destruct (parse_cap ds (fst s)) as [c0|]; cbn [sumN]; try change (m_dlg (s, c0)) with (snd s); lia.
    Qed.

    Lemma auth_loop_cost rec (g : matchv -> N) ms :
      (forall m, In m ms -> count_verifies (snd (rec m)) <= g m) ->
      forall failed, count_verifies (snd (auth_loop U C rec ms failed)) <= sumN g ms.
    Proof.
      induction ms as [|m ms IH]; intros H failed; cbn [auth_loop sumN]; [cbn; lia|].
      destruct (can_issue C (m_cap m) (iss_of U (m_dlg m))); [cbn; lia|].
      pose proof (H m (or_introl eq_refl)) as Hm.
      destruct (rec m) as [r ev]. cbn [snd] in Hm.
      destruct r as [a|e|]; cbn [snd]; try lia.
      specialize (IH (fun x Hx => H x (or_intror Hx)) true).
      destruct (auth_loop U C rec ms true) as [r' ev']. cbn [snd] in *. rewrite cv_app. lia.
    Qed.

    Lemma claim_loop_cost rec (g : matchv -> N) ms :
      (forall m, In m ms -> count_verifies (snd (rec m)) <= g m) ->
      forall failed rev, count_verifies (snd (claim_loop U C rec ms failed rev)) <= sumN g ms.
    Proof.
      induction ms as [|m ms IH]; intros H failed rev; cbn [claim_loop sumN]; [cbn; lia|].
      pose proof (IH (fun x Hx => H x (or_intror Hx))) as IH'.
      destruct (can_issue C (m_cap m) (iss_of U (m_dlg m))).
      { destruct (revoked C _).
        - specialize (IH' failed true). destruct (claim_loop U C rec ms failed true) as [r' ev'].
          cbn [snd] in *. rewrite cv_cons. cbn [is_verify]. lia.
        - cbn. lia. }
      pose proof (H m (or_introl eq_refl)) as Hm.
      destruct (rec m) as [r ev]. cbn [snd] in Hm.
      destruct r as [a|e|]; cbn [snd]; try lia.
      - destruct (revoked C _).
        + specialize (IH' failed true). destruct (claim_loop U C rec ms failed true) as [r' ev'].
          cbn [snd] in *. rewrite cv_app, cv_cons. cbn [is_verify]. lia.
        + cbn [snd]. rewrite cv_app, cv_cons, cv_nil. cbn [is_verify]. lia.
      - specialize (IH' true rev). destruct (claim_loop U C rec ms true rev) as [r' ev'].
        cbn [snd] in *. rewrite cv_app. lia.
    Qed.

    Lemma authorize_cost : forall n ds m,
      count_verifies (snd (authorize U C claim_prev n ds m)) <= aw cw_prev n (m_dlg m).
    Proof.
      induction n as [|n IH]; intros ds m; cbn [authorize aw]; [cbn; lia|].
      unfold resolve_sources.
      destruct (tok (m_dlg m)) as [t|] eqn:T.
      2:{ cbn. lia. }
      set (ps := aligned U t (proofs_view U C (m_dlg m) t)).
      pose proof (sources_of_cost ps ps) as SC.
      pose proof (sources_of_sum (aw cw_prev n) ps ps) as SS.
      destruct (sources_of U C claim_prev ps ps) as [srcs ev]. cbn [fst snd] in *.
      rewrite sumN_add.
      destruct srcs as [ss|]; [|cbn [snd]; lia].
      specialize (SS ss eq_refl).
      pose proof (select_derived_cost ds (m_cap m) ss) as DC.
      pose proof (select_derived_sum (aw cw_prev n) ds (m_cap m) ss) as DS.
      destruct (select_derived ds (m_cap m) ss) as [ms evd]. cbn [fst snd] in *.
      pose proof (auth_loop_cost (authorize U C claim_prev n ds) (fun m' => aw cw_prev n (m_dlg m')) ms
                    (fun m' _ => IH ds m') false) as AL.
      destruct (auth_loop U C (authorize U C claim_prev n ds) ms false) as [r ev']. cbn [snd] in *.
      rewrite !cv_app. lia.
    Qed.

    Lemma claim_body_cost n ds prfs :
      count_verifies (snd (claim_body U C claim_prev n ds prfs)) <= cw_body cw_prev n prfs.
    Proof.
      unfold claim_body, cw_body.
      pose proof (sources_of_cost prfs prfs) as SC.
      pose proof (sources_of_sum (aw cw_prev n) prfs prfs) as SS.
      destruct (sources_of U C claim_prev prfs prfs) as [srcs ev]. cbn [fst snd] in *.
      rewrite sumN_add.
      destruct srcs as [ss|]; [|cbn [snd]; lia].
      specialize (SS ss eq_refl).
      pose proof (select_top_sum (aw cw_prev n) ds ss) as TS.
      pose proof (claim_loop_cost (authorize U C claim_prev n ds) (fun m' => aw cw_prev n (m_dlg m'))
                    (select_top ds ss) (fun m' _ => authorize_cost n ds m') false false) as CL.
      destruct (claim_loop U C (authorize U C claim_prev n ds) (select_top ds ss) false false) as [r ev'].
      cbn [snd] in *. rewrite cv_app. lia.
    Qed.
  End CLevel.

  Theorem claim_cost : forall n ds prfs, count_verifies (snd (claim U C n ds prfs)) <= cw n prfs.
  Proof.
    induction n as [|n IH]; intros ds prfs; cbn [claim cw]; [cbn; lia|].
    apply claim_body_cost. exact IH.
  Qed.

  (* the general upper bound: whatever the store, the context, the descriptor, the fuel and
     the invocation, Access verifies at most paths_weight signatures *)
  Theorem access_cost n ds inv :
    count_verifies (snd (access U C n ds inv)) <= paths_weight n inv.
  Proof. apply claim_cost. Qed.

  (* (b) sharing and alternatives are the only source of a blow-up: whenever the path
     weight is within the quadratic bound, so is the work *)
  Corollary access_quadratic_if_weight n ds inv (k : N) :
    paths_weight n inv <= k * k + 2 ->
    count_verifies (snd (access U C n ds inv)) <= k * k + 2.
  Proof. intros H. pose proof (access_cost n ds inv). lia. Qed.

  (* ---------------------------------------------------------------- *)
  (* (a) forests of single-capability, directly verified delegations    *)

  (* the end points of all citation paths of length 1..n that start at d (one entry per path) *)
  Fixpoint reach (n : nat) (d : dlg) : list link :=
    match n with
    | O => []
    | S n' =>
      match tok d with
      | None => []
      | Some t => flat_map (fun p => d_link p :: reach n' p) (aligned U t (proofs_view U C d t))
      end
    end.

  Section Forest.
    (* every issuer is a did:key (or the authority): no session searches *)
    Hypothesis Hdirect : forall l t, U l = Some t -> direct_iss t = true.
    (* every delegation carries at most one capability: no alternatives *)
    Hypothesis Hone : forall l t, U l = Some t -> (length (t_caps t) <= 1)%nat.

    Lemma vw_direct cwp d sibs : vw cwp d sibs <= 1.
    Proof.
      unfold vw. destruct (tok d) as [t|] eqn:T; [|lia].
      destruct (live d); [|lia]. rewrite (Hdirect _ _ T). lia.
    Qed.

    Lemma ncaps_one d : ncaps d <= 1.
    Proof.
      unfold ncaps. destruct (live d); [|lia]. destruct (tok d) as [t|] eqn:T; [|lia].
      pose proof (Hone _ _ T). lia.
    Qed.

    (* without alternatives and sessions the weight is the number of citation paths *)
    Lemma aw_reach cwp : forall n d, aw cwp n d <= N.of_nat (length (reach n d)).
    Proof.
      induction n as [|n IH]; intros d; cbn [aw reach]; [cbn; lia|].
      destruct (tok d) as [t|]; [|cbn; lia].
      set (ps := aligned U t (proofs_view U C d t)).
      rewrite sumN_flat_map_len. apply sumN_le. intros p _. cbn [length].
      pose proof (vw_direct cwp p ps). pose proof (ncaps_one p). specialize (IH p). nia.
    Qed.

    Lemma forest_weight n inv : paths_weight n inv <= N.of_nat (length (reach (pred n) inv)) + 1.
    Proof.
      unfold paths_weight. destruct n as [|n]; cbn [cw pred]; [lia|].
      unfold cw_body. cbn [sumN].
      pose proof (vw_direct (cw n) inv [inv]). pose proof (ncaps_one inv).
      pose proof (aw_reach (cw n) n inv). nia.
    Qed.

    (* when moreover no delegation is reached along two different citation paths (the proof
       set is a forest), the work is linear in the number of delegations: for a duplicate-free
       list `dom` of the delegations carried, at most |dom| + 1 verifications *)
    Theorem forest_linear n ds inv (dom : list link) :
      NoDup (reach (pred n) inv) -> incl (reach (pred n) inv) dom ->
      count_verifies (snd (access U C n ds inv)) <= N.of_nat (length dom) + 1.
    Proof.
      intros ND IN. pose proof (access_cost n ds inv). pose proof (forest_weight n inv).
      pose proof (NoDup_incl_length ND IN). lia.
    Qed.
  End Forest.
End Weight.
