(* Check_Claim.v — validator.Claim called directly with a list of top-level proofs, some of which are
   only LINKS (delegation.FromLink): ResolveProofs side-loads them through the proof resolver; the ones
   nobody can resolve are reported as unavailable proofs (validator/lib.go Claim, lines 195-198) and the
   search goes on with the rest.  The model of Claim (Validator.claim) takes the resolved delegations;
   claim_top puts ResolveProofs in front of it.  (Access never meets this branch: its only top-level
   proof is the invocation itself.) *)
From Ucanto Require Import Base Pattern Time Validator ValidatorSpec Check_Validator.
Open Scope N_scope.

Inductive tproof := TDlg (d : dlg) | TLink (l : link).

(* validator.ResolveProofs over the top-level proofs *)
Definition resolve_top (C : ctx) (ps : list tproof) : list dlg :=
  filter_map (fun p => match p with TDlg d => Some d | TLink l => resolve_proof C l end) ps.

Definition unavailable_top (C : ctx) (ps : list tproof) : list link :=
  filter_map (fun p => match p with
                       | TDlg _ => None
                       | TLink l => match resolve_proof C l with Some _ => None | None => Some l end
                       end) ps.

Definition claim_top (U : link -> option token) (C : ctx) (n : nat) (ds : desc) (ps : list tproof)
  : ares * list event := claim U C n ds (resolve_top C ps).

(* soundness carries over: whatever Claim authorizes from a list of proofs and links satisfies the
   specification P over the delegations the links resolved to *)
Theorem claim_top_sound :
  forall (U : link -> option token) (C : ctx),
    (forall l p, resolve_proof C l = Some p -> d_link p = l) ->
  forall n ds ps a,
    fst (claim_top U C n ds ps) = AOk a -> P U C n ds (resolve_top C ps) a.
Proof. intros U C Hres n ds ps a H. unfold claim_top in H. eapply claim_sound; eauto. Qed.
Print Assumptions claim_top_sound.

(* links nobody resolves change nothing but the error report *)
Lemma resolve_top_skip_unavailable C ps l :
  resolve_proof C l = None -> forall qs, resolve_top C (ps ++ TLink l :: qs) = resolve_top C (ps ++ qs).
Proof.
  intros H qs. unfold resolve_top. induction ps as [|p ps IH]; simpl.
  - rewrite H. reflexivity.
  - destruct p as [d|l']; [rewrite IH; reflexivity|]. destruct (resolve_proof C l'); rewrite IH; reflexivity.
Qed.

Theorem claim_top_ignores_unavailable U C n ds ps qs l :
  resolve_proof C l = None ->
  claim_top U C n ds (ps ++ TLink l :: qs) = claim_top U C n ds (ps ++ qs).
Proof. intros H. unfold claim_top. rewrite resolve_top_skip_unavailable; auto. Qed.

(* Access is Claim on the invocation alone *)
Lemma claim_top_access U C n ds inv : claim_top U C n ds [TDlg inv] = access U C n ds inv.
Proof. reflexivity. Qed.

(* ---- correspondence *)

Record ccase := {
  cc_world : wcase;              (* tokens, context, observations (wc_inv is not used) *)
  cc_top : list tproof;          (* the proofs handed to validator.Claim *)
  cc_unavailable : list link }.  (* links of the UnavailableProof entries of the Unauthorized error, in order *)

Definition run_claim (c : ccase) : ares * list event :=
  let w := cc_world c in claim_top (wc_U w) (wc_ctx w) fuel (std_desc (wc_can w)) (cc_top c).

(* 0 = agreement; 1..6, 9 as Check_Validator.check_world; 7 = the unavailable proofs reported differ *)
Definition check_claim (c : ccase) : N :=
  let w := cc_world c in
  let '(r, ev) := run_claim c in
  let derives_agree :=
    list_eqb (fun x y => cap_eqb (fst (fst x)) (fst (fst y)) && cap_eqb (snd (fst x)) (snd (fst y))
                                 && Bool.eqb (snd x) (snd y))
             (ev_derives (wc_can w) ev) (ob_derives w) in
  match r with
  | AFuel => 9
  | AOk a =>
    if negb (ob_auth w) then 1
    else if negb (path_eqb (path_of a) (ob_path w)) then 2
    else if negb (list_eqb N.eqb (ev_verifies ev) (ob_verifies w)) then 3
    else if negb (list_eqb (fun x y => path_eqb (fst x) (fst y) && Bool.eqb (snd x) (snd y))
                           (ev_checks ev) (ob_checks w)) then 4
    else if negb derives_agree then 5
    else 0
  | AErr e =>
    if ob_auth w then 1
    else if negb (list_eqb N.eqb (ev_verifies ev) (ob_verifies w)) then 3
    else if negb (list_eqb (fun x y => path_eqb (fst x) (fst y) && Bool.eqb (snd x) (snd y))
                           (ev_checks ev) (ob_checks w)) then 4
    else if negb derives_agree then 5
    else if negb (Bool.eqb (has_revoked e) (ob_err_revoked w)) then 6
    else if negb (list_eqb N.eqb (unavailable_top (wc_ctx w) (cc_top c)) (cc_unavailable c)) then 7
    else 0
  end.

Definition check_claims (l : list ccase) : list (N * N) :=
  filter_map (fun c => let k := check_claim c in if k =? 0 then None else Some (wc_id (cc_world c), k)) l.

(* ---- VerifySession's derivation rule (validator/lib.go 363-372): the branch `proof: … violates …` is dead.
   Both capabilities the rule is shown were read by the session descriptor's nb reader (ParseCapability for the
   claimed one, ResolveCapability for the delegated one), whose policy pins `.proof` to the link of the delegation
   being verified; so the two `proof` caveats are equal whenever the rule runs.  A re-delegated attestation whose
   parent names ANOTHER delegation is refused earlier, as a malformed capability (worlds "attest-redelegation
   parent=2" of C02 / C04). *)
Lemma attest_nb_pins auth l n m :
  ds_nb (attest_desc auth l) n = Some m -> cmap_proof m = Some l.
Proof.
  unfold attest_desc; cbn [ds_nb]. destruct n as [m'| |]; try discriminate.
  destruct (cmap_proof m') as [l'|] eqn:E; try discriminate.
  destruct (N.eqb_spec l' l) as [->|]; try discriminate.
  intros H; inversion H; subst; exact E.
Qed.

Theorem attest_proof_mismatch_dead auth l (claimed delegated : cap) n1 n2 :
  ds_nb (attest_desc auth l) n1 = Some (nb claimed) ->
  ds_nb (attest_desc auth l) n2 = Some (nb delegated) ->
  ds_derives (attest_desc auth l) claimed delegated = default_derives (wth claimed) (wth delegated).
Proof.
  intros H1 H2. apply attest_nb_pins in H1. apply attest_nb_pins in H2.
  unfold attest_desc; cbn [ds_derives]. rewrite H1, H2. cbn [option_eqb]. rewrite N.eqb_refl. apply andb_true_r.
Qed.
Print Assumptions attest_proof_mismatch_dead.
