(* TokenView.v — the abstraction from token BYTES to the tokens the validator model reasons about.

   Validator.v works on abstract tokens (`Validator.token`: issuer / audience as {key?, string},
   capabilities with classified caveats, proofs as numbered links, exp / nbf, the signature code
   and `t_signer`).  Formats.v / Cbor.v / Did.v / Sig.v / DagJson.v / Signing.v are byte-level
   models of the same library.  This file connects the two:

     view_token : utoken -> Validator.token
       issuer / audience : did.Decode(bytes) + DID.String()  (ucan.View.Issuer() / Audience()),
                           the undefined DID for undecodable bytes;
       capabilities      : can / with / nb with every caveat classified exactly as the harness
                           classifies the nodes the Go accessors return (World.coqCval / coqNbv);
       proofs            : the proof CIDs through a link numbering;
       exp / nbf         : nbf absent = 0 (ucan.View.NotBefore());
       signature code    : Sig.sig_code of the signature bytes (signature.Code());
       t_signer          : the first key of a finite key list for which the SYMBOLIC signature
                           check of Signing.v succeeds on the byte-exact signing input.
     view_block  : bstr -> Validator.token   = view_token of the TYPED decoding of the block
                           (TokenBytes.token_decode_typed: the dag-cbor decoder driving bindnode's
                           assemblers for the UCAN schema), the empty token for a block that is
                           not a UCAN (what the accessors return over the zero model).

   The correspondence (Check_TokenView.v) evaluates view_block on the real root block of every
   token of every world and compares the result field by field with the term the harness
   rendered from the Go accessors. *)
From Coq Require Import ZifyBool ZifyN ZifyNat.
From Ucanto Require Import Base Varint VarintMore Ipld Cbor Formats BaseEnc JsonText Sig Did DagJson Signing TokenBytes.
From Ucanto Require Import Pattern Time Validator ValidatorSpec.
Open Scope N_scope.

(* ------------------------------------------------------------------ *)
(* the symbolic signature check on the raw key (no statement about the verifier's DID)   *)

(* verifier.Verify(encodeSignaturePayload(token), token.Signature()) for key k *)
Definition sig_valid (valid : N -> bstr -> bstr -> bool) (alg_of : N -> bstr) (t : utoken) (k : N) : bool :=
  match signing_input (alg_of k) t with Some m => valid k m (u_s t) | None => false end.

(* ucan.VerifySignature = the issuer is the verifier's DID, and the raw check *)
Lemma verify_split valid alg_of did_of t k :
  verify valid alg_of did_of t k = beq (u_iss t) (did_of k) && sig_valid valid alg_of t k.
Proof.
  unfold verify, sig_valid. destruct (signing_input (alg_of k) t); [reflexivity|].
  rewrite andb_false_r. reflexivity.
Qed.

Lemma sig_valid_canon valid alg_of t k : sig_valid valid alg_of (canon_token t) k = sig_valid valid alg_of t k.
Proof. unfold sig_valid. rewrite signing_input_canon. reflexivity. Qed.

(* ------------------------------------------------------------------ *)
(* the view                                                             *)

Section View.
  Variable num : bstr -> link.              (* CID bytes -> the number the world gives that link *)
  Variable ds : bstr -> bstr.               (* DID bytes -> DID string (DagJson.did_string, or a table of it) *)
  Variable keys : list N.                   (* the key ids of the world *)
  Variable sigv : utoken -> N -> bool.      (* the raw signature check of token t under key k *)

  (* ucan.View.Issuer() / Audience(): did.Decode, Undef on error; rendered as {key flag, String()} *)
  Definition view_did_with (b : bstr) : Validator.did :=
    match did_decode b with
    | Some d => Did (dkey d) (ds b)
    | None => DUndef
    end.

  Definition str_entry (kv : bstr * ipld) : option (bstr * bstr) :=
    match snd kv with IString s => Some (fst kv, s) | _ => None end.

  (* World.coqCval *)
  Definition view_cval (v : ipld) : cval :=
    match v with
    | ILink c => VLink (num c)
    | IInt z => if (z <? 2 ^ 63)%Z then VInt z else VOtherKind      (* AsInt fails on a uint64 above int64 *)
    | IString s => VStr s
    | IList l => match omap as_string l with Some ss => VList ss | None => VOtherKind end
    | IMap m => match omap str_entry m with Some sm => VMap sm | None => VOtherKind end
    | INull => VNull
    | IBool _ => VOtherKind
    | IBytes _ => VOtherKind
    end.

  (* World.coqNbv *)
  Definition view_nb (v : ipld) : nbv :=
    match v with
    | INull => NbNull
    | IMap m => NbMap (map (fun kv => (fst kv, view_cval (snd kv))) m)
    | _ => NbOther
    end.

  Definition view_cap (c : capm) : rawcap := mkRaw (cm_can c) (cm_with c) (view_nb (cm_nb c)).

  Definition view_nbf (t : utoken) : Z := match u_nbf t with Some z => z | None => 0%Z end.

  Definition view_signer (t : utoken) : option N := find (sigv t) keys.

  Definition view_token_with (t : utoken) : token :=
    mkTok (view_did_with (u_iss t)) (view_did_with (u_aud t)) (map view_cap (u_att t))
          (map num (prf_list t)) (u_exp t) (view_nbf t) (sig_code (u_s t)) (view_signer t).
End View.

(* what the accessors of a delegation return when its root block is not a UCAN (the model stays
   the zero UCANModel): undefined principals, no capability, no proof, no expiry, code 0 *)
Definition empty_token : token := mkTok DUndef DUndef [] [] None 0%Z 0 None.

Definition norm_fct_eq (f : option (list (list (bstr * ipld)))) : Prop := none_if_empty f = f.

Section Sym.
  Variable num : bstr -> link.
  Variable keys : list N.
  Variable valid : N -> bstr -> bstr -> bool.
  Variable alg_of : N -> bstr.

  Definition view_did : bstr -> Validator.did := view_did_with did_string.
  Definition view_token : utoken -> token := view_token_with num did_string keys (sig_valid valid alg_of).
  Definition view_block (b : bstr) : token :=
    match token_decode_typed b with Some t => view_token t | None => empty_token end.

  (* -------------------------------------------------------------- *)
  (* 1. the validator's token is a function of the stored bytes      *)

  Lemma view_signer_canon t :
    view_signer keys (sig_valid valid alg_of) (canon_token t) = view_signer keys (sig_valid valid alg_of) t.
  Proof using.
    unfold view_signer. induction keys as [|k r IH]; [reflexivity|].
    cbn [find]. rewrite sig_valid_canon, IH. reflexivity.
  Qed.

  (* the canonical form the decoder returns differs from the token only in the order of the
     entries of caveat maps: every other field of the view is the same *)
  Theorem view_token_canon t :
    view_token (canon_token t) =
    mkTok (t_iss (view_token t)) (t_aud (view_token t))
          (map (view_cap num) (map canon_cap (u_att t)))
          (t_prf (view_token t)) (t_exp (view_token t)) (t_nbf (view_token t))
          (t_sigcode (view_token t)) (t_signer (view_token t)).
  Proof using.
    unfold view_token, view_token_with. rewrite view_signer_canon. reflexivity.
  Qed.

  (* ... and nothing at all when the caveats are in canonical form already (as in every token
     the library's encoder wrote, and in every decoded token) *)
  Definition caps_canonical (t : utoken) : Prop := map canon_cap (u_att t) = u_att t.

  Corollary view_token_canon_id t : caps_canonical t -> view_token (canon_token t) = view_token t.
  Proof using.
    intros H. rewrite view_token_canon, H. reflexivity.
  Qed.

  Lemma canon_cap_idem c : canon_cap (canon_cap c) = canon_cap c.
  Proof using. unfold canon_cap. cbn [cm_with cm_can cm_nb]. rewrite canon_idem. reflexivity. Qed.

  Lemma canon_token_caps_canonical t : caps_canonical (canon_token t).
  Proof using.
    unfold caps_canonical, canon_token. cbn [u_att]. rewrite map_map.
    apply map_ext. intros c. apply canon_cap_idem.
  Qed.

  (* decoding the bytes of a token and viewing the result = viewing the token (in the
     canonical form the decoder returns) *)
  Theorem view_token_decode t :
    wf_ipld (token_ipld t) = true -> in_budget (token_ipld t) = true ->
    option_map view_token (token_decode (token_bytes t)) = Some (view_token (canon_token t)).
  Proof using. intros W B. rewrite (token_transport t W B). reflexivity. Qed.

  (* the Go model reads an empty optional list as absent; the view does not see the difference
     (unless the facts are an empty list, which changes the signed payload) *)
  Lemma view_token_norm t : u_fct t <> Some [] -> view_token (norm_token t) = view_token t.
  Proof using.
    intros NF. unfold view_token, view_token_with, norm_token, prf_list, view_nbf.
    cbn [u_v u_iss u_aud u_s u_att u_prf u_exp u_fct u_nnc u_nbf].
    assert (P : match none_if_empty (u_prf t) with Some l => l | None => [] end
                = match u_prf t with Some l => l | None => [] end).
    { destruct (u_prf t) as [[|x l]|]; reflexivity. }
    rewrite P. f_equal. unfold view_signer.
    assert (E : norm_fct_eq (u_fct t)) by (unfold norm_fct_eq; destruct (u_fct t) as [[|x l]|]; [contradiction | reflexivity | reflexivity]).
    unfold norm_fct_eq in E.
    induction keys as [|k r IH]; [reflexivity|]. cbn [find].
    assert (S : sig_valid valid alg_of
                  (mkU (u_v t) (u_iss t) (u_aud t) (u_s t) (u_att t) (none_if_empty (u_prf t)) (u_exp t)
                       (none_if_empty (u_fct t)) (u_nnc t) (u_nbf t)) k = sig_valid valid alg_of t k).
    { unfold sig_valid, signing_input, signable, signable_with, sign_payload_opt, payload_ipld, prf_list.
      cbn [u_v u_iss u_aud u_s u_att u_prf u_exp u_fct u_nnc u_nbf]. rewrite P, E. reflexivity. }
    rewrite S, IH. reflexivity.
  Qed.

  (* the same through the typed decoder, for tokens the library can issue (Go ints, a present nb) *)
  Corollary view_block_bytes t :
    wf_ipld (token_ipld t) = true -> in_budget (token_ipld t) = true -> token_typed_ok t = true ->
    u_fct t <> Some [] ->
    view_block (token_bytes t) = view_token (canon_token t).
  Proof using.
    intros W B T NF. unfold view_block. rewrite (token_transport_typed t W B T).
    apply view_token_norm. unfold canon_token. cbn [u_fct].
    destruct (u_fct t) as [[|x l]|]; cbn [option_map map]; [contradiction | discriminate | discriminate].
  Qed.

  Corollary view_block_bytes_id t :
    wf_ipld (token_ipld t) = true -> in_budget (token_ipld t) = true -> token_typed_ok t = true ->
    u_fct t <> Some [] -> caps_canonical t ->
    view_block (token_bytes t) = view_token t.
  Proof using. intros W B T NF H. rewrite (view_block_bytes t W B T NF). apply view_token_canon_id. exact H. Qed.

  (* the bytes determine the validator's token *)
  Theorem view_bytes_determine a b :
    wf_ipld (token_ipld a) = true -> wf_ipld (token_ipld b) = true ->
    token_bytes a = token_bytes b -> view_token (canon_token a) = view_token (canon_token b).
  Proof using. intros Wa Wb E. rewrite (token_bytes_inj a b Wa Wb E). reflexivity. Qed.

  (* every block has a view; a block that decodes is viewed through its decoding *)
  Lemma view_block_decoded b t : token_decode_typed b = Some t -> view_block b = view_token t.
  Proof using. intros H. unfold view_block. rewrite H. reflexivity. Qed.

  Lemma view_block_undecodable b : token_decode_typed b = None -> view_block b = empty_token.
  Proof using. intros H. unfold view_block. rewrite H. reflexivity. Qed.

  (* -------------------------------------------------------------- *)
  (* 2. t_signer speaks about the signed bytes                       *)

  Theorem view_signer_sound t k :
    t_signer (view_token t) = Some k ->
    In k keys /\ sig_valid valid alg_of t k = true /\
    forall did_of, did_of k = u_iss t -> verify valid alg_of did_of t k = true.
  Proof using.
    cbn [view_token view_token_with t_signer]. unfold view_signer. intros H.
    apply find_some in H. destruct H as [I V]. split; [exact I|]. split; [exact V|].
    intros did_of E. rewrite verify_split, V, E, beq_refl. reflexivity.
  Qed.

  (* there is a signed message: the byte-exact DAG-JSON signing input of DagJson.v / Signing.v *)
  Corollary view_signer_message t k :
    t_signer (view_token t) = Some k ->
    signable (alg_of k) t = true /\ sign_payload_ok t = true /\
    valid k (sign_payload (alg_of k) t) (u_s t) = true.
  Proof using.
    intros H. destruct (view_signer_sound t k H) as [_ [V _]]. unfold sig_valid, signing_input in V.
    destruct (signable (alg_of k) t); [|discriminate]. rewrite sign_payload_opt_eq in V.
    destruct (sign_payload_ok t); [|discriminate]. auto.
  Qed.

  (* conversely, a key of the table that verifies is found (the first such key) *)
  Theorem view_signer_complete t k :
    In k keys -> sig_valid valid alg_of t k = true ->
    exists k', t_signer (view_token t) = Some k' /\ sig_valid valid alg_of t k' = true.
  Proof using.
    intros I V. cbn [view_token view_token_with t_signer]. unfold view_signer.
    destruct (find (sig_valid valid alg_of t) keys) as [k'|] eqn:F.
    - exists k'. split; [reflexivity|]. apply find_some in F. apply F.
    - pose proof (find_none _ _ F k I) as X. congruence.
  Qed.

  Corollary view_signer_none t : t_signer (view_token t) = None ->
    forall k, In k keys -> forall did_of, verify valid alg_of did_of t k = false.
  Proof using.
    cbn [view_token view_token_with t_signer]. unfold view_signer. intros F k I did_of.
    rewrite verify_split, (find_none _ _ F k I), andb_false_r. reflexivity.
  Qed.

  (* when a signature validates under at most one key, the signer is THE key that verifies *)
  Theorem view_signer_unique t k :
    (forall k1 k2 m1 m2 s, valid k1 m1 s = true -> valid k2 m2 s = true -> k1 = k2) ->
    In k keys -> sig_valid valid alg_of t k = true -> t_signer (view_token t) = Some k.
  Proof using.
    intros Huniq I V. destruct (view_signer_complete t k I V) as [k' [F V']]. rewrite F. f_equal.
    unfold sig_valid in V, V'.
    destruct (signing_input (alg_of k) t) as [m|]; [|discriminate].
    destruct (signing_input (alg_of k') t) as [m'|]; [|discriminate].
    exact (Huniq _ _ _ _ _ V' V).
  Qed.

  Theorem view_signer_sound_full t k :
    t_signer (view_token t) = Some k ->
    In k keys /\
    signable (alg_of k) t = true /\ sign_payload_ok t = true /\
    valid k (sign_payload (alg_of k) t) (u_s t) = true /\
    forall did_of, did_of k = u_iss t -> verify valid alg_of did_of t k = true.
  Proof using.
    intros H. destruct (view_signer_sound t k H) as [I [_ V]].
    destruct (view_signer_message t k H) as [S [O M]]. repeat split; assumption.
  Qed.

  Theorem view_decode_both t :
    wf_ipld (token_ipld t) = true -> in_budget (token_ipld t) = true ->
    option_map view_token (token_decode (token_bytes t)) = Some (view_token (canon_token t))
    /\ (token_typed_ok t = true -> u_fct t <> Some [] -> view_block (token_bytes t) = view_token (canon_token t)).
  Proof using. intros W B. split; [apply view_token_decode | intros T NF; apply view_block_bytes]; assumption. Qed.

  Theorem view_canon_both t :
    view_token (canon_token t) =
      mkTok (t_iss (view_token t)) (t_aud (view_token t)) (map (view_cap num) (map canon_cap (u_att t)))
            (t_prf (view_token t)) (t_exp (view_token t)) (t_nbf (view_token t))
            (t_sigcode (view_token t)) (t_signer (view_token t))
    /\ (map canon_cap (u_att t) = u_att t -> view_token (canon_token t) = view_token t).
  Proof using. split; [apply view_token_canon | apply view_token_canon_id]. Qed.

  (* -------------------------------------------------------------- *)
  (* tampering: C07_tamper lifted to the validator's view             *)

  Hypothesis valid_unique : forall k m m' s, valid k m s = true -> valid k m' s = true -> m = m'.

  Lemma sig_valid_gives t k : sig_valid valid alg_of t k = true ->
    signable (alg_of k) t = true /\ valid k (sign_payload (alg_of k) t) (u_s t) = true.
  Proof using.
    unfold sig_valid, signing_input. intros V.
    destruct (signable (alg_of k) t); [|discriminate]. rewrite sign_payload_opt_eq in V.
    destruct (sign_payload_ok t); [|discriminate]. auto.
  Qed.

  (* two tokens carrying the same signature bytes that both verify under key k have the same
     signed fields (no premise on the issuer: it is one of the signed fields) *)
  Theorem sig_valid_binds_payload t t' k :
    wf_ipld (header_ipld (alg_of k) (u_v t)) = true -> wf_ipld (header_ipld (alg_of k) (u_v t')) = true ->
    wf_ipld (payload_ipld t true) = true -> wf_ipld (payload_ipld t' true) = true ->
    token_bytes_ok t = true -> token_bytes_ok t' = true ->
    sig_valid valid alg_of t k = true -> sig_valid valid alg_of t' k = true -> u_s t' = u_s t ->
    u_v t' = u_v t /\ u_iss t' = u_iss t /\ u_aud t' = u_aud t /\
    map canon_cap (u_att t') = map canon_cap (u_att t) /\ prf_list t' = prf_list t /\
    u_exp t' = u_exp t /\ option_map (map canon_fact) (u_fct t') = option_map (map canon_fact) (u_fct t) /\
    u_nnc t' = u_nnc t /\ u_nbf t' = u_nbf t.
  Proof using valid_unique.
    intros Wh Wh' Wp Wp' B B' V V' S.
    destruct (sig_valid_gives _ _ V) as [G Vs]. destruct (sig_valid_gives _ _ V') as [G' Vs'].
    destruct (signable_gives _ _ G) as [Sh [Sp _]]. destruct (signable_gives _ _ G') as [Sh' [Sp' _]].
    pose proof (token_ids_of _ _ G B) as I. pose proof (token_ids_of _ _ G' B') as I'.
    rewrite S in Vs'. pose proof (valid_unique _ _ _ _ Vs' Vs) as E.
    destruct (sign_payload_inj _ _ _ _ Sh' Sh Wh' Wh Sp' Sp Wp' Wp I' I E) as [_ H]. exact H.
  Qed.

  (* ... hence they are ONE token for the validator: a stored block whose fields were altered
     after signing cannot have a signer *)
  Theorem view_tamper t t' k :
    wf_ipld (header_ipld (alg_of k) (u_v t)) = true -> wf_ipld (header_ipld (alg_of k) (u_v t')) = true ->
    wf_ipld (payload_ipld t true) = true -> wf_ipld (payload_ipld t' true) = true ->
    token_bytes_ok t = true -> token_bytes_ok t' = true ->
    u_s t' = u_s t ->
    t_signer (view_token t) = Some k -> t_signer (view_token t') = Some k ->
    view_token (canon_token t') = view_token (canon_token t).
  Proof using valid_unique.
    intros Wh Wh' Wp Wp' B B' S F F'.
    destruct (view_signer_sound t k F) as [_ [V _]]. destruct (view_signer_sound t' k F') as [_ [V' _]].
    destruct (sig_valid_binds_payload t t' k Wh Wh' Wp Wp' B B' V V' S)
      as [_ [Ei [Ea [Ec [Ep [Ee [_ [_ En]]]]]]]].
    rewrite !view_token_canon, F, F'.
    unfold view_token, view_token_with. cbn [t_iss t_aud t_prf t_exp t_nbf t_sigcode].
    unfold view_nbf. rewrite Ei, Ea, Ec, Ep, Ee, En, S. reflexivity.
  Qed.
End Sym.

(* ------------------------------------------------------------------ *)
(* DID strings through a table (base58 of an RSA key is slow under vm_compute; the case files
   compute the strings of the few distinct principals once)             *)

Lemma view_did_with_ext ds ds' b : (forall x, ds x = ds' x) -> view_did_with ds b = view_did_with ds' b.
Proof. intros H. unfold view_did_with. rewrite H. reflexivity. Qed.

Lemma view_token_with_ext num ds ds' keys sigv sigv' t :
  (forall x, ds x = ds' x) -> (forall k, sigv t k = sigv' t k) ->
  view_token_with num ds keys sigv t = view_token_with num ds' keys sigv' t.
Proof.
  intros Hd Hs. unfold view_token_with. rewrite !(view_did_with_ext ds ds' _ Hd). f_equal.
  unfold view_signer. induction keys as [|k r IH]; [reflexivity|]. cbn [find]. rewrite Hs, IH. reflexivity.
Qed.

(* ------------------------------------------------------------------ *)
(* 3. C01's signature clause at byte level                              *)

(* ValidatorSpec.token_ok / chain_ok / top_ok / P with the signature clause `sig_ok t v` replaced
   by an arbitrary clause SG about the delegation, its token and the verifier; everything else is
   word for word the specification of ValidatorSpec.v. *)
Section SpecSG.
  Variable U : link -> option token.
  Variable C : ctx.
  Variable SG : dlg -> token -> verifier -> Prop.

  Notation tok := (tok U).
  Notation iss_of := (iss_of U).

  Section Level.
    Variable claim_prev : desc -> list dlg -> ares * list event.
    Variable Q_prev : desc -> list dlg -> authz -> Prop.

    Inductive token_ok_sg (sibs : list dlg) (d : dlg) : Prop :=
    | TKG_key t v : tok d = Some t -> window_ok C t -> is_key_str (t_iss t) = true ->
        parse_principal C (did_str (t_iss t)) = Some v -> SG d t v -> token_ok_sg sibs d
    | TKG_auth t : tok d = Some t -> window_ok C t -> is_key_str (t_iss t) = false ->
        SG d t (authority C) -> token_ok_sg sibs d
    | TKG_sess t a : tok d = Some t -> window_ok C t -> is_key_str (t_iss t) = false ->
        t_iss t <> v_did (authority C) ->
        Q_prev (attest_desc (v_did (authority C)) (d_link d)) (session_candidates U d sibs) a ->
        token_ok_sg sibs d
    | TKG_res t kd v : tok d = Some t -> window_ok C t -> is_key_str (t_iss t) = false ->
        t_iss t <> v_did (authority C) ->
        (exists e, fst (claim_prev (attest_desc (v_did (authority C)) (d_link d)) (session_candidates U d sibs)) = AErr e
                   /\ has_failed e = false) ->
        resolve_did_key C (t_iss t) = Some kd -> parse_principal C (did_str kd) = Some v ->
        is_key_str (v_did v) = true ->
        SG d t (mkVf (v_key v) (v_sigcode v) (t_iss t)) -> token_ok_sg sibs d.

    Inductive chain_ok_sg (ds : desc) : authz -> Prop :=
    | CHG_root d c : can_issue C c (iss_of d) = true -> chain_ok_sg ds (Authz d c [])
    | CHG_step d c p c' ps t tp sibs :
        tok d = Some t -> tok p = Some tp ->
        In (d_link p) (t_prf t) ->
        t_aud tp = t_iss t ->
        token_ok_sg sibs p ->
        step_ok U ds c p c' ->
        chain_ok_sg ds (Authz p c' ps) ->
        chain_ok_sg ds (Authz d c [Authz p c' ps]).

    Definition top_ok_sg (ds : desc) (prfs : list dlg) (a : authz) : Prop :=
      exists d c ps t c0, a = Authz d c ps /\ In d prfs /\ token_ok_sg prfs d /\ tok d = Some t /\
        In c0 (t_caps t) /\ parse_cap ds c0 = Some c /\ chain_ok_sg ds a /\ revoked C a = false.

    (* the refinement of the clause, one level *)
    Variable P_prev : desc -> list dlg -> authz -> Prop.
    Hypothesis Hprev : forall ds ps a, P_prev ds ps a -> Q_prev ds ps a.
    Hypothesis Hsg : forall d t v, tok d = Some t -> sig_ok t v -> SG d t v.

    Lemma token_ok_to_sg sibs d : token_ok U C claim_prev P_prev sibs d -> token_ok_sg sibs d.
    Proof using Hprev Hsg.
      intros [t v T W K PP S | t T W K S | t a T W K NA PS | t kd v T W K NA E R PP KV S].
      - eapply TKG_key; eauto.
      - eapply TKG_auth; eauto.
      - eapply TKG_sess; eauto.
      - eapply TKG_res; eauto.
    Qed.

    Lemma chain_ok_to_sg ds a : chain_ok U C claim_prev P_prev ds a -> chain_ok_sg ds a.
    Proof using Hprev Hsg.
      induction 1 as [d c CI | d c p c' ps t tp sibs T Tp L Al TO ST CH IH].
      - apply CHG_root. exact CI.
      - eapply CHG_step; eauto. apply token_ok_to_sg. exact TO.
    Qed.

    Lemma top_ok_to_sg ds prfs a : top_ok U C claim_prev P_prev ds prfs a -> top_ok_sg ds prfs a.
    Proof using Hprev Hsg.
      intros (d & c & ps & t & c0 & E & I & TO & T & Hc & PC & CH & RV).
      exists d, c, ps, t, c0. repeat split; auto.
      - apply token_ok_to_sg. exact TO.
      - apply chain_ok_to_sg. exact CH.
    Qed.
  End Level.

  Fixpoint P_sg (n : nat) : desc -> list dlg -> authz -> Prop :=
    match n with
    | O => fun _ _ _ => False
    | S n' => top_ok_sg (claim U C n') (P_sg n')
    end.

  Hypothesis Hsg : forall d t v, tok d = Some t -> sig_ok t v -> SG d t v.

  Theorem P_to_sg n : forall ds ps a, P U C n ds ps a -> P_sg n ds ps a.
  Proof using Hsg.
    induction n as [|n IH]; intros ds ps a H; cbn [P P_sg] in *; [exact H|].
    eapply top_ok_to_sg; eauto.
  Qed.
End SpecSG.

(* the abstract specification is the instance of P_sg whose clause is sig_ok itself *)
Theorem P_sg_of_P U C n ds ps a : P U C n ds ps a -> P_sg U C (fun _ t v => sig_ok t v) n ds ps a.
Proof. intros H. apply P_to_sg; [auto | exact H]. Qed.

(* the store of a block table: every block that is present has a view *)
Section Bytes.
  Variable B : link -> option bstr.          (* link -> the bytes of the block with that link *)
  Variable num : bstr -> link.
  Variable keys : list N.
  Variable valid : N -> bstr -> bstr -> bool.
  Variable alg_of : N -> bstr.

  Definition store_of : link -> option token :=
    fun l => option_map (view_block num keys valid alg_of) (B l).

  (* the signature clause at byte level: the block of the delegation decodes to a token ut whose
     view is t, whose issuer is the verifier's DID, whose signature code is the verifier's, and
     whose signature bytes verify — in the sense of Signing.v, over the DAG-JSON signing input
     rebuilt from the decoded fields — under the verifier's key, for a verifier reporting the
     token's stated issuer *)
  Definition sig_ok_bytes (d : dlg) (t : token) (v : verifier) : Prop :=
    exists b ut, B (d_link d) = Some b /\ token_decode_typed b = Some ut /\
      t = view_token num keys valid alg_of ut /\
      view_did (u_iss ut) = v_did v /\ sig_code (u_s ut) = v_sigcode v /\ In (v_key v) keys /\
      valid (v_key v) (sign_payload (alg_of (v_key v)) ut) (u_s ut) = true /\
      forall did_of, did_of (v_key v) = u_iss ut -> verify valid alg_of did_of ut (v_key v) = true.

  (* any store that holds, pointwise, the view of the block table (store_of is one; a table
     computed once is another: ServerBytes.U_of) *)
  Section AnyStore.
    Variable U : link -> option token.
    Hypothesis HU : forall l, U l = option_map (view_block num keys valid alg_of) (B l).

    Lemma sig_ok_to_bytes_U d t v : tok U d = Some t -> sig_ok t v -> sig_ok_bytes d t v.
    Proof using HU.
      unfold tok. rewrite HU. destruct (B (d_link d)) as [b|] eqn:Eb; [|discriminate].
      cbn [option_map]. intros T [Ei [Ec Es]]. inversion T as [T']. clear T.
      destruct (token_decode_typed b) as [ut|] eqn:D.
      - rewrite (view_block_decoded num keys valid alg_of b ut D) in *. subst t.
        destruct (view_signer_sound num keys valid alg_of ut (v_key v) Es) as [I [_ V]].
        destruct (view_signer_message num keys valid alg_of ut (v_key v) Es) as [_ [_ M]].
        cbn [view_token view_token_with t_iss t_sigcode] in Ei, Ec.
        exists b, ut.
        split; [exact Eb|]. split; [exact D|]. split; [reflexivity|].
        split; [exact Ei|]. split; [exact Ec|]. split; [exact I|]. split; [exact M | exact V].
      - rewrite (view_block_undecodable num keys valid alg_of b D) in *. subst t. discriminate Es.
    Qed.

    Theorem access_sound_bytes_U C :
      (forall l p, resolve_proof C l = Some p -> d_link p = l) ->
      forall n ds inv a,
        fst (access U C n ds inv) = AOk a -> P_sg U C sig_ok_bytes n ds [inv] a.
    Proof using HU.
      intros Hres n ds inv a H. apply P_to_sg; [exact sig_ok_to_bytes_U|].
      exact (access_sound U C Hres n ds inv a H).
    Qed.
  End AnyStore.

  Lemma sig_ok_to_bytes d t v : tok store_of d = Some t -> sig_ok t v -> sig_ok_bytes d t v.
  Proof using. apply sig_ok_to_bytes_U. intros l. reflexivity. Qed.

  Theorem access_sound_bytes C :
    (forall l p, resolve_proof C l = Some p -> d_link p = l) ->
    forall n ds inv a,
      fst (access store_of C n ds inv) = AOk a -> P_sg store_of C sig_ok_bytes n ds [inv] a.
  Proof using. apply access_sound_bytes_U. intros l. reflexivity. Qed.
End Bytes.
