(* Check_TokenView.v — correspondence for TokenView.v: for every token of every world the harness
   emits the token's ROOT BLOCK BYTES, the `mkTok …` term it rendered from the Go accessors
   (delegation.Issuer() / Audience() / Capabilities() / Proofs() / Expiration() / NotBefore() /
   Signature().Code(), World.coqToken), and what it OBSERVED about the signature by calling
   ucan.VerifySignature with every key of the cast.  The check evaluates
   view_block (token_decode bytes) and compares field by field. *)
From Ucanto Require Import Base Varint VarintMore Ipld Cbor Formats BaseEnc JsonText Sig Did DagJson Signing Check_Json.
From Ucanto Require Import Pattern Time Validator TokenBytes TokenView.
Open Scope N_scope.

(* one token: its link number, root block bytes, the harness's rendering, the key ids k for which
   ucan.VerifySignature(token, verifier of key k presented under the token's own issuer DID) was
   true (the raw signature check), and the key ids for which ucan.VerifySignature(token, the
   key's own did:key verifier) was true *)
Record tvtok := { tt_link : N; tt_bytes : bstr; tt_tok : token; tt_sigkeys : list N; tt_verifs : list N }.

(* one observed call of a verifier primitive that returned true: key id, message, signature bytes *)
Definition vcall := (N * bstr * bstr)%type.

Record tvworld := {
  tv_id : N;
  tv_links : list (bstr * N);            (* CID bytes -> link number, every link the world numbered *)
  tv_keys : list (N * bstr * bstr);      (* key id, DID bytes of the key's did:key, algorithm name *)
  tv_toks : list tvtok;
  tv_calls : list vcall }.               (* only filled for the worlds checked in full *)

(* ---- comparison of tokens, first differing field ---- *)

Definition nbv_eqb (a b : nbv) : bool :=
  match a, b with
  | NbMap x, NbMap y => list_eqb (fun p q => beq (fst p) (fst q) && cval_eqb (snd p) (snd q)) x y
  | NbNull, NbNull => true
  | NbOther, NbOther => true
  | _, _ => false
  end.

Definition optz_eqb (a b : option Z) : bool := option_eqb Z.eqb a b.

(* 100 + 2i : ability / resource of capability i differ;  101 + 2i : its caveats differ *)
Fixpoint caps_diff (i : N) (a b : list rawcap) : N :=
  match a, b with
  | [], [] => 0
  | x :: a', y :: b' =>
    if negb (beq (r_can x) (r_can y) && beq (r_with x) (r_with y)) then 100 + 2 * i
    else if negb (nbv_eqb (r_nb x) (r_nb y)) then 101 + 2 * i
    else caps_diff (i + 1) a' b'
  | _, _ => 3
  end.

(* 0 agree; 1 issuer; 2 audience; 3 number of capabilities; 100.. capability i; 4 proofs; 5 exp;
   6 nbf; 7 signature code; 8 signer *)
Definition token_diff (m h : token) : N :=
  if negb (Validator.did_eqb (t_iss m) (t_iss h)) then 1
  else if negb (Validator.did_eqb (t_aud m) (t_aud h)) then 2
  else match caps_diff 0 (t_caps m) (t_caps h) with
       | 0 =>
         if negb (list_eqb N.eqb (t_prf m) (t_prf h)) then 4
         else if negb (optz_eqb (t_exp m) (t_exp h)) then 5
         else if negb (Z.eqb (t_nbf m) (t_nbf h)) then 6
         else if negb (t_sigcode m =? t_sigcode h) then 7
         else if negb (option_eqb N.eqb (t_signer m) (t_signer h)) then 8
         else 0
       | c => c
       end.

Lemma nbv_eqb_refl a : nbv_eqb a a = true.
Proof.
  assert (C : forall v, cval_eqb v v = true).
  { intros [l|z|s|l|m| |]; cbn [cval_eqb]; try reflexivity.
    - apply N.eqb_refl.
    - apply Z.eqb_refl.
    - apply beq_refl.
    - induction l as [|x r IH]; cbn [list_eqb]; [reflexivity|]. rewrite beq_refl, IH. reflexivity.
    - induction m as [|x r IH]; cbn [list_eqb]; [reflexivity|]. rewrite !beq_refl, IH. reflexivity. }
  destruct a as [m| |]; cbn [nbv_eqb]; try reflexivity.
  induction m as [|x r IH]; cbn [list_eqb]; [reflexivity|]. rewrite beq_refl, C, IH. reflexivity.
Qed.

Lemma caps_diff_refl l : forall i, caps_diff i l l = 0.
Proof.
  induction l as [|x r IH]; intros i; cbn [caps_diff]; [reflexivity|].
  rewrite !beq_refl, nbv_eqb_refl. cbn [andb negb]. apply IH.
Qed.

(* the comparison is not vacuous: a token agrees with itself *)
Lemma token_diff_refl t : token_diff t t = 0.
Proof.
  unfold token_diff.
  assert (D : forall d, Validator.did_eqb d d = true) by (intros d; apply Validator.did_eqb_eq; reflexivity).
  rewrite !D, caps_diff_refl. cbn [negb].
  assert (L : list_eqb N.eqb (t_prf t) (t_prf t) = true).
  { induction (t_prf t) as [|x r IH]; cbn [list_eqb]; [reflexivity|]. rewrite N.eqb_refl, IH. reflexivity. }
  rewrite L, Z.eqb_refl, N.eqb_refl. cbn [negb].
  assert (O : optz_eqb (t_exp t) (t_exp t) = true) by (destruct (t_exp t); cbn; [apply Z.eqb_refl | reflexivity]).
  rewrite O. cbn [negb].
  destruct (t_signer t); cbn; [rewrite N.eqb_refl|]; reflexivity.
Qed.

(* ---- the world's tables as functions ---- *)

Definition num_of (links : list (bstr * N)) (c : bstr) : link :=
  match slookup c links with Some n => n | None => 0 end.

Definition alg_of_keys (keys : list (N * bstr * bstr)) (k : N) : bstr :=
  match alookup k (map (fun e => (fst (fst e), snd e)) keys) with Some a => a | None => [] end.
Definition did_of_keys (keys : list (N * bstr * bstr)) (k : N) : bstr :=
  match alookup k (map (fun e => (fst (fst e), snd (fst e))) keys) with Some d => d | None => [] end.
Definition key_ids (keys : list (N * bstr * bstr)) : list N := map (fun e => fst (fst e)) keys.

(* the symbolic `valid` instantiated with what was observed for ONE token: key k accepted the
   token's signature over the payload rebuilt from the token (the message is not inspected) *)
Definition valid_obs (sigkeys : list N) : N -> bstr -> bstr -> bool :=
  fun k _ _ => existsb (N.eqb k) sigkeys.

(* ... and with a table of observed primitive calls (key, message, signature) that returned true:
   the model has to rebuild the exact message *)
Definition valid_calls (calls : list vcall) : N -> bstr -> bstr -> bool :=
  fun k m s => existsb (fun e => (fst (fst e) =? k) && beq (snd (fst e)) m && beq (snd e) s) calls.

(* ---- fast evaluation: DID strings from a table, the message not built when not inspected ---- *)

Definition signing_ok_with (ds : bstr -> bstr) (alg : bstr) (t : utoken) : bool :=
  signable_with ds alg t && json_encodable (payload_ipld_with ds t true).

Definition sigv_obs (ds : bstr -> bstr) (alg_of : N -> bstr) (sigkeys : list N) (t : utoken) (k : N) : bool :=
  if existsb (N.eqb k) sigkeys then signing_ok_with ds (alg_of k) t else false.   (* lazy under vm_compute *)

Definition sigv_calls (ds : bstr -> bstr) (alg_of : N -> bstr) (calls : list vcall) (t : utoken) (k : N) : bool :=
  (* the message is rebuilt only when some accepted call has this key and these signature bytes *)
  if existsb (fun e => (fst (fst e) =? k) && beq (snd e) (u_s t)) calls then
    match signing_input_with ds (alg_of k) t with Some m => valid_calls calls k m (u_s t) | None => false end
  else false.

Lemma valid_calls_none calls k m s :
  existsb (fun e => (fst (fst e) =? k) && beq (snd e) s) calls = false -> valid_calls calls k m s = false.
Proof.
  unfold valid_calls. induction calls as [|e r IH]; cbn [existsb]; [reflexivity|].
  intros H. apply orb_false_iff in H. destruct H as [H1 H2]. rewrite (IH H2), orb_false_r.
  destruct (fst (fst e) =? k); cbn [andb] in *; [|reflexivity]. rewrite H1. apply andb_false_r.
Qed.

Lemma signing_input_with_eq ds alg t : (forall b, ds b = did_string b) -> signing_input_with ds alg t = signing_input alg t.
Proof.
  intros H. unfold signing_input_with, signing_input, sign_payload_opt_with, sign_payload_opt.
  rewrite (signable_with_eq _ alg t H), (payload_ipld_with_eq ds t true H). reflexivity.
Qed.

Lemma sigv_obs_eq ds alg_of sigkeys t k : (forall b, ds b = did_string b) ->
  sigv_obs ds alg_of sigkeys t k = sig_valid (valid_obs sigkeys) alg_of t k.
Proof.
  intros H. unfold sigv_obs, sig_valid, signing_ok_with, valid_obs, signing_input, sign_payload_opt.
  rewrite (signable_with_eq _ _ t H), (payload_ipld_with_eq ds t true H).
  destruct (existsb (N.eqb k) sigkeys); cbn [andb].
  - destruct (signable (alg_of k) t); cbn [andb]; [|reflexivity].
    destruct (json_encodable (payload_ipld t true)); reflexivity.
  - destruct (signable (alg_of k) t); cbn [andb]; [|reflexivity].
    destruct (json_encodable (payload_ipld t true)); reflexivity.
Qed.

Lemma sigv_calls_eq ds alg_of calls t k : (forall b, ds b = did_string b) ->
  sigv_calls ds alg_of calls t k = sig_valid (valid_calls calls) alg_of t k.
Proof.
  intros H. unfold sigv_calls, sig_valid. rewrite (signing_input_with_eq _ _ _ H).
  match goal with |- (if ?c then _ else _) = _ => destruct c eqn:E end; [reflexivity|].
  destruct (signing_input (alg_of k) t); [|reflexivity]. symmetry. apply valid_calls_none. exact E.
Qed.

(* ---- the check of one token ---- *)

Section One.
  Variable tbl : list (bstr * bstr).     (* DID bytes -> DID string, computed once per case file *)
  Variable w : tvworld.

  Definition ds_tbl : bstr -> bstr := memo_did tbl.
  Definition w_num := num_of (tv_links w).
  Definition w_alg := alg_of_keys (tv_keys w).
  Definition w_did := did_of_keys (tv_keys w).
  Definition w_keys := key_ids (tv_keys w).

  (* the model's token for a block, with the signature primitive as observed for this token *)
  Definition model_token (full : bool) (x : tvtok) : token :=
    match token_decode_typed (tt_bytes x) with
    | Some t =>
      view_token_with w_num ds_tbl w_keys
        (if full then sigv_calls ds_tbl w_alg (tv_calls w) else sigv_obs ds_tbl w_alg (tt_sigkeys x)) t
    | None => empty_token
    end.

  (* ucan.VerifySignature(token, the did:key verifier of key k), for every key, as a key list *)
  Definition model_verifs (full : bool) (x : tvtok) : list N :=
    match token_decode_typed (tt_bytes x) with
    | Some t =>
      filter (fun k => if beq (u_iss t) (w_did k)
                       then (if full then sigv_calls ds_tbl w_alg (tv_calls w) t k
                             else sigv_obs ds_tbl w_alg (tt_sigkeys x) t k)
                       else false) w_keys
    | None => []
    end.

  (* 0 agree; token_diff codes; 9: the set of did:key verifiers that accept differs *)
  Definition check_tok (full : bool) (x : tvtok) : N :=
    match token_diff (model_token full x) (tt_tok x) with
    | 0 => if list_eqb N.eqb (model_verifs full x) (tt_verifs x) then 0 else 9
    | c => c
    end.
End One.

(* the numbering is a function of the CID bytes and injective, key ids are distinct, every token's
   link has bytes in the table: 10 / 11 / 12 *)
Fixpoint nodupN (l : list N) : bool :=
  match l with [] => true | x :: r => negb (existsb (N.eqb x) r) && nodupN r end.

Definition check_tables (w : tvworld) : N :=
  if negb (nodupb (map fst (tv_links w)) && nodupN (map snd (tv_links w))) then 10
  else if negb (nodupN (key_ids (tv_keys w))) then 11
  else if negb (forallb (fun x => existsb (fun e => snd e =? tt_link x) (tv_links w)) (tv_toks w)) then 12
  else 0.

(* (world id, link number of the token, code) of every disagreement; (world, 0, code) for a table *)
Definition check_world_views (tbl : list (bstr * bstr)) (full : bool) (w : tvworld) : list (N * N * N) :=
  (match check_tables w with 0 => [] | c => [(tv_id w, 0, c)] end) ++
  filter_map (fun x => match check_tok tbl w full x with 0 => None | c => Some (tv_id w, tt_link x, c) end) (tv_toks w).

Definition check_views (tbl : list (bstr * bstr)) (ws : list tvworld) : list (N * N * N) :=
  flat_map (check_world_views tbl false) ws.
Definition check_views_full (tbl : list (bstr * bstr)) (ws : list tvworld) : list (N * N * N) :=
  flat_map (check_world_views tbl true) ws.

(* ---- what a passing check states, in terms of TokenView.view_block ---- *)

(* with a DID table computed by did_table, model_token IS view_block of the bytes, for the symbolic
   `valid` instantiated by the observation *)
Theorem model_token_is_view dids w x :
  model_token (did_table dids) w false x =
  view_block (w_num w) (w_keys w) (valid_obs (tt_sigkeys x)) (w_alg w) (tt_bytes x).
Proof.
  unfold model_token, view_block. destruct (token_decode_typed (tt_bytes x)) as [t|]; [|reflexivity].
  unfold view_token. apply view_token_with_ext.
  - intros b. apply memo_did_eq.
  - intros k. apply sigv_obs_eq. intros b. apply memo_did_eq.
Qed.

Theorem model_token_full_is_view dids w x :
  model_token (did_table dids) w true x =
  view_block (w_num w) (w_keys w) (valid_calls (tv_calls w)) (w_alg w) (tt_bytes x).
Proof.
  unfold model_token, view_block. destruct (token_decode_typed (tt_bytes x)) as [t|]; [|reflexivity].
  unfold view_token. apply view_token_with_ext.
  - intros b. apply memo_did_eq.
  - intros k. apply sigv_calls_eq. intros b. apply memo_did_eq.
Qed.

(* and model_verifs is Signing.verify over the key table *)
Theorem model_verifs_is_verify dids w x t :
  token_decode_typed (tt_bytes x) = Some t ->
  model_verifs (did_table dids) w false x =
  filter (fun k => verify (valid_obs (tt_sigkeys x)) (w_alg w) (w_did w) t k) (w_keys w).
Proof.
  intros D. unfold model_verifs. rewrite D. apply filter_ext. intros k.
  rewrite verify_split, <- (sigv_obs_eq (ds_tbl (did_table dids))); [|intros b; apply memo_did_eq].
  destruct (beq (u_iss t) (w_did w k)); reflexivity.
Qed.
