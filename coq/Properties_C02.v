(* C02 — Caveats written in a delegation bind everything derived from it. *)
From Ucanto Require Import Base Pattern Time Validator ValidatorSpec ValidatorProps.

(* What the derivation rule is shown as the delegated caveats, field by field: a field the
   delegation sets keeps the delegation's value; a field it leaves unset is inherited
   from the claim.  (inherit = validator.inheritCaveats) *)
Theorem C02_inherit_field : forall (claimed d : cmap) (k : bstr),
  exists m, inherit claimed (NbMap d) = NbMap m /\
    slookup k m = match slookup k d with Some v => Some v | None => slookup k claimed end.
Proof. exact inherit_field. Qed.
Print Assumptions C02_inherit_field.

Theorem C02_inherit_null : forall claimed : cmap, inherit claimed NbNull = NbMap claimed.
Proof. exact inherit_null. Qed.
Print Assumptions C02_inherit_null.

(* For every world, context, descriptor (any caveat reader, any derivation rule) and
   invocation: in every authorization Access returns, at EVERY step from a claimed
   capability c to the proof below it, there is a capability c0 written in that proof such
   that the delegated capability c' has exactly the caveats read from
   inherit (caveats of c) (caveats written in c0), and the derivation rule accepted
   (c, c').  Hence a claim the rule rejects against the caveats actually written in a
   delegation is never authorized through it. *)
Theorem C02_enforced :
  forall (U : link -> option token) (C : ctx),
    (forall l p, resolve_proof C l = Some p -> d_link p = l) ->
  forall n ds inv a,
    fst (access U C n ds inv) = AOk a ->
    exists n', n = S n' /\ Forall (step_holds U C ds) (steps a) /\ is_path a /\
      exists d c ps t, a = Authz d c ps /\ d = inv /\ tok U d = Some t /\ window_ok C t.
Proof. exact access_steps. Qed.
Print Assumptions C02_enforced.

(* a re-delegated ucan/attest capability is bound by the proof caveat of its parent:
   it resolves only when the parent names no proof or names exactly the attested token *)
Theorem C02_attest_bound : forall auth l c c0 c',
  resolve_cap (attest_desc auth l) c c0 = Some c' ->
  nb c' = [(proof_key, VLink l)] /\ wth c' = did_str auth /\
  (forall l', r_nb c0 = NbMap [(proof_key, VLink l')] -> l' = l).
Proof. exact attest_resolve_inv. Qed.
Print Assumptions C02_attest_bound.
