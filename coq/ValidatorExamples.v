(* ValidatorExamples.v — concrete worlds: non-vacuity of the soundness theorems. *)
From Ucanto Require Import Base Pattern Time Validator ValidatorSpec Check_Validator.
Open Scope N_scope.

Definition alice := Did true (bs "did:key:zAlice").
Definition bob := Did true (bs "did:key:zBob").
Definition svc := Did true (bs "did:key:zService").
Definition store_add := bs "store/add".

(* alice --(store/* on her DID)--> bob ; bob invokes store/add *)
Definition ex_tokens : list (link * token) :=
  [(1, mkTok alice bob [mkRaw (bs "store/*") (did_str alice) (NbMap [])] [] (Some 100%Z) 0%Z 53485 (Some 1));
   (2, mkTok bob svc [mkRaw store_add (did_str alice) (NbMap [(k_max, VInt 5%Z)])] [1] (Some 100%Z) 0%Z 53485 (Some 2))].

Definition ex_world : wcase :=
  {| wc_id := 0; wc_tokens := ex_tokens; wc_inv := mkDlg 2 [1; 2]; wc_can := store_add;
     wc_authority := mkVf 9 53485 svc; wc_self := true; wc_owners := []; wc_revoked := [];
     wc_resolver := [];
     wc_principals := [(did_str alice, mkVf 1 53485 alice); (did_str bob, mkVf 2 53485 bob)];
     wc_keyres := []; wc_now := 50%Z;
     ob_auth := true; ob_path := []; ob_verifies := []; ob_checks := []; ob_derives := []; ob_err_revoked := false |}.

Example ex_authorized :
  exists a, fst (run_world ex_world) = AOk a /\ map fst (path_of a) = [2; 1].
Proof. eexists. split; vm_compute; reflexivity. Qed.

(* the same world with the delegation signed by another key is rejected *)
Definition ex_world_forged : wcase :=
  {| wc_id := 1;
     wc_tokens := [(1, mkTok alice bob [mkRaw (bs "store/*") (did_str alice) (NbMap [])] [] (Some 100%Z) 0%Z 53485 (Some 7));
                   (2, mkTok bob svc [mkRaw store_add (did_str alice) (NbMap [])] [1] (Some 100%Z) 0%Z 53485 (Some 2))];
     wc_inv := mkDlg 2 [1; 2]; wc_can := store_add;
     wc_authority := mkVf 9 53485 svc; wc_self := true; wc_owners := []; wc_revoked := [];
     wc_resolver := [];
     wc_principals := [(did_str alice, mkVf 1 53485 alice); (did_str bob, mkVf 2 53485 bob)];
     wc_keyres := []; wc_now := 50%Z;
     ob_auth := false; ob_path := []; ob_verifies := []; ob_checks := []; ob_derives := []; ob_err_revoked := false |}.

Example ex_forged_rejected : exists e, fst (run_world ex_world_forged) = AErr e.
Proof. eexists. vm_compute. reflexivity. Qed.

(* non-vacuity of the termination theorem: the example store is acyclic with rank = link
   number and at most 2 proofs per token, so Access terminates for every descriptor *)
From Ucanto Require Import ValidatorTerm.
From Coq Require Import ZifyN ZifyNat.
Example ex_terminates : forall ds,
  fst (access (wc_U ex_world) (wc_ctx ex_world) (need 2 2 + 1) ds (mkDlg 2 [1; 2])) <> AFuel.
Proof.
  intros ds.
  apply (access_terminates (wc_U ex_world) (wc_ctx ex_world)
           (fun l p H => ltac:(cbn in H; discriminate)) N.to_nat) with (K := 2%nat).
  - intros l t p HU Hp. unfold wc_U, ex_world, ex_tokens in HU. cbn [wc_tokens alookup] in HU.
    destruct (l =? 1) eqn:E1.
    + inversion HU; subst. destruct Hp.
    + destruct (l =? 2) eqn:E2; [|discriminate]. inversion HU; subst. cbn in Hp.
      destruct Hp as [<-|[]]. apply N.eqb_eq in E2. subst. vm_compute. lia.
  - intros l t HU. unfold wc_U, ex_world, ex_tokens in HU. cbn [wc_tokens alookup] in HU.
    destruct (l =? 1); [inversion HU; subst; cbn; lia|].
    destruct (l =? 2); [inversion HU; subst; cbn; lia | discriminate].
  - lia.
  - vm_compute. lia.
Qed.
