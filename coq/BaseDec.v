(* BaseDec.v — the DECODERS of the text encodings of BaseEnc.v, as the Go libraries
   implement them, and multibase.Decode (go-multibase v0.2.0) over them:

     b58dec      mr-tron/base58 FastBase58DecodingAlphabet (BTC alphabet)
     b64raw_dec  encoding/base64 RawStdEncoding / RawURLEncoding .DecodeString (non-strict)
     b64pad_dec  encoding/base64 StdEncoding / URLEncoding .DecodeString (non-strict)
     b32raw_dec  multiformats/go-base32 RawStdEncoding / RawHexEncoding .DecodeString
     hex_dec     encoding/hex DecodeString
     mb_decode   multibase.Decode (the bytes; the prefixes listed at mb_decode)

   with the round-trip laws  dec (enc b) = Some b,  "decoded values are byte strings",
   and the converse (decode is injective on its domain) for base58btc and, for
   canonical strings, for base64.  Radix conversions of the big-endian number, as
   in BaseEnc.v; executable (shifts for the power-of-two bases).  Stdlib only. *)
From Ucanto Require Import Base BaseEnc.
From Coq Require Import ZifyBool ZifyN ZifyNat.
Open Scope N_scope.

(* ------------------------------------------------------------------ *)
(* the inverse of alpha_of                                             *)

Fixpoint index_from (tbl : bstr) (c : N) (i : N) : option N :=
  match tbl with
  | [] => None
  | x :: r => if x =? c then Some i else index_from r c (i + 1)
  end.
Definition index_of (tbl : bstr) (c : N) : option N := index_from tbl c 0.

Lemma index_from_some tbl c : forall i d, index_from tbl c i = Some d ->
  i <= d /\ d - i < N.of_nat (length tbl) /\ nth (N.to_nat (d - i)) tbl 0 = c.
Proof.
  induction tbl as [|x r IH]; intros i d H; cbn [index_from] in H; [discriminate|].
  destruct (x =? c) eqn:E.
  - apply N.eqb_eq in E. inversion H; subst. rewrite N.sub_diag. cbn [length nth N.to_nat]. repeat split; lia.
  - apply IH in H. destruct H as [H1 [H2 H3]]. cbn [length]. repeat split; try lia.
    replace (N.to_nat (d - i)) with (S (N.to_nat (d - (i + 1)))) by lia. exact H3.
Qed.

Lemma index_from_nth tbl : nodupN tbl = true -> forall k i, (k < length tbl)%nat ->
  index_from tbl (nth k tbl 0) i = Some (i + N.of_nat k).
Proof.
  induction tbl as [|x r IH]; intros ND k i Hk; [cbn in Hk; lia|].
  cbn [nodupN] in ND. apply andb_true_iff in ND. destruct ND as [NX ND]. apply negb_true_iff in NX.
  destruct k as [|k]; cbn [nth index_from].
  - rewrite N.eqb_refl. f_equal. lia.
  - cbn [length] in Hk. destruct (x =? nth k r 0) eqn:E.
    + exfalso. assert (X : existsb (N.eqb x) r = true).
      { apply existsb_exists. exists (nth k r 0). split; [apply nth_In; lia | exact E]. }
      congruence.
    + rewrite IH by (try assumption; lia). f_equal. lia.
Qed.

Lemma index_alpha tbl d : nodupN tbl = true -> d < N.of_nat (length tbl) ->
  index_of tbl (alpha_of tbl d) = Some d.
Proof.
  intros ND H. unfold index_of, alpha_of. rewrite index_from_nth by (try assumption; lia). f_equal. lia.
Qed.

Lemma alpha_index tbl c d : index_of tbl c = Some d -> d < N.of_nat (length tbl) /\ alpha_of tbl d = c.
Proof.
  intros H. apply index_from_some in H. rewrite N.sub_0_r in H. unfold alpha_of. tauto.
Qed.

Fixpoint digits_of (tbl : bstr) (s : bstr) : option (list N) :=
  match s with
  | [] => Some []
  | c :: r =>
    match index_of tbl c with
    | Some d => match digits_of tbl r with Some ds => Some (d :: ds) | None => None end
    | None => None
    end
  end.

Lemma digits_of_map tbl ds : nodupN tbl = true -> digits_lt (N.of_nat (length tbl)) ds ->
  digits_of tbl (map (alpha_of tbl) ds) = Some ds.
Proof.
  intros ND H. induction H as [|d ds Hd _ IH]; [reflexivity|].
  cbn [map digits_of]. rewrite index_alpha by assumption. rewrite IH. reflexivity.
Qed.

Lemma digits_of_some tbl s : forall ds, digits_of tbl s = Some ds ->
  digits_lt (N.of_nat (length tbl)) ds /\ map (alpha_of tbl) ds = s.
Proof.
  induction s as [|c r IH]; intros ds H; cbn [digits_of] in H.
  - inversion H; subst. split; [constructor | reflexivity].
  - destruct (index_of tbl c) as [d|] eqn:E; [|discriminate].
    destruct (digits_of tbl r) as [ds'|]; [|discriminate]. inversion H; subst.
    apply alpha_index in E. destruct E as [E1 E2]. destruct (IH ds' eq_refl) as [I1 I2].
    split; [constructor; assumption|]. cbn [map]. rewrite E2, I2. reflexivity.
Qed.

Lemma digits_of_length tbl s ds : digits_of tbl s = Some ds -> length ds = length s.
Proof. intros H. apply digits_of_some in H. destruct H as [_ <-]. symmetry. apply map_length. Qed.

(* ------------------------------------------------------------------ *)
(* base58btc: mr-tron/base58 FastBase58DecodingAlphabet.

   The Go function: error for the empty string; error for a rune above 127 or a
   character that is no digit of the alphabet; the digits are accumulated into
   ceil(n/4) 32-bit words (the two "output number too big" errors cannot occur:
   n digits denote a number below 58^n < 256^n, and the words hold n bytes);
   the n bytes of the words are written out big endian and the result is the
   slice from (index of the first non-zero byte - number of leading '1's) — the
   number of leading zero bytes among the n is never below the number of leading
   '1's, again because 58 < 256 — i.e. one zero byte per leading '1' followed by
   the minimal big-endian bytes of the number. *)

(* canonical big-endian digits in base 2^w, with shifts (= be_digits (2^w)) *)
Fixpoint be_digits2_go (w : N) (fuel : nat) (n : N) (acc : list N) : list N :=
  match fuel with
  | O => acc
  | S f => if n =? 0 then acc else be_digits2_go w f (N.shiftr n w) (N.land n (N.ones w) :: acc)
  end.
Definition be_digits2 (w : N) (n : N) : list N := be_digits2_go w (N.to_nat (N.size n)) n [].

Lemma be_digits2_eq w n : be_digits2 w n = be_digits (2 ^ w) n.
Proof.
  unfold be_digits2, be_digits. generalize (N.to_nat (N.size n)) as fuel. generalize (@nil N) as acc.
  intros acc fuel. revert n acc. induction fuel as [|f IH]; intros n acc; [reflexivity|].
  cbn [be_digits2_go be_digits_go]. destruct (n =? 0); [reflexivity|].
  rewrite N.shiftr_div_pow2, N.land_ones. unfold N.div, N.modulo.
  destruct (N.div_eucl n (2 ^ w)) as [q r]. cbn [fst snd]. apply IH.
Qed.

Definition b58dec_with (tbl : bstr) (s : bstr) : option bstr :=
  match s with
  | [] => None
  | _ :: _ =>
    match digits_of tbl s with
    | None => None
    | Some ds => Some (repeat 0 (lead0 ds) ++ be_digits2 8 (of_be 58 ds))
    end
  end.

Lemma b58dec_with_spec tbl s : b58dec_with tbl s =
  match s with
  | [] => None
  | _ :: _ =>
    match digits_of tbl s with
    | None => None
    | Some ds => Some (repeat 0 (lead0 ds) ++ be_digits 256 (of_be 58 ds))
    end
  end.
Proof. unfold b58dec_with. destruct s; [reflexivity|]. destruct (digits_of tbl _); [|reflexivity]. rewrite be_digits2_eq. reflexivity. Qed.

Definition b58dec : bstr -> option bstr := b58dec_with tbl_b58.

Lemma lead0_app_zeros z r : hd 1 r <> 0 -> lead0 (repeat 0 z ++ r) = z.
Proof.
  intros H. induction z as [|z IH]; cbn [repeat app lead0].
  - destruct r as [|b r]; [reflexivity|]. cbn [hd] in H. cbn [lead0]. replace (b =? 0) with false by lia. reflexivity.
  - rewrite IH. reflexivity.
Qed.

Lemma map_repeat {A B} (f : A -> B) x n : map f (repeat x n) = repeat (f x) n.
Proof. induction n as [|n IH]; [reflexivity|]. cbn [repeat map]. rewrite IH. reflexivity. Qed.

Lemma bytes_lt_repeat0 z : bytes_lt (repeat 0 z).
Proof. apply Forall_forall. intros x Hx. apply repeat_spec in Hx. subst. reflexivity. Qed.

Lemma b58enc_as_map s :
  b58enc s = map (alpha_of tbl_b58) (repeat 0 (lead0 s) ++ be_digits 58 (of_be 256 s)).
Proof. unfold b58enc. rewrite map_app, map_repeat. reflexivity. Qed.

(* every decoded value is a byte string *)
Theorem b58dec_bytes s b : b58dec s = Some b -> bytes_lt b.
Proof.
  unfold b58dec. rewrite b58dec_with_spec. destruct s as [|c s]; [discriminate|].
  destruct (digits_of tbl_b58 (c :: s)) as [ds|]; [|discriminate]. intros H. inversion H; subst b.
  apply Forall_app. split; [apply bytes_lt_repeat0 | apply be_digits_lt; lia].
Qed.

Lemma b58enc_nonempty b : b <> [] -> b58enc b <> [].
Proof.
  intros Hb E. unfold b58enc in E. apply app_eq_nil in E. destruct E as [E1 E2].
  destruct b as [|x b]; [congruence|].
  cbn [lead0] in E1. destruct (x =? 0) eqn:X0; [discriminate|].
  apply map_eq_nil in E2.
  pose proof (be_digits_sound 58 (of_be 256 (x :: b)) ltac:(lia)) as S. rewrite E2 in S.
  rewrite of_be_cons in S by lia. cbn in S.
  assert (P : 256 ^ N.of_nat (length b) <> 0) by (apply N.pow_nonzero; lia). nia.
Qed.

(* decode (encode b) = b for every non-empty byte string b.  (The empty byte
   string encodes to the empty string, which the Go decoder rejects.) *)
Theorem b58_roundtrip b : bytes_lt b -> b <> [] -> b58dec (b58enc b) = Some b.
Proof.
  intros Hb Hne. unfold b58dec. rewrite b58dec_with_spec.
  destruct (b58enc b) as [|c0 e0] eqn:Ee; [exfalso; revert Ee; apply b58enc_nonempty; exact Hne|].
  rewrite <- Ee. clear c0 e0 Ee.
  rewrite b58enc_as_map.
  rewrite digits_of_map.
  2: reflexivity.
  2: { apply Forall_app. split.
       - apply Forall_forall. intros x Hx. apply repeat_spec in Hx. subst. reflexivity.
       - apply be_digits_lt. lia. }
  rewrite lead0_app_zeros by (apply be_digits_head; lia).
  rewrite of_be_zeros by lia. rewrite be_digits_sound by lia.
  destruct (lead0_split b) as [r [Er Hr]].
  assert (Tr : bytes_lt r) by (rewrite Er in Hb; apply Forall_app in Hb; tauto).
  rewrite Er at 2. rewrite of_be_zeros by lia.
  rewrite be_digits_complete by (try assumption; lia).
  rewrite <- Er. reflexivity.
Qed.

(* the converse: a string decodes only to the byte string whose encoding it is *)
Theorem b58dec_enc s b : b58dec s = Some b -> b58enc b = s.
Proof.
  unfold b58dec. rewrite b58dec_with_spec. destruct s as [|c s]; [discriminate|].
  destruct (digits_of tbl_b58 (c :: s)) as [ds|] eqn:D; [|discriminate]. intros H. inversion H; subst b. clear H.
  apply digits_of_some in D. destruct D as [Dl Dm]. change (N.of_nat (length tbl_b58)) with 58 in Dl.
  rewrite <- Dm. rewrite b58enc_as_map. f_equal.
  rewrite lead0_app_zeros by (apply be_digits_head; lia).
  rewrite of_be_zeros by lia. rewrite be_digits_sound by lia.
  destruct (lead0_split ds) as [r [Er Hr]].
  assert (Tr : digits_lt 58 r) by (rewrite Er in Dl; apply Forall_app in Dl; tauto).
  rewrite Er at 2. rewrite of_be_zeros by lia.
  rewrite be_digits_complete by (try assumption; lia).
  symmetry. exact Er.
Qed.

(* so two different strings never decode to the same bytes *)
Corollary b58dec_inj s1 s2 b : b58dec s1 = Some b -> b58dec s2 = Some b -> s1 = s2.
Proof. intros H1 H2. apply b58dec_enc in H1, H2. congruence. Qed.

(* the domain of the decoder: non-empty strings over the alphabet *)
Theorem b58dec_domain s : (exists b, b58dec s = Some b) <-> s <> [] /\ Forall (fun c => In c tbl_b58) s.
Proof.
  split.
  - intros [b H]. split; [intros ->; discriminate|].
    apply b58dec_enc in H. rewrite <- H. apply b58enc_chars.
  - intros [Hne Hc]. unfold b58dec. rewrite b58dec_with_spec. destruct s as [|c s]; [congruence|].
    assert (D : exists ds, digits_of tbl_b58 (c :: s) = Some ds).
    { clear Hne. induction Hc as [|x l Hx _ IH]; [exists []; reflexivity|].
      destruct IH as [ds IH]. cbn [digits_of]. rewrite IH.
      apply In_nth with (d := 0) in Hx. destruct Hx as [k [Hk Hx]].
      unfold index_of. rewrite <- Hx. rewrite index_from_nth by (try reflexivity; exact Hk).
      eexists. reflexivity. }
    destruct D as [ds ->]. eexists. reflexivity.
Qed.

(* ------------------------------------------------------------------ *)
(* bit-group decoding: k digits of w bits carry floor(k w / 8) bytes;
   the remaining low bits are dropped (the Go decoders are not strict) *)

Definition of_be2 (w : N) (l : list N) : N := fold_left (fun acc d => d + N.shiftl acc w) l 0.

Lemma of_be2_eq w l : of_be2 w l = of_be (2 ^ w) l.
Proof.
  unfold of_be2, of_be. generalize 0 as acc. induction l as [|d l IH]; intros acc; [reflexivity|].
  cbn [fold_left]. rewrite N.shiftl_mul_pow2, (N.mul_comm acc). apply IH.
Qed.

Definition dec_digits (w : nat) (ds : list N) : bstr :=
  let k := length ds in
  let nb := Nat.div (k * w) 8 in
  fixed_be2 8 nb (N.shiftr (of_be2 (N.of_nat w) ds) (N.of_nat (k * w - 8 * nb))) [].

Lemma fixed_be2_bytes k n : bytes_lt (fixed_be2 8 k n []).
Proof.
  rewrite fixed_be2_eq, fixed_be_le, app_nil_r. apply Forall_rev.
  apply (fixed_le_lt (2 ^ 8)). lia.
Qed.

Lemma dec_digits_bytes w ds : bytes_lt (dec_digits w ds).
Proof. unfold dec_digits. apply fixed_be2_bytes. Qed.

Lemma pow2w_ge2 w : (1 <= w)%nat -> 2 <= 2 ^ N.of_nat w.
Proof. intros H. change 2 with (2 ^ 1) at 1. apply N.pow_le_mono_r; lia. Qed.

Lemma nchars_bounds w n : (1 <= w)%nat -> (8 * n <= nchars w n * w < 8 * n + w)%nat.
Proof.
  intros w1. unfold nchars. pose proof (Nat.div_mod (8 * n + (w - 1)) w ltac:(lia)) as D.
  pose proof (Nat.mod_upper_bound (8 * n + (w - 1)) w ltac:(lia)) as U.
  set (q := Nat.div (8 * n + (w - 1)) w) in *. set (r := Nat.modulo (8 * n + (w - 1)) w) in *. nia.
Qed.

Section BitsDec.
  Variable w : nat.
  Hypothesis w1 : (1 <= w)%nat.
  Hypothesis w8 : (w <= 8)%nat.

  (* the digits the encoder produces for s *)
  Definition enc_digits (s : bstr) : list N :=
    fixed_be2 (N.of_nat w) (nchars w (length s)) (N.shiftl (of_be 256 s) (N.of_nat (npad w (length s)))) [].

  Lemma enc_digits_length s : length (enc_digits s) = nchars w (length s).
  Proof. unfold enc_digits. rewrite fixed_be2_eq, fixed_be_le, app_nil_r, rev_length, fixed_le_length. reflexivity. Qed.

  Lemma enc_digits_lt s : digits_lt (2 ^ N.of_nat w) (enc_digits s).
  Proof.
    unfold enc_digits. rewrite fixed_be2_eq, fixed_be_le, app_nil_r. apply Forall_rev.
    apply fixed_le_lt. apply pow2w_ge2. exact w1.
  Qed.

  Lemma enc_digits_value s : bytes_lt s ->
    of_be (2 ^ N.of_nat w) (enc_digits s) = of_be 256 s * 2 ^ N.of_nat (npad w (length s)).
  Proof.
    intros Hs. unfold enc_digits.
    rewrite fixed_be2_eq, fixed_be_le, app_nil_r, of_be_le, rev_involutive, N.shiftl_mul_pow2.
    set (n := length s). set (m := nchars w n). set (p := npad w n).
    apply of_le_fixed; [apply pow2w_ge2; exact w1|].
    assert (P2 : (2 ^ N.of_nat w) ^ N.of_nat m = 256 ^ N.of_nat n * 2 ^ N.of_nat p).
    { change 256 with (2 ^ 8). rewrite <- !N.pow_mul_r, <- N.pow_add_r. f_equal.
      pose proof (nchars_bounds w n w1). unfold p, npad. fold m. lia. }
    rewrite P2. apply N.mul_lt_mono_pos_r; [apply N.neq_0_lt_0, N.pow_nonzero; lia|].
    apply of_be_bound; [lia | exact Hs].
  Qed.

  Theorem dec_enc_digits s : bytes_lt s -> dec_digits w (enc_digits s) = s.
  Proof.
    intros Hs. unfold dec_digits. rewrite enc_digits_length.
    set (n := length s). set (m := nchars w n).
    pose proof (nchars_bounds w n w1) as NS. fold m in NS.
    assert (NB : Nat.div (m * w) 8 = n).
    { symmetry. apply (Nat.div_unique _ _ _ (m * w - 8 * n)); lia. }
    rewrite NB. rewrite of_be2_eq, enc_digits_value by exact Hs. fold n.
    replace (m * w - 8 * n)%nat with (npad w n) by (unfold npad; fold m; lia).
    rewrite N.shiftr_div_pow2, N.div_mul by (apply N.pow_nonzero; lia).
    rewrite fixed_be2_eq, fixed_be_le, app_nil_r. change (2 ^ 8) with 256.
    rewrite of_be_le. unfold n. rewrite <- (rev_length s).
    rewrite fixed_le_of_le by (try lia; apply Forall_rev; exact Hs).
    apply rev_involutive.
  Qed.

  (* the converse, for digit strings the encoder can produce: the right number of
     digits for the bytes they carry and zero bits in the dropped positions *)
  Definition canonical_digits (ds : list N) : Prop :=
    let k := length ds in let nb := Nat.div (k * w) 8 in
    nchars w nb = k /\ of_be (2 ^ N.of_nat w) ds mod 2 ^ N.of_nat (k * w - 8 * nb) = 0.

  Theorem enc_dec_digits ds : digits_lt (2 ^ N.of_nat w) ds -> canonical_digits ds ->
    enc_digits (dec_digits w ds) = ds.
  Proof.
    intros Hd [CK CZ]. unfold enc_digits.
    set (k := length ds) in *. set (nb := Nat.div (k * w) 8) in *. set (p := (k * w - 8 * nb)%nat) in *.
    set (Y := of_be (2 ^ N.of_nat w) ds) in *.
    assert (L : length (dec_digits w ds) = nb).
    { unfold dec_digits. fold k. fold nb. rewrite fixed_be2_eq, fixed_be_le, app_nil_r, rev_length. apply fixed_le_length. }
    rewrite L, CK.
    assert (NP : npad w nb = p) by (unfold npad; rewrite CK; reflexivity).
    rewrite NP.
    pose proof (Nat.div_mod (k * w) 8 ltac:(lia)) as DM. fold nb in DM.
    pose proof (Nat.mod_upper_bound (k * w) 8 ltac:(lia)) as MU.
    assert (YB : Y < 2 ^ N.of_nat (k * w)).
    { unfold Y. pose proof (of_be_bound (2 ^ N.of_nat w) ds (pow2w_ge2 w w1) Hd) as B. fold k in B.
      rewrite <- N.pow_mul_r in B. replace (N.of_nat (k * w)) with (N.of_nat w * N.of_nat k) by lia. exact B. }
    assert (V : of_be 256 (dec_digits w ds) = Y / 2 ^ N.of_nat p).
    { unfold dec_digits. fold k. fold nb. fold p. rewrite of_be2_eq. fold Y.
      rewrite fixed_be2_eq, fixed_be_le, app_nil_r, of_be_le, rev_involutive, N.shiftr_div_pow2.
      change (2 ^ 8) with 256. apply of_le_fixed; [lia|].
      apply N.div_lt_upper_bound; [apply N.pow_nonzero; lia|].
      change 256 with (2 ^ 8). rewrite <- N.pow_mul_r, <- N.pow_add_r.
      replace (N.of_nat p + 8 * N.of_nat nb) with (N.of_nat (k * w)) by lia. exact YB. }
    rewrite V, N.shiftl_mul_pow2.
    assert (E : Y / 2 ^ N.of_nat p * 2 ^ N.of_nat p = Y).
    { pose proof (N.div_mod' Y (2 ^ N.of_nat p)) as D. rewrite CZ in D. lia. }
    rewrite E. rewrite fixed_be2_eq, fixed_be_le, app_nil_r.
    unfold Y. rewrite of_be_le. unfold k. rewrite <- (rev_length ds).
    rewrite fixed_le_of_le by (try (apply pow2w_ge2; exact w1); apply Forall_rev; exact Hd).
    apply rev_involutive.
  Qed.
End BitsDec.

Lemma enc_bits_digits w tbl s : enc_bits w tbl s = map (alpha_of tbl) (enc_digits w s).
Proof. reflexivity. Qed.

(* ------------------------------------------------------------------ *)
(* encoding/base64                                                     *)

(* '\r' and '\n' are skipped wherever they occur *)
Definition is_nl (c : N) : bool := (c =? 10) || (c =? 13).
Definition strip_nl (s : bstr) : bstr := filter (fun c => negb (is_nl c)) s.

Definition b64_body (tbl : bstr) (s : bstr) : option bstr :=
  match digits_of tbl s with Some ds => Some (dec_digits 6 ds) | None => None end.

(* RawStdEncoding / RawURLEncoding (NoPadding): every character a digit ('=' is none),
   a final group of 2 or 3 characters carries 1 or 2 bytes, a single character is an error *)
Definition b64raw_dec (tbl : bstr) (s : bstr) : option bstr :=
  let s' := strip_nl s in
  if (Nat.modulo (length s') 4 =? 1)%nat then None else b64_body tbl s'.

(* StdEncoding / URLEncoding ('=' padding): groups of four; the last group may be
   xx== or xxx=; nothing may follow the padding *)
Definition strip1 (s : bstr) : bstr := if last s 0 =? 61 then removelast s else s.
Definition b64pad_dec (tbl : bstr) (s : bstr) : option bstr :=
  let s' := strip_nl s in
  if (Nat.modulo (length s') 4 =? 0)%nat then b64_body tbl (strip1 (strip1 s')) else None.

(* the padded encoder: StdEncoding.EncodeToString *)
Definition padn (m : nat) : nat := Nat.modulo (4 - Nat.modulo m 4) 4.
Definition b64pad_with (tbl : bstr) (s : bstr) : bstr :=
  let e := enc_bits 6 tbl s in e ++ repeat 61 (padn (length e)).
Definition b64pad (s : bstr) : bstr := b64pad_with tbl_b64std s.

Definition tbl_ok (tbl : bstr) : bool :=
  nodupN tbl && (length tbl =? 64)%nat && forallb (fun c => negb (is_nl c) && negb (c =? 61)) tbl.

Lemma strip_nl_id s : Forall (fun c => is_nl c = false) s -> strip_nl s = s.
Proof.
  induction 1 as [|c s Hc _ IH]; [reflexivity|]. unfold strip_nl in *. cbn [filter]. rewrite Hc. cbn [negb]. rewrite IH. reflexivity.
Qed.

Lemma last_in {A} (l : list A) d : l <> [] -> In (last l d) l.
Proof.
  intros H. destruct (exists_last H) as [l' [a ->]]. rewrite last_last. apply in_or_app. right. left. reflexivity.
Qed.

Section B64.
  Variable tbl : bstr.
  Hypothesis tbl_good : tbl_ok tbl = true.

  Lemma tbl_nodup : nodupN tbl = true.
  Proof. unfold tbl_ok in tbl_good. rewrite !andb_true_iff in tbl_good. tauto. Qed.
  Lemma tbl_len : N.of_nat (length tbl) = 2 ^ N.of_nat 6.
  Proof. unfold tbl_ok in tbl_good. rewrite !andb_true_iff in tbl_good. destruct tbl_good as [[_ L] _]. apply Nat.eqb_eq in L. rewrite L. reflexivity. Qed.
  Lemma tbl_char c : In c tbl -> is_nl c = false /\ c <> 61.
  Proof.
    unfold tbl_ok in tbl_good. rewrite !andb_true_iff in tbl_good. destruct tbl_good as [_ F].
    rewrite forallb_forall in F. intros H. apply F in H. rewrite andb_true_iff, !negb_true_iff in H.
    destruct H as [H1 H2]. split; [exact H1 | lia].
  Qed.

  Lemma body_enc s : bytes_lt s -> b64_body tbl (enc_bits 6 tbl s) = Some s.
  Proof.
    intros Hs. unfold b64_body. rewrite enc_bits_digits, digits_of_map.
    - rewrite dec_enc_digits by (try lia; exact Hs). reflexivity.
    - apply tbl_nodup.
    - rewrite tbl_len. apply enc_digits_lt. lia.
  Qed.

  Lemma enc_chars s : Forall (fun c => In c tbl) (enc_bits 6 tbl s).
  Proof. apply enc_bits_chars; try lia; [apply tbl_len | apply tbl_nodup]. Qed.

  Lemma enc_no_nl s : Forall (fun c => is_nl c = false) (enc_bits 6 tbl s).
  Proof. eapply Forall_impl; [|apply enc_chars]. intros c H. apply tbl_char in H. tauto. Qed.

  Lemma enc_last s : last (enc_bits 6 tbl s) 0 <> 61.
  Proof.
    destruct (enc_bits 6 tbl s) as [|c e] eqn:E; [cbn; lia|].
    assert (I : In (last (c :: e) 0) (c :: e)) by (apply last_in; discriminate).
    rewrite <- E in I at 2. pose proof (enc_chars s) as F. rewrite Forall_forall in F.
    apply F in I. apply tbl_char in I. tauto.
  Qed.

  Lemma enc_len_mod s : Nat.modulo (length (enc_bits 6 tbl s)) 4 <> 1%nat.
  Proof.
    rewrite enc_bits_length. set (n := length s).
    pose proof (nchars_bounds 6 n ltac:(lia)) as NS. set (m := nchars 6 n) in *.
    pose proof (Nat.div_mod m 4 ltac:(lia)) as DM. intros E. rewrite E in DM. lia.
  Qed.

  Theorem b64raw_roundtrip s : bytes_lt s -> b64raw_dec tbl (enc_bits 6 tbl s) = Some s.
  Proof.
    intros Hs. unfold b64raw_dec. rewrite strip_nl_id by apply enc_no_nl.
    pose proof (enc_len_mod s) as M. apply Nat.eqb_neq in M. rewrite M. apply body_enc. exact Hs.
  Qed.

  Lemma strip1_id e : last e 0 <> 61 -> strip1 e = e.
  Proof. intros H. unfold strip1. replace (last e 0 =? 61) with false by lia. reflexivity. Qed.
  Lemma strip1_pad e : strip1 (e ++ [61]) = e.
  Proof. unfold strip1. rewrite last_last, N.eqb_refl. apply removelast_app_one. Qed.

  Theorem b64pad_roundtrip s : bytes_lt s -> b64pad_dec tbl (b64pad_with tbl s) = Some s.
  Proof.
    intros Hs. unfold b64pad_dec, b64pad_with.
    set (e := enc_bits 6 tbl s).
    assert (NL : Forall (fun c => is_nl c = false) (e ++ repeat 61 (padn (length e)))).
    { apply Forall_app. split; [apply enc_no_nl|]. apply Forall_forall. intros c Hc. apply repeat_spec in Hc. subst. reflexivity. }
    rewrite strip_nl_id by exact NL. clear NL.
    pose proof (enc_len_mod s) as M1. fold e in M1. pose proof (enc_last s) as EL. fold e in EL.
    pose proof (body_enc s Hs) as BE. fold e in BE.
    rewrite app_length, repeat_length. unfold padn.
    pose proof (Nat.div_mod (length e) 4 ltac:(lia)) as DM.
    pose proof (Nat.mod_upper_bound (length e) 4 ltac:(lia)) as MU.
    set (q := Nat.div (length e) 4) in *. set (r := Nat.modulo (length e) 4) in *.
    destruct r as [|[|[|[|r]]]]; try lia.
    - change (Nat.modulo (4 - 0) 4) with 0%nat. cbn [repeat]. rewrite app_nil_r, Nat.add_0_r.
      rewrite DM. replace (4 * q + 0)%nat with (q * 4)%nat by lia. rewrite Nat.mod_mul by lia. cbn [Nat.eqb].
      rewrite (strip1_id e EL), (strip1_id e EL). exact BE.
    - change (Nat.modulo (4 - 2) 4) with 2%nat. cbn [repeat].
      rewrite DM. replace (4 * q + 2 + 2)%nat with ((q + 1) * 4)%nat by lia. rewrite Nat.mod_mul by lia. cbn [Nat.eqb].
      change (e ++ [61; 61]) with (e ++ [61] ++ [61]). rewrite app_assoc, !strip1_pad. exact BE.
    - change (Nat.modulo (4 - 3) 4) with 1%nat. cbn [repeat].
      rewrite DM. replace (4 * q + 3 + 1)%nat with ((q + 1) * 4)%nat by lia. rewrite Nat.mod_mul by lia. cbn [Nat.eqb].
      rewrite strip1_pad, (strip1_id e EL). exact BE.
  Qed.

  Lemma b64_body_bytes s b : b64_body tbl s = Some b -> bytes_lt b.
  Proof. unfold b64_body. destruct (digits_of tbl s); [|discriminate]. intros H. inversion H. apply dec_digits_bytes. Qed.

  Theorem b64raw_dec_bytes s b : b64raw_dec tbl s = Some b -> bytes_lt b.
  Proof. unfold b64raw_dec. destruct (_ =? 1)%nat; [discriminate|]. apply b64_body_bytes. Qed.
  Theorem b64pad_dec_bytes s b : b64pad_dec tbl s = Some b -> bytes_lt b.
  Proof. unfold b64pad_dec. destruct (_ =? 0)%nat; [|discriminate]. apply b64_body_bytes. Qed.

  (* converse for the unpadded form: a string without line breaks whose dropped
     bits are zero decodes only to the bytes whose encoding it is *)
  Definition b64_canonical (s : bstr) : Prop :=
    strip_nl s = s /\ match digits_of tbl s with Some ds => canonical_digits 6 ds | None => False end.

  Theorem b64raw_dec_enc s b : b64_canonical s -> b64raw_dec tbl s = Some b -> enc_bits 6 tbl b = s.
  Proof.
    intros [NL C] H. unfold b64raw_dec in H. rewrite NL in H.
    destruct (_ =? 1)%nat; [discriminate|]. unfold b64_body in H.
    destruct (digits_of tbl s) as [ds|] eqn:D; [|discriminate]. inversion H; subst b. clear H.
    apply digits_of_some in D. destruct D as [Dl Dm]. rewrite tbl_len in Dl.
    rewrite enc_bits_digits, enc_dec_digits by (try lia; assumption). exact Dm.
  Qed.

  (* ... and for the padded form (the form of key strings) *)
  Definition b64pad_canonical (s : bstr) : Prop :=
    strip_nl s = s /\
    match digits_of tbl (strip1 (strip1 s)) with Some ds => canonical_digits 6 ds | None => False end.

  Lemma strip1_cases l : (strip1 l = l /\ last l 0 <> 61) \/ (exists l', l = l' ++ [61] /\ strip1 l = l').
  Proof.
    unfold strip1. destruct (last l 0 =? 61) eqn:E.
    - right. apply N.eqb_eq in E. destruct l as [|x l]; [cbn in E; lia|].
      destruct (@exists_last _ (x :: l) ltac:(discriminate)) as [l' [a Ea]]. rewrite Ea in *.
      rewrite last_last in E. subst a. exists l'. split; [reflexivity | apply removelast_app_one].
    - left. split; [reflexivity | lia].
  Qed.

  Lemma padn_of_len n j : (j <= 2)%nat -> Nat.modulo (n + j) 4 = 0%nat -> Nat.modulo n 4 <> 1%nat -> padn n = j.
  Proof.
    intros Hj M N1. unfold padn.
    pose proof (Nat.div_mod n 4 ltac:(lia)) as D1. pose proof (Nat.mod_upper_bound n 4 ltac:(lia)) as U1.
    pose proof (Nat.div_mod (n + j) 4 ltac:(lia)) as D2. rewrite M in D2.
    set (q := Nat.div n 4) in *. set (r := Nat.modulo n 4) in *. set (q' := Nat.div (n + j) 4) in *.
    destruct r as [|[|[|[|r]]]]; try lia; destruct j as [|[|[|j]]]; try lia; reflexivity.
  Qed.

  Theorem b64pad_dec_enc s b : b64pad_canonical s -> b64pad_dec tbl s = Some b -> b64pad_with tbl b = s.
  Proof.
    intros [NL C] H. unfold b64pad_dec in H. rewrite NL in H.
    destruct (Nat.modulo (length s) 4 =? 0)%nat eqn:M; [|discriminate]. apply Nat.eqb_eq in M.
    unfold b64_body in H. set (body := strip1 (strip1 s)) in *.
    destruct (digits_of tbl body) as [ds|] eqn:D; [|discriminate]. inversion H; subst b. clear H.
    pose proof (digits_of_length _ _ _ D) as DL.
    apply digits_of_some in D. destruct D as [Dl Dm]. rewrite tbl_len in Dl.
    assert (E : enc_bits 6 tbl (dec_digits 6 ds) = body).
    { rewrite enc_bits_digits, enc_dec_digits by (try lia; assumption). exact Dm. }
    unfold b64pad_with. rewrite E.
    (* the digits are as many as an encoding has: never 1 mod 4 *)
    assert (K1 : Nat.modulo (length body) 4 <> 1%nat).
    { rewrite <- E. apply enc_len_mod. }
    destruct (strip1_cases s) as [[S1 L1]|[l1 [E1 S1]]].
    - assert (B : body = s) by (unfold body; rewrite S1; exact S1).
      rewrite B in *. rewrite (padn_of_len (length s) 0); [apply app_nil_r | lia | rewrite Nat.add_0_r; exact M | exact K1].
    - destruct (strip1_cases l1) as [[S2 L2]|[l2 [E2 S2]]].
      + assert (B : body = l1) by (unfold body; rewrite S1; exact S2).
        rewrite B in *. rewrite (padn_of_len (length l1) 1); [symmetry; exact E1 | lia | | exact K1].
        rewrite E1, app_length in M. exact M.
      + assert (B : body = l2) by (unfold body; rewrite S1; exact S2).
        rewrite B in *. rewrite (padn_of_len (length l2) 2); [| lia | | exact K1].
        * rewrite E1, E2, <- app_assoc. reflexivity.
        * rewrite E1, E2, !app_length in M. cbn [length] in M. rewrite <- Nat.add_assoc in M. exact M.
  Qed.
End B64.

Lemma tbl_b64std_ok : tbl_ok tbl_b64std = true. Proof. reflexivity. Qed.
Lemma tbl_b64url_ok : tbl_ok tbl_b64url = true. Proof. reflexivity. Qed.

(* non-strictness: the Go decoders accept line breaks anywhere and non-zero dropped
   bits, so different strings decode to the same bytes *)
Example b64pad_dec_not_injective :
  b64pad_dec tbl_b64std (bs "TQ==") = Some [77] /\ b64pad_dec tbl_b64std (bs "TR==") = Some [77] /\
  b64pad_dec tbl_b64std [84; 10; 81; 13; 61; 61; 10] = Some [77] /\
  b64pad (bs "M") = bs "TQ==".
Proof. vm_compute. repeat split. Qed.

(* ------------------------------------------------------------------ *)
(* encoding/hex DecodeString (both cases, even length)                 *)

Definition hexdigit (c : N) : option N :=
  if (48 <=? c) && (c <=? 57) then Some (c - 48)
  else if (97 <=? c) && (c <=? 102) then Some (c - 87)
  else if (65 <=? c) && (c <=? 70) then Some (c - 55)
  else None.

Fixpoint hex_dec (s : bstr) : option bstr :=
  match s with
  | [] => Some []
  | [_] => None
  | a :: b :: r =>
    match hexdigit a, hexdigit b, hex_dec r with
    | Some x, Some y, Some t => Some (16 * x + y :: t)
    | _, _, _ => None
    end
  end.

Lemma hexdigit_lt c x : hexdigit c = Some x -> x < 16.
Proof.
  unfold hexdigit. destruct ((48 <=? c) && (c <=? 57)) eqn:E1; [intros H; inversion H; lia|].
  destruct ((97 <=? c) && (c <=? 102)) eqn:E2; [intros H; inversion H; lia|].
  destruct ((65 <=? c) && (c <=? 70)) eqn:E3; [intros H; inversion H; lia|]. discriminate.
Qed.

Lemma hex_dec_bytes s b : hex_dec s = Some b -> bytes_lt b.
Proof.
  revert b. assert (P : (forall b, hex_dec s = Some b -> bytes_lt b) /\ (forall a b, hex_dec (a :: s) = Some b -> bytes_lt b)).
  { induction s as [|y t [IH1 IH2]].
    - split; [intros b H; inversion H; constructor | intros a b H; discriminate].
    - split; [apply IH2|]. intros a b H. cbn [hex_dec] in H.
      destruct (hexdigit a) as [hx|] eqn:Hx; [|discriminate]. destruct (hexdigit y) as [hy|] eqn:Hy; [|discriminate].
      destruct (hex_dec t) as [t'|] eqn:Ht; [|discriminate].
      assert (Eb : b = 16 * hx + hy :: t') by congruence. subst b. clear H.
      apply hexdigit_lt in Hx, Hy. constructor; [cbn beta; lia | apply IH1; reflexivity]. }
  apply P.
Qed.

(* ------------------------------------------------------------------ *)
(* multiformats/go-base32 RawStdEncoding / RawHexEncoding (case-insensitive, NoPadding),
   DecodeString: line breaks dropped; every character a digit; a final group of
   2, 4, 5, 7 characters carries 1, 2, 3, 4 bytes; a final group of 1, 3 or 6
   characters is read and carries NOTHING (the library's switch has no case for them) *)

Definition tbl_b32up : bstr := bs "ABCDEFGHIJKLMNOPQRSTUVWXYZ234567".
Definition tbl_b32hexup : bstr := bs "0123456789ABCDEFGHIJKLMNOPQRSTUV".
Definition to_upper (c : N) : N := if (97 <=? c) && (c <=? 122) then c - 32 else c.

Definition b32raw_dec (tbl : bstr) (s : bstr) : option bstr :=
  match digits_of tbl (map to_upper (strip_nl s)) with
  | None => None
  | Some ds =>
    let k := length ds in
    let r := Nat.modulo k 8 in
    let ds' := if (r =? 3)%nat || (r =? 6)%nat then firstn (k - r) ds else ds in
    Some (dec_digits 5 ds')
  end.

(* ------------------------------------------------------------------ *)
(* multibase.Decode: the bytes it returns (None = error).

   Modelled prefixes: \x00 identity, f F base16, b B base32, v V base32hex,
   z base58btc, Z base58flickr, m base64, u base64url, M base64pad, U base64urlpad.
   NOT modelled (the model answers None; mb_modelled says so): 0 base2,
   c C t T padded base32, k K base36, the base256emoji rocket.  Every other first
   rune is "unsupported encoding" in Go: None. *)

Definition tbl_b58flickr : bstr := bs "123456789abcdefghijkmnopqrstuvwxyzABCDEFGHJKLMNPQRSTUVWXYZ".

Definition mb_decode (s : bstr) : option bstr :=
  match s with
  | [] => None
  | c :: r =>
    if c =? 0 then Some r
    else if (c =? 102) || (c =? 70) then hex_dec r
    else if (c =? 98) || (c =? 66) then b32raw_dec tbl_b32up r
    else if (c =? 118) || (c =? 86) then b32raw_dec tbl_b32hexup r
    else if c =? 122 then b58dec r
    else if c =? 90 then b58dec_with tbl_b58flickr r
    else if c =? 109 then b64raw_dec tbl_b64std r
    else if c =? 117 then b64raw_dec tbl_b64url r
    else if c =? 77 then b64pad_dec tbl_b64std r
    else if c =? 85 then b64pad_dec tbl_b64url r
    else None
  end.

Definition mb_modelled (s : bstr) : bool :=
  match s with
  | [] => true
  | c :: _ =>
    negb (existsb (N.eqb c) [48; 99; 67; 116; 84; 107; 75]) && negb (prefixb [240; 159; 154; 128] s)
  end.

(* multibase.Encode(Base64pad, b): what signer.Format prints *)
Definition mb64enc (b : bstr) : bstr := 77 :: b64pad b.

(* a canonical key string (no line break, dropped bits zero) decodes only to the bytes
   whose Format it is *)
Theorem mb64_dec_enc s b : b64pad_canonical tbl_b64std s -> mb_decode (77 :: s) = Some b -> mb64enc b = 77 :: s.
Proof.
  intros C H. unfold mb_decode in H. cbn [N.eqb Pos.eqb orb] in H. unfold mb64enc, b64pad. f_equal.
  apply (b64pad_dec_enc tbl_b64std tbl_b64std_ok); assumption.
Qed.

Example b64pad_canonical_ex :
  b64pad_canonical tbl_b64std (bs "Zm9vIQ==") /\ mb_decode (bs "MZm9vIQ==") = Some (bs "foo!") /\
  ~ b64pad_canonical tbl_b64std (bs "Zm9vIR==") /\ mb_decode (bs "MZm9vIR==") = Some (bs "foo!").
Proof.
  split; [split; [reflexivity | vm_compute; split; reflexivity]|].
  split; [vm_compute; reflexivity|]. split; [|vm_compute; reflexivity].
  intros [_ C]. vm_compute in C. destruct C as [_ C]. discriminate.
Qed.

Theorem mb_roundtrip b : bytes_lt b -> mb_decode (mb64enc b) = Some b.
Proof. intros H. unfold mb_decode, mb64enc. cbn [N.eqb Pos.eqb orb]. apply b64pad_roundtrip; [reflexivity | exact H]. Qed.

(* whatever multibase.Decode returns for a byte string is a byte string *)
Theorem mb_decode_bytes s b : bytes_lt s -> mb_decode s = Some b -> bytes_lt b.
Proof.
  intros Hs. unfold mb_decode. destruct s as [|c r]; [discriminate|].
  assert (Hr : bytes_lt r) by (inversion Hs; assumption).
  destruct (c =? 0); [intros H; inversion H; subst; exact Hr|].
  destruct ((c =? 102) || (c =? 70)); [apply hex_dec_bytes|].
  destruct ((c =? 98) || (c =? 66)).
  { unfold b32raw_dec. destruct (digits_of _ _); [|discriminate]. intros H. inversion H. apply dec_digits_bytes. }
  destruct ((c =? 118) || (c =? 86)).
  { unfold b32raw_dec. destruct (digits_of _ _); [|discriminate]. intros H. inversion H. apply dec_digits_bytes. }
  destruct (c =? 122); [apply b58dec_bytes|].
  destruct (c =? 90).
  { rewrite b58dec_with_spec. destruct r as [|c0 r0]; [discriminate|]. destruct (digits_of _ _); [|discriminate].
    intros H. inversion H. apply Forall_app. split; [apply bytes_lt_repeat0 | apply be_digits_lt; lia]. }
  destruct (c =? 109); [apply b64raw_dec_bytes|].
  destruct (c =? 117); [apply b64raw_dec_bytes|].
  destruct (c =? 77); [apply b64pad_dec_bytes|].
  destruct (c =? 85); [apply b64pad_dec_bytes|].
  discriminate.
Qed.

Example base_dec_examples :
  b58dec (bs "2NEpo7TZRRrLZSi2U") = Some (bs "Hello World!") /\ b58dec (bs "1145k") = Some [0; 0; 40; 127] /\
  b58dec [] = None /\ b58dec (bs "1") = Some [0] /\ b58dec (bs "111") = Some [0; 0; 0] /\
  b58dec (bs "0") = None /\ b58dec (bs "O") = None /\ b58dec (bs "I") = None /\ b58dec (bs "l") = None /\
  b58dec (bs "2 ") = None /\ b58dec [50; 200] = None /\
  mb_decode (bs "?m9v") = None /\ mb_decode (bs "MZm9v") = Some (bs "foo") /\ mb_decode (bs "MZm8=") = Some (bs "fo") /\
  mb_decode (bs "MZm8") = None /\ mb_decode (bs "mZm8") = Some (bs "fo") /\ mb_decode (bs "mZm8=") = None /\
  mb_decode (bs "MZg==") = Some (bs "f") /\ mb_decode (bs "MZg=") = None /\ mb_decode (bs "MZ===") = None /\
  mb_decode (bs "M-_8=") = None /\ mb_decode (bs "U-_8=") = Some [251; 255] /\ mb_decode (bs "u-_8") = Some [251; 255] /\
  mb_decode (bs "bmzxw6ytboi") = Some (bs "foobar") /\ mb_decode (bs "BMZXW6YTBOI") = Some (bs "foobar") /\
  mb_decode (bs "bmzx") = Some [] /\ mb_decode (bs "bmy") = Some (bs "f") /\ mb_decode (bs "f666F6f") = Some (bs "foo") /\ mb_decode (bs "f666") = None /\
  mb_decode (bs "z2NEpo7TZRRrLZSi2U") = Some (bs "Hello World!") /\ mb_decode (bs "z") = None /\ mb_decode (bs "M") = Some [] /\
  mb_decode [] = None /\ mb_decode (bs "x") = None /\ mb_decode [0; 1; 2] = Some [1; 2].
Proof. vm_compute. repeat split. Qed.
