(* VarintMore.v — additional facts about the LEB128 model of Varint.v:
   byte-range predicate, canonical form of everything the reader accepts
   (FromUvarint / ReadUvarint accept exactly the minimal encodings below 2^63),
   and the "value or 0" reading used by signature.Code / Size. *)
From Ucanto Require Import Base Varint.
From Coq Require Import ZifyBool ZifyN ZifyNat.
Open Scope N_scope.

(* Go bytes are < 256; the reader model of Varint.v (b - 128 for b & 0x7f) is
   exact on such lists only *)
Definition bytes_ok (b : bstr) : Prop := Forall (fun x => x < 256) b.
Definition bytes_okb (b : bstr) : bool := forallb (fun x => x <? 256) b.

Lemma bytes_okb_ok b : bytes_okb b = true <-> bytes_ok b.
Proof.
  unfold bytes_okb, bytes_ok. rewrite forallb_forall, Forall_forall.
  split; intros H x Hx; specialize (H x Hx); lia.
Qed.

Lemma bytes_ok_app a b : bytes_ok (a ++ b) <-> bytes_ok a /\ bytes_ok b.
Proof. apply Forall_app. Qed.

Lemma bytes_ok_skipn n b : bytes_ok b -> bytes_ok (skipn n b).
Proof.
  intros H. rewrite <- (firstn_skipn n b) in H. apply bytes_ok_app in H. tauto.
Qed.

Lemma bytes_ok_firstn n b : bytes_ok b -> bytes_ok (firstn n b).
Proof.
  intros H. rewrite <- (firstn_skipn n b) in H. apply bytes_ok_app in H. tauto.
Qed.

Lemma enc_fuel_mono f : forall g k,
  k < 128 ^ N.of_nat (S f) -> (f <= g)%nat -> enc_fuel g k = enc_fuel f k.
Proof.
  induction f as [|f IH]; intros g k Hk Hg.
  - change (128 ^ N.of_nat 1) with 128 in Hk. destruct g; cbn [enc_fuel].
    + reflexivity.
    + replace (k <? 128) with true by lia. rewrite N.mod_small by lia. reflexivity.
  - destruct g as [|g]; [lia|]. cbn [enc_fuel]. destruct (k <? 128); [reflexivity|].
    f_equal. apply IH; [|lia]. rewrite pow128_S in Hk. apply N.div_lt_upper_bound; lia.
Qed.

Lemma uvarint_enc8 n : n < 2 ^ 63 -> uvarint n = enc_fuel 8 n.
Proof.
  intros H. unfold uvarint. apply enc_fuel_mono; [|lia].
  change (128 ^ N.of_nat 9) with (2 ^ 63). exact H.
Qed.

Lemma uvarint_bytes_ok n : n < 2 ^ 63 -> bytes_ok (uvarint n).
Proof.
  intros H. rewrite uvarint_enc8 by exact H. apply enc_fuel_bytes.
  change (128 ^ N.of_nat 9) with (2 ^ 63). exact H.
Qed.

(* everything the reader accepts is a minimal encoding *)
Lemma dec_canonical : forall buf f i x m v k,
  bytes_ok buf -> (i + f = 8)%nat ->
  dec buf i x m = inr (v, k) ->
  exists n, v = x + n * m /\ (0 < n \/ i = 0%nat) /\ n < 128 ^ N.of_nat (S f) /\
            (i <= k)%nat /\ firstn (k - i) buf = enc_fuel f n /\
            (k - i <= length buf)%nat /\ (k - i)%nat = length (enc_fuel f n).
Proof.
  induction buf as [|b r IH]; intros f i x m v k Hb Hf H; cbn [dec] in H; [discriminate|].
  inversion Hb as [|b' r' Hb0 Hbr]; subst b' r'.
  destruct (((i =? 8)%nat && (128 <=? b)) || (9 <=? i)%nat) eqn:Eo; [discriminate|].
  destruct (b <? 128) eqn:Eb.
  - destruct ((b =? 0) && (0 <? i)%nat) eqn:Ez; [discriminate|].
    inversion H; subst v k; clear H.
    exists b. replace (S i - i)%nat with 1%nat by lia.
    assert (E : enc_fuel f b = [b]).
    { destruct f; cbn [enc_fuel]; [rewrite N.mod_small by lia; reflexivity|].
      rewrite Eb. reflexivity. }
    rewrite E. cbn [firstn length].
    repeat split; try lia.
    rewrite pow128_S. assert (0 < 128 ^ N.of_nat f) by (apply N.neq_0_lt_0, N.pow_nonzero; lia). nia.
  - destruct f as [|f]; [lia|].
    apply IH with (f := f) in H; [|exact Hbr|lia].
    destruct H as [n' [Hv [Hn' [Hlt [Hk [Hfst [Hlen Hlen2]]]]]]].
    exists (b - 128 + 128 * n').
    assert (Hmod : (b - 128 + 128 * n') mod 128 = b - 128).
    { rewrite N.mul_comm, N.mod_add by lia. apply N.mod_small. lia. }
    assert (Hdiv : (b - 128 + 128 * n') / 128 = n').
    { rewrite N.mul_comm, N.div_add by lia. rewrite N.div_small by lia. lia. }
    assert (Hpos : 0 < n') by lia.
    replace (k - i)%nat with (S (k - S i)) by lia.
    cbn [enc_fuel firstn length].
    replace (b - 128 + 128 * n' <? 128) with false by lia.
    rewrite Hmod, Hdiv. replace (b - 128 + 128) with b by lia.
    repeat split; try lia.
    + rewrite (pow128_S (S f)). lia.
    + rewrite Hfst. reflexivity.
    + cbn [length]. lia.
Qed.

Theorem from_uvarint_canonical buf v k :
  bytes_ok buf -> from_uvarint buf = inr (v, k) ->
  v < 2 ^ 63 /\ k = uvarint_size v /\ (k <= length buf)%nat /\ buf = uvarint v ++ skipn k buf.
Proof.
  intros Hb H. unfold from_uvarint in H.
  apply dec_canonical with (f := 8%nat) in H; [|exact Hb|lia].
  destruct H as [n [Hv [_ [Hlt [_ [Hfst [Hlen Hlen2]]]]]]].
  rewrite N.mul_1_r, N.add_0_l in Hv. subst n.
  rewrite Nat.sub_0_r in *.
  change (128 ^ N.of_nat 9) with (2 ^ 63) in Hlt.
  rewrite <- uvarint_enc8 in Hfst, Hlen2 by exact Hlt.
  repeat split; try assumption.
  rewrite <- Hfst. symmetry. apply firstn_skipn.
Qed.

Corollary read_uvarint_canonical buf v rest :
  bytes_ok buf -> read_uvarint buf = Some (v, rest) -> v < 2 ^ 63 /\ buf = uvarint v ++ rest.
Proof.
  intros Hb H. unfold read_uvarint in H.
  destruct (from_uvarint buf) as [e|[v' k]] eqn:E; [discriminate|].
  inversion H; subst v' rest; clear H.
  apply from_uvarint_canonical in E; [|exact Hb]. tauto.
Qed.

(* `c, _ := varint.ReadUvarint(...)`: the value, or 0 on any error *)
Definition read_or0 (b : bstr) : N :=
  match from_uvarint b with inr (v, _) => v | inl _ => 0 end.

Lemma read_or0_uvarint n rest : n < 2 ^ 63 -> read_or0 (uvarint n ++ rest) = n.
Proof. intros H. unfold read_or0. rewrite from_uvarint_uvarint by exact H. reflexivity. Qed.

Lemma read_or0_lt b : bytes_ok b -> read_or0 b < 2 ^ 63.
Proof.
  intros Hb. unfold read_or0. destruct (from_uvarint b) as [e|[v k]] eqn:E; [reflexivity|].
  apply from_uvarint_canonical in E; tauto.
Qed.

Lemma uvarint_size_pos n : (1 <= uvarint_size n)%nat.
Proof.
  unfold uvarint_size. pose proof (uvarint_nonempty n). destruct (uvarint n); [congruence|cbn; lia].
Qed.

(* two-byte tags (all multicodec codes used by the principals are in this range) *)
Lemma uvarint_two n : 128 <= n < 16384 -> uvarint n = [n mod 128 + 128; n / 128].
Proof.
  intros H. unfold uvarint. cbn [enc_fuel].
  replace (n <? 128) with false by lia.
  assert (n / 128 < 128) by (apply N.div_lt_upper_bound; lia).
  replace (n / 128 <? 128) with true by lia. reflexivity.
Qed.
