(* C18 — Stored tokens, archives and keys stay readable and valid; the formats do not drift.
   This file contains only the property theorems.  The model's encoders are the FORMAT
   SPECIFICATION: the golden corpus recorded from the pinned (repaired) tree is reproduced
   byte for byte by these encoders on every run (check_tokens / check_receipts /
   check_messages / check_archives / Car.car_encode), the implementation is re-executed and
   compared with the same corpus, and coqgen/Tie_Consts.v proves that the layouts and
   constants below are the ones `harness extract` reads from the IPLD schemas and Go constants
   of the current source.  The theorems say what that specification guarantees for EVERY
   stored artefact, not only the recorded ones. *)
From Ucanto Require Import Base Varint Ipld Cbor Cid Car Formats ReceiptFormat Blockstore MessageFormat
     Signing FormatSpec StoredFormats.
Open Scope N_scope.

(* A stored delegation archive (CARv1 written by Archive) decodes to its root and exactly its
   blocks, the root block names the same link, and the token block reads back to the same
   fields and signature bytes (caveats and facts in canonical map order). *)
Theorem C18_stored_archive_readable :
  forall mh_digest hdr_oracle (others : list block) (l : bstr) (t : utoken) (vc : bstr),
  roots_ok 1 [vc] -> Forall (block_ok mh_digest) (archive_blocks others l t vc) ->
  wf_ipld (token_ipld t) = true -> in_budget (token_ipld t) = true ->
  wf_ipld (archive_ipld l) = true -> in_budget (archive_ipld l) = true ->
  car_decode mh_digest true hdr_oracle (archive_car others l t vc)
    = (HdrOk [vc], map item_of_block (archive_blocks others l t vc)) /\
  (v <- cbor_decode_all (cbor_encode (archive_ipld l)) ;; archive_of_ipld v) = Some l /\
  token_decode (token_bytes t) = Some (canon_token t).
Proof. exact stored_archive_readable. Qed.
Print Assumptions C18_stored_archive_readable.

(* The stored bytes determine the token: two tokens with the same block bytes (hence the same
   CID) have the same fields and signature; conversely the bytes — and with them the CID — are
   a function of the fields alone, so re-issuing from the same key and fields reproduces them. *)
Theorem C18_bytes_determine_token : forall a b,
  wf_ipld (token_ipld a) = true -> wf_ipld (token_ipld b) = true ->
  token_bytes a = token_bytes b -> canon_token a = canon_token b.
Proof. exact token_bytes_inj. Qed.
Print Assumptions C18_bytes_determine_token.

(* a stored token that verified still verifies after it has been read back (the reader
   returns caveats / facts in canonical map order; the signing payload is unchanged), for the
   byte-exact signing payload of DagJson.v and any signature scheme *)
Theorem C18_stored_token_verifies :
  forall (valid : N -> bstr -> bstr -> bool) (alg_of did_of : N -> bstr) t k,
  verify valid alg_of did_of t k = true -> verify valid alg_of did_of (canon_token t) k = true.
Proof. exact verify_after_transport. Qed.
Print Assumptions C18_stored_token_verifies.

(* re-issuing from the same key and fields reproduces the same signing payload, signature and
   block bytes (hence CID): issuance is a function of key and fields alone — no clock, no
   randomness, no map-order dependence (the payload of a re-ordered caveat map is the same) *)
Theorem C18_reissue_same_payload : forall alg t, sign_payload alg (canon_token t) = sign_payload alg t.
Proof. exact sign_payload_canon_token. Qed.
Print Assumptions C18_reissue_same_payload.

(* stored agent messages and receipts read back *)
Theorem C18_stored_message_readable : forall m,
  wf_ipld (message_ipld m) = true -> in_budget (message_ipld m) = true ->
  message_decode (message_bytes m) = Some (canon_msg m).
Proof. exact message_transport. Qed.
Print Assumptions C18_stored_message_readable.

Theorem C18_stored_receipt_readable : forall r,
  wf_ipld (receipt_ipld r) = true -> in_budget (receipt_ipld r) = true ->
  NoDup (map fst (o_meta (r_ocm r))) ->
  receipt_decode (receipt_bytes r) = Some (canon_rcpt r).
Proof. exact receipt_transport. Qed.
Print Assumptions C18_stored_receipt_readable.

(* Format layouts: EVERY block the encoders write has exactly the representation keys of its
   schema, in schema order, required ones present, optional ones only where allowed, each with
   the schema's type — UCAN 0.9.1 token and capability, signing payload and JWT header,
   `ucan@0.9.1` archive, `ucanto/message@7.0.0`, receipt / outcome / effects / result. *)
Theorem C18_token_layout : forall t, conforms_v spec_token (token_ipld t) = true.
Proof. exact token_conforms. Qed.
Theorem C18_capability_layout : forall c, conforms_v spec_capability (cap_ipld c) = true.
Proof. exact capability_conforms. Qed.
Theorem C18_payload_layout : forall t, conforms_v spec_payload (payload_ipld t true) = true.
Proof. exact payload_conforms. Qed.
Theorem C18_header_layout : forall alg ver, conforms_v spec_header (header_ipld alg ver) = true.
Proof. exact header_conforms. Qed.
Theorem C18_archive_layout : forall l, conforms_v spec_archive (archive_ipld l) = true.
Proof. exact archive_conforms. Qed.
Theorem C18_message_layout : forall m,
  exists d, message_ipld m = IMap [(bs "ucanto/message@7.0.0", d)] /\ In (bs "ucanto/message@7.0.0") message_keys /\
            conforms_v spec_message_data d = true.
Proof. exact message_conforms. Qed.
Theorem C18_receipt_layout : forall r, conforms_v spec_receipt (receipt_ipld r) = true.
Proof. exact receipt_conforms. Qed.
Theorem C18_outcome_layout : forall o,
  conforms_v spec_outcome (outcome_ipld o) = true /\
  (exists out fxv, slookup (bs "out") (match outcome_ipld o with IMap m => m | _ => [] end) = Some out /\
                   conforms_v spec_result out = true /\
                   slookup (bs "fx") (match outcome_ipld o with IMap m => m | _ => [] end) = Some fxv /\
                   conforms_v spec_effects fxv = true).
Proof. exact outcome_conforms. Qed.
Print Assumptions C18_token_layout.
Print Assumptions C18_capability_layout.
Print Assumptions C18_payload_layout.
Print Assumptions C18_header_layout.
Print Assumptions C18_archive_layout.
Print Assumptions C18_message_layout.
Print Assumptions C18_receipt_layout.
Print Assumptions C18_outcome_layout.
