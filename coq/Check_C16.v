(* Check_C16.v — evaluation of the Pattern model on the enumeration the
   harness ran through the implementation (correspondence check for C16). *)
From Ucanto Require Import Base Pattern.
Open Scope N_scope.

Definition alphabet : bstr := [97; 98; 65; 47; 42; 58].   (* a b A / * : *)

Fixpoint strings_of_len (n : nat) : list bstr :=
  match n with
  | O => [[]]
  | S n' => flat_map (fun c => map (cons c) (strings_of_len n')) alphabet
  end.

Definition all_strings (l : nat) : list bstr := flat_map strings_of_len (seq 0 (S l)).

Definition code_str (r want : bstr) : N :=
  if beq r want then 1 else if beq r [] then 0 else 2.

(* p: pattern / delegated resource, c: claimed *)
Definition pair_code (p c : bstr) : N :=
  code_str (resolve_ability p c) c + 4 * code_str (resolve_resource p c) c
  + 16 * (if default_derives c p then 1 else 0).

Fixpoint string_codes (s : string) : list N :=
  match s with
  | EmptyString => []
  | String a r => (N_of_ascii a - 48) :: string_codes r
  end.

Fixpoint diff_ids (a b : list N) (j : N) : list N :=
  match a, b with
  | x :: a', y :: b' => if x =? y then diff_ids a' b' (j + 1) else j :: diff_ids a' b' (j + 1)
  | [], [] => []
  | _, _ => [j]
  end.

Definition check_row (strs : list bstr) (row : N * string) : list (N * N) :=
  let p := nth (N.to_nat (fst row)) strs [] in
  map (fun j => (fst row, j)) (diff_ids (map (pair_code p) strs) (string_codes (snd row)) 0).

(* (i, j) such that model and implementation disagree on (pattern i, claimed j) *)
Definition check_rows (l : nat) (rows : list (N * string)) : list (N * N) :=
  let strs := all_strings l in flat_map (check_row strs) rows.

Definition check_random (cases : list (bstr * bstr * N)) : list N :=
  bad_ids (fun x => match x with (p, c, code) => pair_code p c =? code end) cases 0.
