(* C05 — Revocation is honoured over the whole chain. *)
From Ucanto Require Import Base Pattern Time Validator ValidatorSpec ValidatorProps.

(* an authorization is returned only after the checker was consulted on that same
   authorization (event EvCheck a false in the trace) and accepted it *)
Theorem C05_checked : forall U C n ds inv a ev,
  access U C n ds inv = (AOk a, ev) -> In (EvCheck a false) ev /\ revoked C a = false.
Proof. exact access_checked. Qed.
Print Assumptions C05_checked.

(* the authorization handed to the checker is a path that exposes, through its proofs,
   every delegation from the invocation to the root (is_path: each node has at most one
   proof, so path_of enumerates all of them; steps lists them with their capabilities) *)
Theorem C05_exposes :
  forall (U : link -> option token) (C : ctx),
    (forall l p, resolve_proof C l = Some p -> d_link p = l) ->
  forall n ds inv a,
    fst (access U C n ds inv) = AOk a ->
    exists n', n = S n' /\ Forall (step_holds U C ds) (steps a) /\ is_path a /\
      exists d c ps t, a = Authz d c ps /\ d = inv /\ tok U d = Some t /\ window_ok C t.
Proof. exact access_steps. Qed.
Print Assumptions C05_exposes.

(* a checker that rejects every authorization containing a revoked delegation guarantees
   that no returned authorization contains one *)
Theorem C05_guarantee : forall U C (R : link -> Prop) n ds inv a,
  (forall x, (exists l, In l (map fst (path_of x)) /\ R l) -> revoked C x = true) ->
  fst (access U C n ds inv) = AOk a -> forall l, In l (map fst (path_of a)) -> ~ R l.
Proof. exact access_no_revoked. Qed.
Print Assumptions C05_guarantee.

(* when a candidate authorization was rejected by the checker and the outcome is
   Unauthorized, the error reports the revocation *)
Theorem C05_reported : forall U C n ds inv e ev ss ev0,
  access U C (S n) ds inv = (AErr e, ev) ->
  sources_of U C (claim U C n) [inv] [inv] = (Some ss, ev0) ->
  (exists m, In m (select_top ds ss) /\ candidate_revoked U C (authorize U C (claim U C n) n ds) m) ->
  has_revoked e = true.
Proof. exact access_reports_revocation. Qed.
Print Assumptions C05_reported.

(* ------------------------------------------------------------------ *)
(* Link integrity (LinkIntegrity.v): over the store DEFINED by the supplied blocks (a block (c, b)
   has the fields view_block b only when c is exactly the CIDv1 / dag-cbor / sha2-256 CID of b, as
   delegation.Data() checks), a checker that rejects the link with CID bytes c keeps every
   delegation whose bytes hash to c out of every returned authorization — whatever other blocks
   are present, in particular the same bytes re-labelled with a raw / CIDv0 / dag-json CID. *)
From Ucanto Require Import Varint Cid MessageBytes TokenBytes TokenView ServerBytes LinkIntegrity.

Theorem C05_revocation_names_bytes :
  forall (mh_digest : N -> N -> bstr -> option bstr) keys valid alg_of blocks C c,
    let view := view_block lid keys valid alg_of in
    (forall l p, resolve_proof C l = Some p -> d_link p = l) ->
    (forall x, In (lid c) (map fst (path_of x)) -> revoked C x = true) ->
    forall n ds inv a,
    fst (access (ustore_of mh_digest view blocks) C n ds inv) = AOk a ->
    forall l, In l (map fst (path_of a)) ->
    l <> lid c /\
    exists c' b t, l = lid c' /\ c' <> c /\ In (c', b) blocks /\ block_at blocks c' = Some b /\
      cid_of mh_digest b = Some c' /\ ustore_of mh_digest view blocks l = Some t /\ t = view b /\
      (forall b0, cid_of mh_digest b0 = Some c -> b <> b0).
Proof. exact (fun mh_digest keys valid alg_of => revocation_names_bytes mh_digest (view_block lid keys valid alg_of)). Qed.
Print Assumptions C05_revocation_names_bytes.

(* every delegation of a returned authorization has its fields from bytes that hash to its link *)
Theorem C05_authorization_names_bytes :
  forall (mh_digest : N -> N -> bstr -> option bstr) keys valid alg_of blocks C n ds prfs a,
    let view := view_block lid keys valid alg_of in
    P (ustore_of mh_digest view blocks) C n ds prfs a ->
    forall l, In l (map fst (path_of a)) ->
    exists t, ustore_of mh_digest view blocks l = Some t /\ names_bytes mh_digest view blocks (mkDlg l []) t.
Proof. exact (fun mh_digest keys valid alg_of => authorization_names_bytes mh_digest (view_block lid keys valid alg_of)). Qed.
Print Assumptions C05_authorization_names_bytes.
