(* C05 — Revocation is honoured over the whole chain. *)
From Ucanto Require Import Base Pattern Time Validator ValidatorSpec ValidatorProps.

(* an authorization is returned only after the checker was consulted on that same
   authorization (event EvCheck a false in the trace) and accepted it *)
Theorem C05_checked : forall U C n ds inv a ev,
  access U C n ds inv = (AOk a, ev) -> In (EvCheck a false) ev /\ revoked C a = false.
Proof. exact access_checked. Qed.
Print Assumptions C05_checked.

(* the authorization handed to the checker is a path that exposes, through its proofs,
   every delegation from the invocation to the root (is_path: each node has at most one
   proof, so path_of enumerates all of them; steps lists them with their capabilities) *)
Theorem C05_exposes :
  forall (U : link -> option token) (C : ctx),
    (forall l p, resolve_proof C l = Some p -> d_link p = l) ->
  forall n ds inv a,
    fst (access U C n ds inv) = AOk a ->
    exists n', n = S n' /\ Forall (step_holds U C ds) (steps a) /\ is_path a /\
      exists d c ps t, a = Authz d c ps /\ d = inv /\ tok U d = Some t /\ window_ok C t.
Proof. exact access_steps. Qed.
Print Assumptions C05_exposes.

(* a checker that rejects every authorization containing a revoked delegation guarantees
   that no returned authorization contains one *)
Theorem C05_guarantee : forall U C (R : link -> Prop) n ds inv a,
  (forall x, (exists l, In l (map fst (path_of x)) /\ R l) -> revoked C x = true) ->
  fst (access U C n ds inv) = AOk a -> forall l, In l (map fst (path_of a)) -> ~ R l.
Proof. exact access_no_revoked. Qed.
Print Assumptions C05_guarantee.

(* when a candidate authorization was rejected by the checker and the outcome is
   Unauthorized, the error reports the revocation *)
Theorem C05_reported : forall U C n ds inv e ev ss ev0,
  access U C (S n) ds inv = (AErr e, ev) ->
  sources_of U C (claim U C n) [inv] [inv] = (Some ss, ev0) ->
  (exists m, In m (select_top ds ss) /\ candidate_revoked U C (authorize U C (claim U C n) n ds) m) ->
  has_revoked e = true.
Proof. exact access_reports_revocation. Qed.
Print Assumptions C05_reported.
