(* ValidatorSpec.v — the declarative specification the property texts describe
   (token_ok / step_ok / chain_ok) and the soundness of the validator model
   with respect to it, for every world, context, descriptor and fuel. *)
From Ucanto Require Import Base Pattern Time Validator.
Open Scope N_scope.

Section Spec.
  Variable U : link -> option token.
  Variable C : ctx.
  (* Hres: a caller-supplied proof resolver returns the delegation that was asked for *)
  Hypothesis Hres : forall l p, resolve_proof C l = Some p -> d_link p = l.

  Notation tok := (tok U).
  Notation iss_of := (iss_of U).

  Definition window_ok (t : token) : Prop :=
    is_expired (t_exp t) (now C) = false /\ is_too_early (t_nbf t) (now C) = false.

  (* the signature of token t verifies for verifier v *)
  Definition sig_ok (t : token) (v : verifier) : Prop :=
    t_iss t = v_did v /\ t_sigcode t = v_sigcode v /\ t_signer t = Some (v_key v).

  Definition is_key_str (d : did) : bool := prefixb did_key_prefix (did_str d).

  Section Level.
    Variable claim_prev : desc -> list dlg -> ares * list event.
    Variable P_prev : desc -> list dlg -> authz -> Prop.
    Hypothesis Hprev : forall ds ps a, fst (claim_prev ds ps) = AOk a -> P_prev ds ps a.

    (* a token is acceptable among its sibling proofs *)
    Inductive token_ok (sibs : list dlg) (d : dlg) : Prop :=
    | TK_key t v : tok d = Some t -> window_ok t -> is_key_str (t_iss t) = true ->
        parse_principal C (did_str (t_iss t)) = Some v -> sig_ok t v -> token_ok sibs d
    | TK_auth t : tok d = Some t -> window_ok t -> is_key_str (t_iss t) = false ->
        sig_ok t (authority C) -> token_ok sibs d
    | TK_sess t a : tok d = Some t -> window_ok t -> is_key_str (t_iss t) = false ->
        t_iss t <> v_did (authority C) ->
        P_prev (attest_desc (v_did (authority C)) (d_link d)) (session_candidates U d sibs) a ->
        token_ok sibs d
    | TK_res t kd v : tok d = Some t -> window_ok t -> is_key_str (t_iss t) = false ->
        t_iss t <> v_did (authority C) ->
        (* no attestation applied: the session search failed without failed proofs *)
        (exists e, fst (claim_prev (attest_desc (v_did (authority C)) (d_link d)) (session_candidates U d sibs)) = AErr e
                   /\ has_failed e = false) ->
        resolve_did_key C (t_iss t) = Some kd -> parse_principal C (did_str kd) = Some v ->
        is_key_str (v_did v) = true ->
        sig_ok t (mkVf (v_key v) (v_sigcode v) (t_iss t)) -> token_ok sibs d.

    (* one derivation step: capability c' of proof p is what c was derived from *)
    Definition step_ok (ds : desc) (c : cap) (p : dlg) (c' : cap) : Prop :=
      exists tp c0, tok p = Some tp /\ In c0 (t_caps tp) /\
                    resolve_cap ds c c0 = Some c' /\ ds_derives ds c c' = true.

    Inductive chain_ok (ds : desc) : authz -> Prop :=
    | CH_root d c : can_issue C c (iss_of d) = true -> chain_ok ds (Authz d c [])
    | CH_step d c p c' ps t tp sibs :
        tok d = Some t -> tok p = Some tp ->
        In (d_link p) (t_prf t) ->            (* the proof is cited by the token *)
        t_aud tp = t_iss t ->                 (* and was delegated to its issuer *)
        token_ok sibs p ->
        step_ok ds c p c' ->
        chain_ok ds (Authz p c' ps) ->
        chain_ok ds (Authz d c [Authz p c' ps]).

    (* what Claim promises about a returned authorization *)
    Definition top_ok (ds : desc) (prfs : list dlg) (a : authz) : Prop :=
      exists d c ps t c0, a = Authz d c ps /\ In d prfs /\ token_ok prfs d /\ tok d = Some t /\
        In c0 (t_caps t) /\ parse_cap ds c0 = Some c /\ chain_ok ds a /\ revoked C a = false.

    (* ---------------------------------------------------------------- *)

    Lemma verify_sig_ok l t v : fst (verify_sig l t v) = VOk -> sig_ok t v.
    Proof.
      unfold verify_sig, sig_ok.
      destruct (existsb (N.eqb (t_sigcode t)) known_sigcodes); [|discriminate].
      destruct (did_eqb (t_iss t) (v_did v)) eqn:E; [|discriminate].
      apply did_eqb_eq in E. cbn [fst].
      destruct (t_sigcode t =? v_sigcode v) eqn:S; [|discriminate].
      apply N.eqb_eq in S. cbn [andb].
      destruct (t_signer t) as [k|]; [|discriminate].
      destruct (k =? v_key v) eqn:K; [|discriminate]. apply N.eqb_eq in K. subst. auto.
    Qed.

    Lemma validate_ok d sibs : fst (validate U C claim_prev d sibs) = VOk -> token_ok sibs d.
    Proof.
      unfold validate. destruct (tok d) as [t|] eqn:T; [|discriminate].
      destruct (is_expired (t_exp t) (now C)) eqn:E1; [discriminate|].
      destruct (is_too_early (t_nbf t) (now C)) eqn:E2; [discriminate|].
      assert (W : window_ok t) by (split; assumption).
      unfold verify_authorization.
      destruct (prefixb did_key_prefix (did_str (t_iss t))) eqn:K.
      - destruct (parse_principal C (did_str (t_iss t))) as [v|] eqn:PP; [|discriminate].
        intros H. apply verify_sig_ok in H. eapply TK_key; eauto.
      - destruct (did_eqb (t_iss t) (v_did (authority C))) eqn:A.
        + intros H. apply verify_sig_ok in H. eapply TK_auth; eauto.
        + assert (NA : t_iss t <> v_did (authority C)).
          { intros X. apply did_eqb_eq in X. congruence. }
          unfold verify_session.
          destruct (claim_prev (attest_desc (v_did (authority C)) (d_link d)) (session_candidates U d sibs))
            as [r ev] eqn:CP.
          destruct r as [a|e|]; cbn [fst]; try discriminate.
          * intros _. eapply TK_sess; eauto. apply Hprev. rewrite CP. reflexivity.
          * destruct (has_failed e) eqn:HF; [discriminate|].
            destruct (resolve_did_key C (t_iss t)) as [kd|] eqn:R; [|discriminate].
            destruct (parse_principal C (did_str kd)) as [v|] eqn:PP; [|discriminate].
            destruct (prefixb did_key_prefix (did_str (v_did v))) eqn:KV; [|discriminate].
            destruct (verify_sig (d_link d) t (mkVf (v_key v) (v_sigcode v) (t_iss t))) as [r2 ev2] eqn:VS.
            cbn [fst]. intros ->.
            assert (S : sig_ok t (mkVf (v_key v) (v_sigcode v) (t_iss t))).
            { apply (verify_sig_ok (d_link d)). rewrite VS. reflexivity. }
            eapply TK_res; eauto. exists e. rewrite CP. auto.
    Qed.

    Lemma sources_of_spec ds0 sibs : forall srcs,
      fst (sources_of U C claim_prev ds0 sibs) = Some srcs ->
      forall s, In s srcs -> In (snd s) ds0 /\ fst (validate U C claim_prev (snd s) sibs) = VOk /\
                exists t, tok (snd s) = Some t /\ In (fst s) (t_caps t).
    Proof.
      induction ds0 as [|d ds0 IH]; cbn [sources_of]; intros srcs H s Hs.
      - cbn in H. inversion H; subst. destruct Hs.
      - destruct (validate U C claim_prev d sibs) as [v ev] eqn:V.
        destruct (sources_of U C claim_prev ds0 sibs) as [r ev'] eqn:R.
        destruct v; cbn [fst] in *; try discriminate.
        + destruct r as [l|]; [|discriminate]. inversion H; subst.
          apply in_app_or in Hs. destruct Hs as [Hs|Hs].
          * unfold caps_of in Hs. destruct (tok d) as [t|] eqn:T; [|destruct Hs].
            apply in_map_iff in Hs. destruct Hs as [c [<- Hc]]. cbn [fst snd].
            split; [left; reflexivity|]. split; [rewrite V; reflexivity|]. exists t. auto.
          * destruct (IH l eq_refl s Hs) as [A B]. split; [right; assumption | assumption].
        + destruct (IH srcs H s Hs) as [A B]. split; [right; assumption | assumption].
        + destruct (IH srcs H s Hs) as [A B]. split; [right; assumption | assumption].
    Qed.

    Lemma proofs_view_in d t p : In p (proofs_view U C d t) -> In (d_link p) (t_prf t).
    Proof.
      unfold proofs_view. intros H. apply filter_map_in in H. destruct H as [l [Hl F]].
      destruct (visible d l).
      - destruct (U l); [inversion F; subst; cbn; assumption | apply Hres in F; subst; assumption].
      - apply Hres in F; subst; assumption.
    Qed.

    Lemma resolve_sources_spec d t srcs : tok d = Some t ->
      fst (resolve_sources U C claim_prev d) = Some srcs ->
      forall s, In s srcs -> exists sibs tp, In (d_link (snd s)) (t_prf t) /\ tok (snd s) = Some tp /\
         t_aud tp = t_iss t /\ token_ok sibs (snd s) /\ In (fst s) (t_caps tp).
    Proof.
      intros T. unfold resolve_sources. rewrite T. intros H s Hs.
      destruct (sources_of_spec _ _ _ H s Hs) as [A [V [tp [Tp Hc]]]].
      unfold aligned in A. apply filter_In in A. destruct A as [A1 A2].
      rewrite Tp in A2. apply did_eqb_eq in A2.
      exists (aligned U t (proofs_view U C d t)), tp. repeat split; auto.
      - eapply proofs_view_in; eauto.
      - apply validate_ok; assumption.
    Qed.

    Lemma select_derived_in ds claimed srcs s c' :
      In (s, c') (fst (select_derived ds claimed srcs)) ->
      In s srcs /\ resolve_cap ds claimed (fst s) = Some c' /\ ds_derives ds claimed c' = true.
    Proof.
      induction srcs as [|x r IH]; cbn [select_derived]; [intros []|].
      destruct (select_derived ds claimed r) as [ms ev] eqn:SD. cbn [fst] in IH.
      destruct (resolve_cap ds claimed (fst x)) as [c|] eqn:R; cbn [fst].
      - destruct (ds_derives ds claimed c) eqn:D.
        + intros [E|H].
          * inversion E; subst. split; [left; reflexivity | auto].
          * destruct (IH H) as [A B]. split; [right; assumption | assumption].
        + intros H. destruct (IH H) as [A B]. split; [right; assumption | assumption].
      - intros H. destruct (IH H) as [A B]. split; [right; assumption | assumption].
    Qed.

    Lemma auth_loop_ok rec ms : forall failed a, fst (auth_loop U C rec ms failed) = AOk a ->
      exists m, In m ms /\
        ((can_issue C (m_cap m) (iss_of (m_dlg m)) = true /\ a = Authz (m_dlg m) (m_cap m) []) \/
         (exists a', fst (rec m) = AOk a' /\ a = Authz (m_dlg m) (m_cap m) [a'])).
    Proof.
      induction ms as [|m ms IH]; cbn [auth_loop]; intros failed a H; [discriminate|].
      destruct (can_issue C (m_cap m) (iss_of (m_dlg m))) eqn:CI.
      - cbn in H. inversion H; subst. exists m. split; [left; reflexivity|]. left. auto.
      - destruct (rec m) as [r ev] eqn:R. destruct r as [a'|e|]; cbn [fst] in H.
        + inversion H; subst. exists m. split; [left; reflexivity|]. right. exists a'. rewrite R. auto.
        + destruct (auth_loop U C rec ms true) as [r' ev'] eqn:AL. cbn [fst] in H.
          destruct (IH true a) as [x [Hx Hd]]; [rewrite AL; exact H|].
          exists x. split; [right; assumption | assumption].
        + discriminate.
    Qed.

    Lemma authorize_sound n ds : forall m a t,
      fst (authorize U C claim_prev n ds m) = AOk a ->
      tok (m_dlg m) = Some t -> chain_ok ds (Authz (m_dlg m) (m_cap m) [a]).
    Proof.
      induction n as [|n IH]; intros m a t H T; cbn [authorize] in H; [discriminate|].
      destruct (resolve_sources U C claim_prev (m_dlg m)) as [srcs ev] eqn:RS.
      destruct srcs as [ss|]; [|discriminate].
      destruct (select_derived ds (m_cap m) ss) as [ms evd] eqn:SD.
      destruct (auth_loop U C (authorize U C claim_prev n ds) ms false) as [r ev'] eqn:AL.
      cbn [fst] in H. subst r.
      destruct (auth_loop_ok (authorize U C claim_prev n ds) ms false a) as [m' [Hin Hd]]; [rewrite AL; reflexivity|].
      destruct m' as [s c'].
      assert (Hin' : In (s, c') (fst (select_derived ds (m_cap m) ss))) by (rewrite SD; exact Hin).
      apply select_derived_in in Hin'. destruct Hin' as [S1 [S2 S3]].
      assert (RS' : fst (resolve_sources U C claim_prev (m_dlg m)) = Some ss) by (rewrite RS; reflexivity).
      destruct (resolve_sources_spec _ _ _ T RS' s S1) as [sibs [tp [L [Tp [Al [TO Hc]]]]]].
      unfold m_dlg, m_cap in Hd. cbn [fst snd] in Hd.
      destruct Hd as [[CI ->]|[a' [AU ->]]].
      - eapply CH_step; eauto.
        + exists tp, (fst s). auto.
        + apply CH_root. assumption.
      - eapply CH_step; eauto.
        + exists tp, (fst s). auto.
        + apply (IH (s, c') a' tp AU Tp).
    Qed.

    Lemma claim_loop_ok rec ms : forall failed rev a, fst (claim_loop U C rec ms failed rev) = AOk a ->
      revoked C a = false /\
      exists m, In m ms /\
        ((can_issue C (m_cap m) (iss_of (m_dlg m)) = true /\ a = Authz (m_dlg m) (m_cap m) []) \/
         (exists a', fst (rec m) = AOk a' /\ a = Authz (m_dlg m) (m_cap m) [a'])).
    Proof.
      induction ms as [|m ms IH]; cbn [claim_loop]; intros failed rev a H; [discriminate|].
      destruct (can_issue C (m_cap m) (iss_of (m_dlg m))) eqn:CI.
      - destruct (revoked C (Authz (m_dlg m) (m_cap m) [])) eqn:RV.
        + destruct (claim_loop U C rec ms failed true) as [r' ev'] eqn:CL. cbn [fst] in H.
          destruct (IH failed true a) as [R [x [Hx Hd]]]; [rewrite CL; exact H|].
          split; [assumption|]. exists x. split; [right; assumption|assumption].
        + cbn in H. inversion H; subst. split; [assumption|].
          exists m. split; [left; reflexivity|]. left; auto.
      - destruct (rec m) as [r ev] eqn:R. destruct r as [a'|e|]; cbn [fst] in H.
        + destruct (revoked C (Authz (m_dlg m) (m_cap m) [a'])) eqn:RV.
          * destruct (claim_loop U C rec ms failed true) as [r' ev'] eqn:CL. cbn [fst] in H.
            destruct (IH failed true a) as [R' [x [Hx Hd]]]; [rewrite CL; exact H|].
            split; [assumption|]. exists x. split; [right; assumption|assumption].
          * cbn in H. inversion H; subst. split; [assumption|].
            exists m. split; [left; reflexivity|]. right. exists a'. rewrite R. auto.
        + destruct (claim_loop U C rec ms true rev) as [r' ev'] eqn:CL. cbn [fst] in H.
          destruct (IH true rev a) as [R' [x [Hx Hd]]]; [rewrite CL; exact H|].
          split; [assumption|]. exists x. split; [right; assumption|assumption].
        + discriminate.
    Qed.

    Lemma select_top_in ds srcs s c :
      In (s, c) (select_top ds srcs) -> In s srcs /\ parse_cap ds (fst s) = Some c.
    Proof.
      unfold select_top. intros H. apply filter_map_in in H. destruct H as [x [Hx F]].
      destruct (parse_cap ds (fst x)) eqn:P; [|discriminate]. inversion F; subst. auto.
    Qed.

    Theorem claim_body_sound n ds prfs a :
      fst (claim_body U C claim_prev n ds prfs) = AOk a -> top_ok ds prfs a.
    Proof.
      unfold claim_body.
      destruct (sources_of U C claim_prev prfs prfs) as [srcs ev] eqn:SO.
      destruct srcs as [ss|]; [|discriminate].
      destruct (claim_loop U C (authorize U C claim_prev n ds) (select_top ds ss) false false) as [r ev'] eqn:CL.
      cbn [fst]. intros ->.
      destruct (claim_loop_ok (authorize U C claim_prev n ds) (select_top ds ss) false false a) as [RV [[s c] [Hin Hd]]]; [rewrite CL; reflexivity|].
      apply select_top_in in Hin. destruct Hin as [S1 S2].
      assert (SO' : fst (sources_of U C claim_prev prfs prfs) = Some ss) by (rewrite SO; reflexivity).
      destruct (sources_of_spec _ _ _ SO' s S1) as [A [V [t [T Hc]]]].
      unfold m_dlg, m_cap in Hd. cbn [fst snd] in Hd. unfold top_ok.
      destruct Hd as [[CI ->]|[a' [AU ->]]].
      - exists (snd s), c, [], t, (fst s). repeat split; auto.
        + apply validate_ok; assumption.
        + apply CH_root; assumption.
      - exists (snd s), c, [a'], t, (fst s). repeat split; auto.
        + apply validate_ok; assumption.
        + apply (authorize_sound n ds (s, c) a' t AU T).
    Qed.
  End Level.

  (* the specification, step-indexed like the model *)
  Fixpoint P (n : nat) : desc -> list dlg -> authz -> Prop :=
    match n with
    | O => fun _ _ _ => False
    | S n' => top_ok (claim U C n') (P n')
    end.

  Theorem claim_sound n : forall ds ps a, fst (claim U C n ds ps) = AOk a -> P n ds ps a.
  Proof.
    induction n as [|n IH]; intros ds ps a H; cbn [claim P] in *; [discriminate|].
    eapply claim_body_sound; eauto.
  Qed.

  (* validator.Access *)
  Theorem access_sound n ds inv a :
    fst (access U C n ds inv) = AOk a -> P n ds [inv] a.
  Proof. apply claim_sound. Qed.

  (* the result is an authorization or an error; out of fuel is the only other outcome *)
  Theorem access_total n ds inv :
    (exists a, fst (access U C n ds inv) = AOk a) \/ (exists e, fst (access U C n ds inv) = AErr e)
    \/ fst (access U C n ds inv) = AFuel.
  Proof. destruct (fst (access U C n ds inv)); eauto. Qed.

  Theorem access_no_chain n ds inv :
    (forall a, ~ P n ds [inv] a) -> forall a, fst (access U C n ds inv) <> AOk a.
  Proof. intros H a E. exact (H a (access_sound n ds inv a E)). Qed.
End Spec.
