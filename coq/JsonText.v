(* JsonText.v — the JSON text that polydawn/refmt's json.Encoder writes (no whitespace):
   string escaping exactly as jsonEncoderTerminals.go emitString (UTF-8 aware, as Go's
   utf8.DecodeRuneInString), decimal integers (strconv.AppendInt), literals, arrays and
   objects; a parser for the printer's image and the round trip
       jparse (jprint j ++ rest) = Some (j, rest)
   for every JSON value whose strings are valid UTF-8, hence injectivity and
   prefix-freeness of the printer.  Stdlib only, executable. *)
From Ucanto Require Import Base BaseEnc.
From Coq Require Import ZifyBool ZifyN ZifyNat.
Open Scope N_scope.

(* ------------------------------------------------------------------ *)
(* UTF-8 as utf8.DecodeRuneInString sees it                            *)

Definition is_cont (b : N) : bool := (128 <=? b) && (b <=? 191).

(* size of the valid multi-byte sequence at the head of s (first byte >= 0x80);
   0 when DecodeRuneInString returns (RuneError, 1) *)
Definition utf8_len (s : bstr) : nat :=
  match s with
  | [] => 0
  | b0 :: r =>
    if b0 <? 194 then 0
    else if b0 <? 224 then
      match r with b1 :: _ => if is_cont b1 then 2 else 0 | _ => 0 end
    else if b0 <? 240 then
      match r with
      | b1 :: b2 :: _ =>
        if ((if b0 =? 224 then 160 else 128) <=? b1) && (b1 <=? (if b0 =? 237 then 159 else 191)) && is_cont b2
        then 3 else 0
      | _ => 0
      end
    else if b0 <? 245 then
      match r with
      | b1 :: b2 :: b3 :: _ =>
        if ((if b0 =? 240 then 144 else 128) <=? b1) && (b1 <=? (if b0 =? 244 then 143 else 191)) && is_cont b2 && is_cont b3
        then 4 else 0
      | _ => 0
      end
    else 0
  end.

(* utf8.ValidString, by the same scan as the escaper *)
Fixpoint utf8_ok (fuel : nat) (s : bstr) : bool :=
  match fuel with
  | O => match s with [] => true | _ => false end
  | S f =>
    match s with
    | [] => true
    | b :: r =>
      if b <? 128 then utf8_ok f r
      else match utf8_len s with O => false | n => utf8_ok f (skipn n s) end
    end
  end.

Definition utf8_valid (s : bstr) : bool := utf8_ok (length s) s.

(* ------------------------------------------------------------------ *)
(* emitString                                                          *)

Definition hexd (n : N) : N := if n <? 10 then 48 + n else 87 + n.   (* "0123456789abcdef"[n] *)

Definition esc_ascii (b : N) : bstr :=
  if b =? 34 then [92; 34]
  else if b =? 92 then [92; 92]
  else if b =? 10 then [92; 110]
  else if b =? 13 then [92; 114]
  else if b =? 9 then [92; 116]
  else if b <? 32 then [92; 117; 48; 48; hexd (b / 16); hexd (b mod 16)]
  else [b].

(* U+2028 / U+2029 (E2 80 A8 / E2 80 A9): the third byte *)
Definition lsps (s : bstr) : option N :=
  match s with
  | b0 :: b1 :: b2 :: _ => if (b0 =? 226) && (b1 =? 128) && ((b2 =? 168) || (b2 =? 169)) then Some b2 else None
  | _ => None
  end.

Definition esc_fffd : bstr := [92; 117; 102; 102; 102; 100].       (* backslash u f f f d *)

Fixpoint esc (fuel : nat) (s : bstr) : bstr :=
  match fuel with
  | O => []
  | S f =>
    match s with
    | [] => []
    | b :: r =>
      if b <? 128 then esc_ascii b ++ esc f r
      else match utf8_len s with
           | O => esc_fffd ++ esc f r                      (* every invalid byte *)
           | n => match lsps s with
                  | Some c => [92; 117; 50; 48; 50; c - 112] ++ esc f (skipn 3 s)    (* backslash u 2 0 2 8 / 9 *)
                  | None => firstn n s ++ esc f (skipn n s)
                  end
           end
    end
  end.

Definition jstring (s : bstr) : bstr := 34 :: esc (length s) s ++ [34].

(* ------------------------------------------------------------------ *)
(* reading a string back                                               *)

Definition unhex (c : N) : option N :=
  if (48 <=? c) && (c <=? 57) then Some (c - 48)
  else if (97 <=? c) && (c <=? 102) then Some (c - 87) else None.

(* the four hex digits after \u, for the escapes the encoder produces *)
Definition unesc_u (h1 h2 h3 h4 : N) : option bstr :=
  if (h1 =? 48) && (h2 =? 48) then
    match unhex h3, unhex h4 with Some x, Some y => Some [16 * x + y] | _, _ => None end
  else if (h1 =? 50) && (h2 =? 48) && (h3 =? 50) && ((h4 =? 56) || (h4 =? 57)) then Some [226; 128; h4 + 112]
  else None.

Definition unesc_simple (e : N) : option N :=
  if e =? 34 then Some 34 else if e =? 92 then Some 92 else if e =? 110 then Some 10
  else if e =? 114 then Some 13 else if e =? 116 then Some 9 else None.

Definition pre (p : bstr) (o : option (bstr * bstr)) : option (bstr * bstr) :=
  match o with Some (a, r) => Some (p ++ a, r) | None => None end.

(* reads up to and including the closing quote *)
Fixpoint unesc (s : bstr) : option (bstr * bstr) :=
  match s with
  | [] => None
  | c :: r =>
    if c =? 34 then Some ([], r)
    else if c =? 92 then
      match r with
      | [] => None
      | e :: r1 =>
        if e =? 117 then
          match r1 with
          | h1 :: h2 :: h3 :: h4 :: r2 =>
            match unesc_u h1 h2 h3 h4 with Some bytes => pre bytes (unesc r2) | None => None end
          | _ => None
          end
        else match unesc_simple e with Some b => pre [b] (unesc r1) | None => None end
      end
    else pre [c] (unesc r)
  end.

Lemma pre_pre p q o : pre p (pre q o) = pre (p ++ q) o.
Proof. destruct o as [[a r]|]; cbn [pre]; [rewrite app_assoc|]; reflexivity. Qed.

Lemma unesc_copy p x : Forall (fun c => c <> 34 /\ c <> 92) p -> unesc (p ++ x) = pre p (unesc x).
Proof.
  induction 1 as [|c p [H1 H2] _ IH].
  - cbn [app]. destruct (unesc x) as [[a r]|]; reflexivity.
  - cbn [app unesc]. replace (c =? 34) with false by lia. replace (c =? 92) with false by lia.
    rewrite IH, pre_pre. reflexivity.
Qed.

Lemma unhex_hexd n : n < 16 -> unhex (hexd n) = Some n.
Proof.
  intros H. unfold hexd, unhex. destruct (n <? 10) eqn:E.
  - replace ((48 <=? 48 + n) && (48 + n <=? 57)) with true by lia. f_equal. lia.
  - replace ((48 <=? 87 + n) && (87 + n <=? 57)) with false by lia.
    replace ((97 <=? 87 + n) && (87 + n <=? 102)) with true by lia. f_equal. lia.
Qed.

Lemma unesc_ascii b x : b < 128 -> unesc (esc_ascii b ++ x) = pre [b] (unesc x).
Proof.
  intros H. unfold esc_ascii.
  destruct (b =? 34) eqn:E1; [apply N.eqb_eq in E1; subst; reflexivity|].
  destruct (b =? 92) eqn:E2; [apply N.eqb_eq in E2; subst; reflexivity|].
  destruct (b =? 10) eqn:E3; [apply N.eqb_eq in E3; subst; reflexivity|].
  destruct (b =? 13) eqn:E4; [apply N.eqb_eq in E4; subst; reflexivity|].
  destruct (b =? 9) eqn:E5; [apply N.eqb_eq in E5; subst; reflexivity|].
  destruct (b <? 32) eqn:E6.
  - cbn [app unesc]. change (92 =? 34) with false. change (92 =? 92) with true. change (117 =? 117) with true.
    cbv iota. unfold unesc_u. change ((48 =? 48) && (48 =? 48)) with true. cbv iota.
    rewrite !unhex_hexd.
    + f_equal. pose proof (N.div_mod' b 16). f_equal. f_equal. lia.
    + apply N.mod_lt. lia.
    + apply N.div_lt_upper_bound; lia.
  - cbn [app unesc]. rewrite E1, E2. reflexivity.
Qed.

(* the bytes of a valid multi-byte sequence *)
Lemma utf8_len_bytes s n : utf8_len s = n -> n <> 0%nat ->
  s = firstn n s ++ skipn n s /\ Forall (fun c => c <> 34 /\ c <> 92 /\ c < 256) (firstn n s) /\ (n <= 4)%nat.
Proof.
  intros E NZ. split; [symmetry; apply firstn_skipn|].
  unfold utf8_len in E. destruct s as [|b0 r]; [congruence|].
  destruct (b0 <? 194) eqn:T0; [congruence|].
  destruct (b0 <? 224) eqn:T1.
  { destruct r as [|b1 r]; [congruence|]. unfold is_cont in E. destruct ((128 <=? b1) && (b1 <=? 191)) eqn:C; [|congruence].
    subst n. split; [|lia]. cbn [firstn]. repeat constructor; lia. }
  destruct (b0 <? 240) eqn:T2.
  { destruct r as [|b1 [|b2 r]]; try congruence. unfold is_cont in E.
    match type of E with (if ?c then _ else _) = _ => destruct c eqn:C; [|congruence] end.
    subst n. split; [|lia]. cbn [firstn].
    destruct (b0 =? 224), (b0 =? 237); repeat constructor; lia. }
  destruct (b0 <? 245) eqn:T3; [|congruence].
  destruct r as [|b1 [|b2 [|b3 r]]]; try congruence. unfold is_cont in E.
  match type of E with (if ?c then _ else _) = _ => destruct c eqn:C; [|congruence] end.
  subst n. split; [|lia]. cbn [firstn].
  destruct (b0 =? 240), (b0 =? 244); repeat constructor; lia.
Qed.

Lemma lsps_some s c : lsps s = Some c ->
  exists r, s = 226 :: 128 :: c :: r /\ (c = 168 \/ c = 169) /\ utf8_len s = 3%nat.
Proof.
  unfold lsps. destruct s as [|b0 [|b1 [|b2 r]]]; try discriminate.
  destruct ((b0 =? 226) && (b1 =? 128) && ((b2 =? 168) || (b2 =? 169))) eqn:E; [|discriminate].
  intros H. inversion H; subst c. exists r.
  assert (b0 = 226) by lia. assert (b1 = 128) by lia. assert (D : b2 = 168 \/ b2 = 169) by lia. subst b0 b1.
  split; [reflexivity|]. split; [exact D|]. destruct D; subst b2; reflexivity.
Qed.

(* the escaper is inverted by unesc on valid UTF-8 *)
Lemma unesc_esc f : forall s rest, utf8_ok f s = true -> unesc (esc f s ++ 34 :: rest) = Some (s, rest).
Proof.
  induction f as [|f IH]; intros s rest V.
  - destruct s; [reflexivity | discriminate].
  - destruct s as [|b r]; [reflexivity|]. cbn [utf8_ok esc] in *.
    destruct (b <? 128) eqn:A.
    + rewrite <- app_assoc, unesc_ascii by lia. rewrite IH by exact V. reflexivity.
    + destruct (utf8_len (b :: r)) as [|n'] eqn:L; [discriminate|].
      destruct (lsps (b :: r)) as [c|] eqn:P.
      * destruct (lsps_some _ _ P) as [r3 [Es [Dc L3]]]. rewrite L3 in L. inversion L; subst n'.
        rewrite Es in *. cbn [skipn] in *. cbn [app unesc].
        change (92 =? 34) with false. change (92 =? 92) with true. change (117 =? 117) with true. cbv iota.
        unfold unesc_u. change ((50 =? 48) && (48 =? 48)) with false. cbv iota.
        replace ((50 =? 50) && (48 =? 48) && (50 =? 50) && ((c - 112 =? 56) || (c - 112 =? 57))) with true by lia.
        rewrite IH by exact V. cbn [pre app]. replace (c - 112 + 112) with c by lia. reflexivity.
      * destruct (utf8_len_bytes _ _ L ltac:(lia)) as [Es [Fb _]].
        rewrite <- app_assoc, unesc_copy by (eapply Forall_impl; [|exact Fb]; cbv beta; tauto). rewrite IH by exact V. cbn [pre]. rewrite <- Es. reflexivity.
Qed.

Lemma jstring_app s rest : jstring s ++ rest = 34 :: esc (length s) s ++ 34 :: rest.
Proof. unfold jstring. cbn [app]. rewrite <- app_assoc. reflexivity. Qed.

Theorem unesc_jstring s rest : utf8_valid s = true -> unesc (esc (length s) s ++ 34 :: rest) = Some (s, rest).
Proof. apply unesc_esc. Qed.

(* ASCII strings are valid UTF-8 *)
Lemma ascii_valid s : Forall (fun c => c < 128) s -> utf8_valid s = true.
Proof.
  unfold utf8_valid. induction 1 as [|c s Hc _ IH]; [reflexivity|].
  cbn [length utf8_ok]. replace (c <? 128) with true by lia. exact IH.
Qed.

(* ------------------------------------------------------------------ *)
(* integers: strconv.AppendInt(.., 10)                                  *)

Definition dec_nat (n : N) : bstr := if n =? 0 then [48] else map (fun d => 48 + d) (be_digits 10 n).
Definition dec_Z (z : Z) : bstr :=
  match z with Z0 => [48] | Zpos p => dec_nat (Npos p) | Zneg p => 45 :: dec_nat (Npos p) end.

Definition is_digit (c : N) : bool := (48 <=? c) && (c <=? 57).

Fixpoint span_digits (s : bstr) (acc : N) : N * bstr :=
  match s with
  | c :: r => if is_digit c then span_digits r ((c - 48) + 10 * acc) else (acc, s)
  | [] => (acc, [])
  end.

Definition parse_num (s : bstr) : option (Z * bstr) :=
  match s with
  | [] => None
  | c :: r =>
    if c =? 45 then
      match r with
      | d :: _ => if is_digit d then let (n, rest) := span_digits r 0 in Some ((- Z.of_N n)%Z, rest) else None
      | [] => None
      end
    else if is_digit c then let (n, rest) := span_digits s 0 in Some (Z.of_N n, rest)
    else None
  end.

Definition nondigit_head (s : bstr) : bool := match s with c :: _ => negb (is_digit c) | [] => true end.

Lemma span_digits_app ds rest acc : digits_lt 10 ds -> nondigit_head rest = true ->
  span_digits (map (fun d => 48 + d) ds ++ rest) acc = (fold_left (fun a d => d + 10 * a) ds acc, rest).
Proof.
  intros H. revert acc. induction H as [|d ds Hd _ IH]; intros acc R.
  - cbn [map app fold_left]. destruct rest as [|c r]; [reflexivity|]. cbn [span_digits nondigit_head] in *.
    destruct (is_digit c); [discriminate | reflexivity].
  - cbn [map app span_digits fold_left]. unfold is_digit at 1.
    replace ((48 <=? 48 + d) && (48 + d <=? 57)) with true by lia.
    replace (48 + d - 48) with d by lia. apply IH. exact R.
Qed.

Lemma dec_nat_span n rest : nondigit_head rest = true -> span_digits (dec_nat n ++ rest) 0 = (n, rest).
Proof.
  intros R. unfold dec_nat. destruct (n =? 0) eqn:E.
  - apply N.eqb_eq in E. subst n. cbn [app span_digits]. change (is_digit 48) with true. cbv iota.
    destruct rest as [|c r]; [reflexivity|]. cbn [span_digits nondigit_head] in *. destruct (is_digit c); [discriminate | reflexivity].
  - rewrite span_digits_app; [|apply be_digits_lt; lia | exact R].
    change (fold_left (fun a d => d + 10 * a) (be_digits 10 n) 0) with (of_be 10 (be_digits 10 n)).
    rewrite be_digits_sound by lia. reflexivity.
Qed.

Lemma dec_nat_head n : exists c t, dec_nat n = c :: t /\ is_digit c = true.
Proof.
  unfold dec_nat. destruct (n =? 0) eqn:E; [exists 48, []; auto|].
  pose proof (be_digits_sound 10 n ltac:(lia)) as S. pose proof (be_digits_lt 10 n ltac:(lia)) as L.
  destruct (be_digits 10 n) as [|d l]; [cbn in S; lia|].
  inversion L; subst. exists (48 + d), (map (fun d => 48 + d) l). split; [reflexivity|]. unfold is_digit. lia.
Qed.

Lemma dec_Z_head z : exists c t, dec_Z z = c :: t /\ (c = 45 \/ is_digit c = true).
Proof.
  destruct z as [|p|p]; cbn [dec_Z].
  - exists 48, []. auto.
  - destruct (dec_nat_head (Npos p)) as [c [t [E D]]]. exists c, t. auto.
  - eexists 45, _. auto.
Qed.

Theorem parse_num_dec z rest : nondigit_head rest = true -> parse_num (dec_Z z ++ rest) = Some (z, rest).
Proof.
  intros R. destruct z as [|p|p]; cbn [dec_Z].
  - pose proof (dec_nat_span 0 rest R) as S. change (dec_nat 0) with [48] in S. cbn [app] in S.
    cbn [app parse_num]. change (48 =? 45) with false. change (is_digit 48) with true. cbv iota.
    rewrite S. reflexivity.
  - destruct (dec_nat_head (Npos p)) as [c [t [E D]]].
    pose proof (dec_nat_span (Npos p) rest R) as S. rewrite E in *. cbn [app] in *. cbn [parse_num].
    replace (c =? 45) with false by (unfold is_digit in D; lia). rewrite D, S. reflexivity.
  - destruct (dec_nat_head (Npos p)) as [c [t [E D]]].
    pose proof (dec_nat_span (Npos p) rest R) as S. cbn [app parse_num]. change (45 =? 45) with true. cbv iota.
    rewrite E in *. cbn [app] in *. rewrite D, S. reflexivity.
Qed.

(* ------------------------------------------------------------------ *)
(* JSON values, printer                                                *)

Inductive jv :=
| JNull
| JBool (b : bool)
| JNum (z : Z)
| JStr (s : bstr)
| JArr (l : list jv)
| JObj (m : list (bstr * jv)).

Section jv_ind'.
  Variable P : jv -> Prop.
  Hypothesis HNull : P JNull.
  Hypothesis HBool : forall b, P (JBool b).
  Hypothesis HNum : forall z, P (JNum z).
  Hypothesis HStr : forall s, P (JStr s).
  Hypothesis HArr : forall l, Forall P l -> P (JArr l).
  Hypothesis HObj : forall m, Forall (fun kv => P (snd kv)) m -> P (JObj m).

  Fixpoint jv_ind' (v : jv) : P v :=
    match v with
    | JNull => HNull
    | JBool b => HBool b
    | JNum z => HNum z
    | JStr s => HStr s
    | JArr l =>
      HArr l ((fix go (l : list jv) : Forall P l :=
                 match l with [] => Forall_nil _ | x :: l' => Forall_cons x (jv_ind' x) (go l') end) l)
    | JObj m =>
      HObj m ((fix go (m : list (bstr * jv)) : Forall (fun kv => P (snd kv)) m :=
                 match m with [] => Forall_nil _ | kv :: m' => Forall_cons kv (jv_ind' (snd kv)) (go m') end) m)
    end.
End jv_ind'.

Definition w_null : bstr := [110; 117; 108; 108].
Definition w_true : bstr := [116; 114; 117; 101].
Definition w_false : bstr := [102; 97; 108; 115; 101].

Fixpoint jprint (j : jv) : bstr :=
  match j with
  | JNull => w_null
  | JBool true => w_true
  | JBool false => w_false
  | JNum z => dec_Z z
  | JStr s => jstring s
  | JArr l =>
    91 :: match l with
          | [] => [93]
          | x :: r => jprint x ++ concat (map (fun y => 44 :: jprint y) r) ++ [93]
          end
  | JObj m =>
    123 :: match m with
           | [] => [125]
           | kv :: r => (jstring (fst kv) ++ 58 :: jprint (snd kv))
                        ++ concat (map (fun kv => 44 :: jstring (fst kv) ++ 58 :: jprint (snd kv)) r) ++ [125]
           end
  end.

(* every string of the value is valid UTF-8 *)
Fixpoint jok (j : jv) : bool :=
  match j with
  | JStr s => utf8_valid s
  | JArr l => forallb jok l
  | JObj m => forallb (fun kv => utf8_valid (fst kv) && jok (snd kv)) m
  | _ => true
  end.

(* ------------------------------------------------------------------ *)
(* parser for the printer's image                                      *)

Definition strip (p s : bstr) : option bstr := if prefixb p s then Some (skipn (length p) s) else None.

Lemma strip_app p r : strip p (p ++ r) = Some r.
Proof.
  unfold strip. replace (prefixb p (p ++ r)) with true by (symmetry; apply prefixb_spec; eauto).
  rewrite skipn_app, skipn_all, Nat.sub_diag. reflexivity.
Qed.

(* "key":value *)
Definition parse_member (pv : bstr -> option (jv * bstr)) (s : bstr) : option ((bstr * jv) * bstr) :=
  match s with
  | c :: r =>
    if c =? 34 then
      match unesc r with
      | Some (k, c2 :: r1) =>
        if c2 =? 58 then match pv r1 with Some (v, r2) => Some ((k, v), r2) | None => None end else None
      | _ => None
      end
    else None
  | [] => None
  end.

Fixpoint jparse (fuel : nat) (s : bstr) {struct fuel} : option (jv * bstr) :=
  match fuel with
  | O => None
  | S f =>
    match s with
    | [] => None
    | c :: r =>
      if c =? 34 then match unesc r with Some (str, r1) => Some (JStr str, r1) | None => None end
      else if c =? 91 then
        match r with
        | [] => None
        | c2 :: r2 =>
          if c2 =? 93 then Some (JArr [], r2)
          else match jparse f r with
               | Some (v, r1) => match jparse_tail f r1 with Some (vs, r3) => Some (JArr (v :: vs), r3) | None => None end
               | None => None
               end
        end
      else if c =? 123 then
        match r with
        | [] => None
        | c2 :: r2 =>
          if c2 =? 125 then Some (JObj [], r2)
          else match parse_member (jparse f) r with
               | Some (kv, r1) => match jparse_mtail f r1 with Some (kvs, r3) => Some (JObj (kv :: kvs), r3) | None => None end
               | None => None
               end
        end
      else if c =? 110 then match strip [117; 108; 108] r with Some r1 => Some (JNull, r1) | None => None end
      else if c =? 116 then match strip [114; 117; 101] r with Some r1 => Some (JBool true, r1) | None => None end
      else if c =? 102 then match strip [97; 108; 115; 101] r with Some r1 => Some (JBool false, r1) | None => None end
      else match parse_num s with Some (z, r1) => Some (JNum z, r1) | None => None end
    end
  end
with jparse_tail (fuel : nat) (s : bstr) {struct fuel} : option (list jv * bstr) :=
  match fuel with
  | O => None
  | S f =>
    match s with
    | [] => None
    | c :: r =>
      if c =? 93 then Some ([], r)
      else if c =? 44 then
        match jparse f r with
        | Some (v, r1) => match jparse_tail f r1 with Some (vs, r2) => Some (v :: vs, r2) | None => None end
        | None => None
        end
      else None
    end
  end
with jparse_mtail (fuel : nat) (s : bstr) {struct fuel} : option (list (bstr * jv) * bstr) :=
  match fuel with
  | O => None
  | S f =>
    match s with
    | [] => None
    | c :: r =>
      if c =? 125 then Some ([], r)
      else if c =? 44 then
        match parse_member (jparse f) r with
        | Some (kv, r1) => match jparse_mtail f r1 with Some (kvs, r2) => Some (kv :: kvs, r2) | None => None end
        | None => None
        end
      else None
    end
  end.

(* fuel that suffices to read a value back *)
Fixpoint jfuel (j : jv) : nat :=
  match j with
  | JArr l => S (fold_right (fun x acc => S (jfuel x + acc)) 1%nat l)
  | JObj m => S (fold_right (fun kv acc => S (jfuel (snd kv) + acc)) 1%nat m)
  | _ => 1%nat
  end.

Definition arr_fuel (l : list jv) : nat := fold_right (fun x acc => S (jfuel x + acc)) 1%nat l.
Definition obj_fuel (m : list (bstr * jv)) : nat := fold_right (fun kv acc => S (jfuel (snd kv) + acc)) 1%nat m.

Definition reads (j : jv) : Prop :=
  jok j = true -> forall f rest, (jfuel j <= f)%nat -> nondigit_head rest = true ->
  jparse f (jprint j ++ rest) = Some (j, rest).

Lemma jparse_tail_ok l : Forall reads l -> forallb jok l = true ->
  forall f rest, (arr_fuel l <= f)%nat ->
  jparse_tail f (concat (map (fun y => 44 :: jprint y) l) ++ 93 :: rest) = Some (l, rest).
Proof.
  induction 1 as [|x l Hx _ IH]; intros OK f rest F.
  - destruct f as [|f]; [cbn in F; lia|]. reflexivity.
  - cbn [forallb] in OK. apply andb_true_iff in OK. destruct OK as [Ox Ol].
    unfold arr_fuel in F. cbn [fold_right] in F. fold (arr_fuel l) in F.
    destruct f as [|f]; [lia|].
    cbn [map concat]. rewrite <- app_assoc. cbn [app jparse_tail].
    change (44 =? 93) with false. change (44 =? 44) with true. cbv iota.
    rewrite (Hx Ox f) by (try lia; destruct l; reflexivity).
    rewrite IH by (auto; lia). reflexivity.
Qed.

Lemma parse_member_ok f k v rest : reads v -> utf8_valid k = true -> jok v = true -> (jfuel v <= f)%nat ->
  nondigit_head rest = true ->
  parse_member (jparse f) ((jstring k ++ 58 :: jprint v) ++ rest) = Some ((k, v), rest).
Proof.
  intros Hv Vk Ov F R. rewrite <- app_assoc, jstring_app. cbn [parse_member].
  change (34 =? 34) with true. cbv iota.
  rewrite unesc_jstring by exact Vk. cbn [app]. change (58 =? 58) with true. cbv iota.
  rewrite (Hv Ov f rest F R). reflexivity.
Qed.

Lemma jparse_mtail_ok m : Forall (fun kv => reads (snd kv)) m ->
  forallb (fun kv => utf8_valid (fst kv) && jok (snd kv)) m = true ->
  forall f rest, (obj_fuel m <= f)%nat ->
  jparse_mtail f (concat (map (fun kv => 44 :: jstring (fst kv) ++ 58 :: jprint (snd kv)) m) ++ 125 :: rest) = Some (m, rest).
Proof.
  induction 1 as [|[k v] m Hx _ IH]; intros OK f rest F.
  - destruct f as [|f]; [cbn in F; lia|]. reflexivity.
  - cbn [forallb fst snd] in *. rewrite !andb_true_iff in OK. destruct OK as [[Vk Ov] Om].
    unfold obj_fuel in F. cbn [fold_right snd] in F. fold (obj_fuel m) in F.
    destruct f as [|f]; [lia|].
    cbn [map concat fst snd]. rewrite <- app_assoc. cbn [app jparse_mtail].
    change (44 =? 125) with false. change (44 =? 44) with true. cbv iota.
    rewrite parse_member_ok by (auto; try lia; destruct m; reflexivity).
    rewrite IH by (auto; lia). reflexivity.
Qed.

Lemma not_special c : c = 45 \/ is_digit c = true ->
  (c =? 34) = false /\ (c =? 91) = false /\ (c =? 123) = false /\ (c =? 110) = false /\ (c =? 116) = false /\ (c =? 102) = false.
Proof. unfold is_digit. intros H. repeat split; lia. Qed.

Lemma jprint_head j : exists c t, jprint j = c :: t /\ (c =? 93) = false /\ (c =? 125) = false.
Proof.
  destruct j as [| [|] | z | s | l | m]; cbn [jprint]; try (eexists _, _; split; [reflexivity | split; reflexivity]).
  destruct (dec_Z_head z) as [c [t [E D]]]. exists c, t. split; [exact E|]. unfold is_digit in D. split; lia.
Qed.

Lemma jparse_arr f r c2 r2 : r = c2 :: r2 -> (c2 =? 93) = false ->
  jparse (S f) (91 :: r) =
  match jparse f r with
  | Some (v, r1) => match jparse_tail f r1 with Some (vs, r3) => Some (JArr (v :: vs), r3) | None => None end
  | None => None
  end.
Proof. intros -> C. cbn [jparse]. change (91 =? 34) with false. change (91 =? 91) with true. cbv iota. rewrite C. reflexivity. Qed.

Lemma jparse_obj f r c2 r2 : r = c2 :: r2 -> (c2 =? 125) = false ->
  jparse (S f) (123 :: r) =
  match parse_member (jparse f) r with
  | Some (kv, r1) => match jparse_mtail f r1 with Some (kvs, r3) => Some (JObj (kv :: kvs), r3) | None => None end
  | None => None
  end.
Proof.
  intros -> C. cbn [jparse]. change (123 =? 34) with false. change (123 =? 91) with false. change (123 =? 123) with true.
  cbv iota. rewrite C. reflexivity.
Qed.

Theorem jparse_print j : reads j.
Proof.
  induction j as [| b | z | s | l IH | m IH] using jv_ind'; intros OK f rest F R; cbn [jfuel] in F;
    (destruct f as [|f]; [lia|]).
  - cbn [jprint]. unfold w_null. cbn [app jparse]. change (110 =? 34) with false. change (110 =? 91) with false.
    change (110 =? 123) with false. change (110 =? 110) with true. cbv iota.
    change (117 :: 108 :: 108 :: rest) with ([117; 108; 108] ++ rest). rewrite strip_app. reflexivity.
  - destruct b; cbn [jprint]; [unfold w_true | unfold w_false]; cbn [app jparse].
    + change (116 =? 34) with false. change (116 =? 91) with false. change (116 =? 123) with false.
      change (116 =? 110) with false. change (116 =? 116) with true. cbv iota.
      change (114 :: 117 :: 101 :: rest) with ([114; 117; 101] ++ rest). rewrite strip_app. reflexivity.
    + change (102 =? 34) with false. change (102 =? 91) with false. change (102 =? 123) with false.
      change (102 =? 110) with false. change (102 =? 116) with false. change (102 =? 102) with true. cbv iota.
      change (97 :: 108 :: 115 :: 101 :: rest) with ([97; 108; 115; 101] ++ rest). rewrite strip_app. reflexivity.
  - cbn [jprint]. pose proof (parse_num_dec z rest R) as P.
    destruct (dec_Z_head z) as [c [t [E D]]]. rewrite E in *. cbn [app] in *. cbn [jparse].
    destruct (not_special c D) as [-> [-> [-> [-> [-> ->]]]]]. rewrite P. reflexivity.
  - cbn [jprint jok] in *. rewrite jstring_app. cbn [jparse]. change (34 =? 34) with true. cbv iota.
    rewrite unesc_jstring by exact OK. reflexivity.
  - cbn [jprint jok] in *. destruct l as [|x l].
    + cbn [app jparse]. change (91 =? 34) with false. change (91 =? 91) with true. change (93 =? 93) with true. reflexivity.
    + inversion IH as [|? ? Hx Hl]; subst. cbn [forallb] in OK. apply andb_true_iff in OK. destruct OK as [Ox Ol].
      cbn [fold_right] in F. fold (arr_fuel l) in F.
      destruct (jprint_head x) as [c0 [t0 [Px [C0 _]]]].
      replace ((91 :: jprint x ++ concat (map (fun y => 44 :: jprint y) l) ++ [93]) ++ rest)
        with (91 :: jprint x ++ concat (map (fun y => 44 :: jprint y) l) ++ 93 :: rest)
        by (cbn [app]; rewrite <- !app_assoc; reflexivity).
      rewrite (jparse_arr f _ c0 (t0 ++ concat (map (fun y => 44 :: jprint y) l) ++ 93 :: rest)) by (rewrite ?Px; auto).
      rewrite (Hx Ox f) by (try lia; destruct l; reflexivity).
      rewrite jparse_tail_ok by (auto; lia). reflexivity.
  - cbn [jprint jok] in *. destruct m as [|[k v] m].
    + cbn [app jparse]. change (123 =? 34) with false. change (123 =? 91) with false. change (123 =? 123) with true.
      change (125 =? 125) with true. reflexivity.
    + inversion IH as [|? ? Hx Hl]; subst. cbn [forallb fst snd] in *. rewrite !andb_true_iff in OK. destruct OK as [[Vk Ov] Om].
      cbn [fold_right snd] in F. fold (obj_fuel m) in F.
      replace ((123 :: (jstring k ++ 58 :: jprint v) ++
                concat (map (fun kv => 44 :: jstring (fst kv) ++ 58 :: jprint (snd kv)) m) ++ [125]) ++ rest)
        with (123 :: (jstring k ++ 58 :: jprint v) ++
              concat (map (fun kv => 44 :: jstring (fst kv) ++ 58 :: jprint (snd kv)) m) ++ 125 :: rest)
        by (cbn [app]; rewrite <- !app_assoc; reflexivity).
      rewrite (jparse_obj f _ 34 ((esc (length k) k ++ [34]) ++ (58 :: jprint v) ++
               concat (map (fun kv => 44 :: jstring (fst kv) ++ 58 :: jprint (snd kv)) m) ++ 125 :: rest))
        by (auto; unfold jstring; cbn [app]; rewrite <- !app_assoc; reflexivity).
      rewrite parse_member_ok by (auto; try lia; destruct m; reflexivity).
      rewrite jparse_mtail_ok by (auto; lia). reflexivity.
Qed.

(* the printed text consists of bytes (when the strings are valid UTF-8) *)
Lemma esc_ascii_bytes b : b < 128 -> bytes_lt (esc_ascii b).
Proof.
  intros H. unfold esc_ascii, hexd.
  repeat match goal with |- context [if ?c then _ else _] => destruct c eqn:? end; repeat constructor; try lia.
Qed.

Lemma esc_bytes f : forall s, utf8_ok f s = true -> bytes_lt (esc f s).
Proof.
  induction f as [|f IH]; intros s V; [constructor|].
  destruct s as [|b r]; [constructor|]. cbn [utf8_ok esc] in *.
  destruct (b <? 128) eqn:A.
  - apply Forall_app. split; [apply esc_ascii_bytes; lia | apply IH; exact V].
  - destruct (utf8_len (b :: r)) as [|n'] eqn:L; [discriminate|].
    destruct (lsps (b :: r)) as [c|] eqn:P.
    + destruct (lsps_some _ _ P) as [r3 [Es [Dc L3]]]. rewrite L3 in L. inversion L; subst n'.
      apply Forall_app. split; [repeat constructor; lia|]. apply IH. rewrite Es in *. exact V.
    + destruct (utf8_len_bytes _ _ L ltac:(lia)) as [_ [Fb _]].
      apply Forall_app. split; [eapply Forall_impl; [|exact Fb]; cbv beta; tauto | apply IH; exact V].
Qed.

Lemma jstring_bytes s : utf8_valid s = true -> bytes_lt (jstring s).
Proof.
  intros V. unfold jstring. constructor; [lia|]. apply Forall_app. split; [apply esc_bytes; exact V | repeat constructor; lia].
Qed.

Lemma dec_nat_bytes n : bytes_lt (dec_nat n).
Proof.
  unfold dec_nat. destruct (n =? 0); [repeat constructor; lia|].
  pose proof (be_digits_lt 10 n ltac:(lia)) as L. unfold digits_lt in L. unfold bytes_lt.
  rewrite Forall_forall in *. intros c Hc. apply in_map_iff in Hc. destruct Hc as [d [<- Hd]]. specialize (L d Hd). lia.
Qed.

Lemma dec_Z_bytes z : bytes_lt (dec_Z z).
Proof. destruct z; cbn [dec_Z]; [repeat constructor; lia | apply dec_nat_bytes | constructor; [lia | apply dec_nat_bytes]]. Qed.

Lemma concat_bytes (ls : list bstr) : Forall bytes_lt ls -> bytes_lt (concat ls).
Proof. induction 1; cbn [concat]; [constructor | apply Forall_app; split; assumption]. Qed.

Theorem jprint_bytes j : jok j = true -> bytes_lt (jprint j).
Proof.
  induction j as [| b | z | s | l IH | m IH] using jv_ind'; intros OK; cbn [jprint jok] in *.
  - repeat constructor; lia.
  - destruct b; repeat constructor; lia.
  - apply dec_Z_bytes.
  - apply jstring_bytes. exact OK.
  - constructor; [lia|]. destruct l as [|x l]; [repeat constructor; lia|].
    inversion IH as [|? ? Hx Hl]; subst. cbn [forallb] in OK. apply andb_true_iff in OK. destruct OK as [Ox Ol].
    apply Forall_app. split; [apply Hx; exact Ox|]. apply Forall_app. split; [|repeat constructor; lia].
    apply concat_bytes. rewrite forallb_forall in Ol. rewrite Forall_forall in Hl. apply Forall_forall. intros y Hy.
    apply in_map_iff in Hy. destruct Hy as [z [<- Hz]]. constructor; [lia | apply Hl; [exact Hz | apply Ol; exact Hz]].
  - constructor; [lia|]. destruct m as [|[k v] m]; [repeat constructor; lia|].
    inversion IH as [|? ? Hx Hl]; subst. cbn [forallb fst snd] in *. rewrite !andb_true_iff in OK. destruct OK as [[Vk Ov] Om].
    assert (KV : forall k v, utf8_valid k = true -> bytes_lt (jprint v) -> bytes_lt (jstring k ++ 58 :: jprint v)).
    { intros k0 v0 Vk0 Bv. apply Forall_app. split; [apply jstring_bytes; exact Vk0 | constructor; [lia | exact Bv]]. }
    apply Forall_app. split; [apply KV; [exact Vk | apply Hx; exact Ov]|]. apply Forall_app. split; [|repeat constructor; lia].
    apply concat_bytes. rewrite forallb_forall in Om. rewrite Forall_forall in Hl. apply Forall_forall. intros y Hy.
    apply in_map_iff in Hy. destruct Hy as [kv [<- Hkv]]. specialize (Om kv Hkv). rewrite andb_true_iff in Om.
    constructor; [lia|]. apply KV; [tauto | apply Hl; [exact Hkv | tauto]].
Qed.

(* the printer is injective (and prefix-free) on values whose strings are valid UTF-8 *)
Theorem jprint_inj a b : jok a = true -> jok b = true -> jprint a = jprint b -> a = b.
Proof.
  intros Oa Ob E.
  pose proof (jparse_print a Oa (Nat.max (jfuel a) (jfuel b)) [] ltac:(lia) eq_refl) as Pa.
  pose proof (jparse_print b Ob (Nat.max (jfuel a) (jfuel b)) [] ltac:(lia) eq_refl) as Pb.
  rewrite E in Pa. congruence.
Qed.

Theorem jprint_prefix_free a b r1 r2 : jok a = true -> jok b = true ->
  nondigit_head r1 = true -> nondigit_head r2 = true ->
  jprint a ++ r1 = jprint b ++ r2 -> a = b /\ r1 = r2.
Proof.
  intros Oa Ob R1 R2 E.
  pose proof (jparse_print a Oa (Nat.max (jfuel a) (jfuel b)) r1 ltac:(lia) R1) as Pa.
  pose proof (jparse_print b Ob (Nat.max (jfuel a) (jfuel b)) r2 ltac:(lia) R2) as Pb.
  rewrite E in Pa. rewrite Pb in Pa. inversion Pa. auto.
Qed.

Example jprint_example :
  jprint (JObj [(bs "a", JArr [JNum 1; JNum (-20); JNull; JBool true]); (bs "q""", JStr [10; 226; 128; 168; 255; 7; 195; 169]); (bs "e", JObj [])])
  = bs "{""a"":[1,-20,null,true],""q\"""":""\n\u" ++ bs "2028\u" ++ bs "fffd\u" ++ bs "0007" ++ [195; 169] ++ bs """,""e"":{}}".
Proof. vm_compute. reflexivity. Qed.
