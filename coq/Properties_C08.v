(* C08 — A service handler runs exactly when the invocation is authorized. *)
From Ucanto Require Import Base Pattern Time Validator ValidatorSpec Server EndToEnd.

(* For every store, fuel, server (any context, any registered handlers) and invocation:
   the handler call log of Run is empty or one call of the handler registered for the
   invocation's single ability; and it is non-empty IF AND ONLY IF the validator authorizes
   the invocation for that handler's capability. *)
Theorem C08_iff : forall U fuel srv inv rc calls,
  run U fuel srv inv = Some (rc, calls) ->
  (calls = [] \/ exists h a t c, calls = [(h_can h, node_cap a)] /\
      tok U inv = Some t /\ t_caps t = [c] /\ find_handler (r_can c) (s_service srv) = Some h /\
      fst (access U (s_ctx srv) fuel (h_desc h) inv) = AOk a) /\
  (forall h t c, tok U inv = Some t -> t_caps t = [c] ->
      find_handler (r_can c) (s_service srv) = Some h ->
      (calls <> [] <-> exists a, fst (access U (s_ctx srv) fuel (h_desc h) inv) = AOk a)).
Proof. exact run_calls. Qed.
Print Assumptions C08_iff.

Theorem C08_once : forall U fuel srv inv rc calls,
  run U fuel srv inv = Some (rc, calls) -> (length calls <= 1)%nat.
Proof. exact run_at_most_once. Qed.
Print Assumptions C08_once.

(* the handler receives exactly the invocation's capability: same ability, same resource,
   caveats as read by the handler's own descriptor *)
Theorem C08_args : forall U fuel srv,
  (forall l p, resolve_proof (s_ctx srv) l = Some p -> d_link p = l) ->
  forall inv rc k cp t c,
  run U fuel srv inv = Some (rc, [(k, cp)]) -> tok U inv = Some t -> t_caps t = [c] ->
  exists h, find_handler (r_can c) (s_service srv) = Some h /\ k = h_can h /\
    parse_cap (h_desc h) c = Some cp /\
    can cp = r_can c /\ wth cp = r_with c /\ ds_nb (h_desc h) (r_nb c) = Some (nb cp).
Proof. exact run_args. Qed.
Print Assumptions C08_args.

Theorem C08_unauthorized : forall U fuel srv inv t c h e,
  tok U inv = Some t -> t_caps t = [c] -> find_handler (r_can c) (s_service srv) = Some h ->
  fst (access U (s_ctx srv) fuel (h_desc h) inv) = AErr e ->
  run U fuel srv inv = Some (mkRcpt (d_link inv) (s_id srv) (RErr e_unauthorized), []).
Proof. exact run_unauthorized. Qed.
Print Assumptions C08_unauthorized.

Theorem C08_cap_count : forall U fuel srv inv t,
  tok U inv = Some t -> length (t_caps t) <> 1%nat ->
  run U fuel srv inv = Some (mkRcpt (d_link inv) (s_id srv) (RErr e_capability), []).
Proof. exact run_cap_count. Qed.
Print Assumptions C08_cap_count.

Theorem C08_not_found : forall U fuel srv inv t c,
  tok U inv = Some t -> t_caps t = [c] -> find_handler (r_can c) (s_service srv) = None ->
  run U fuel srv inv = Some (mkRcpt (d_link inv) (s_id srv) (RErr e_not_found), []).
Proof. exact run_not_found. Qed.
Print Assumptions C08_not_found.

(* for a whole request: at most one call per DISTINCT invocation of the execute list *)
Theorem C08_batch_once : forall U fuel srv vis exec rep calls,
  execute U fuel srv vis exec = ExecOk rep calls ->
  (length calls <= length (dedupe [] exec))%nat.
Proof. exact execute_calls_once. Qed.
Print Assumptions C08_batch_once.

(* Composition with C01 (server.Run + validator.Access): a handler is called only for an
   invocation carrying a complete valid delegation chain (ValidatorSpec.P: every token on the
   path inside its time window and signed / session-backed, citations aligned, capabilities
   derived through the handler's own descriptor, rooted where can_issue holds, accepted by the
   revocation checker) — and with that chain's capability. *)
Theorem C08_call_has_valid_chain : forall U fuel srv,
  (forall l p, resolve_proof (s_ctx srv) l = Some p -> d_link p = l) ->
  forall inv rc calls, run U fuel srv inv = Some (rc, calls) -> calls <> [] ->
  exists h a t c, calls = [(h_can h, node_cap a)] /\
    tok U inv = Some t /\ t_caps t = [c] /\ find_handler (r_can c) (s_service srv) = Some h /\
    fst (access U (s_ctx srv) fuel (h_desc h) inv) = AOk a /\
    P U (s_ctx srv) fuel (h_desc h) [inv] a.
Proof. exact handler_call_has_valid_chain. Qed.
Print Assumptions C08_call_has_valid_chain.

(* ... and for a whole request: EVERY entry of the handler call log belongs to an invocation of
   the execute list whose block travelled, with a complete valid chain for the handler called *)
Theorem C08_request_calls_have_valid_chains : forall U fuel srv,
  (forall l p, resolve_proof (s_ctx srv) l = Some p -> d_link p = l) ->
  forall vis exec rep calls, execute U fuel srv vis exec = ExecOk rep calls ->
  forall k, In k calls ->
  exists l h a t c, In l exec /\ In l vis /\ k = (h_can h, node_cap a) /\
    tok U (mkDlg l vis) = Some t /\ t_caps t = [c] /\ find_handler (r_can c) (s_service srv) = Some h /\
    P U (s_ctx srv) fuel (h_desc h) [mkDlg l vis] a.
Proof. exact request_calls_have_valid_chains. Qed.
Print Assumptions C08_request_calls_have_valid_chains.
